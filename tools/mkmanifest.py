#!/usr/bin/env python3
"""Regenerates MANIFEST.json from props/*.py (claimed) and props/not_applicable.json."""
import json, glob, os, importlib.util
ROOT = os.path.dirname(os.path.dirname(os.path.abspath(__file__)))
ids = [json.loads(l)["id"] for l in open(os.path.join(ROOT, "properties.jsonl"))]
na = json.load(open(os.path.join(ROOT, "props", "not_applicable.json")))
checks = []
claimed = []
for pid in ids:
    p = os.path.join(ROOT, "props", pid + ".py")
    if not os.path.exists(p):
        continue
    spec = importlib.util.spec_from_file_location("p", p); m = importlib.util.module_from_spec(spec); spec.loader.exec_module(m)
    s = m.SPEC
    if not s.get('claimed', False):
        continue
    claimed.append(pid)
    checks.append({
        "property_id": pid,
        "quick_cmd": "./check run %s --tier quick" % pid,
        "thorough_cmd": "./check run %s --tier thorough" % pid,
        "evidence_file": "evidence/%s.json" % pid,
        "replay_cmd_template": "./check replay %s {path}" % pid,
        "engine": "coq-proof+correspondence",
        "level_claimed": {"category": "proof", "text": s.get("level_text", s.get("explanation", "")),
                          "design_ref": "DESIGN.md section 5, " + pid},
        "level_note": s.get("level_note", "; ".join(s.get("trusted_base", []) + s.get("assumptions", []))),
        "technique": s.get("technique", "machine-checked proof in Coq 8.16 about an executable model; model tied to the code by differential correspondence (extracted OCaml model vs Rust harness) and translators"),
    })
man = {
    "version": 1,
    "setup_cmd": "./check setup",
    "hooks": {"guard": "libtw2_verif", "enable": "RUSTFLAGS=\"--cfg libtw2_verif\" (set by ./check for the harness build)",
              "baseline_off_cmd": "cd /repo && cargo test --workspace --no-fail-fast --offline",
              "source_commits": json.load(open(os.path.join(ROOT, "props", "hook_commits.json"))),
              "add_only": True},
    "engines": [{"name": "coq-proof+correspondence", "path": "check", "serves_properties": claimed,
                 "kind_free_text": "Coq 8.16.1 theorems over hand-written/translated Gallina models (coq/), extracted to OCaml (ocaml/drv_*.ml) and compared with the real crates by a Rust harness (harness/); property oracles run on the real code in the same pass"}],
    "checks": checks,
    "notes": "See DESIGN.md. known_findings.json lists recorded findings and fixed defects.",
    "not_applicable": [{"property_id": k, "reason": v} for k, v in na.items() if k not in claimed],
}
json.dump(man, open(os.path.join(ROOT, "MANIFEST.json"), "w"), indent=1)
# merged view of the per-property known-findings files
merged = {"findings": [], "fixed": []}
for f in sorted(glob.glob(os.path.join(ROOT, "known_findings", "C*.json"))):
    d = json.load(open(f))
    merged["findings"] += d.get("findings", [])
    merged["fixed"] += d.get("fixed", [])
json.dump(merged, open(os.path.join(ROOT, "known_findings.json"), "w"), indent=1)
missing = [i for i in ids if i not in claimed and i not in na]
assert not missing, "no not_applicable reason for %s" % missing
print("claimed:", claimed)

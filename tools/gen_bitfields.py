#!/usr/bin/env python3
"""Translator: the bit-field leaf functions `pack` / `unpack_warn` of
PacketHeader(Packed), ChunkHeader(Packed), ChunkHeaderVital(Packed) in
net/src/protocol.rs and protocol7.rs, and PacketHeaderConnless(Packed) in
protocol7.rs  ->  coq/theories/Gen/Bits6.v / Bits7.v  (Gallina over Z).

What is produced per file (names carry the protocol version as a suffix):
  * a Record per struct (field order and types from the struct declaration),
  * for every `#[repr(C, packed)]` struct: `<S>_of_bytes : bytes -> option (S * bytes)`
    (= FromBytesExt::ref_and_rest_from: None when the slice is shorter than the struct)
    and `<S>_as_bytes : S -> bytes` (= AsBytes::as_bytes), both from the field layout,
  * `<S>_unpack_warn : S -> T * list warning`  (warnings in program order),
  * `<S>_pack : S -> res Empty_set T`  (every `assert!` is a numbered Panic site).

Accepted Rust (DESIGN.md appendix C); anything else raises TranslateError:
  statements   let S { f, .. } = self;      let S { f, .. } = x.pack();      assert!(e);
               if e { warn.warn(Warning::W); }          final struct literal S { f: e, f, .. }
  field values e  |  S { .. }.unpack_warn(warn)  |  x.pack()  is NOT accepted in field position
  expressions  identifiers, constants of the same file, integer literals (dec / 0b / 0x, `_`),
               ( ), unary !, binary & | ^ << >> == != && ||, `e as uN`, Token(e), e.0
Semantics emitted: uN values are Z in [0, 2^N); `<<` truncates to the operand width
(Rust drops the bits shifted out; a shift amount >= width is rejected by the translator
because it would panic unconditionally); `as uN` to a narrower type truncates; `!` on uN
is xor with 2^N-1.
"""
import os
import re
import sys
import importlib.util

_here = os.path.dirname(os.path.abspath(__file__))
_spec = importlib.util.spec_from_file_location("gen_consts_for_bits", os.path.join(_here, "gen_consts.py"))
gen_consts = importlib.util.module_from_spec(_spec)
_spec.loader.exec_module(gen_consts)
TranslateError = gen_consts.TranslateError

WANT = {
    6: ["PacketHeaderPacked", "PacketHeader", "ChunkHeader", "ChunkHeaderVital",
        "ChunkHeaderPacked", "ChunkHeaderVitalPacked"],
    7: ["PacketHeaderPacked", "PacketHeader", "PacketHeaderConnlessPacked", "PacketHeaderConnless",
        "ChunkHeader", "ChunkHeaderVital", "ChunkHeaderPacked", "ChunkHeaderVitalPacked"],
}
SITE_BASE = {6: 610, 7: 730}

# ------------------------------------------------------------------ tokens

TOKEN_RE = re.compile(
    r"\s*(?:(0b[01_]+|0x[0-9a-fA-F_]+|[0-9][0-9_]*)([iu](?:8|16|32|64|size))?"
    r"|([A-Za-z_][A-Za-z0-9_]*)"
    r"|(<<|>>|==|!=|&&|\|\||->|::|[{}()\[\];,.:=&|^!<>#+\-*/]))")


def tokenize(src, fname):
    src = gen_consts.strip_comments(src)
    toks, i, n = [], 0, len(src)
    while i < n:
        if src[i].isspace():
            i += 1
            continue
        m = TOKEN_RE.match(src, i)
        if not m or m.end() == i:
            # string/char literals etc. are not needed inside the blocks we read; keep one opaque token
            toks.append(("?", src[i]))
            i += 1
            continue
        if m.group(1) is not None:
            toks.append(("num", (gen_consts.parse_int_literal(m.group(1)), m.group(2))))
        elif m.group(3) is not None:
            toks.append(("id", m.group(3)))
        else:
            toks.append(("p", m.group(4)))
        i = m.end()
    return toks


def match_brace(toks, i):
    """toks[i] is '{' -> index of the matching '}'"""
    assert toks[i] == ("p", "{")
    d = 0
    for j in range(i, len(toks)):
        if toks[j] == ("p", "{"):
            d += 1
        elif toks[j] == ("p", "}"):
            d -= 1
            if d == 0:
                return j
    raise TranslateError("unbalanced braces")


# ------------------------------------------------------------------ types

class Ty:
    def __init__(self, kind, width=0, name=None):
        self.kind, self.width, self.name = kind, width, name   # kind: int / bool / bytes / struct

    def __eq__(self, o):
        return isinstance(o, Ty) and (self.kind, self.width, self.name) == (o.kind, o.width, o.name)

    def __repr__(self):
        return {"int": "u%d" % self.width, "bool": "bool", "bytes": "[u8;%d]" % self.width,
                "struct": str(self.name)}[self.kind]


def U(n):
    return Ty("int", n)


BOOL = Ty("bool")


def parse_type(toks, where):
    """type tokens -> Ty ; accepted: u8 u16 u32, [u8; N], Token, a struct name"""
    if len(toks) == 1 and toks[0][0] == "id":
        t = toks[0][1]
        m = re.match(r"u(8|16|32)$", t)
        if m:
            return U(int(m.group(1)))
        if t == "Token":
            return Ty("bytes", 4)
        return Ty("struct", name=t)
    if (len(toks) == 5 and toks[0] == ("p", "[") and toks[1] == ("id", "u8") and toks[2] == ("p", ";")
            and toks[3][0] == "num" and toks[4] == ("p", "]")):
        return Ty("bytes", toks[3][1][0])
    raise TranslateError("%s: unsupported field type %r" % (where, toks))


# ------------------------------------------------------------------ struct declarations

def find_structs(toks, fname, want):
    """-> {name: {"fields": [(fname, Ty)], "packed": bool}}"""
    structs = {}
    i = 0
    while i < len(toks):
        if toks[i] == ("id", "struct") and i + 2 < len(toks) and toks[i + 1][0] == "id" and toks[i + 1][1] in want \
                and toks[i + 2] == ("p", "{"):
            name = toks[i + 1][1]
            end = match_brace(toks, i + 2)
            # attributes directly before `pub struct`: look back for #[repr(C, packed)]
            j = i - 1
            if j >= 0 and toks[j] == ("id", "pub"):
                j -= 1
            packed = False
            while j >= 0 and toks[j] == ("p", "]"):
                k = j
                d = 0
                while k >= 0:
                    if toks[k] == ("p", "]"):
                        d += 1
                    elif toks[k] == ("p", "["):
                        d -= 1
                        if d == 0:
                            break
                    k -= 1
                attr = [t[1] for t in toks[k + 1:j] if t[0] in ("id", "p")]
                if attr[:1] == ["repr"]:
                    if attr != ["repr", "(", "C", ",", "packed", ")"]:
                        raise TranslateError("%s: struct %s: unexpected repr attribute %r" % (fname, name, attr))
                    packed = True
                j = k - 2   # skip '#'
            fields = []
            body = toks[i + 3:end]
            # split on top-level commas
            cur, d = [], 0
            parts = []
            for t in body:
                if t in (("p", "["), ("p", "(")):
                    d += 1
                if t in (("p", "]"), ("p", ")")):
                    d -= 1
                if t == ("p", ",") and d == 0:
                    parts.append(cur)
                    cur = []
                else:
                    cur.append(t)
            if cur:
                parts.append(cur)
            for p in parts:
                if p and p[0] == ("id", "pub"):
                    p = p[1:]
                if len(p) < 3 or p[0][0] != "id" or p[1] != ("p", ":"):
                    raise TranslateError("%s: struct %s: unexpected field syntax %r" % (fname, name, p))
                fields.append((p[0][1], parse_type(p[2:], "%s: struct %s.%s" % (fname, name, p[0][1]))))
            if name in structs:
                raise TranslateError("%s: struct %s declared twice" % (fname, name))
            structs[name] = {"fields": fields, "packed": packed}
            i = end
        i += 1
    for w in want:
        if w not in structs:
            raise TranslateError("%s: struct %s not found" % (fname, w))
        if w.endswith("Packed") != structs[w]["packed"]:
            raise TranslateError("%s: struct %s: repr(C, packed) expected exactly on the *Packed structs" % (fname, w))
    return structs


# ------------------------------------------------------------------ impl blocks / fn bodies

def find_fns(toks, fname, want):
    """-> {(struct, fn): (ret type name, body tokens)} for inherent impls `impl S { .. }`"""
    fns = {}
    i = 0
    while i < len(toks):
        if toks[i] == ("id", "impl") and i + 2 < len(toks) and toks[i + 1][0] == "id" and toks[i + 1][1] in want \
                and toks[i + 2] == ("p", "{"):
            sname = toks[i + 1][1]
            end = match_brace(toks, i + 2)
            j = i + 3
            while j < end:
                if toks[j] == ("id", "fn"):
                    fname_ = toks[j + 1][1]
                    k = j + 2
                    while toks[k] != ("p", "{"):
                        k += 1
                        if k >= end:
                            raise TranslateError("%s: impl %s: fn %s has no body" % (fname, sname, fname_))
                    sig = toks[j + 2:k]
                    bend = match_brace(toks, k)
                    if (sname, fname_) in fns:
                        raise TranslateError("%s: %s::%s defined twice" % (fname, sname, fname_))
                    fns[(sname, fname_)] = (sig, toks[k + 1:bend])
                    j = bend
                j += 1
            i = end
        i += 1
    return fns


# ------------------------------------------------------------------ expression parser (Rust precedence)

class P:
    def __init__(self, toks, where):
        self.t, self.i, self.where = toks, 0, where

    def peek(self, k=0):
        return self.t[self.i + k] if self.i + k < len(self.t) else None

    def take(self):
        t = self.peek()
        if t is None:
            self.fail("unexpected end")
        self.i += 1
        return t

    def eat(self, kind, val):
        if self.peek() == (kind, val):
            self.i += 1
            return True
        return False

    def expect(self, kind, val):
        if not self.eat(kind, val):
            self.fail("expected %r, found %r" % (val, self.peek()))

    def fail(self, msg):
        ctx = " ".join(str(x[1]) if x[0] != "num" else str(x[1][0]) for x in self.t[max(0, self.i - 6):self.i + 6])
        raise TranslateError("%s: %s near `%s`" % (self.where, msg, ctx))

    # lowest precedence first
    def expr(self):
        return self.p_oror()

    def binl(self, sub, ops):
        e = sub()
        while self.peek() is not None and self.peek()[0] == "p" and self.peek()[1] in ops:
            op = self.take()[1]
            e = ("bin", op, e, sub())
        return e

    def p_oror(self):
        return self.binl(self.p_andand, ("||",))

    def p_andand(self):
        return self.binl(self.p_cmp, ("&&",))

    def p_cmp(self):
        e = self.p_bor()
        if self.peek() is not None and self.peek()[0] == "p" and self.peek()[1] in ("==", "!="):
            op = self.take()[1]
            e = ("bin", op, e, self.p_bor())
            if self.peek() is not None and self.peek()[0] == "p" and self.peek()[1] in ("==", "!="):
                self.fail("chained comparison")
        elif self.peek() is not None and self.peek()[0] == "p" and self.peek()[1] in ("<", ">"):
            self.fail("ordering comparisons are not part of the accepted grammar")
        return e

    def p_bor(self):
        return self.binl(self.p_bxor, ("|",))

    def p_bxor(self):
        return self.binl(self.p_band, ("^",))

    def p_band(self):
        return self.binl(self.p_shift, ("&",))

    def p_shift(self):
        return self.binl(self.p_add, ("<<", ">>"))

    def p_add(self):
        e = self.p_cast()
        if self.peek() is not None and self.peek()[0] == "p" and self.peek()[1] in ("+", "-", "*", "/"):
            self.fail("arithmetic operators are not part of the accepted grammar")
        return e

    def p_cast(self):
        e = self.p_unary()
        while self.peek() == ("id", "as"):
            self.take()
            t = self.take()
            if t[0] != "id" or not re.match(r"u(8|16|32)$", t[1]):
                self.fail("unsupported cast target %r" % (t,))
            e = ("as", e, int(t[1][1:]))
        return e

    def p_unary(self):
        if self.eat("p", "!"):
            return ("not", self.p_unary())
        if self.peek() == ("p", "-") or self.peek() == ("p", "*") or self.peek() == ("p", "&"):
            self.fail("unsupported unary operator")
        return self.p_postfix()

    def p_postfix(self):
        e = self.p_atom()
        while True:
            if self.peek() == ("p", ".") and self.peek(1) is not None and self.peek(1)[0] == "num":
                self.take()
                n = self.take()[1][0]
                if n != 0:
                    self.fail("only .0 is accepted")
                e = ("dot0", e)
            elif self.peek() == ("p", ".") and self.peek(1) == ("id", "unpack_warn"):
                self.take(); self.take()
                self.expect("p", "("); self.expect("id", "warn"); self.expect("p", ")")
                e = ("unpack_warn", e)
            elif self.peek() == ("p", ".") and self.peek(1) == ("id", "pack"):
                self.take(); self.take()
                self.expect("p", "("); self.expect("p", ")")
                e = ("pack", e)
            elif self.peek() == ("p", "."):
                self.fail("unsupported method call / field access")
            else:
                return e

    def p_atom(self):
        t = self.take()
        if t == ("p", "("):
            e = self.expr()
            self.expect("p", ")")
            return ("paren", e)
        if t[0] == "num":
            return ("lit", t[1][0], t[1][1])
        if t[0] == "id":
            name = t[1]
            if name == "Token" and self.peek() == ("p", "("):
                self.take()
                e = self.expr()
                self.expect("p", ")")
                return ("token", e)
            if self.peek() == ("p", "{") and name[:1].isupper():
                return self.struct_lit(name)
            if self.peek() in (("p", "("), ("p", "::"), ("p", "[")):
                self.fail("unsupported call / path / index on %r" % name)
            return ("var", name)
        self.fail("unexpected token %r" % (t,))

    def struct_lit(self, name):
        self.expect("p", "{")
        fields = []
        while not self.eat("p", "}"):
            f = self.take()
            if f[0] != "id":
                self.fail("field name expected")
            if self.eat("p", ":"):
                e = self.expr()
            else:
                e = ("var", f[1])
            fields.append((f[1], e))
            if not self.eat("p", ","):
                self.expect("p", "}")
                break
        return ("struct", name, fields)

    def pattern(self):
        """S { f, g, .. }  -> (S, [f, g])"""
        t = self.take()
        if t[0] != "id":
            self.fail("struct pattern expected")
        self.expect("p", "{")
        names = []
        while not self.eat("p", "}"):
            f = self.take()
            if f[0] != "id":
                self.fail("field name expected in pattern")
            if self.peek() == ("p", ":"):
                self.fail("renaming patterns are not accepted")
            names.append(f[1])
            if not self.eat("p", ","):
                self.expect("p", "}")
                break
        return (t[1], names)


# ------------------------------------------------------------------ emission

PREFIX_CACHE = {}


def field_prefix(sname):
    return "".join(c for c in sname if c.isupper()).lower()


class Gen:
    def __init__(self, ver, fname, src, repo):
        self.ver, self.fname = ver, fname
        self.consts = gen_consts.values(repo, ver)
        toks = tokenize(gen_consts.non_test_part(src), fname)
        self.structs = find_structs(toks, fname, WANT[ver])
        self.fns = find_fns(toks, fname, WANT[ver])
        self.warnings = gen_consts.parse_enum(src, fname, "Warning")
        pf = {}
        for s in self.structs:
            p = field_prefix(s)
            if p in pf:
                raise TranslateError("%s: structs %s and %s get the same field prefix" % (fname, s, pf[p]))
            pf[p] = s
        self.sites = []          # (name, number, text)

    # names
    def rec(self, s):
        return "%s%d" % (s, self.ver)

    def fld(self, s, f):
        return "%s%d_%s" % (field_prefix(s), self.ver, f)

    def fn(self, s, f):
        return "%s%d_%s" % (s, self.ver, f)

    def coq_type(self, ty):
        if ty.kind == "int":
            return "Z"
        if ty.kind == "bytes":
            return "bytes"
        if ty.kind == "struct":
            if ty.name not in self.structs:
                raise TranslateError("%s: unknown struct type %s" % (self.fname, ty.name))
            return self.rec(ty.name)
        raise TranslateError("no Coq type for %r" % ty)

    # ---- expressions: returns (coq text, Ty); `want` = expected type for bare literals
    def ex(self, e, env, want, where):
        k = e[0]
        if k == "paren":
            return self.ex(e[1], env, want, where)
        if k == "lit":
            v, suffix = e[1], e[2]
            if suffix:
                ty = U({"u8": 8, "u16": 16, "u32": 32}.get(suffix, 0))
                if ty.width == 0:
                    raise TranslateError("%s: unsupported literal suffix %s" % (where, suffix))
            elif want is not None and want.kind == "int":
                ty = want
            else:
                raise TranslateError("%s: cannot infer the type of literal %d" % (where, v))
            if not 0 <= v < 2 ** ty.width:
                raise TranslateError("%s: literal %d does not fit %r" % (where, v, ty))
            return (str(v), ty)
        if k == "var":
            n = e[1]
            if n in env:
                return (n, env[n])
            if n in self.consts:
                cty, v = self.consts[n]
                if cty not in gen_consts.INT_TYPES or cty in ("usize", "u64", "i32"):
                    raise TranslateError("%s: constant %s has unsupported type %s here" % (where, n, cty))
                return (n, U(gen_consts.INT_TYPES[cty]))
            raise TranslateError("%s: unknown identifier %s" % (where, n))
        if k == "as":
            s, ty = self.ex(e[1], env, None, where)
            if ty.kind != "int":
                raise TranslateError("%s: cast of a non-integer" % where)
            if e[2] < ty.width:
                return ("trunc %d (%s)" % (e[2], s), U(e[2]))
            return (s, U(e[2]))
        if k == "not":
            s, ty = self.ex(e[1], env, want, where)
            if ty.kind == "bool":
                return ("negb (%s)" % s, BOOL)
            if ty.kind == "int":
                return ("Z.lxor (%s) %d" % (s, 2 ** ty.width - 1), ty)
            raise TranslateError("%s: ! on %r" % (where, ty))
        if k == "token":
            s, ty = self.ex(e[1], env, None, where)
            if ty != Ty("bytes", 4):
                raise TranslateError("%s: Token(..) of %r" % (where, ty))
            return (s, ty)
        if k == "dot0":
            s, ty = self.ex(e[1], env, None, where)
            if ty != Ty("bytes", 4):
                raise TranslateError("%s: .0 of %r" % (where, ty))
            return (s, ty)
        if k == "bin":
            op, a, b = e[1], e[2], e[3]
            if op in ("&&", "||"):
                sa, ta = self.ex(a, env, None, where)
                sb, tb = self.ex(b, env, None, where)
                if ta != BOOL or tb != BOOL:
                    raise TranslateError("%s: %s on non-bool" % (where, op))
                return ("(%s) %s (%s)" % (sa, op, sb), BOOL)
            if op in ("<<", ">>"):
                sa, ta = self.ex(a, env, want, where)
                if ta.kind != "int":
                    raise TranslateError("%s: shift of %r" % (where, ta))
                sb, tb = self.ex(b, env, U(32), where)
                amount = self.static_int(b, where)
                if not 0 <= amount < ta.width:
                    raise TranslateError("%s: shift amount %d >= width of %r (unconditional overflow panic)"
                                         % (where, amount, ta))
                if op == "<<":
                    return ("trunc %d (Z.shiftl (%s) %s)" % (ta.width, sa, sb), ta)
                return ("Z.shiftr (%s) %s" % (sa, sb), ta)
            # & | ^ == != : operands of one type; a bare literal takes the sibling's type
            def is_bare_lit(x):
                while x[0] == "paren":
                    x = x[1]
                return x[0] == "lit" and not x[2]
            w2 = want if op in ("&", "|", "^") else None
            if is_bare_lit(a) and not is_bare_lit(b):
                sb, tb = self.ex(b, env, w2, where)
                sa, ta = self.ex(a, env, tb, where)
            else:
                sa, ta = self.ex(a, env, w2, where)
                sb, tb = self.ex(b, env, ta, where)
            if ta != tb or ta.kind != "int":
                raise TranslateError("%s: operands of %s have types %r and %r" % (where, op, ta, tb))
            if op == "&":
                return ("Z.land (%s) (%s)" % (sa, sb), ta)
            if op == "|":
                return ("Z.lor (%s) (%s)" % (sa, sb), ta)
            if op == "^":
                return ("Z.lxor (%s) (%s)" % (sa, sb), ta)
            if op == "==":
                return ("(%s) =? (%s)" % (sa, sb), BOOL)
            if op == "!=":
                return ("negb ((%s) =? (%s))" % (sa, sb), BOOL)
        raise TranslateError("%s: unsupported expression %r" % (where, e))

    def static_int(self, e, where):
        while e[0] == "paren":
            e = e[1]
        if e[0] == "lit":
            return e[1]
        if e[0] == "var" and e[1] in self.consts and isinstance(self.consts[e[1]][1], int):
            return self.consts[e[1]][1]
        raise TranslateError("%s: shift amount must be a literal or a constant" % where)

    # ---- struct literal of struct `sname` -> coq record term; nested unpack_warn calls are hoisted
    def struct_term(self, lit, env, where, hoist):
        _, sname, fields = lit
        if sname not in self.structs:
            raise TranslateError("%s: literal of unknown struct %s" % (where, sname))
        decl = self.structs[sname]["fields"]
        if [f for f, _ in fields] != [f for f, _ in decl]:
            raise TranslateError("%s: literal of %s lists fields %r, declaration has %r (order matters: "
                                 "warnings of nested calls are emitted in field order)"
                                 % (where, sname, [f for f, _ in fields], [f for f, _ in decl]))
        parts = []
        for (f, e), (_, fty) in zip(fields, decl):
            if e[0] == "unpack_warn":
                if hoist is None:
                    raise TranslateError("%s: unpack_warn call not accepted here" % where)
                inner = e[1]
                if inner[0] != "struct":
                    raise TranslateError("%s: unpack_warn is only accepted on a struct literal" % where)
                key = (inner[1], "unpack_warn")
                if key not in self.fns:
                    raise TranslateError("%s: %s::unpack_warn is not a translated function" % (where, inner[1]))
                rty = self.ret_type(key)
                if Ty("struct", name=rty) != fty:
                    raise TranslateError("%s: field %s has type %r, call returns %s" % (where, f, fty, rty))
                iterm = self.struct_term(inner, env, where, None)
                v = "v_%s" % f
                hoist.append((v, "ws_%s" % f, "%s (%s)" % (self.fn(inner[1], "unpack_warn"), iterm)))
                parts.append("%s := %s" % (self.fld(sname, f), v))
            elif e[0] == "pack":
                raise TranslateError("%s: .pack() in field position is not accepted" % where)
            else:
                s, ty = self.ex(e, env, fty if fty.kind == "int" else None, where)
                if ty != fty:
                    raise TranslateError("%s: field %s.%s has type %r, expression has %r" % (where, sname, f, fty, ty))
                parts.append("%s := %s" % (self.fld(sname, f), s))
        return "{| " + "; ".join(parts) + " |}"

    def ret_type(self, key):
        sig, _ = self.fns[key]
        # ... -> T
        for i in range(len(sig) - 1):
            if sig[i] == ("p", "->"):
                if i + 2 != len(sig) or sig[i + 1][0] != "id":
                    raise TranslateError("%s: %s::%s: unexpected return type" % (self.fname, key[0], key[1]))
                return sig[i + 1][1]
        raise TranslateError("%s: %s::%s: no return type" % (self.fname, key[0], key[1]))

    def check_sig(self, key):
        sig, _ = self.fns[key]
        txt = " ".join(str(t[1]) for t in sig if t[0] != "num")
        if key[1] == "unpack_warn":
            ok = re.match(r"< W : Warn < Warning (> >|>>) \( self , warn : & mut W \) -> \w+$", txt)
        elif key[1] == "pack":
            ok = re.match(r"\( self \) -> \w+$", txt)
        elif key[1] == "unpack":
            ok = re.match(r"\( self \) -> \w+$", txt)
        else:
            ok = False
        if not ok:
            raise TranslateError("%s: %s::%s: unexpected signature `%s`" % (self.fname, key[0], key[1], txt))

    # ---- one function
    def function(self, key):
        sname, fname_ = key
        self.check_sig(key)
        where = "%s: %s::%s" % (self.fname, sname, fname_)
        rname = self.ret_type(key)
        if rname not in self.structs:
            raise TranslateError("%s: returns unknown struct %s" % (where, rname))
        _, body = self.fns[key]
        p = P(body, where)
        env = {}
        lines = []          # (kind, text) in order
        closers = []
        is_unpack = fname_ == "unpack_warn"
        wsvars = []
        nassert = 0
        while True:
            t = p.peek()
            if t == ("id", "let"):
                p.take()
                ps, names = p.pattern()
                p.expect("p", "=")
                rhs = p.expr()
                p.expect("p", ";")
                if ps not in self.structs:
                    raise TranslateError("%s: pattern of unknown struct %s" % (where, ps))
                decl = dict(self.structs[ps]["fields"])
                if sorted(names) != sorted(decl):
                    raise TranslateError("%s: pattern %s binds %r, struct has %r" % (where, ps, names, list(decl)))
                if rhs == ("var", "self"):
                    if ps != sname:
                        raise TranslateError("%s: `self` destructured as %s" % (where, ps))
                    src_term = "self"
                elif rhs[0] == "pack" and rhs[1][0] == "var" and not is_unpack:
                    v = rhs[1][1]
                    if v not in env or env[v].kind != "struct" or (env[v].name, "pack") not in self.fns:
                        raise TranslateError("%s: %s.pack() on something that is not a translated struct" % (where, v))
                    if self.ret_type((env[v].name, "pack")) != ps:
                        raise TranslateError("%s: %s.pack() does not return %s" % (where, v, ps))
                    tmp = "packed_%s" % v
                    lines.append("bind (%s %s) (fun %s =>" % (self.fn(env[v].name, "pack"), v, tmp))
                    closers.append(")")
                    src_term = tmp
                else:
                    raise TranslateError("%s: unsupported right-hand side of let" % where)
                for n in names:
                    if n in env:
                        raise TranslateError("%s: %s bound twice" % (where, n))
                    env[n] = decl[n]
                    lines.append("let %s := %s %s in" % (n, self.fld(ps, n), src_term))
            elif t == ("id", "assert") and p.peek(1) == ("p", "!"):
                if is_unpack:
                    raise TranslateError("%s: assert! in unpack_warn" % where)
                p.take(); p.take()
                p.expect("p", "(")
                start = p.i
                c = p.expr()
                txt = " ".join(str(x[1]) if x[0] != "num" else str(x[1][0]) for x in p.t[start:p.i])
                p.expect("p", ")")
                p.expect("p", ";")
                s, ty = self.ex(c, env, None, where)
                if ty != BOOL:
                    raise TranslateError("%s: assert!(non-bool)" % where)
                nassert += 1
                site = "site_%s_assert%d" % (self.fn(sname, fname_), nassert)
                self.sites.append((site, SITE_BASE[self.ver] + len(self.sites), "%s::%s: assert!(%s)" % (sname, fname_, txt)))
                lines.append("if negb (%s) then Panic %s else" % (s, site))
            elif t == ("id", "if"):
                if not is_unpack:
                    raise TranslateError("%s: `if` in pack" % where)
                p.take()
                # condition: up to the '{' (no struct literal can occur in a condition)
                c = p.expr()
                p.expect("p", "{")
                p.expect("id", "warn"); p.expect("p", "."); p.expect("id", "warn"); p.expect("p", "(")
                p.expect("id", "Warning"); p.expect("p", "::")
                w = p.take()
                p.expect("p", ")"); p.expect("p", ";"); p.expect("p", "}")
                if w[0] != "id" or w[1] not in self.warnings:
                    raise TranslateError("%s: unknown warning %r" % (where, w))
                if p.peek() == ("id", "else"):
                    raise TranslateError("%s: else branch not accepted" % where)
                s, ty = self.ex(c, env, None, where)
                if ty != BOOL:
                    raise TranslateError("%s: if on a non-bool" % where)
                v = "ws%d" % len(wsvars)
                wsvars.append(v)
                lines.append("let %s := if %s then [W%d%s] else [] in" % (v, s, self.ver, w[1]))
            else:
                break
        # final expression: a struct literal of the return type
        lit = p.expr()
        if p.peek() is not None:
            p.fail("trailing tokens after the result expression")
        if lit[0] != "struct" or lit[1] != rname:
            raise TranslateError("%s: the result must be a literal of %s" % (where, rname))
        hoist = [] if is_unpack else None
        term = self.struct_term(lit, env, where, hoist)
        out = []
        if is_unpack:
            out.append("Definition %s (self : %s) : %s * list warning%d :=" %
                       (self.fn(sname, fname_), self.rec(sname), self.rec(rname), self.ver))
            for l in lines:
                out.append("  " + l)
            for v, ws, call in hoist:
                out.append("  let '(%s, %s) := %s in" % (v, ws, call))
                wsvars.append(ws)
            out.append("  (%s, %s)." % (term, " ++ ".join(wsvars) if wsvars else "[]"))
        else:
            out.append("Definition %s (self : %s) : res Empty_set %s :=" %
                       (self.fn(sname, fname_), self.rec(sname), self.rec(rname)))
            for l in lines:
                out.append("  " + l)
            out.append("  Ok %s%s." % (term, "".join(closers)))
        return "\n".join(out)

    def check_unpack_wrapper(self, sname):
        key = (sname, "unpack")
        if key not in self.fns:
            return
        self.check_sig(key)
        _, body = self.fns[key]
        txt = " ".join(str(t[1]) for t in body)
        if txt != "self . unpack_warn ( & mut Ignore )":
            raise TranslateError("%s: %s::unpack is not the plain wrapper: `%s`" % (self.fname, sname, txt))

    # ---- records, byte layout
    def record(self, sname):
        fs = self.structs[sname]["fields"]
        return "Record %s : Set := { %s }." % (self.rec(sname), "; ".join(
            "%s : %s" % (self.fld(sname, f), self.coq_type(ty)) for f, ty in fs))

    def layout(self, sname):
        fs = self.structs[sname]["fields"]
        names, parts, recs = [], [], []
        k = 0
        for f, ty in fs:
            if ty.kind == "int" and ty.width == 8:
                v = "b%d" % k
                k += 1
                names.append(v)
                recs.append("%s := %s" % (self.fld(sname, f), v))
            elif ty.kind == "bytes":
                vs = ["b%d" % (k + j) for j in range(ty.width)]
                k += ty.width
                names += vs
                recs.append("%s := [%s]" % (self.fld(sname, f), "; ".join(vs)))
            else:
                raise TranslateError("%s: packed struct %s has a field of type %r (only u8 and [u8; N])"
                                     % (self.fname, sname, ty))
        size = k
        # the size must agree with boilerplate_packed!(S, SIZE_CONST, ..)
        of = ["Definition %s (bs : bytes) : option (%s * bytes) :=" % (self.fn(sname, "of_bytes"), self.rec(sname),),
              "  match bs with",
              "  | %s :: rest => Some ({| %s |}, rest)" % (" :: ".join(names), "; ".join(recs)),
              "  | _ => None",
              "  end."]
        asb = []
        for f, ty in fs:
            if ty.kind == "int":
                asb.append("[%s self]" % self.fld(sname, f))
            else:
                asb.append("%s self" % self.fld(sname, f))
        to = ["Definition %s (self : %s) : bytes := %s." % (self.fn(sname, "as_bytes"), self.rec(sname), " ++ ".join(asb)),
              "Definition %s : Z := %d." % (self.fn(sname, "size"), size)]
        return "\n".join(of + to), size

    def render(self, src):
        out = ["(* generated by tools/gen_bitfields.py from %s -- do not edit; regenerated on every ./check run *)" % self.fname,
               "From LibTw2 Require Import Base.Res Model.PacketBase Gen.Consts%d." % self.ver,
               "Open Scope Z_scope.", "",
               "(* trunc w x := x mod 2 ^ w  (Model/PacketBase.v) *)", ""]
        # order: records first (dependencies: ChunkHeaderVital contains ChunkHeader)
        order = []
        def visit(s):
            if s in order:
                return
            for _, ty in self.structs[s]["fields"]:
                if ty.kind == "struct":
                    visit(ty.name)
            order.append(s)
        for s in WANT[self.ver]:
            visit(s)
        for s in order:
            out.append(self.record(s))
        out.append("")
        sizes = {}
        for s in order:
            if self.structs[s]["packed"]:
                txt, size = self.layout(s)
                sizes[s] = size
                out.append(txt)
                out.append("")
        self.check_boilerplate(src, sizes)
        # functions: dependencies first (ChunkHeaderPacked::unpack_warn before the vital one, ChunkHeader::pack too)
        fn_order = []
        for s in order:
            for f in ("unpack_warn", "pack"):
                if (s, f) in self.fns:
                    fn_order.append((s, f))
        expected = set()
        for s in WANT[self.ver]:
            expected.add((s, "unpack_warn" if s.endswith("Packed") else "pack"))
        if set(fn_order) != expected:
            raise TranslateError("%s: expected functions %r, found %r" % (self.fname, sorted(expected), sorted(fn_order)))
        for k in self.fns:
            if k[1] not in ("unpack_warn", "pack", "unpack"):
                raise TranslateError("%s: unexpected function %s::%s in a translated impl block" % (self.fname, k[0], k[1]))
        bodies = []
        for key in fn_order:
            bodies.append(self.function(key))
            self.check_unpack_wrapper(key[0])
        for name, num, text in self.sites:
            out.append("Definition %s : Z := %d.   (* %s *)" % (name, num, text))
        out.append("")
        out += [b + "\n" for b in bodies]
        return "\n".join(out)

    def check_boilerplate(self, src, sizes):
        body = gen_consts.strip_comments(gen_consts.non_test_part(src))
        seen = {}
        for m in re.finditer(r"boilerplate_packed!\(\s*(\w+)\s*,\s*(\w+)\s*,\s*\w+\s*,?\s*\)\s*;", body):
            seen[m.group(1)] = m.group(2)
        for s, size in sizes.items():
            if s not in seen:
                raise TranslateError("%s: no boilerplate_packed! for %s" % (self.fname, s))
            c = seen[s]
            if c not in self.consts or self.consts[c][1] != size:
                raise TranslateError("%s: %s is %d bytes by its fields but boilerplate_packed! says %s = %r"
                                     % (self.fname, s, size, c, self.consts.get(c)))


def main(repo):
    files = {}
    for ver, rel in ((6, "net/src/protocol.rs"), (7, "net/src/protocol7.rs")):
        src = open(os.path.join(repo, rel)).read()
        g = Gen(ver, rel, src, repo)
        files["Bits%d.v" % ver] = g.render(src)
    return files


if __name__ == "__main__":
    for fn, content in main(sys.argv[1] if len(sys.argv) > 1 else "/repo").items():
        print("(* ---- %s ---- *)" % fn)
        print(content)

#!/usr/bin/env python3
# usage: tools/mk_refactor.py <tag> "<area description>"
import subprocess, sys, os
tag, area = sys.argv[1], sys.argv[2]
wt, out = f"/tmp/ref-{tag}", f"/tmp/ref-{tag}-out"
subprocess.run(["git", "-C", "/repo", "worktree", "add", "--detach", wt, "HEAD"], check=True, capture_output=True)
os.makedirs(out, exist_ok=True)
t = open('/verif/tools/refactor_prompt_template.txt').read()
open(out + "/PROMPT.txt", "w").write(t.format(WT=wt, OUT=out, AREA=area))
print(out + "/PROMPT.txt")

#!/bin/bash
# usage: tools/eval_ref.sh <tag> <Cxx>...   (worktree /tmp/ref-<tag> with a behaviour-preserving refactoring applied)
tag=$1; shift
out=/tmp/ref-$tag-out; : > $out/eval.log
cd /verif
for pid in "$@"; do
  LIBTW2_REPO=/tmp/ref-$tag VERIF_BUILD=/verif/.build-r$tag ./check run $pid > $out/check-$pid.log 2>&1; rc=$?
  echo "$pid rc=$rc $(grep -E "quick:" $out/check-$pid.log | cut -c1-160)" >> $out/eval.log
  grep -E "^VIOLATION|^  failing input|^  broken" $out/check-$pid.log | cut -c1-300 | head -6 >> $out/eval.log
done
rm -rf /verif/.build-r$tag

#!/usr/bin/env python3
"""Translator: the `pub const` values and the public enums of net/src/protocol.rs
(0.6 / DDNet) and net/src/protocol7.rs (0.7) -> coq/theories/Gen/Consts6.v, Consts7.v.

Regenerated from the current working tree of the repository on every run, so the
theorems are re-checked against the constants the code has NOW. Anything this
translator does not understand raises (a broken tie is reported, never skipped).

Accepted:
  pub const NAME: usize|u8|u16|u32|u64|i32 = <int expr>;     int expr: literals (dec, 0x, 0b, _ separators,
                                                             type suffix), earlier constants, ( ), + - * << >> | &
  pub const NAME: Token = Token([b, b, b, b]);
  pub const NAME: &[u8; N] = b"....";
  pub enum Warning / PacketReadError / Error { Variant, Variant(payload types), ... }
Everything from the first `#[cfg(test)]` on is ignored (test modules).
"""
import os
import re
import sys

INT_TYPES = {"usize": 64, "u8": 8, "u16": 16, "u32": 32, "u64": 64, "i32": 31}


class TranslateError(Exception):
    pass


def strip_comments(src):
    out = []
    for line in src.splitlines():
        # no string literal in the parts we read contains "//" (checked: b"TKEN" only)
        i = line.find("//")
        if i >= 0:
            line = line[:i]
        out.append(line)
    return "\n".join(out)


def non_test_part(src):
    i = src.find("#[cfg(test)]")
    return src if i < 0 else src[:i]


TOK = re.compile(r"\s*(0b[01_]+|0x[0-9a-fA-F_]+|[0-9][0-9_]*|[A-Za-z_][A-Za-z0-9_]*|<<|>>|[()+\-*|&])")


def int_tokens(expr, where):
    toks, i = [], 0
    expr = expr.strip()
    while i < len(expr):
        m = TOK.match(expr, i)
        if not m:
            raise TranslateError("%s: cannot tokenize constant expression %r at %r" % (where, expr, expr[i:]))
        toks.append(m.group(1))
        i = m.end()
    return toks


def parse_int_literal(t):
    t2 = t.replace("_", "")
    if t2.startswith("0b"):
        return int(t2[2:], 2)
    if t2.startswith("0x"):
        return int(t2[2:], 16)
    return int(t2)


def eval_int(expr, env, where):
    """precedence (Rust): * ; + - ; << >> ; & ; |"""
    toks = int_tokens(expr, where)
    pos = [0]

    def peek():
        return toks[pos[0]] if pos[0] < len(toks) else None

    def take():
        t = peek()
        pos[0] += 1
        return t

    def atom():
        t = take()
        if t is None:
            raise TranslateError("%s: unexpected end of expression %r" % (where, expr))
        if t == "(":
            v = level_or()
            if take() != ")":
                raise TranslateError("%s: missing ) in %r" % (where, expr))
            return v
        if re.match(r"[0-9]", t):
            return parse_int_literal(t)
        if re.match(r"[A-Za-z_]", t):
            if t not in env or not isinstance(env[t], int):
                raise TranslateError("%s: unknown name %r in constant expression %r" % (where, t, expr))
            return env[t]
        raise TranslateError("%s: unexpected token %r in %r" % (where, t, expr))

    def level_mul():
        v = atom()
        while peek() == "*":
            take()
            v = v * atom()
        return v

    def level_add():
        v = level_mul()
        while peek() in ("+", "-"):
            op = take()
            w = level_mul()
            v = v + w if op == "+" else v - w
        return v

    def level_shift():
        v = level_add()
        while peek() in ("<<", ">>"):
            op = take()
            w = level_add()
            v = v << w if op == "<<" else v >> w
        return v

    def level_and():
        v = level_shift()
        while peek() == "&":
            take()
            v = v & level_shift()
        return v

    def level_or():
        v = level_and()
        while peek() == "|":
            take()
            v = v | level_and()
        return v

    v = level_or()
    if peek() is not None:
        raise TranslateError("%s: trailing tokens in constant expression %r" % (where, expr))
    return v


def parse_consts(src, fname):
    """-> ordered list of (name, rust type, kind, value) ; kind in int/bytes"""
    body = strip_comments(non_test_part(src))
    consts = []
    env = {}
    # every top-level line that mentions `const` must be understood
    for ln, line in enumerate(body.splitlines(), 1):
        if not re.match(r"(pub\s+)?const\b", line):
            if re.match(r"\S.*\bconst\s+[A-Z_]+\s*:", line):
                raise TranslateError("%s:%d: unexpected const syntax: %s" % (fname, ln, line))
            continue
        where = "%s:%d" % (fname, ln)
        m = re.match(r"pub\s+const\s+([A-Z][A-Z0-9_]*)\s*:\s*([^=]+?)\s*=\s*(.+);\s*$", line)
        if not m:
            raise TranslateError("%s: unexpected const syntax: %s" % (where, line))
        name, ty, expr = m.group(1), m.group(2), m.group(3)
        if ty in INT_TYPES:
            v = eval_int(expr, env, where)
            if not (0 <= v < 2 ** INT_TYPES[ty]):
                raise TranslateError("%s: %s = %d does not fit %s" % (where, name, v, ty))
            consts.append((name, ty, "int", v, expr))
            env[name] = v
        elif ty == "Token":
            m2 = re.match(r"Token\(\[\s*(.*?)\s*\]\)$", expr)
            if not m2:
                raise TranslateError("%s: unexpected Token constant: %s" % (where, expr))
            bs = [eval_int(x, env, where) for x in m2.group(1).split(",") if x.strip()]
            if len(bs) != 4 or any(not 0 <= b < 256 for b in bs):
                raise TranslateError("%s: a Token has four bytes: %s" % (where, expr))
            consts.append((name, ty, "bytes", bs, expr))
        else:
            m3 = re.match(r"&\[u8;\s*(\d+)\]$", ty)
            m4 = re.match(r'b"([\x20-\x7e]*)"$', expr)
            if not (m3 and m4) or "\\" in m4.group(1):
                raise TranslateError("%s: unexpected constant type/value: %s" % (where, line))
            bs = [ord(c) for c in m4.group(1)]
            if len(bs) != int(m3.group(1)):
                raise TranslateError("%s: byte string length differs from its type: %s" % (where, line))
            consts.append((name, ty, "bytes", bs, expr))
    if not consts:
        raise TranslateError("%s: no constants found" % fname)
    return consts


def parse_enum(src, fname, ename):
    body = strip_comments(non_test_part(src))
    m = re.search(r"pub\s+enum\s+%s\s*\{(.*?)\n\}" % re.escape(ename), body, re.S)
    if not m:
        raise TranslateError("%s: enum %s not found" % (fname, ename))
    variants = []
    for item in m.group(1).split(","):
        item = item.strip()
        if not item:
            continue
        mv = re.match(r"([A-Z][A-Za-z0-9]*)(\s*\([^()]*\))?$", item)
        if not mv:
            raise TranslateError("%s: enum %s: unexpected variant syntax %r" % (fname, ename, item))
        variants.append(mv.group(1))
    if not variants:
        raise TranslateError("%s: enum %s has no variants" % (fname, ename))
    return variants


ENUMS = [("Warning", "warning", "W"), ("PacketReadError", "rderr", "E"), ("Error", "wrerr", "WE")]


def render(ver, fname, src):
    consts = parse_consts(src, fname)
    out = ["(* generated by tools/gen_consts.py from %s -- do not edit; regenerated on every ./check run *)" % fname,
           "From LibTw2 Require Import Base.Res.", "Open Scope Z_scope.", ""]
    for name, ty, kind, v, expr in consts:
        if kind == "int":
            out.append("Definition %s : Z := %d.   (* %s = %s *)" % (name, v, ty, expr))
        else:
            out.append("Definition %s : bytes := [%s].   (* %s = %s *)" % (name, "; ".join(map(str, v)), ty, expr))
    out.append("")
    for ename, cname, prefix in ENUMS:
        vs = parse_enum(src, fname, ename)
        out.append("(* pub enum %s *)" % ename)
        out.append("Inductive %s%s : Set :=" % (cname, ver))
        out.append("\n".join("| %s%s%s" % (prefix, ver, v) for v in vs) + ".")
        out.append("")
    return "\n".join(out)


def values(repo, ver):
    """constant table for the other translators: name -> (type, value)"""
    rel = "net/src/protocol.rs" if ver == 6 else "net/src/protocol7.rs"
    src = open(os.path.join(repo, rel)).read()
    return {n: (ty, v) for n, ty, kind, v, _ in parse_consts(src, rel)}


def main(repo):
    files = {}
    for ver, rel in ((6, "net/src/protocol.rs"), (7, "net/src/protocol7.rs")):
        src = open(os.path.join(repo, rel)).read()
        files["Consts%d.v" % ver] = render(ver, rel, src)
    return files


if __name__ == "__main__":
    for fn, content in main(sys.argv[1] if len(sys.argv) > 1 else "/repo").items():
        print("(* ---- %s ---- *)" % fn)
        print(content)

#!/bin/bash
# usage: tools/eval_mut.sh <tag> <Cxx> <crate-package>   (worktree /tmp/mut-<tag>, results /tmp/mut-<tag>-out/eval.log)
tag=$1; pid=$2; pkg=$3
wt=/tmp/mut-$tag; out=/tmp/mut-$tag-out; log=$out/eval.log
: > $log
cd $wt || exit 2
export CARGO_TARGET_DIR=$wt/target CARGO_NET_OFFLINE=true
echo "## demo with change" >> $log
cargo test --offline -p $pkg --test verif_demo >> $log 2>&1; echo "demo_with_change_rc=$?" >> $log
echo "## existing tests with change" >> $log
cargo test --offline -p $pkg --lib --bins >> $log 2>&1; echo "lib_tests_with_change_rc=$?" >> $log
git apply -R $out/patch.diff || { echo "cannot revert" >> $log; exit 2; }
echo "## demo without change" >> $log
cargo test --offline -p $pkg --test verif_demo >> $log 2>&1; echo "demo_without_change_rc=$?" >> $log
git apply $out/patch.diff
echo "## check" >> $log
cd /verif
LIBTW2_REPO=$wt VERIF_BUILD=/verif/.build-m$tag ./check run $pid > $out/check.log 2>&1; echo "check_rc=$?" >> $log
grep -E "^VIOLATION|^  failing input|^  broken|quick:" $out/check.log | cut -c1-400 >> $log
rm -rf /verif/.build-m$tag

#!/bin/bash
# usage: tools/eval_queue.sh <round> <Cxx>...   waits for each /tmp/mut-<round><cxx>-out/meta.json, then evaluates it
round=$1; shift
for pid in "$@"; do
  tag=$round$(echo $pid | tr 'A-Z' 'a-z')
  out=/tmp/mut-$tag-out
  for i in $(seq 1 400); do [ -f $out/meta.json ] && [ -f $out/patch.diff ] && break; sleep 30; done
  [ -f $out/meta.json ] || continue
  sleep 60
  pkg=$(python3 -c "
import json,re
m=json.load(open('$out/meta.json'))
r=re.findall(r'-p\s+(\S+)', m.get('demo_cmd',''))
print(r[-1] if r else '')")
  [ -n "$pkg" ] && /verif/tools/eval_mut.sh $tag $pid $pkg
done

#!/bin/bash
# apply every seeded change to /repo itself, run the property's quick check, undo it; results in seeded/<id>/repo_run.json
cd /verif
for d in seeded/*/; do
  id=$(basename $d)
  pid=$(python3 -c "import json;print(json.load(open('$d/meta.json'))['property'])")
  [ -n "$(git -C /repo status --porcelain --untracked-files=no)" ] && { echo "repo dirty, stop"; exit 2; }
  if git -C /repo apply /verif/$d/patch.diff; then
    VERIF_SCRATCH_EVIDENCE=1 VERIF_BUILD=/verif/.build-off ./check run $pid > /tmp/official-$id.log 2>&1; rc=$?
  else
    rc=-1; echo "patch does not apply" > /tmp/official-$id.log
  fi
  git -C /repo checkout -- .
  python3 - "$id" "$rc" <<'PY'
import sys, json, re
id, rc = sys.argv[1], int(sys.argv[2])
log = open('/tmp/official-%s.log' % id).read().split('\n')
keep = [l[:300] for l in log if re.match(r'^(VIOLATION|  failing input|  broken|C\d\d quick:)', l)][:8]
json.dump({"applied_to": "/repo working tree (git -C /repo apply; undone with git -C /repo checkout -- .)", "exit_code": rc, "output": keep},
          open('/verif/seeded/%s/repo_run.json' % id, 'w'), indent=1)
print(id, rc, (keep or ['-'])[0][:120])
PY
  rm -f /tmp/official-$id.log
done
rm -rf /verif/.build-off
git -C /repo status --short | head -3

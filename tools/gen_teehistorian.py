"""Translator for property C17: regenerates coq/theories/Gen/TeehistTable.v from /repo.

  teehistorian/src/format/mod.rs   ->  th_magic                        (the 16-byte file magic)
  teehistorian/src/format/item.rs  ->  message ids (FINISH .. EX), INPUT_LEN, CONSOLE_COMMAND_MAX_ARGS,
                                       ptag (one constructor per pass-through item struct),
                                       tag_kinds   (the field list of each struct's `decode`),
                                       tag_has_cid (from Item::cid),
                                       ex_uuids    (the `decode_ex` dispatch table: UUID bytes -> struct)

"Pass-through" items are the ones raw::Reader::read hands to the caller unchanged
(Message, Join, Drop and the extension items).  Their decoders all have the shape
    Ok(Name { field: _p.read_xxx(..)?, ... })
which is parsed strictly: anything else raises (./check then reports a broken
translator tie).  The remaining decoders (PlayerDiff, Finish, TickSkip, PlayerNew,
PlayerOld, InputDiff, InputNew, ConsoleCommand, Kind::decode, decode_ex's framing)
are hand-modelled in Model/Teehistorian.v; their source text is pinned here by a
normalised-text comparison so that an edit to them breaks the tie as well.
"""
import os, re, hashlib


class Unexpected(Exception):
    pass


READS = {
    "read_int(&mut Ignore)": "KInt",
    "read_string()": "KStr",
    "read_data(&mut Ignore)": "KData",
    "read_uuid()": "KRaw 16",
    "read_rest()": "KRest",
}

# structs decoded directly by Kind::decode_rest that are passed through by raw::Reader::read
DIRECT_PASS = ["Message", "Join", "Drop"]

# hand-modelled decoders: name -> impl header line (their normalised text is hashed into src_pins)
HAND = {
    "PlayerDiff": "impl PlayerDiff {",
    "Finish": "impl Finish {",
    "TickSkip": "impl TickSkip {",
    "PlayerNew": "impl PlayerNew {",
    "PlayerOld": "impl PlayerOld {",
    "InputDiff": "impl InputDiff {",
    "InputNew": "impl InputNew {",
    "ConsoleCommand": "impl<'a> ConsoleCommand<'a> {",
    "Kind": "impl Kind {",
}


def block(txt, header, what):
    """the brace-balanced block starting at `header` (which ends with '{')"""
    i = txt.find("\n" + header + "\n")
    if i < 0 or txt.find("\n" + header + "\n", i + 1) >= 0:
        raise Unexpected("item.rs: expected exactly one %r (%s)" % (header, what))
    i += 1
    j = i + len(header)
    depth = 1
    while depth > 0:
        if j >= len(txt):
            raise Unexpected("item.rs: unbalanced braces after %r" % header)
        c = txt[j]
        if c == "{":
            depth += 1
        elif c == "}":
            depth -= 1
        j += 1
    return txt[i:j]


def block_after(txt, marker, fname):
    """text from `marker` (unique) to the end of the first brace-balanced block after it"""
    i = txt.find(marker)
    if i < 0 or txt.find(marker, i + 1) >= 0:
        raise Unexpected("%s: expected exactly one %r" % (fname, marker))
    j = txt.index("{", i) + 1
    depth = 1
    while depth > 0:
        if j >= len(txt):
            raise Unexpected("%s: unbalanced braces after %r" % (fname, marker))
        c = txt[j]
        if c == "{":
            depth += 1
        elif c == "}":
            depth -= 1
        j += 1
    return txt[i:j]


# hand-modelled functions of raw.rs / mod.rs (pinned like the decoders)
RAW_PINS = [
    ("raw.rs", "pub fn read_header(data: &[u8])"),
    ("raw.rs", "    fn new_impl<'a, CB>("),
    ("raw.rs", "    pub fn from_header(header: &Header)"),
    ("raw.rs", "    pub fn read<'a, CB>("),
    ("raw.rs", "    pub fn cids(&self)"),
    ("raw.rs", "    fn read_more<CB: Callback>("),
    ("raw.rs", "    fn read_kind<CB>("),
    ("raw.rs", "    fn read_item<'a, CB>("),
    ("mod.rs", "pub fn read_magic(p: &mut Unpacker)"),
]


def norm(s):
    return re.sub(r"\s+", " ", s).strip()


def short_sha(s):
    return hashlib.sha256(norm(s).encode()).hexdigest()[:16]


def camel_to_upper(name):
    return re.sub(r"(?<!^)(?=[A-Z])", "_", name).upper()


def parse_simple_decode(txt, name):
    hdrs = ["impl %s {" % name, "impl<'a> %s<'a> {" % name]
    found = [h for h in hdrs if ("\n" + h + "\n") in txt]
    if len(found) != 1:
        raise Unexpected("item.rs: expected exactly one impl block for %s" % name)
    b = norm(block(txt, found[0], name))
    m = re.fullmatch(
        r"impl(?:<'a>)? %s(?:<'a>)? \{ fn decode\(_p: &mut Unpacker(?:<'a>)?\) -> "
        r"Result<%s(?:<'a>)?, MaybeEnd<Error>> \{ Ok\(%s \{ (.*?),? \}\) \} \}" % (name, name, name), b)
    if not m:
        raise Unexpected("item.rs: decoder of %s does not have the shape Ok(%s { f: _p.read_x()?, .. }): %r"
                         % (name, name, b))
    fields = []
    for part in m.group(1).split(", "):
        fm = re.fullmatch(r"(\w+): _p\.(read_\w+\([^)]*\))\?", part)
        if not fm or fm.group(2) not in READS:
            raise Unexpected("item.rs: %s: field %r is not a known unpacker read" % (name, part))
        fields.append((fm.group(1), READS[fm.group(2)]))
    return fields


def parse_struct_fields(txt, name):
    m = re.search(r"\npub struct %s(?:<'a>)? \{\n(.*?)\n\}\n" % name, txt, re.S)
    if not m:
        raise Unexpected("item.rs: struct %s not found" % name)
    out = []
    for l in m.group(1).split("\n"):
        l = l.strip()
        if l.startswith("#["):
            continue
        fm = re.fullmatch(r"pub (\w+): ([^,]+),", l)
        if not fm:
            raise Unexpected("item.rs: struct %s: unexpected line %r" % (name, l))
        out.append(fm.group(1))
    return out


def main(repo):
    d = os.path.join(repo, "teehistorian", "src", "format")
    item = open(os.path.join(d, "item.rs")).read()
    mod = open(os.path.join(d, "mod.rs")).read()

    # ---- magic
    m = re.search(r"pub const MAGIC_LEN: usize = (\d+);\npub const UUID: \[u8; MAGIC_LEN\] = \[\n"
                  r"\s*// \"[0-9a-f-]+\"\n((?:\s*0x[0-9a-f]{2},)+)\n\];", mod)
    if not m or int(m.group(1)) != 16:
        raise Unexpected("mod.rs: magic constant not found")
    magic = [int(x, 16) for x in re.findall(r"0x([0-9a-f]{2})", m.group(2))]
    if len(magic) != 16:
        raise Unexpected("mod.rs: magic is not 16 bytes")

    # ---- message ids
    ids = re.findall(r"\npub const ([A-Z_]+): i32 = (-?\d+);", item)
    want = ["FINISH", "TICK_SKIP", "PLAYER_NEW", "PLAYER_OLD", "INPUT_DIFF", "INPUT_NEW", "MESSAGE", "JOIN",
            "DROP", "CONSOLE_COMMAND", "EX"]
    if [n for n, _ in ids] != want:
        raise Unexpected("item.rs: message id constants changed: %r" % (ids,))
    usz = dict(re.findall(r"\npub const ([A-Z_]+): usize = (\d+);", item))
    if sorted(usz) != ["CONSOLE_COMMAND_MAX_ARGS", "INPUT_LEN"]:
        raise Unexpected("item.rs: usize constants changed: %r" % (usz,))

    # ---- uuids
    uu = re.findall(r"\npub const (UUID_[A-Z0-9_]+): \[u8; 16\] = \[\n\s*// \"([0-9a-f-]+)\"\n((?:\s*0x[0-9a-f]{2},)+)\n\];",
                    item)
    uuids = {}
    for name, text, body in uu:
        bs = [int(x, 16) for x in re.findall(r"0x([0-9a-f]{2})", body)]
        if len(bs) != 16 or "".join("%02x" % b for b in bs) != text.replace("-", ""):
            raise Unexpected("item.rs: %s: bytes and comment disagree" % name)
        uuids[name] = bs
    if len(uuids) != item.count("pub const UUID_"):
        raise Unexpected("item.rs: a UUID constant has an unexpected shape")

    # ---- decode_ex dispatch
    ex = norm(block(item, "    pub fn decode_ex(p: &mut Unpacker<'a>) -> Result<Item<'a>, MaybeEnd<Error>> {", "decode_ex"))
    m = re.fullmatch(
        r"pub fn decode_ex\(p: &mut Unpacker<'a>\) -> Result<Item<'a>, MaybeEnd<Error>> \{ "
        r"let uuid = p\.read_uuid\(\)\?; let data = p\.read_data\(&mut Ignore\)\?; "
        r"Ok\(match \*uuid\.as_bytes\(\) \{ (.*) _ => UnknownEx \{ uuid: uuid, data: data, \} \.into\(\), \}\) \}", ex)
    if not m:
        raise Unexpected("item.rs: decode_ex does not have the expected framing: %r" % ex)
    arm_re = r"(UUID_[A-Z0-9_]+) => (\w+)::decode\(&mut Unpacker::new\(data\)\)\?\.into\(\), "
    body = m.group(1).strip() + " "
    if re.sub(arm_re, "", body) != "":
        raise Unexpected("item.rs: decode_ex has an arm that is not `UUID_X => Name::decode(&mut Unpacker::new(data))?.into(),`: %r"
                         % re.sub(arm_re, "", body))
    dispatch = []
    for u, t in re.findall(arm_re, body):
        if u not in uuids:
            raise Unexpected("item.rs: decode_ex uses unknown constant %s" % u)
        dispatch.append((u, t))
    if len(dispatch) != len(uuids):
        raise Unexpected("item.rs: %d UUID constants but %d decode_ex arms" % (len(uuids), len(dispatch)))
    if len({u for u, _ in dispatch}) != len(dispatch) or len({tuple(uuids[u]) for u, _ in dispatch}) != len(dispatch):
        raise Unexpected("item.rs: duplicate UUID in decode_ex")

    tags = DIRECT_PASS + [s for _, s in dispatch]
    if len(set(tags)) != len(tags):
        raise Unexpected("item.rs: a struct is dispatched twice")

    # ---- the decoders of the pass-through structs
    kinds = {}
    for t in tags:
        fields = parse_simple_decode(item, t)
        if [f for f, _ in fields] != parse_struct_fields(item, t):
            raise Unexpected("item.rs: %s: decode order differs from the struct's field order" % t)
        kinds[t] = fields

    # ---- Item::cid
    cidb = norm(block(item, "    pub fn cid(&self) -> Option<i32> {", "Item::cid"))
    m = re.fullmatch(r"pub fn cid\(&self\) -> Option<i32> \{ Some\(match \*self \{ (.*) \}\) \}", cidb)
    if not m:
        raise Unexpected("item.rs: Item::cid has an unexpected shape")
    has_cid = {}
    for a in m.group(1).strip().rstrip(",").split(", "):
        am = re.fullmatch(r"Item::(\w+)\((ref i|_)\) => (i\.cid|return None)", a.strip())
        if not am or (am.group(2) == "_") != (am.group(3) == "return None"):
            raise Unexpected("item.rs: Item::cid arm %r not understood" % a)
        has_cid[am.group(1)] = am.group(3) == "i.cid"
    hand_cid = {"PlayerDiff": True, "Finish": False, "TickSkip": False, "PlayerNew": True, "PlayerOld": True,
                "InputDiff": True, "InputNew": True, "ConsoleCommand": True, "UnknownEx": False}
    for t in tags:
        if t not in has_cid:
            raise Unexpected("item.rs: Item::cid has no arm for %s" % t)
        if has_cid[t] and (not kinds[t] or kinds[t][0] != ("cid", "KInt")):
            raise Unexpected("item.rs: %s has a cid that is not its first int field" % t)
    for t, v in hand_cid.items():
        if has_cid.get(t) != v:
            raise Unexpected("item.rs: Item::cid of %s changed (the hand model assumes %s)" % (t, v))
    if set(has_cid) != set(tags) | set(hand_cid):
        raise Unexpected("item.rs: item variants changed: %r" % sorted(set(has_cid) ^ (set(tags) | set(hand_cid))))

    # ---- pin the hand-modelled decoders
    pins = []
    for name, hdr in HAND.items():
        pins.append((name, short_sha(block(item, hdr, name))))

    raw = open(os.path.join(repo, "teehistorian", "src", "raw.rs")).read()
    for fname, marker in RAW_PINS:
        txt = raw if fname == "raw.rs" else mod
        pins.append((fname + ":" + marker.strip().split("(")[0].split("<")[0], short_sha(block_after(txt, marker, fname))))

    # ---- emit
    s = []
    s.append("(* GENERATED by tools/gen_teehistorian.py from teehistorian/src/format/{mod,item}.rs - do not edit *)")
    s.append("From LibTw2 Require Import Base.Res Model.Packer.")
    s.append("Open Scope Z_scope.")
    s.append("")
    s.append("Definition th_magic : bytes := [%s]." % "; ".join(str(b) for b in magic))
    s.append("")
    for n, v in ids:
        s.append("Definition ID_%s : Z := %s." % (n, "(%s)" % v if v.startswith("-") else v))
    s.append("Definition INPUT_LEN : nat := %s." % usz["INPUT_LEN"])
    s.append("Definition CONSOLE_COMMAND_MAX_ARGS : nat := %s." % usz["CONSOLE_COMMAND_MAX_ARGS"])
    s.append("")
    s.append("(* items that raw::Reader::read passes through unchanged *)")
    s.append("Inductive ptag :=\n" + "\n".join("| T%s" % t for t in tags) + ".")
    s.append("")
    s.append("(* field order of the struct = order of the reads in its `decode` *)")
    s.append("Definition tag_kinds (t : ptag) : list kind :=\n  match t with")
    for t in tags:
        s.append("  | T%s => [%s]   (* %s *)" % (t, "; ".join(k for _, k in kinds[t]), ", ".join(f for f, _ in kinds[t])))
    s.append("  end.")
    s.append("")
    s.append("(* Item::cid: the first field is a client id *)")
    s.append("Definition tag_has_cid (t : ptag) : bool :=\n  match t with")
    for t in tags:
        s.append("  | T%s => %s" % (t, "true" if has_cid[t] else "false"))
    s.append("  end.")
    s.append("")
    s.append("(* Item::decode_ex: UUID -> decoder, in source order *)")
    s.append("Definition ex_uuids : list (bytes * ptag) := [")
    s.append(";\n".join("  ([%s], T%s)" % ("; ".join(str(b) for b in uuids[u]), t) for u, t in dispatch))
    s.append("].")
    s.append("")
    s.append("(* every pass-through tag (for finite sweeps) *)")
    s.append("Definition all_tags : list ptag := [%s]." % "; ".join("T" + t for t in tags))
    s.append("")
    s.append("(* sha256 prefixes of the whitespace-normalised source of the hand-modelled functions;")
    s.append("   Model/Teehistorian.v states the values it was written against (hand_pins) and")
    s.append("   Props/C17.v proves the two lists equal *)")
    s.append("Definition src_pins : list (list Z) := [")
    s.append(";\n".join("  [%s]   (* %s %s *)" % ("; ".join(str(int(h[i:i + 2], 16)) for i in range(0, 16, 2)), n, h)
                        for n, h in pins))
    s.append("].")
    return {"TeehistTable.v": "\n".join(s) + "\n"}


if __name__ == "__main__":
    import sys
    out = main(sys.argv[1] if len(sys.argv) > 1 else "/repo")
    sys.stdout.write(out["TeehistTable.v"])

#!/usr/bin/env python3
# usage: tools/mk_mut.py Cxx tag ["already tried" note]  -> creates /tmp/mut-<tag> worktree + /tmp/mut-<tag>-out, prints the prompt
import json, subprocess, sys, os
pid, tag = sys.argv[1], sys.argv[2]
note = sys.argv[3] if len(sys.argv) > 3 else ""
props = {json.loads(l)['id']: json.loads(l) for l in open('/verif/properties.jsonl')}
p = props[pid]
wt, out = f"/tmp/mut-{tag}", f"/tmp/mut-{tag}-out"
subprocess.run(["git", "-C", "/repo", "worktree", "add", "--detach", wt, "HEAD"], check=True, capture_output=True)
os.makedirs(out, exist_ok=True)
text = f"{p['title']}\n\n{p['statement']}\n\nQuantifier: {p['quantifier']}\n\nAnchors: {json.dumps(p['anchors'])}\n"
open(out + "/PROPERTY.txt", "w").write(text)
t = open('/verif/tools/mut_prompt_template.txt').read()
s = t.format(WT=wt, OUT=out, PROP=text, PID=pid)
if note:
    s += "\nAnother engineer already tried this (choose a DIFFERENT site and mechanism): " + note + "\n"
open(out + "/PROMPT.txt", "w").write(s)
print(out + "/PROMPT.txt")

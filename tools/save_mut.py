#!/usr/bin/env python3
# usage: tools/save_mut.py <tag> <seeded-dir-name> "<detection>"   (after tools/eval_mut.sh <tag> ...)
import json, sys, os, shutil, re
tag, name, detection = sys.argv[1], sys.argv[2], sys.argv[3]
out = "/tmp/mut-%s-out" % tag
dst = "/verif/seeded/" + name
os.makedirs(dst, exist_ok=True)
for f in ("patch.diff", "demo.diff"):
    shutil.copy(os.path.join(out, f), os.path.join(dst, f))
m = json.load(open(os.path.join(out, "meta.json")))
ev = open(os.path.join(out, "eval.log")).read()
rc = dict(re.findall(r"^(\w+)_rc=(\d+)$", ev, re.M))
m["confirmed_by_coordinator"] = {
    "worktree": "/tmp/mut-%s (removed)" % tag,
    "ran": ["tools/eval_mut.sh: demo with the change, the touched crate's existing tests with the change, demo with the change reverted, then LIBTW2_REPO=<worktree> ./check run"],
    "demo_fails_with_change": rc.get("demo_with_change") not in (None, "0"),
    "demo_passes_without": rc.get("demo_without_change") == "0",
    "existing_tests_pass_with_change": rc.get("lib_tests_with_change") == "0",
}
m["detected"] = rc.get("check") == "1"
m["detection"] = detection
m["check_output"] = [l[:300] for l in ev.split("## check")[-1].strip().split("\n")[:8]]
json.dump(m, open(os.path.join(dst, "meta.json"), "w"), indent=1)
print(dst, m["confirmed_by_coordinator"], m["detected"])

(* C19 driver: runs Model/Buffer.v (extracted as Buffer0: `Buffer` is OCaml's own) on the harness' cases *)
open Tw_io
open BinNums
open Buffer0

(* usize values arrive as hex (they do not fit an OCaml int) *)
let z_of_hex (s : string) : coq_Z =
  (* positive from the most significant bit down *)
  let bits = ref [] in
  String.iter (fun c ->
      let d = int_of_string ("0x" ^ String.make 1 c) in
      bits := !bits @ [d land 8 <> 0; d land 4 <> 0; d land 2 <> 0; d land 1 <> 0]) s;
  let rec strip = function false :: r -> strip r | l -> l in
  match strip !bits with
  | [] -> Z0
  | _ :: rest -> Zpos (List.fold_left (fun p b -> if b then Coq_xI p else Coq_xO p) Coq_xH rest)

let caps_of s = if s = "-" then [] else List.map z_of_hex (split_on ',' s)

(* tokens -> prog; returns the program and the tokens after the closing ")" (or []) *)
let rec parse (toks : string list) : prog * string list =
  match toks with
  | [] -> (PEnd, [])
  | ")" :: rest -> (PEnd, rest)
  | t :: rest ->
    let fields = split_on ':' t in
    let q () = String.length (List.hd fields) > 1 && (List.hd fields).[1] = 'q' in
    (match t.[0], fields with
     | 'i', _ -> let (_, after) = skip rest in (PInit, after)
     | 'f', [_; fail; _; h] -> let (_, after) = skip rest in (PReadInto (fail = "1", unhex h), after)
     | 'w', [_; h] -> let (k, after) = parse rest in (PWrite (q (), unhex h, k), after)
     | 'x', [_; h] -> let (k, after) = parse rest in (PExtend (q (), unhex h, k), after)
     | 'a', [_; n] -> let (k, after) = parse rest in (PAdvance (z_of_hex n, k), after)
     | 'p', [_; h] -> let (k, after) = parse rest in (PPoke (unhex h, k), after)
     | 'r', _ -> let (k, after) = parse rest in (PRemaining k, after)
     | 'n', [_; caps] ->
       let caps = String.sub caps 0 (String.length caps - 1) in   (* trailing "(" *)
       let (sub, after_sub) = parse rest in
       let (k, after) = parse after_sub in
       (PNested (q (), caps_of caps, sub, k), after)
     | 'R', [_; caps; fail; _; h] ->
       let (k, after) = parse rest in (PRead (caps_of caps, fail = "1", unhex h, k), after)
     | _ -> failwith ("bad token " ^ t))
(* a terminal operation is the last one of its closure *)
and skip toks = match toks with
  | [] -> ((), [])
  | ")" :: rest -> ((), rest)
  | t :: _ -> failwith ("token after a terminal operation: " ^ t)

let site_txt s =
  let s = int_of_z s in
  if s = 1909 then "!advance" else if s = 1908 then "!overflow" else if s = 1907 then "!underflow"
  else if s >= 1901 && s <= 1906 then "!index" else if s = 1910 then "!capassert" else if s = 1911 then "!setlen"
  else Printf.sprintf "!ghost%d" s

let ev_txt = function
  | EOpen n -> Printf.sprintf "o%d" (int_of_nat n)
  | EWrite ok -> if ok then "w+" else "w-"
  | EExtend (ok, k) -> Printf.sprintf "x%s%d" (if ok then "+" else "-") (int_of_nat k)
  | ERemaining n -> Printf.sprintf "r%d" (int_of_nat n)
  | EBytes bs -> "b" ^ hex bs
  | EReadErr -> "E"
  | EClose (ok, n) -> Printf.sprintf ")%s%d" (if ok then "+" else "-") (int_of_nat n)

let run = function
  | [mode; kind; data; spare; caps; prog] ->
    let base = match kind with
      | "V" -> SVec (unhex data, unhex spare)
      | "A" -> SArrayVec (unhex data, unhex spare)
      | "S" -> SSlice (unhex spare)
      | "R" -> SSliceRef (unhex spare)
      | _ -> failwith "bad store kind" in
    let store = List.fold_left (fun s c -> SCapAt (c, s)) base (caps_of caps) in
    let toks = List.filter (fun s -> s <> "") (split_on ' ' prog) in
    let (p, rest) = parse toks in
    if rest <> [] then failwith "trailing tokens";
    let r = run_store store p in
    (* reader.read_buffer(store): the library opens the view, nobody looks at remaining() *)
    let evs = match mode, r.r_evs with "read", EOpen _ :: t -> t | _, e -> e in
    let exit = match r.r_exit with XOk -> "ok" | XErr -> "err" | XPanic s -> site_txt s in
    Printf.sprintf "%s | %s | %s | %s | %s" (String.concat " " (List.map ev_txt evs)) exit
      (hex r.r_data) (hex r.r_rest) (hex r.r_acc)
  | _ -> "model-unknown-case"

let () = main_loop run

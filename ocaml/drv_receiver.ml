(* C12 driver: runs Model/Receiver.v (delta_chunks, DeltaReceiver) on the harness' cases.
   Case and result formats are described at the top of harness/src/bin/receiver.rs. *)
open Tw_io
open Res
open Receiver

let gen_byte seed j = (j * 7919 + seed * 104729 + (j / 900) * 31 + (j * j) mod 251) mod 256

let byte_tab = Array.init 256 z_of_int

let cache : (string, BinNums.coq_Z list) Hashtbl.t = Hashtbl.create 64

(* h<hex> | g<seed>.<len> *)
let data_of (s : string) : BinNums.coq_Z list =
  let body = String.sub s 1 (String.length s - 1) in
  if s.[0] = 'h' then unhex body
  else match Hashtbl.find_opt cache s with
    | Some d -> d
    | None ->
      (match split_on '.' body with
       | [seed; len] ->
         let seed = int_of_string seed and len = int_of_string len in
         let d = List.init len (fun j -> byte_tab.(gen_byte seed j)) in
         if Hashtbl.length cache > 64 then Hashtbl.reset cache;
         Hashtbl.add cache s d; d
       | _ -> failwith "data")

let fnv bs = List.fold_left (fun h b -> ((h lxor (int_of_z b)) * 0x01000193) land 0xffffffff) 0x811c9dc5 bs
let fp bs = if List.length bs <= 24 then hex bs else Printf.sprintf "#%d.%08x" (List.length bs) (fnv bs)

let zi s = z_of_int (int_of_string s)

let msg_of (s : string) : snapmsg =
  match split_on ':' s with
  | ["P"; t; dt; n; p; c; d] -> MSnap (zi t, zi dt, zi n, zi p, zi c, data_of d)
  | ["S"; t; dt; c; d] -> MSnapSingle (zi t, zi dt, zi c, data_of d)
  | ["E"; t; dt] -> MSnapEmpty (zi t, zi dt)
  | _ -> failwith ("message " ^ s)

let msg_fp = function
  | MSnap (t, dt, n, p, c, d) ->
    Printf.sprintf "P:%d:%d:%d:%d:%d:%s" (int_of_z t) (int_of_z dt) (int_of_z n) (int_of_z p) (int_of_z c) (fp d)
  | MSnapSingle (t, dt, c, d) -> Printf.sprintf "S:%d:%d:%d:%s" (int_of_z t) (int_of_z dt) (int_of_z c) (fp d)
  | MSnapEmpty (t, dt) -> Printf.sprintf "E:%d:%d" (int_of_z t) (int_of_z dt)

let outc_txt ((r, ws) : outcome) : string =
  let base = match r with
    | Ok None -> "none"
    | Ok (Some rd) ->
      (match rd.rd_data_and_crc with
       | None -> Printf.sprintf "some:%d:%d:-" (int_of_z rd.rd_delta_tick) (int_of_z rd.rd_tick)
       | Some (d, c) -> Printf.sprintf "some:%d:%d:%d:%s" (int_of_z rd.rd_delta_tick) (int_of_z rd.rd_tick) (int_of_z c) (fp d))
    | Err OldDelta -> "old"
    | Err InvalidNumParts -> "numparts"
    | Err InvalidPart -> "part"
    | Err DuplicatePart -> "dup"
    | Panic _ -> "panic"
    | OutOfFuel -> "hang" in
  base ^ String.concat "" (List.map (function DifferingAttributes -> "/A" | DuplicateSnap -> "/D") ws)

let is_index s = s <> "" && (match s.[0] with '0' .. '9' -> true | _ -> false)

let run_items (ms : snapmsg list) (items : string list) : string =
  let s = ref new_receiver in
  let outs = ref [] in
  (try
     List.iter (fun it ->
         if it = "R" then begin s := reset !s; outs := "reset" :: !outs end
         else begin
           let m = if is_index it then List.nth ms (int_of_string it) else msg_of it in
           let (s', o) = recv_step !s m in
           s := s';
           outs := outc_txt o :: !outs;
           (match fst o with Panic _ | OutOfFuel -> raise Exit | _ -> ())
         end) items
   with Exit -> ());
  if !outs = [] then "-" else String.concat " " (List.rev !outs)

let run = function
  | ["chunks"; t; b; c; d] ->
    (match delta_chunks (zi t) (zi b) (data_of d) (zi c) with
     | Ok ms -> "ok " ^ String.concat " " (List.map msg_fp ms)
     | Err _ -> "err" | Panic _ -> "panic" | OutOfFuel -> "hang")
  | "xfer" :: t :: b :: c :: d :: items ->
    let items = List.filter (fun s -> s <> "") items in
    (match delta_chunks (zi t) (zi b) (data_of d) (zi c) with
     | Ok ms -> run_items ms items
     | Err _ -> "err" | Panic _ -> "panic" | OutOfFuel -> "hang")
  | "feed" :: items ->
    let items = List.filter (fun s -> s <> "") items in
    run_items [] items
  | _ -> "model-unknown-case"

(* the model allocates long lists that die young: a large minor heap halves the run time *)
let () = Gc.set { (Gc.get ()) with Gc.minor_heap_size = 8 * 1024 * 1024 }
let () = main_loop run

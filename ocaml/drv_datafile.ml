(* C16 driver: runs Model/Datafile.v (and Model/MapReader.v) on the harness' cases.
   zlib's uncompress is a parameter of the model; here it is the finite graph the harness
   recorded by calling zlib directly (column `ztable`). *)
open Tw_io
open Res
open BinNums
open Datafile
open MapItems
open MapReader

let z = z_of_int
let zi = int_of_z

let err_txt = function
  | WrongMagic -> "WrongMagic"
  | UnsupportedVersion v -> Printf.sprintf "UnsupportedVersion(%d)" (zi v)
  | MalformedHeader -> "MalformedHeader"
  | Malformed -> "Malformed"
  | CompressionWrongSize -> "CompressionWrongSize"
  | CompressionError c -> Printf.sprintf "CompressionError(%d)" (zi c)
  | TooShort -> "TooShort"
  | TooShortHeaderVersion -> "TooShortHeaderVersion"
  | TooShortHeader -> "TooShortHeader"

exception Model_panic
exception Model_hang

(* a value or an error; panics and fuel exhaustion abort the whole case *)
let get = function
  | Ok v -> v
  | Err e -> failwith ("unexpected error " ^ err_txt e)
  | Panic _ -> raise Model_panic
  | OutOfFuel -> raise Model_hang

let words ws = if ws = [] then "-" else String.concat "." (List.map (fun w -> string_of_int (zi w)) ws)

(* ztable: "cap:srchex=ok:outhex,cap:srchex=err:code" *)
let parse_ztable s : (string, zres) Hashtbl.t =
  let t = Hashtbl.create 8 in
  if s <> "-" then
    List.iter (fun e ->
        match split_on '=' e with
        | [k; v] ->
          let r = (match split_on ':' v with
              | ["ok"; h] -> ZOk (unhex h)
              | ["err"; c] -> ZErr (z (int_of_string c))
              | _ -> failwith "ztable value") in
          Hashtbl.replace t k r
        | _ -> failwith "ztable entry") (split_on ',' s);
  t

let uncompress_of tbl = fun cap src ->
  let k = Printf.sprintf "%d:%s" (zi cap) (hex src) in
  match Hashtbl.find_opt tbl k with
  | Some r -> r
  | None -> failwith ("zlib-miss " ^ k)

let view_txt (v : item_view) =
  Printf.sprintf "%d/%d@%d+%d:%s" (zi v.iv_type) (zi v.iv_id) (zi v.iv_off) (zi v.iv_len) (words v.iv_data)

let open_dump (bytes : coq_Z list) ztable queries : string =
  match reader_new bytes with
  | Err e -> "err " ^ err_txt e
  | Panic _ -> "panic"
  | OutOfFuel -> "hang"
  | Ok r ->
    (try
       let unc = uncompress_of ztable in
       let b = Buffer.create 256 in
       Buffer.add_string b (match r.r_version with V3 -> "ok v=3" | V4Crude -> "ok v=4c" | V4 -> "ok v=4");
       let ts = get (item_types r) in
       let tt = List.map (fun t ->
           let (s, e) = get (item_type_indices r t) in
           Printf.sprintf "%d:%d-%d" (zi t) (zi s) (zi e)) ts in
       Buffer.add_string b (" types=[" ^ String.concat "," tt ^ "]");
       let its = get (items r) in
       Buffer.add_string b (" items=[" ^ String.concat ";" (List.map view_txt its) ^ "]");
       let nd = zi (get (num_data r)) in
       let ds = List.init nd (fun i ->
           match read_data unc r (z i) with
           | Ok d -> "ok:" ^ hex d
           | Err e -> "err:" ^ err_txt e
           | Panic _ -> raise Model_panic
           | OutOfFuel -> raise Model_hang) in
       Buffer.add_string b (" data=[" ^ String.concat "," ds ^ "]");
       let qs = List.map (fun q ->
           match split_on '/' q with
           | [t; id] ->
             let t = z (int_of_string t) and id = z (int_of_string id) in
             let (s, e) = get (item_type_indices r t) in
             let n = List.length (get (item_type_items r t)) in
             if n <> zi e - zi s then failwith "item_type_items length";
             let f = (match get (find_item r t id) with
                 | None -> "none"
                 | Some v -> Printf.sprintf "%d/%d@%d+%d" (zi v.iv_type) (zi v.iv_id) (zi v.iv_off) (zi v.iv_len)) in
             Printf.sprintf "%d/%d:%d-%d:%s" (zi t) (zi id) (zi s) (zi e) f
           | _ -> failwith "query") queries in
       Buffer.add_string b (" q=[" ^ String.concat "," qs ^ "]");
       Buffer.contents b
     with Model_panic -> "panic" | Model_hang -> "hang")


(* ---------------------------------------------------------------- map layer *)
let args_txt args = if args = [] then "" else "(" ^ String.concat "," (List.map (fun a -> string_of_int (zi a)) args) ^ ")"
let gk = function GTooShort -> "TooShort" | GTooShortV2 -> "TooShortV2" | GTooShortV3 -> "TooShortV3"
  | GInvalidVersion -> "InvalidVersion" | GInvalidStartLayerIndex -> "InvalidStartLayerIndex" | GInvalidNumLayers -> "InvalidNumLayers"
let sk = function STooShort -> "TooShort" | STooShortV2 -> "TooShortV2" | SInvalidVersion -> "InvalidVersion"
  | SInvalidSoundIndex -> "InvalidSoundIndex" | SInvalidNumSources -> "InvalidNumSources" | SInvalidDataIndex -> "InvalidDataIndex"
let qk = function QTooShort -> "TooShort" | QTooShortV2 -> "TooShortV2" | QInvalidVersion -> "InvalidVersion"
  | QInvalidImageIndex -> "InvalidImageIndex" | QInvalidNumQuads -> "InvalidNumQuads" | QInvalidDataIndex -> "InvalidDataIndex"
let tk_txt (k, args) =
  let a = List.map (fun a -> string_of_int (zi a)) args in
  let col c = "InvalidColor(" ^ c ^ "," ^ String.concat "," a ^ ")" in
  let n s = s ^ "(" ^ String.concat "," a ^ ")" in
  match k with
  | TTooShort -> n "TooShort" | TTooShortV2 -> n "TooShortV2" | TTooShortV3 -> n "TooShortV3"
  | TTooShortRaceTeleport -> n "TooShortRaceTeleport" | TTooShortRaceSpeedup -> n "TooShortRaceSpeedup"
  | TTooShortDdraceFront -> n "TooShortDdraceFront" | TTooShortDdraceSwitch -> n "TooShortDdraceSwitch"
  | TTooShortDdraceTune -> n "TooShortDdraceTune" | TInvalidVersion -> n "InvalidVersion"
  | TInvalidColorRed -> col "Red" | TInvalidColorGreen -> col "Green" | TInvalidColorBlue -> col "Blue" | TInvalidColorAlpha -> col "Alpha"
  | TInvalidColorEnvelopeIndex -> n "InvalidColorEnvelopeIndex" | TInvalidImageIndex -> n "InvalidImageIndex"
  | TInvalidDataIndex -> n "InvalidDataIndex" | TInvalidRaceTeleportDataIndex -> n "InvalidRaceTeleportDataIndex"
  | TInvalidRaceSpeedupDataIndex -> n "InvalidRaceSpeedupDataIndex" | TInvalidDdraceFrontDataIndex -> n "InvalidDdraceFrontDataIndex"
  | TInvalidDdraceSwitchDataIndex -> n "InvalidDdraceSwitchDataIndex" | TInvalidDdraceTuneDataIndex -> n "InvalidDdraceTuneDataIndex"
  | TInvalidFlags -> n "InvalidFlags" | TInvalidWidth -> n "InvalidWidth" | TInvalidHeight -> n "InvalidHeight"
let lk = function LTooShort -> "TooShort" | LInvalidFlags -> "InvalidFlags" | LInvalidType -> "InvalidType"
let ik = function ITooShort -> "TooShort" | IInvalidVersion -> "InvalidVersion" | IInvalidDataIndex -> "InvalidDataIndex"
  | IInvalidWidth -> "InvalidWidth" | IInvalidHeight -> "InvalidHeight" | IInvalidNameIndex -> "InvalidNameIndex"
let nk = function NTooShort -> "TooShort" | NInvalidVersion -> "InvalidVersion" | NInvalidAuthorIndex -> "InvalidAuthorIndex"
  | NInvalidVersionIndex -> "InvalidVersionIndex" | NInvalidCreditsIndex -> "InvalidCreditsIndex"
  | NInvalidLicenseIndex -> "InvalidLicenseIndex" | NInvalidSettingsIndex -> "InvalidSettingsIndex"
let mk = function
  | MInconsistentGameLayerDimensions -> "InconsistentGameLayerDimensions" | MInvalidTilesLength -> "InvalidTilesLength"
  | MInvalidTeleTilesLength -> "InvalidTeleTilesLength" | MInvalidTuneTilesLength -> "InvalidTuneTilesLength"
  | MInvalidVersion -> "InvalidVersion" | MMalformedImageName -> "MalformedImageName"
  | MInvalidTilesDimensions -> "InvalidTilesDimensions" | MEmptyVersion -> "EmptyVersion" | MMissingVersion -> "MissingVersion"
  | MMissingInfo -> "MissingInfo" | MInvalidStringMissingNullTermination -> "InvalidStringMissingNullTermination"
  | MInvalidStringNullTermination -> "InvalidStringNullTermination"
  | MInvalidSettingsMissingNullTermination -> "InvalidSettingsMissingNullTermination"
  | MNoGameLayer -> "NoGameLayer" | MTooManyGameGroups -> "TooManyGameGroups" | MTooManyGameLayers -> "TooManyGameLayers"
let layer_err_txt = function
  | LE_Tilemap e -> "Tilemap(" ^ tk_txt e ^ ")"
  | LE_Quads (k, a) -> "Quads(" ^ qk k ^ args_txt a ^ ")"
  | LE_Sounds (k, a) -> "DdraceSounds(" ^ sk k ^ args_txt a ^ ")"
  | LE_Own (k, a) -> lk k ^ args_txt a
let map_err_txt = function
  | ME_Group (i, (k, a)) -> Printf.sprintf "Group(%d,%s%s)" (zi i) (gk k) (args_txt a)
  | ME_Layer (i, e) -> Printf.sprintf "Layer(%d,%s)" (zi i) (layer_err_txt e)
  | ME_Image (i, (k, a)) -> Printf.sprintf "Image(%d,%s%s)" (zi i) (ik k) (args_txt a)
  | ME_Info (k, a) -> Printf.sprintf "Info(%s%s)" (nk k) (args_txt a)
  | ME_Own (k, a) -> mk k ^ args_txt a
  | ME_Df e -> "Df(" ^ err_txt e ^ ")"

(* value or map error as text; panics / fuel abort the case *)
let mres (f : 'a -> string) = function
  | Ok v -> f v
  | Err e -> map_err_txt e
  | Panic _ -> raise Model_panic
  | OutOfFuel -> raise Model_hang
let mres2 ok bad = function
  | Ok v -> ok v
  | Err e -> bad (map_err_txt e)
  | Panic _ -> raise Model_panic
  | OutOfFuel -> raise Model_hang
let mget = function
  | Ok v -> v
  | Err e -> failwith ("unexpected map error " ^ map_err_txt e)
  | Panic _ -> raise Model_panic
  | OutOfFuel -> raise Model_hang

let opt_txt = function Some v -> string_of_int (zi v) | None -> "n"
let group_txt (g : group) =
  let (s, e) = g.g_layers in
  Printf.sprintf "G(%d,%d,%d,%d,%d-%d,%s,%s)" (zi g.g_offset_x) (zi g.g_offset_y) (zi g.g_parallax_x) (zi g.g_parallax_y)
    (zi s) (zi e)
    (match g.g_clipping with Some (((x, y), w), h) -> Printf.sprintf "%d.%d.%d.%d" (zi x) (zi y) (zi w) (zi h) | None -> "n")
    (hex g.g_name)
let tilemap_txt (t : tilemap) =
  let ty = match t.tm_type with
    | TNormal ((((r, g), b), a), env, image, data) ->
      Printf.sprintf "Normal(%d.%d.%d.%d,%s,%s,%d)" (zi r) (zi g) (zi b) (zi a)
        (match env with Some (e, o) -> Printf.sprintf "%d+%d" (zi e) (zi o) | None -> "n") (opt_txt image) (zi data)
    | TGame d -> Printf.sprintf "Game(%d)" (zi d)
    | TTele (d, z) -> Printf.sprintf "Tele(%d,%d)" (zi d) (zi z)
    | TSpeedup (d, z) -> Printf.sprintf "Speedup(%d,%d)" (zi d) (zi z)
    | TFront (d, z) -> Printf.sprintf "Front(%d,%d)" (zi d) (zi z)
    | TSwitch (d, z) -> Printf.sprintf "Switch(%d,%d)" (zi d) (zi z)
    | TTune (d, z) -> Printf.sprintf "Tune(%d,%d)" (zi d) (zi z) in
  Printf.sprintf "Tilemap(%dx%d,%s,%s)" (zi t.tm_width) (zi t.tm_height) ty (hex t.tm_name)
let layer_txt (l : layer) =
  (if l.l_detail then "D" else "") ^
  (match l.l_t with
   | LQuads q -> Printf.sprintf "Quads(%d,%d,%s,%s)" (zi q.q_num) (zi q.q_data) (opt_txt q.q_image) (hex q.q_name)
   | LTilemap t -> tilemap_txt t
   | LSounds s -> Printf.sprintf "Sounds(%d,%d,%s,%d,%s)" (zi s.s_num) (zi s.s_data) (opt_txt s.s_sound)
                    (if s.s_legacy then 1 else 0) (hex s.s_name))

let range lo hi = List.init (max 0 (hi - lo)) (fun k -> lo + k)

let map_dump (bytes : coq_Z list) ztable : string =
  match reader_new bytes with
  | Err e -> "err " ^ err_txt e
  | Panic _ -> "panic"
  | OutOfFuel -> "hang"
  | Ok r ->
    (try
       let unc = uncompress_of ztable in
       let b = Buffer.create 512 in
       Buffer.add_string b ("version=" ^ mres (fun v -> string_of_int (zi v)) (map_version r));
       Buffer.add_string b (" check=" ^ mres (fun _ -> "ok") (map_check_version r));
       Buffer.add_string b (" info=" ^ mres (fun (i : info) ->
           Printf.sprintf "(%s,%s,%s,%s,%s)" (opt_txt i.in_author) (opt_txt i.in_version) (opt_txt i.in_credits)
             (opt_txt i.in_license) (opt_txt i.in_settings)) (map_info r));
       let (gs, ge) = mget (map_group_indices r) in
       let jobs = ref [] in
       let gtxt = List.map (fun i ->
           match map_group r (z i) with
           | Ok g ->
             let (ls, le) = g.g_layers in
             let ltxt = List.map (fun k ->
                 match map_layer r (z k) with
                 | Ok l ->
                   (match l.l_t with
                    | LTilemap t ->
                      let ds = (match t.tm_type with
                          | TNormal (_, _, _, d) -> [d] | TGame d -> [d]
                          | TTele (a, c) | TSpeedup (a, c) | TFront (a, c) | TSwitch (a, c) | TTune (a, c) -> [a; c]) in
                      jobs := (t, ds) :: !jobs
                    | _ -> ());
                   Printf.sprintf "%d:%s" k (layer_txt l)
                 | Err e -> Printf.sprintf "%d:%s" k (map_err_txt e)
                 | Panic _ -> raise Model_panic | OutOfFuel -> raise Model_hang) (range (zi ls) (zi le)) in
             Printf.sprintf "%d:%s[%s]" i (group_txt g) (String.concat ";" ltxt)
           | Err e -> Printf.sprintf "%d:%s" i (map_err_txt e)
           | Panic _ -> raise Model_panic | OutOfFuel -> raise Model_hang) (range (zi gs) (zi ge)) in
       Buffer.add_string b (Printf.sprintf " groups=%d-%d[%s]" (zi gs) (zi ge) (String.concat "|" gtxt));
       let (is, ie) = get (item_type_indices r coq_MAP_ITEMTYPE_IMAGE) in
       let itxt = List.map (fun i ->
           Printf.sprintf "%d:%s" i (mres (fun (im : image) ->
               Printf.sprintf "I(%dx%d,%d,%s)" (zi im.im_width) (zi im.im_height) (zi im.im_name) (opt_txt im.im_data))
               (map_image r (z i)))) (range (zi is) (zi ie)) in
       Buffer.add_string b (Printf.sprintf " images=%d-%d[%s]" (zi is) (zi ie) (String.concat "|" itxt));
       Buffer.add_string b (" game=" ^ mres (fun (g : game_layers) ->
           Printf.sprintf "%dx%d,%d,%s,%s,%s,%s,%s,%s" (zi g.gm_width) (zi g.gm_height) (zi g.gm_game) (opt_txt g.gm_tele)
             (opt_txt g.gm_speedup) (opt_txt g.gm_front) (opt_txt g.gm_switch) (opt_txt g.gm_tune) (group_txt g.gm_group))
           (map_game_layers r));
       let nd = zi (get (num_data r)) in
       let dtxt = List.map (fun i ->
           let i = z i in
           let p tag ok x = mres2 (fun v -> tag ^ ":" ^ ok v) (fun e -> tag ^ "!" ^ e) x in
           let cnt v = string_of_int (zi v) in
           String.concat " " [
             p "s" hex (map_string unc r i);
             p "n" hex (map_image_name unc r i);
             p "c" (fun raw -> String.concat "." (List.map hex (mget (map_settings_list raw)))) (map_settings unc r i);
             p "t" cnt (map_tiles_raw unc size_of_Tile MInvalidTilesLength r i);
             p "e" cnt (map_tiles_raw unc size_of_TeleTile MInvalidTeleTilesLength r i);
             p "p" cnt (map_tiles_raw unc size_of_SpeedupTile MInvalidTeleTilesLength r i);
             p "w" cnt (map_tiles_raw unc size_of_SwitchTile MInvalidTeleTilesLength r i);
             p "u" cnt (map_tiles_raw unc size_of_TuneTile MInvalidTuneTilesLength r i);
             p "i" (fun d -> string_of_int (List.length d)) (map_read unc r i) ]) (range 0 nd) in
       Buffer.add_string b (" data=[" ^ String.concat "|" dtxt ^ "]");
       let ttxt = List.concat_map (fun ((t : tilemap), ds) ->
           List.map (fun d ->
               let sh size bad = mres (fun (h, w) -> Printf.sprintf "(%d,%d)" (zi h) (zi w))
                   (map_tiles unc size bad r d t.tm_width t.tm_height) in
               Printf.sprintf "%dx%d@%d:%s/%s/%s/%s/%s" (zi t.tm_width) (zi t.tm_height) (zi d)
                 (sh size_of_Tile MInvalidTilesLength) (sh size_of_TeleTile MInvalidTeleTilesLength)
                 (sh size_of_SpeedupTile MInvalidTeleTilesLength) (sh size_of_SwitchTile MInvalidTeleTilesLength)
                 (sh size_of_TuneTile MInvalidTuneTilesLength)) ds) (List.rev !jobs) in
       Buffer.add_string b (" tiles=[" ^ String.concat "|" ttxt ^ "]");
       Buffer.contents b
     with Model_panic -> "panic" | Model_hang -> "hang")

(* ser: items "tid/id:payloadhex;..." ; datas "rawhex>storedhex,..." *)
let parse_items s =
  if s = "-" then [] else
    List.map (fun e ->
        match split_on ':' e with
        | [k; p] ->
          (match split_on '/' k with
           | [t; id] -> (z (int_of_string t), (z (int_of_string id), words_of_bytes (unhex p)))
           | _ -> failwith "item key")
        | _ -> failwith "item") (split_on ';' s)

let parse_datas s =
  if s = "-" then [] else
    List.map (fun e ->
        match split_on '>' e with
        | [raw; st] -> (unhex st, z (List.length (unhex raw)))
        | _ -> failwith "data") (split_on ',' s)

let run = function
  | ["ser"; v; crude; items; datas] ->
    let gs = group_items (parse_items items) in
    hex (serialize_stored (z (int_of_string v)) (crude = "1") gs (parse_datas datas))
  | ["open"; h; zt; qs] ->
    open_dump (unhex h) (parse_ztable zt) (List.filter (fun s -> s <> "") (split_on ',' qs))
  | ["map"; h; zt] -> map_dump (unhex h) (parse_ztable zt)
  | _ -> "model-unknown-case"

let () = main_loop run

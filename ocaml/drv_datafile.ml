(* C16 driver: runs Model/Datafile.v (and Model/MapReader.v) on the harness' cases.
   zlib's uncompress is a parameter of the model; here it is the finite graph the harness
   recorded by calling zlib directly (column `ztable`). *)
open Tw_io
open Res
open BinNums
open Datafile

let z = z_of_int
let zi = int_of_z

let err_txt = function
  | WrongMagic -> "WrongMagic"
  | UnsupportedVersion v -> Printf.sprintf "UnsupportedVersion(%d)" (zi v)
  | MalformedHeader -> "MalformedHeader"
  | Malformed -> "Malformed"
  | CompressionWrongSize -> "CompressionWrongSize"
  | CompressionError c -> Printf.sprintf "CompressionError(%d)" (zi c)
  | TooShort -> "TooShort"
  | TooShortHeaderVersion -> "TooShortHeaderVersion"
  | TooShortHeader -> "TooShortHeader"

exception Model_panic
exception Model_hang

(* a value or an error; panics and fuel exhaustion abort the whole case *)
let get = function
  | Ok v -> v
  | Err e -> failwith ("unexpected error " ^ err_txt e)
  | Panic _ -> raise Model_panic
  | OutOfFuel -> raise Model_hang

let words ws = if ws = [] then "-" else String.concat "." (List.map (fun w -> string_of_int (zi w)) ws)

(* ztable: "cap:srchex=ok:outhex,cap:srchex=err:code" *)
let parse_ztable s : (string, zres) Hashtbl.t =
  let t = Hashtbl.create 8 in
  if s <> "-" then
    List.iter (fun e ->
        match split_on '=' e with
        | [k; v] ->
          let r = (match split_on ':' v with
              | ["ok"; h] -> ZOk (unhex h)
              | ["err"; c] -> ZErr (z (int_of_string c))
              | _ -> failwith "ztable value") in
          Hashtbl.replace t k r
        | _ -> failwith "ztable entry") (split_on ',' s);
  t

let uncompress_of tbl = fun cap src ->
  let k = Printf.sprintf "%d:%s" (zi cap) (hex src) in
  match Hashtbl.find_opt tbl k with
  | Some r -> r
  | None -> failwith ("zlib-miss " ^ k)

let view_txt (v : item_view) =
  Printf.sprintf "%d/%d@%d+%d:%s" (zi v.iv_type) (zi v.iv_id) (zi v.iv_off) (zi v.iv_len) (words v.iv_data)

let open_dump (bytes : coq_Z list) ztable queries : string =
  match reader_new bytes with
  | Err e -> "err " ^ err_txt e
  | Panic _ -> "panic"
  | OutOfFuel -> "hang"
  | Ok r ->
    (try
       let unc = uncompress_of ztable in
       let b = Buffer.create 256 in
       Buffer.add_string b (match r.r_version with V3 -> "ok v=3" | V4Crude -> "ok v=4c" | V4 -> "ok v=4");
       let ts = get (item_types r) in
       let tt = List.map (fun t ->
           let (s, e) = get (item_type_indices r t) in
           Printf.sprintf "%d:%d-%d" (zi t) (zi s) (zi e)) ts in
       Buffer.add_string b (" types=[" ^ String.concat "," tt ^ "]");
       let its = get (items r) in
       Buffer.add_string b (" items=[" ^ String.concat ";" (List.map view_txt its) ^ "]");
       let nd = zi (get (num_data r)) in
       let ds = List.init nd (fun i ->
           match read_data unc r (z i) with
           | Ok d -> "ok:" ^ hex d
           | Err e -> "err:" ^ err_txt e
           | Panic _ -> raise Model_panic
           | OutOfFuel -> raise Model_hang) in
       Buffer.add_string b (" data=[" ^ String.concat "," ds ^ "]");
       let qs = List.map (fun q ->
           match split_on '/' q with
           | [t; id] ->
             let t = z (int_of_string t) and id = z (int_of_string id) in
             let (s, e) = get (item_type_indices r t) in
             let n = List.length (get (item_type_items r t)) in
             if n <> zi e - zi s then failwith "item_type_items length";
             let f = (match get (find_item r t id) with
                 | None -> "none"
                 | Some v -> Printf.sprintf "%d/%d@%d+%d" (zi v.iv_type) (zi v.iv_id) (zi v.iv_off) (zi v.iv_len)) in
             Printf.sprintf "%d/%d:%d-%d:%s" (zi t) (zi id) (zi s) (zi e) f
           | _ -> failwith "query") queries in
       Buffer.add_string b (" q=[" ^ String.concat "," qs ^ "]");
       Buffer.contents b
     with Model_panic -> "panic" | Model_hang -> "hang")

(* ser: items "tid/id:payloadhex;..." ; datas "rawhex>storedhex,..." *)
let parse_items s =
  if s = "-" then [] else
    List.map (fun e ->
        match split_on ':' e with
        | [k; p] ->
          (match split_on '/' k with
           | [t; id] -> (z (int_of_string t), (z (int_of_string id), words_of_bytes (unhex p)))
           | _ -> failwith "item key")
        | _ -> failwith "item") (split_on ';' s)

let parse_datas s =
  if s = "-" then [] else
    List.map (fun e ->
        match split_on '>' e with
        | [raw; st] -> (unhex st, z (List.length (unhex raw)))
        | _ -> failwith "data") (split_on ',' s)

let run = function
  | ["ser"; v; crude; items; datas] ->
    let gs = group_items (parse_items items) in
    hex (serialize_stored (z (int_of_string v)) (crude = "1") gs (parse_datas datas))
  | ["open"; h; zt; qs] ->
    open_dump (unhex h) (parse_ztable zt) (List.filter (fun s -> s <> "") (split_on ',' qs))
  | _ -> "model-unknown-case"

let () = main_loop run

(* C05 / C06 driver: runs Model/Packet6.v, Model/Packet7.v, Gen/Bits6.v, Gen/Bits7.v and
   PacketBase.utf8_valid on the cases of harness/src/bin/packet.rs.
   Huffman: the packet models take the coder as a parameter; here the parameter is the answer
   the REAL coder gave for exactly this call, handed over by the harness on the case line
   (fields hc / hd: hex, "!" = CapacityError, "." = no call expected). A call the harness did
   not announce makes the case fail ("model-failure unexpected huffman call"). *)
open Tw_io
open BinNums
open Datatypes
open Res
open PacketTypes
open PacketBase

(* ---------- text ---------- *)

let fnv (s : string) : int =
  let h = ref 0x811c9dc5 in
  String.iter (fun c -> h := ((!h lxor Char.code c) * 16777619) land 0xFFFFFFFF) s;
  !h

let join = function [] -> "-" | xs -> String.concat "," xs

let w6 = function
  | Consts6.W6ChunkHeaderPadding -> "ChunkHeaderPadding"
  | Consts6.W6ChunkHeaderSequence -> "ChunkHeaderSequence"
  | Consts6.W6ChunksNoChunks -> "ChunksNoChunks"
  | Consts6.W6ChunksNumChunks -> "ChunksNumChunks"
  | Consts6.W6ChunksUnknownData -> "ChunksUnknownData"
  | Consts6.W6ConnlessPadding -> "ConnlessPadding"
  | Consts6.W6ControlConnectMissingTokenMagic -> "ControlConnectMissingTokenMagic"
  | Consts6.W6ControlExcessData -> "ControlExcessData"
  | Consts6.W6ControlFlags -> "ControlFlags"
  | Consts6.W6ControlNulTermination -> "ControlNulTermination"
  | Consts6.W6ControlNumChunks -> "ControlNumChunks"
  | Consts6.W6PacketHeaderPadding -> "PacketHeaderPadding"
let e6 = function
  | Consts6.E6Compression -> "Compression"
  | Consts6.E6ControlMissing -> "ControlMissing"
  | Consts6.E6ShortConnless -> "ShortConnless"
  | Consts6.E6TokenMissing -> "TokenMissing"
  | Consts6.E6TooLong -> "TooLong"
  | Consts6.E6TooShort -> "TooShort"
  | Consts6.E6UnknownControl -> "UnknownControl"
let w7 = function
  | Consts7.W7ChunkHeaderPadding -> "ChunkHeaderPadding"
  | Consts7.W7ChunksNoChunks -> "ChunksNoChunks"
  | Consts7.W7ChunksNumChunks -> "ChunksNumChunks"
  | Consts7.W7ChunksUnknownData -> "ChunksUnknownData"
  | Consts7.W7ConnlessFlags -> "ConnlessFlags"
  | Consts7.W7ControlExcessData -> "ControlExcessData"
  | Consts7.W7ControlFlags -> "ControlFlags"
  | Consts7.W7ControlNulTermination -> "ControlNulTermination"
  | Consts7.W7ControlNumChunks -> "ControlNumChunks"
  | Consts7.W7PacketHeaderPadding -> "PacketHeaderPadding"
let e7 = function
  | Consts7.E7Compression -> "Compression"
  | Consts7.E7ControlMissing -> "ControlMissing"
  | Consts7.E7ControlResponseTokenMissing -> "ControlResponseTokenMissing"
  | Consts7.E7ControlTokenRequestTooShort -> "ControlTokenRequestTooShort"
  | Consts7.E7TooLong -> "TooLong"
  | Consts7.E7TooShort -> "TooShort"
  | Consts7.E7UnknownConnlessVersion -> "UnknownConnlessVersion"
  | Consts7.E7UnknownControl -> "UnknownControl"

let view_txt (v : view) =
  Printf.sprintf "%s%d+%d" (match v.v_src with Input -> "I" | Scratch -> "S") (int_of_nat v.v_off) (int_of_nat v.v_len)
let views vs = join (List.map view_txt vs)

let zi = int_of_z
let b01 b = if b then 1 else 0

let txt6 = function
  | P6Connless d -> "L:" ^ hex d
  | P6Connected (ack, tok, ty) ->
    let t = match tok with Some t -> hex t | None -> "-" in
    let y = match ty with
      | P6Chunks (r, n, d) -> Printf.sprintf "H:%d:%d:%s" (b01 r) (zi n) (hex d)
      | P6Control C6KeepAlive -> "K" | P6Control C6Connect -> "N" | P6Control C6ConnectAccept -> "M"
      | P6Control C6Accept -> "A" | P6Control (C6Close r) -> "X:" ^ hex r in
    Printf.sprintf "C:%d:%s:%s" (zi ack) t y

let txt7 = function
  | P7Connless (d, tok, rtok) -> Printf.sprintf "L:%s:%s:%s" (hex tok) (hex rtok) (hex d)
  | P7Connected (ack, tok, ty) ->
    let y = match ty with
      | P7Chunks (r, n, d) -> Printf.sprintf "H:%d:%d:%s" (b01 r) (zi n) (hex d)
      | P7Control C7KeepAlive -> "K" | P7Control (C7Connect rt) -> "N:" ^ hex rt
      | P7Control C7Accept -> "A" | P7Control (C7Close r) -> "X:" ^ hex r
      | P7Control (C7Token rt) -> "T:" ^ hex rt in
    Printf.sprintf "C:%d:%s:%s" (zi ack) (hex tok) y

let zs s = z_of_int (int_of_string s)

let parse6 (s : string) : packet6 =
  match split_on ':' s with
  | ["L"; d] -> P6Connless (unhex d)
  | "C" :: ack :: tok :: ty ->
    let tok = if tok = "-" then None else Some (unhex tok) in
    let ty = match ty with
      | ["H"; r; n; d] -> P6Chunks (r = "1", zs n, unhex d)
      | ["K"] -> P6Control C6KeepAlive | ["N"] -> P6Control C6Connect | ["M"] -> P6Control C6ConnectAccept
      | ["A"] -> P6Control C6Accept | ["X"; r] -> P6Control (C6Close (unhex r))
      | _ -> failwith "packet type" in
    P6Connected (zs ack, tok, ty)
  | _ -> failwith "packet"

let parse7 (s : string) : packet7 =
  match split_on ':' s with
  | ["L"; tok; rtok; d] -> P7Connless (unhex d, unhex tok, unhex rtok)
  | "C" :: ack :: tok :: ty ->
    let ty = match ty with
      | ["H"; r; n; d] -> P7Chunks (r = "1", zs n, unhex d)
      | ["K"] -> P7Control C7KeepAlive | ["N"; rt] -> P7Control (C7Connect (unhex rt))
      | ["A"] -> P7Control C7Accept | ["X"; r] -> P7Control (C7Close (unhex r))
      | ["T"; rt] -> P7Control (C7Token (unhex rt))
      | _ -> failwith "packet type" in
    P7Connected (zs ack, unhex tok, ty)
  | _ -> failwith "packet"

(* the coder parameter: the answer of the real coder from the side channel; for short inputs the
   extracted model of the coder (Model/PacketInst.v = Model/Huffman.v over the built-in table) is run
   as well and must give the same answer *)
let huff_side (side : string) : bytes option =
  if side = "." then failwith "unexpected huffman call"
  else if side = "!" then None
  else if side = "P" then failwith "real huffman coder panicked"
  else Some (unhex side)

let cross_limit = 160
let none_seen = ref 0

let huff_c (side : string) : bytes -> nat -> bytes option =
  fun x cap ->
    let s = huff_side side in
    if List.length x <= cross_limit && PacketInst.tw_comp x cap <> s then failwith "huffman model disagrees (compress)";
    s

let huff_d (side : string) : bytes -> nat -> bytes option =
  fun y cap ->
    let s = huff_side side in
    (* a capacity error means decoding until the buffer is full: check only every 256th of those *)
    let sample = (match s with Some d -> List.length d <= 400 | None -> (incr none_seen; !none_seen land 255 = 0)) in
    if List.length y <= cross_limit && sample
       && PacketInst.tw_decomp y cap <> s then failwith "huffman model disagrees (decompress)";
    s

let hint_of = function "n" -> None | "t" -> Some true | _ -> Some false

let wres_txt = function
  | (out, Ok _) -> "ok " ^ hex out
  | (_, Err Consts6.WE6TooLongData) -> "toolong"
  | (out, Err Consts6.WE6Capacity) -> "cap " ^ hex out
  | (_, Panic _) -> "panic"
  | (_, OutOfFuel) -> "hang"
let wres_txt7 = function
  | (out, Ok _) -> "ok " ^ hex out
  | (_, Err Consts7.WE7TooLongData) -> "toolong"
  | (out, Err Consts7.WE7Capacity) -> "cap " ^ hex out
  | (_, Panic _) -> "panic"
  | (_, OutOfFuel) -> "hang"

let rres_txt6 (ws, r) =
  match r with
  | Ok (p, vs) -> Printf.sprintf "ok %s w=%s v=%s c=%d%d%d" (txt6 p) (join (List.map w6 ws)) (views vs)
                    (b01 (Packet6.coq_K05_6 p)) (b01 (Packet6.coq_K06_6 p)) (b01 (Packet6.expressible6 p))
  | Err e -> Printf.sprintf "err %s w=%s" (e6 e) (join (List.map w6 ws))
  | Panic _ -> "panic"
  | OutOfFuel -> "hang"
let rres_txt7 (ws, r) =
  match r with
  | Ok (p, vs) -> Printf.sprintf "ok %s w=%s v=%s c=%d%d%d%d" (txt7 p) (join (List.map w7 ws)) (views vs)
                    (b01 (Packet7.coq_K05_7 p)) (b01 (Packet7.coq_K06_7 p)) (b01 (Packet7.coq_K06T_7 p)) (b01 (Packet7.expressible7 p))
  | Err e -> Printf.sprintf "err %s w=%s" (e7 e) (join (List.map w7 ws))
  | Panic _ -> "panic"
  | OutOfFuel -> "hang"

let vital_txt = function
  | Some (s, r) -> Printf.sprintf "%d/%d" (zi s) (b01 r)
  | None -> "-"
let vital_of s =
  if s = "-" then None else
    match split_on '/' s with
    | [a; b] -> Some (zs a, b = "1")
    | _ -> failwith "vital"

let chunk_item ((c : chunk), (v : view)) =
  Printf.sprintf "%d+%d:%s" (int_of_nat v.v_off) (int_of_nat v.v_len) (vital_txt c.ch_vital)

let cres_txt = function
  | (out, Ok _) -> "ok " ^ hex out
  | (out, Err _) -> "cap " ^ hex out
  | (_, Panic _) -> "panic"
  | (_, OutOfFuel) -> "hang"

(* ---------- headers ---------- *)

let z3 b i = List.nth b i
let pk f = function Ok p -> hex (f p) | Panic _ -> "panic" | _ -> "?"
let tokz (h : string) : coq_Z list = unhex h

let hu kind (b : coq_Z list) : string =
  match kind with
  | "ph6" ->
    let (h, ws) = Bits6.coq_PacketHeaderPacked6_unpack_warn
        { Bits6.php6_flags_padding_ack = z3 b 0; php6_ack = z3 b 1; php6_num_chunks = z3 b 2 } in
    Printf.sprintf "%d,%d,%d w=%s r=%s" (zi h.Bits6.ph6_flags) (zi h.Bits6.ph6_ack) (zi h.Bits6.ph6_num_chunks)
      (join (List.map w6 ws)) (pk Bits6.coq_PacketHeaderPacked6_as_bytes (Bits6.coq_PacketHeader6_pack h))
  | "ch6" ->
    let (h, ws) = Bits6.coq_ChunkHeaderPacked6_unpack_warn { Bits6.chp6_flags_size = z3 b 0; chp6_padding_size = z3 b 1 } in
    Printf.sprintf "%d,%d w=%s r=%s" (zi h.Bits6.ch6_flags) (zi h.Bits6.ch6_size)
      (join (List.map w6 ws)) (pk Bits6.coq_ChunkHeaderPacked6_as_bytes (Bits6.coq_ChunkHeader6_pack h))
  | "chv6" ->
    let (h, ws) = Bits6.coq_ChunkHeaderVitalPacked6_unpack_warn
        { Bits6.chvp6_flags_size = z3 b 0; chvp6_sequence_size = z3 b 1; chvp6_sequence = z3 b 2 } in
    Printf.sprintf "%d,%d,%d w=%s r=%s" (zi h.Bits6.chv6_h.Bits6.ch6_flags) (zi h.Bits6.chv6_h.Bits6.ch6_size) (zi h.Bits6.chv6_sequence)
      (join (List.map w6 ws)) (pk Bits6.coq_ChunkHeaderVitalPacked6_as_bytes (Bits6.coq_ChunkHeaderVital6_pack h))
  | "ph7" ->
    (match Bits7.coq_PacketHeaderPacked7_of_bytes b with
     | Some (hp, _) ->
       let (h, ws) = Bits7.coq_PacketHeaderPacked7_unpack_warn hp in
       Printf.sprintf "%d,%d,%d,%s w=%s r=%s" (zi h.Bits7.ph7_flags) (zi h.Bits7.ph7_ack) (zi h.Bits7.ph7_num_chunks) (hex h.Bits7.ph7_token)
         (join (List.map w7 ws)) (pk Bits7.coq_PacketHeaderPacked7_as_bytes (Bits7.coq_PacketHeader7_pack h))
     | None -> "short")
  | "phc7" ->
    (match Bits7.coq_PacketHeaderConnlessPacked7_of_bytes b with
     | Some (hp, _) ->
       let (h, ws) = Bits7.coq_PacketHeaderConnlessPacked7_unpack_warn hp in
       Printf.sprintf "%d,%d,%s,%s w=%s r=%s" (zi h.Bits7.phc7_flags) (zi h.Bits7.phc7_version) (hex h.Bits7.phc7_token) (hex h.Bits7.phc7_response_token)
         (join (List.map w7 ws)) (pk Bits7.coq_PacketHeaderConnlessPacked7_as_bytes (Bits7.coq_PacketHeaderConnless7_pack h))
     | None -> "short")
  | "ch7" ->
    let (h, ws) = Bits7.coq_ChunkHeaderPacked7_unpack_warn { Bits7.chp7_flags_size = z3 b 0; chp7_padding_size = z3 b 1 } in
    Printf.sprintf "%d,%d w=%s r=%s" (zi h.Bits7.ch7_flags) (zi h.Bits7.ch7_size)
      (join (List.map w7 ws)) (pk Bits7.coq_ChunkHeaderPacked7_as_bytes (Bits7.coq_ChunkHeader7_pack h))
  | "chv7" ->
    let (h, ws) = Bits7.coq_ChunkHeaderVitalPacked7_unpack_warn
        { Bits7.chvp7_flags_size = z3 b 0; chvp7_sequence_size = z3 b 1; chvp7_sequence = z3 b 2 } in
    Printf.sprintf "%d,%d,%d w=%s r=%s" (zi h.Bits7.chv7_h.Bits7.ch7_flags) (zi h.Bits7.chv7_h.Bits7.ch7_size) (zi h.Bits7.chv7_sequence)
      (join (List.map w7 ws)) (pk Bits7.coq_ChunkHeaderVitalPacked7_as_bytes (Bits7.coq_ChunkHeaderVital7_pack h))
  | _ -> failwith "header kind"

(* fields arrive as strings (tokens as 8 hex digits) *)
let hp kind (f : string list) : string =
  let n i = zs (List.nth f i) in
  match kind with
  | "ph6" ->
    (match Bits6.coq_PacketHeader6_pack { Bits6.ph6_flags = n 0; ph6_ack = n 1; ph6_num_chunks = n 2 } with
     | Ok p ->
       let (u, ws) = Bits6.coq_PacketHeaderPacked6_unpack_warn p in
       Printf.sprintf "%s b=%d,%d,%d w=%s" (hex (Bits6.coq_PacketHeaderPacked6_as_bytes p))
         (zi u.Bits6.ph6_flags) (zi u.Bits6.ph6_ack) (zi u.Bits6.ph6_num_chunks) (join (List.map w6 ws))
     | _ -> "panic")
  | "ch6" ->
    (match Bits6.coq_ChunkHeader6_pack { Bits6.ch6_flags = n 0; ch6_size = n 1 } with
     | Ok p ->
       let (u, ws) = Bits6.coq_ChunkHeaderPacked6_unpack_warn p in
       Printf.sprintf "%s b=%d,%d w=%s" (hex (Bits6.coq_ChunkHeaderPacked6_as_bytes p))
         (zi u.Bits6.ch6_flags) (zi u.Bits6.ch6_size) (join (List.map w6 ws))
     | _ -> "panic")
  | "chv6" ->
    (match Bits6.coq_ChunkHeaderVital6_pack { Bits6.chv6_h = { Bits6.ch6_flags = n 0; ch6_size = n 1 }; chv6_sequence = n 2 } with
     | Ok p ->
       let (u, ws) = Bits6.coq_ChunkHeaderVitalPacked6_unpack_warn p in
       Printf.sprintf "%s b=%d,%d,%d w=%s" (hex (Bits6.coq_ChunkHeaderVitalPacked6_as_bytes p))
         (zi u.Bits6.chv6_h.Bits6.ch6_flags) (zi u.Bits6.chv6_h.Bits6.ch6_size) (zi u.Bits6.chv6_sequence) (join (List.map w6 ws))
     | _ -> "panic")
  | "ph7" ->
    (match Bits7.coq_PacketHeader7_pack { Bits7.ph7_flags = n 0; ph7_ack = n 1; ph7_num_chunks = n 2; ph7_token = tokz (List.nth f 3) } with
     | Ok p ->
       let (u, ws) = Bits7.coq_PacketHeaderPacked7_unpack_warn p in
       Printf.sprintf "%s b=%d,%d,%d,%s w=%s" (hex (Bits7.coq_PacketHeaderPacked7_as_bytes p))
         (zi u.Bits7.ph7_flags) (zi u.Bits7.ph7_ack) (zi u.Bits7.ph7_num_chunks) (hex u.Bits7.ph7_token) (join (List.map w7 ws))
     | _ -> "panic")
  | "phc7" ->
    (match Bits7.coq_PacketHeaderConnless7_pack { Bits7.phc7_flags = n 0; phc7_version = n 1; phc7_token = tokz (List.nth f 2); phc7_response_token = tokz (List.nth f 3) } with
     | Ok p ->
       let (u, ws) = Bits7.coq_PacketHeaderConnlessPacked7_unpack_warn p in
       Printf.sprintf "%s b=%d,%d,%s,%s w=%s" (hex (Bits7.coq_PacketHeaderConnlessPacked7_as_bytes p))
         (zi u.Bits7.phc7_flags) (zi u.Bits7.phc7_version) (hex u.Bits7.phc7_token) (hex u.Bits7.phc7_response_token) (join (List.map w7 ws))
     | _ -> "panic")
  | "ch7" ->
    (match Bits7.coq_ChunkHeader7_pack { Bits7.ch7_flags = n 0; ch7_size = n 1 } with
     | Ok p ->
       let (u, ws) = Bits7.coq_ChunkHeaderPacked7_unpack_warn p in
       Printf.sprintf "%s b=%d,%d w=%s" (hex (Bits7.coq_ChunkHeaderPacked7_as_bytes p))
         (zi u.Bits7.ch7_flags) (zi u.Bits7.ch7_size) (join (List.map w7 ws))
     | _ -> "panic")
  | "chv7" ->
    (match Bits7.coq_ChunkHeaderVital7_pack { Bits7.chv7_h = { Bits7.ch7_flags = n 0; ch7_size = n 1 }; chv7_sequence = n 2 } with
     | Ok p ->
       let (u, ws) = Bits7.coq_ChunkHeaderVitalPacked7_unpack_warn p in
       Printf.sprintf "%s b=%d,%d,%d w=%s" (hex (Bits7.coq_ChunkHeaderVitalPacked7_as_bytes p))
         (zi u.Bits7.chv7_h.Bits7.ch7_flags) (zi u.Bits7.chv7_h.Bits7.ch7_size) (zi u.Bits7.chv7_sequence) (join (List.map w7 ws))
     | _ -> "panic")
  | _ -> failwith "header kind"

let rec set_nth l i v = match l with [] -> [] | x :: r -> if i = 0 then v :: r else x :: set_nth r (i - 1) v

(* ---------- chunk iterators: every chunk until None, then one more call ---------- *)

let iter6 payload nc =
  match Packet6.chunks_iter_all6 payload nc with
  | Ok ((cs, ws), it) ->
    (match Packet6.chunks_next6 it with
     | Ok ((again, it2), ws2) ->
       Printf.sprintf "%s w=%s pos=%d%s" (if cs = [] then "-" else String.concat " " (List.map chunk_item cs))
         (join (List.map w6 (ws @ ws2))) (int_of_nat it2.Packet6.ci6_pos) (if again <> None then " again" else "")
     | Panic _ -> "panic" | _ -> "hang")
  | Panic _ -> "panic"
  | _ -> "hang"

let iter7 payload nc =
  match Packet7.chunks_iter_all7 payload nc with
  | Ok ((cs, ws), it) ->
    (match Packet7.chunks_next7 it with
     | Ok ((again, it2), ws2) ->
       Printf.sprintf "%s w=%s pos=%d%s" (if cs = [] then "-" else String.concat " " (List.map chunk_item cs))
         (join (List.map w7 (ws @ ws2))) (int_of_nat it2.Packet7.ci7_pos) (if again <> None then " again" else "")
     | Panic _ -> "panic" | _ -> "hang")
  | Panic _ -> "panic"
  | _ -> "hang"

let ni s = nat_of_int (int_of_string s)

let run = function
  | ["hu"; kind; h] -> hu kind (unhex h)
  | ["hU"; kind; h; pos] ->
    let t = unhex h and pos = int_of_string pos in
    let b = Buffer.create 8192 in
    for v = 0 to 255 do
      Buffer.add_string b (hu kind (set_nth t pos (z_of_int v))); Buffer.add_char b ';'
    done;
    Printf.sprintf "%08x" (fnv (Buffer.contents b))
  | ["hp"; kind; f] -> hp kind (split_on ',' f)
  | ["hP"; kind; f; idx; n] ->
    let f = split_on ',' f and idx = int_of_string idx and n = int_of_string n in
    let b = Buffer.create 65536 in
    for v = 0 to n - 1 do
      Buffer.add_string b (hp kind (set_nth f idx (string_of_int v))); Buffer.add_char b ';'
    done;
    Printf.sprintf "%08x" (fnv (Buffer.contents b))
  | ["w6"; cap; p; side] -> wres_txt (Packet6.write6_full (huff_c side) (parse6 p) (ni cap))
  | ["w7"; cap; p; side] -> wres_txt7 (Packet7.write7_full (huff_c side) (parse7 p) (ni cap))
  | ["r6"; hint; cap; h; side] -> rres_txt6 (Packet6.read6 (huff_d side) (unhex h) (hint_of hint) (ni cap))
  | ["rp6"; hint; h] -> rres_txt6 (Packet6.read_nodecomp6 (unhex h) (hint_of hint))
  | ["rD6"; hint; cap; h; side] ->
    let pre = unhex h and b = Buffer.create 16384 and capn = ni cap and hn = hint_of hint and hf = huff_d side in
    for v = 0 to 255 do
      Buffer.add_string b (rres_txt6 (Packet6.read6 hf (pre @ [z_of_int v]) hn capn));
      Buffer.add_char b ';'
    done;
    Printf.sprintf "%08x" (fnv (Buffer.contents b))
  | ["r7"; cap; h; side] -> rres_txt7 (Packet7.read7 (huff_d side) (unhex h) (ni cap))
  | ["rp7"; h] -> rres_txt7 (Packet7.read_nodecomp7 (unhex h))
  | ["it6"; nc; h] -> iter6 (unhex h) (zs nc)
  | ["it7"; nc; h] -> iter7 (unhex h) (zs nc)
  | ["wc6"; cap; v; h] -> cres_txt (Packet6.write_chunk6_full (unhex h) (vital_of v) (ni cap))
  | ["wc7"; cap; v; h] -> cres_txt (Packet7.write_chunk7_full (unhex h) (vital_of v) (ni cap))
  | ["ini6"; h] -> if Packet6.is_initial6 (unhex h) then "1" else "0"
  | ["dn6"; cap; h; side] ->
    (match Packet6.decompress_if_needed6 (huff_d side) (unhex h) (ni cap) with
     | Ok None -> "false" | Ok (Some s) -> "true " ^ hex s | Err _ -> "err" | Panic _ -> "panic" | OutOfFuel -> "hang")
  | ["dn7"; cap; h; side] ->
    (match Packet7.decompress_if_needed7 (huff_d side) (unhex h) (ni cap) with
     | Ok None -> "false" | Ok (Some s) -> "true " ^ hex s | Err _ -> "err" | Panic _ -> "panic" | OutOfFuel -> "hang")
  | ["u8"; h] ->
    let pre = unhex h in
    String.init 256 (fun v -> if utf8_valid (pre @ [z_of_int v]) then '1' else '0')
  | _ -> "model-unknown-case"

let () = main_loop run

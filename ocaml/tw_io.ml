(* glue shared by the model drivers: conversions between OCaml ints / hex text and
   the extracted inductive numbers, line reading, printing *)
open BinNums
open Datatypes

let rec pos_of_int n =
  if n = 1 then Coq_xH
  else if n land 1 = 0 then Coq_xO (pos_of_int (n lsr 1))
  else Coq_xI (pos_of_int (n lsr 1))
let z_of_int n = if n = 0 then Z0 else if n > 0 then Zpos (pos_of_int n) else Zneg (pos_of_int (- n))
let rec int_of_pos = function Coq_xH -> 1 | Coq_xO p -> 2 * int_of_pos p | Coq_xI p -> 2 * int_of_pos p + 1
let int_of_z = function Z0 -> 0 | Zpos p -> int_of_pos p | Zneg p -> - (int_of_pos p)
let rec nat_of_int n = if n <= 0 then O else S (nat_of_int (n - 1))
let rec int_of_nat = function O -> 0 | S n -> 1 + int_of_nat n
let n_of_int n = if n = 0 then N0 else Npos (pos_of_int n)
let int_of_n = function N0 -> 0 | Npos p -> int_of_pos p

let unhex (s : string) : coq_Z list =
  if s = "-" then [] else
  List.init (String.length s / 2) (fun i -> z_of_int (int_of_string ("0x" ^ String.sub s (2 * i) 2)))
let hex (bs : coq_Z list) : string =
  if bs = [] then "-" else String.concat "" (List.map (fun b -> Printf.sprintf "%02x" (int_of_z b land 255)) bs)
let unhex_ints (s : string) : int list = List.map int_of_z (unhex s)

let split_tab s = String.split_on_char '\t' s
let split_on c s = String.split_on_char c s

(* run f over every "<id>\t<case>" line of stdin, print "<id>\t<result>" *)
let main_loop (f : string list -> string) =
  let buf = Buffer.create (1 lsl 16) in
  (try
     while true do
       let line = input_line stdin in
       if line <> "" then begin
         match split_tab line with
         | id :: rest ->
           let r = (try f rest with
               | Stack_overflow -> "model-stack-overflow"
               | Failure m -> "model-failure " ^ m
               | Not_found -> "model-notfound"
               | Invalid_argument m -> "model-invalid " ^ m) in
           Buffer.add_string buf id; Buffer.add_char buf '\t'; Buffer.add_string buf r; Buffer.add_char buf '\n';
           if Buffer.length buf > 60000 then (print_string (Buffer.contents buf); Buffer.clear buf)
         | [] -> ()
       end
     done
   with End_of_file -> ());
  print_string (Buffer.contents buf)

(* C17 driver: runs Model/Teehistorian.v (extracted) on the harness' cases.
   S <sid> <hv> <hex>            -> full item text of a one-piece read
   F <sid> <hv> <policy> <sizes> -> n=.. h=<fnv64> end=..                  *)
open Tw_io
open BinNums
open Datatypes
open Res
open Packer
open TeehistTable
open Teehistorian

let zs v = string_of_int (int_of_z v)
let ints vs = String.concat "," (List.map zs vs)

let tag_name = function
  | TMessage -> "Message" | TJoin -> "Join" | TDrop -> "Drop" | TAntibot -> "Antibot"
  | TAuthInit -> "AuthInit" | TAuthLogin -> "AuthLogin" | TAuthLogout -> "AuthLogout"
  | TDdnetver -> "Ddnetver" | TDdnetverOld -> "DdnetverOld" | TJoinver6 -> "Joinver6"
  | TJoinver7 -> "Joinver7" | TPlayerFinish -> "PlayerFinish" | TPlayerName -> "PlayerName"
  | TPlayerReady -> "PlayerReady" | TPlayerRejoin -> "PlayerRejoin" | TPlayerSwap -> "PlayerSwap"
  | TPlayerTeam -> "PlayerTeam" | TTeamFinish -> "TeamFinish" | TTeamLoadFailure -> "TeamLoadFailure"
  | TTeamLoadSuccess -> "TeamLoadSuccess" | TTeamPractice -> "TeamPractice"
  | TTeamSaveFailure -> "TeamSaveFailure" | TTeamSaveSuccess -> "TeamSaveSuccess"

let field_txt = function
  | FInt v -> "i" ^ zs v
  | FStr s -> "s" ^ hex s
  | FData d -> "d" ^ hex d
  | FRaw r -> "r" ^ hex r
  | FRest r -> "t" ^ hex r

let item_txt = function
  | TickStart t -> "TS" ^ zs t
  | TickEnd t -> "TE" ^ zs t
  | PlayerNew (c, x, y) -> Printf.sprintf "PN%s,%s,%s" (zs c) (zs x) (zs y)
  | PlayerChange (c, x, y, ox, oy) -> Printf.sprintf "PC%s,%s,%s,%s,%s" (zs c) (zs x) (zs y) (zs ox) (zs oy)
  | PlayerOld (c, x, y) -> Printf.sprintf "PO%s,%s,%s" (zs c) (zs x) (zs y)
  | Input (c, v) -> Printf.sprintf "IN%s:%s" (zs c) (ints v)
  | Other (FPass (t, fs)) -> tag_name t ^ ":" ^ String.concat "|" (List.map field_txt fs)
  | Other (FConsoleCommand (c, fl, cmd, args)) ->
    Printf.sprintf "Console:%s,%s,%s,[%s]" (zs c) (zs fl) (hex cmd) (String.concat ";" (List.map hex args))
  | Other (FUnknownEx (u, d)) -> Printf.sprintf "Unknown:%s,%s" (hex u) (hex d)
  | Other _ -> "model-bad-item"

let ierr_txt = function
  | UnknownType x -> Printf.sprintf "UnknownType(%s)" (zs x)
  | NegativeDt -> "NegativeDt" | NegativeNumArgs -> "NegativeNumArgs" | NumArgsTooLarge -> "NumArgsTooLarge"

let terr_txt = function
  | EHeader c -> "Header" ^ zs c
  | EItem e -> ierr_txt e
  | EUnknownVersion -> "UnknownVersion" | ETickOverflow -> "TickOverflow" | EUnexpectedEnd -> "UnexpectedEnd"
  | EInvalidClientId -> "InvalidClientId" | EPlayerNewDuplicate -> "PlayerNewDuplicate"
  | EPlayerDiffWithoutNew -> "PlayerDiffWithoutNew" | EPlayerOldWithoutNew -> "PlayerOldWithoutNew"
  | EInputDiffWithoutNew -> "InputDiffWithoutNew"

let fin_txt = function
  | Ok r -> (match reader_cids_end r with
      | Ok e -> "END max_cid=" ^ string_of_int (int_of_z e - 1)
      | _ -> "END max_cid=panic")
  | Err (FErr e) -> "ERR:" ^ terr_txt e
  | Err (FPanic _) -> "PANIC"
  | Panic _ -> "PANIC"
  | OutOfFuel -> "HANG"

let hdr_of hv : coq_Z list -> hverdict =
  let v = if hv = "-" then HBad (z_of_int 99)
    else let n = int_of_string (String.sub hv 1 (String.length hv - 1)) in
      if hv.[0] = 'v' then HVersion (z_of_int n) else HBad (z_of_int n) in
  fun _ -> v

let fnv (s : string) : string =
  let h = ref 0xcbf29ce484222325L in
  String.iter (fun c ->
      h := Int64.logxor !h (Int64.of_int (Char.code c));
      h := Int64.mul !h 0x100000001b3L) s;
  Printf.sprintf "%016Lx" !h

let streams : (string, coq_Z list) Hashtbl.t = Hashtbl.create 64

let rec take n l = if n = 0 then [] else match l with [] -> [] | x :: r -> x :: take (n - 1) r
let rec drop n l = if n = 0 then l else match l with [] -> [] | _ :: r -> drop (n - 1) r

let session hv (sc : (bool * coq_Z list) list) =
  let (items, fin) = read_all (hdr_of hv) (fuel_for sc) sc in
  let its = List.map item_txt items in
  let f = fin_txt fin in
  let text = String.concat " " (its @ [f]) in
  (List.length its, text, f)

let run = function
  | ["S"; sid; hv; h] ->
    let bs = unhex h in
    Hashtbl.replace streams sid bs;
    let (_, text, _) = session hv [(false, bs)] in
    text
  | ["F"; sid; hv; pol; sizes] ->
    let bs = Hashtbl.find streams sid in
    let sizes = if sizes = "-" then [] else List.map int_of_string (split_on ',' sizes) in
    let rest = ref bs in
    let k = ref 0 in
    let sc = List.map (fun n ->
        let f = take n !rest in
        rest := drop n !rest;
        incr k;
        let c = match pol with "a" -> true | "x" -> !k mod 2 = 0 | _ -> false in
        (c, f)) sizes in
    let (n, text, f) = session hv sc in
    Printf.sprintf "n=%d h=%s end=%s" n (fnv text) f
  | _ -> "model-unknown-case"

let () = main_loop run

(* C18 driver: runs Model/ServerBrowse.v on the cases of harness/src/bin/serverbrowse.rs *)
open Tw_io
open BinNums
open Res
open ServerBrowse

exception Model_panic
exception Model_hang

(* decimal text of a Z of any size (received masks reach 2^64 - 1) *)
let string_of_pos p =
  let rec bits p acc = match p with
    | Coq_xH -> 1 :: acc
    | Coq_xO q -> bits q (0 :: acc)
    | Coq_xI q -> bits q (1 :: acc) in
  let bs = bits p [] in
  if List.length bs <= 60 then string_of_int (int_of_pos p)
  else begin
    let d = Array.make 40 0 in
    List.iter (fun b ->
        let c = ref b in
        for i = 0 to 39 do
          let v = d.(i) * 2 + !c in
          d.(i) <- v mod 10; c := v / 10
        done) bs;
    let i = ref 39 in
    while !i > 0 && d.(!i) = 0 do decr i done;
    let buf = Buffer.create 24 in
    for j = !i downto 0 do Buffer.add_char buf (Char.chr (48 + d.(j))) done;
    Buffer.contents buf
  end
let string_of_z = function
  | Z0 -> "0"
  | Zpos p -> string_of_pos p
  | Zneg p -> "-" ^ string_of_pos p

let siv_txt = function V5 -> "V5" | V6 -> "V6" | V6Ddper -> "V6Ddper" | V664 -> "V664" | V6Ex -> "V6Ex" | V7 -> "V7"
let opt_hex = function Some s -> hex s | None -> "none"
let opt_num = function Some v -> string_of_z v | None -> "none"

let client_txt c =
  Printf.sprintf "%s:%s:%s:%s:%s" (hex c.c_name) (hex c.c_clan)
    (string_of_z c.c_country) (string_of_z c.c_score) (string_of_z c.c_flags)
let clients_txt cs = if cs = [] then "-" else String.concat "," (List.map client_txt cs)

let info_txt_gen full i =
  Printf.sprintf "%s tok=%s ver=%s name=%s host=%s map=%s crc=%s size=%s gt=%s flags=%s prog=%s skill=%s %s/%s %s/%s [%s]"
    (siv_txt i.i_version) (string_of_z i.i_token) (hex i.i_ver) (hex i.i_name) (opt_hex i.i_hostname) (hex i.i_map)
    (if full then opt_num i.i_map_crc else "?") (if full then opt_num i.i_map_size else "?")
    (hex i.i_game_type) (string_of_z i.i_flags) (opt_num i.i_progression) (opt_num i.i_skill_level)
    (string_of_z i.i_num_players) (string_of_z i.i_max_players)
    (string_of_z i.i_num_clients) (string_of_z i.i_max_clients) (clients_txt i.i_clients)
let info_txt = info_txt_gen true
let dbg_txt = info_txt_gen false

let force = function
  | Ok v -> Some v
  | Err _ -> None
  | Panic _ -> raise Model_panic
  | OutOfFuel -> raise Model_hang

let partial_txt p =
  let g = match force (get_info p) with
    | Some (i, _) -> info_txt i
    | None -> "incomplete" in
  Printf.sprintf "recv=%s %s | %s" (string_of_z p.p_received) (dbg_txt p.p_info) g

let kind_of_name = function
  | "5" -> K5 | "6" -> K6 | "6d" -> K6Ddper | "664" -> K664 | "ex" -> K6Ex | "more" -> K6ExMore | "7" -> K7
  | s -> failwith ("kind " ^ s)

let parse_txt k payload =
  match force (parse_info k payload) with
  | None -> "none"
  | Some p -> if is_partial_kind k then partial_txt p else info_txt p.p_info

let addr_txt a = Printf.sprintf "%s:%s:%s" (if a.a_v4 then "4" else "6") (hex a.a_ip) (string_of_z a.a_port)
let addrs_txt l = if l = [] then "-" else String.concat "," (List.map addr_txt l)

let response_txt data =
  match force (parse_response data) with
  | None -> "none"
  | Some r ->
    (match r with
     | RList5 l -> "list5 " ^ addrs_txt l
     | RList6 l -> "list6 " ^ addrs_txt l
     | RList7 (o, t, l) -> Printf.sprintf "list7 %s %s %s" (hex o) (hex t) (addrs_txt l)
     | RCount n -> "count " ^ string_of_z n
     | RCount7 (o, t, n) -> Printf.sprintf "count7 %s %s %s" (hex o) (hex t) (string_of_z n)
     | RInfo5 p -> "info5 " ^ parse_txt K5 p
     | RInfo6 p -> "info6 " ^ parse_txt K6 p
     | RInfo6Ddper p -> "info6d " ^ parse_txt K6Ddper p
     | RInfo664 p -> "info664 " ^ parse_txt K664 p
     | RInfo6Ex p -> "infoex " ^ parse_txt K6Ex p
     | RInfo6ExMore p -> "infomore " ^ parse_txt K6ExMore p
     | RInfo7 (o, t, p) -> Printf.sprintf "info7 %s %s %s" (hex o) (hex t) (parse_txt K7 p)
     | RToken7 (o, t) -> Printf.sprintf "token7 %s %s" (hex o) (hex t))

let merge_code = function
  | Ok _ -> "ok"
  | Err DifferingTokens -> "tok"
  | Err DifferingVersions -> "ver"
  | Err NotMultipartVersion -> "multi"
  | Err OverlappingInfos -> "overlap"
  | Panic _ -> raise Model_panic
  | OutOfFuel -> raise Model_hang

let named : (string, psi option list) Hashtbl.t = Hashtbl.create 16

let parse_parts parts =
  if String.length parts > 0 && parts.[0] = '@' then
    Hashtbl.find named (String.sub parts 1 (String.length parts - 1))
  else begin
    let parts = List.map (fun s ->
        match String.index_opt s ':' with
        | Some k -> (kind_of_name (String.sub s 0 k), unhex (String.sub s (k + 1) (String.length s - k - 1)))
        | None -> failwith "part") (split_on ';' parts) in
    List.map (fun (k, p) -> force (parse_info k p)) parts
  end

let def_parts name parts =
  let parsed = parse_parts parts in
  Hashtbl.replace named name parsed;
  if List.exists (fun p -> p = None) parsed then "badpart" else Printf.sprintf "parts %d" (List.length parsed)

let run_merge parts ops =
  let parsed = parse_parts parts in
  if List.exists (fun p -> p = None) parsed then "badpart" else begin
    let parsed = Array.of_list (List.map (function Some p -> p | None -> assert false) parsed) in
    let ops = split_on ',' ops in
    let st = ref parsed.(int_of_string (List.hd ops)) in
    let steps = List.map (fun op ->
        let s = match op with
          | "G" -> (match force (get_info !st) with
              | Some (i, st') -> st := st'; "some(" ^ info_txt i ^ ")"
              | None -> "nope")
          | "T" -> (match force (take_info !st) with
              | Some (i, st') -> st := st'; "took(" ^ info_txt i ^ ")"
              | None -> "nope")
          | "S" -> let (st', r) = merge !st !st in st := st'; merge_code r
          | i -> let (st', r) = merge !st parsed.(int_of_string i) in st := st'; merge_code r in
        Printf.sprintf "%s/%s/%d" s (string_of_z !st.p_received) (List.length !st.p_info.i_clients))
        (List.tl ops) in
    let idx = List.filter_map (fun op -> match int_of_string_opt op with Some i -> Some (nat_of_int i) | None -> None) ops in
    Printf.sprintf "k18=%d %s || %s" (if has_repeat idx then 1 else 0)
      (if steps = [] then "-" else String.concat " " steps) (partial_txt !st)
  end

let run case =
  try
    match case with
    | ["resp"; h] -> response_txt (unhex h)
    | ["parse"; k; h] -> parse_txt (kind_of_name k) (unhex h)
    | ["merge"; parts; ops] -> run_merge parts ops
    | ["defparts"; name; parts] -> def_parts name parts
    | _ -> "model-unknown-case"
  with Model_panic -> "panic" | Model_hang -> "hang"

let () = main_loop run

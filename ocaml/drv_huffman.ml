(* C07 driver: runs Model/Huffman.v (extracted) on the harness' cases.
   Tables are kept by id: "B" is Gen/HuffTable.teeworlds_table, a `freq` case defines a new one
   through the model's from_frequencies; every table so built is also put through the verified
   checkers wf_table and tree_table (certified checking: the theorems of Props/C07.v apply to each of them). *)
open Tw_io
open Res
open Huffman

let tables : (string, table) Hashtbl.t = Hashtbl.create 64
let () = Hashtbl.add tables "B" (of_list HuffTable.teeworlds_table)
let tab tid = Hashtbl.find tables tid

let word bs = String.concat "" (List.map (fun b -> if b then "1" else "0") bs)

let comp_txt = function
  | Ok bs -> "ok " ^ hex bs | Err _ -> "cap" | Panic _ -> "panic" | OutOfFuel -> "hang"
let comp_short = function
  | Ok bs -> hex bs | Err _ -> "cap" | Panic _ -> "panic" | OutOfFuel -> "hang"
let len_txt = function
  | Ok z -> string_of_int (int_of_z z) | Err _ -> "err" | Panic _ -> "panic" | OutOfFuel -> "hang"
let dec_txt = function
  | Ok bs -> "ok " ^ hex bs
  | Err Capacity -> "cap" | Err InvalidInput -> "invalid"
  | Panic _ -> "panic" | OutOfFuel -> "hang"

let run = function
  | ["freq"; tid; csv] ->
    let f = List.map (fun s -> z_of_int (int_of_string s)) (String.split_on_char ',' csv) in
    (match from_frequencies f with
     | Ok t ->
       Hashtbl.replace tables tid t;
       (if wf_table t && HuffmanRef.tree_table t then "ok " else "ok-but-not-wf ") ^ String.concat "," (List.map word (repr_of t))
     | Err _ -> "err" | Panic _ -> "panic" | OutOfFuel -> "hang")
  | ["all"; tid; h] ->
    let t = tab tid and x = unhex h in
    let cap = nat_of_int (3 * List.length x + 8) in
    let l1 = compressed_len t x and l2 = compressed_len_bug t x in
    (match l1, l2 with
     | Panic _, _ | _, Panic _ -> Printf.sprintf "%s %s panic" (comp_short (compress t x false cap)) (comp_short (compress t x true cap))
     | _ -> Printf.sprintf "%s %s %s %s" (comp_short (compress t x false cap)) (comp_short (compress t x true cap))
              (len_txt l1) (len_txt l2))
  | ["comp"; tid; bug; cap; h] ->
    comp_txt (compress (tab tid) (unhex h) (bug = "1") (nat_of_int (int_of_string cap)))
  | ["cvec"; tid; h] -> comp_txt (compress_into_vec (tab tid) (unhex h))
  | ["dec"; tid; cap; h] ->
    let y = unhex h and cap = nat_of_int (int_of_string cap) in
    dec_txt (decompress (dec_fuel y cap) (tab tid) y cap)
  | ["dvec"; tid; h] -> dec_txt (decompress_into_vec (tab tid) (unhex h))
  (* the Gallina model of the C++ reference against the real C++ *)
  | ["rdec"; tid; cap; h] ->
    let c = int_of_string cap in
    (match HuffmanRef.ref_decompress (nat_of_int (c + 2)) (tab tid) (unhex h) (nat_of_int c) with
     | Ok bs -> "ok " ^ hex bs | Err _ -> "fail" | Panic _ -> "model-ub" | OutOfFuel -> "model-fuel")
  | ["rcomp"; tid; cap; h] ->
    (match HuffmanRef.ref_compress (tab tid) (unhex h) (nat_of_int (int_of_string cap)) with
     | Ok bs -> "ok " ^ hex bs | Err _ -> "fail" | Panic _ -> "model-ub" | OutOfFuel -> "model-fuel")
  | _ -> "model-unknown-case"

let () = main_loop run

(* C15 driver: runs Model/Demo.v (extracted) on the harness' cases.
     wr  <net_version> <map_name> <sha|none> <crc> <c|s> <length> <timestamp> <map> <op>...
         ops  t:<tick>:<0|1>  s:<hex>  d:<hex>  m:<hex>  u
         -> new=<ok|panic> ops=<o|p per op> file=<hex> | <read-back of that file>
     rd  <file hex>  -> <read-out>
   read-out: hdr ... w=<warnings> then one item per chunk, then `end`, `err:<kind>` or `panic` *)
open Tw_io
open Res
open Demo

let () = Gc.set { (Gc.get ()) with Gc.minor_heap_size = 8 * 1024 * 1024 }

let pw = function Varint.OverlongIntEncoding -> "mO" | Varint.NonZeroIntPadding -> "mP" | Varint.ExcessData -> "mX"
let warn_txt = function
  | NonAbsoluteTickmarkerTick -> "NonAbs" | NonIncreasingTick -> "NonIncTick"
  | NonIncreasingTimelineMarkers -> "NonIncTm" | NonZeroTickmarkerPadding -> "TickPad"
  | IntDecompressionOverlongEncoding -> "IntOverlong" | IntDecompressionNonZeroPadding -> "IntPad"
  | OverlongChunkSizeEncoding -> "OverlongSize" | StartingDeltaTick -> "StartDelta"
  | WTickOverflow -> "TickOverflow" | UnknownChunkType -> "UnknownType"
  | WeirdMapName -> "WeirdMapName" | WeirdNetVersion -> "WeirdNetVersion"
  | WeirdTimelineMarkerPadding -> "WeirdTmPad" | WeirdTimestamp -> "WeirdTimestamp"
  | WeirdType -> "WeirdType" | WMessage w -> pw w
let warns ws = if ws = [] then "-" else String.concat "," (List.map warn_txt ws)
let wsfx ws = if ws = [] then "" else "!" ^ warns ws

let err_txt = function
  | EEof -> "eof" | EBadMagic -> "badmagic" | ENoVariant -> "novariant" | EAssert -> "assert"
  | EIo -> "io" | EHuffman -> "huffman" | EMsgUnexpectedEnd -> "msgend" | EMsgTooLong -> "msglong"
  | ENotIncreasingTick -> "notinc" | EStartingDelta -> "startdelta" | ETickOverflow -> "tickoverflow"

let ver_txt v = string_of_int (int_of_z (version_num v))
let kind_txt = function Client -> "c" | Server -> "s"
let zs = fun z -> string_of_int (int_of_z z)

let chunk_txt = function
  | CTick (t, k) -> Printf.sprintf "T%d:%d" (int_of_z t) (if k then 1 else 0)
  | CSnapshot d -> "S" ^ hex d
  | CDelta d -> "D" ^ hex d
  | CMessage d -> "M" ^ hex d
  | CUnknown -> "U"

let read_txt file : string =
  match read_all file with
  | Err e -> "hdr-err:" ^ err_txt e
  | Panic _ -> "hdr-panic"
  | OutOfFuel -> "hdr-hang"
  | Ok ((h, ws), (cs, (fin, fws))) ->
    let v = header_view h in
    let b = Buffer.create 1024 in
    Buffer.add_string b (Printf.sprintf "hdr v=%s nv=%s mn=%s ms=%s crc=%s kind=%s len=%s ts=%s tm=%s sha=%s map=%s w=%s"
      (ver_txt v.hv_version) (hex v.hv_net_version) (hex v.hv_map_name) (zs v.hv_map_size) (zs v.hv_map_crc)
      (kind_txt v.hv_kind) (zs v.hv_length) (hex v.hv_timestamp)
      (if v.hv_markers = [] then "-" else String.concat "," (List.map zs v.hv_markers))
      (match v.hv_sha256 with Some s -> hex s | None -> "none") (hex v.hv_map) (warns ws));
    List.iter (fun (c, ws) -> Buffer.add_char b ' '; Buffer.add_string b (chunk_txt c); Buffer.add_string b (wsfx ws)) cs;
    Buffer.add_char b ' ';
    Buffer.add_string b (match fin with
      | Ok _ -> "end" | Err e -> "err:" ^ err_txt e | Panic _ -> "panic" | OutOfFuel -> "hang");
    Buffer.add_string b (wsfx fws);
    Buffer.contents b

let op_of s =
  match s.[0] with
  | 't' -> (match String.split_on_char ':' s with
      | [_; t; k] -> CTick (z_of_int (int_of_string t), k = "1")
      | _ -> failwith "bad tick op")
  | 's' -> CSnapshot (unhex (String.sub s 2 (String.length s - 2)))
  | 'd' -> CDelta (unhex (String.sub s 2 (String.length s - 2)))
  | 'm' -> CMessage (unhex (String.sub s 2 (String.length s - 2)))
  | _ -> CUnknown

let winput_of nv mn sha crc kind len ts map =
  { wi_net_version = unhex nv; wi_map_name = unhex mn;
    wi_sha256 = (if sha = "none" then None else Some (unhex sha));
    wi_map_crc = z_of_int (int_of_string crc); wi_kind = (if kind = "c" then Client else Server);
    wi_length = z_of_int (int_of_string len); wi_timestamp = unhex ts; wi_map = unhex map }

(* ---------- high-level layer ---------- *)
let serr_txt = function
  | Snap.UnexpectedEnd -> "UnexpectedEnd" | Snap.IntOutOfRange -> "IntOutOfRange"
  | Snap.DeletedItemsUnpacking -> "DeletedItemsUnpacking" | Snap.ItemDiffsUnpacking -> "ItemDiffsUnpacking"
  | Snap.TypeIdRange -> "TypeIdRange" | Snap.IdRange -> "IdRange" | Snap.NegativeSize -> "NegativeSize"
  | Snap.TooLongDiff -> "TooLongDiff" | Snap.TooLongSnap -> "TooLongSnap" | Snap.TooManyItems -> "TooManyItems"
  | Snap.DeltaDifferingSizes -> "DeltaDifferingSizes" | Snap.OffsetsUnpacking -> "OffsetsUnpacking"
  | Snap.InvalidOffset -> "InvalidOffset" | Snap.ItemsUnpacking -> "ItemsUnpacking"
  | Snap.DuplicateKey -> "DuplicateKey" | Snap.DuplicateUuidType -> "DuplicateUuidType"
  | Snap.InvalidUuidType -> "InvalidUuidType" | Snap.MissingUuidType -> "MissingUuidType"
let berr_txt = function
  | Snap.BDuplicateKey -> "DuplicateKey" | Snap.BTooLongSnap -> "TooLongSnap" | Snap.BTooManyItems -> "TooManyItems"
let swarn_txt = function
  | Snap.WPacker w -> "s" ^ pw w | Snap.NonZeroPadding -> "sNonZeroPadding" | Snap.DuplicateDelete -> "sDuplicateDelete"
  | Snap.DuplicateUpdate -> "sDuplicateUpdate" | Snap.UnknownDelete -> "sUnknownDelete"
  | Snap.DeleteUpdate -> "sDeleteUpdate" | Snap.NumUpdatedItems -> "sNumUpdatedItems"
  | Snap.ExcessSnapData -> "sExcessSnapData" | Snap.ExcessUuidItemData -> "sExcessUuidItemData"
let hwarn_txt = function DemoHL.HWDemo w -> warn_txt w | DemoHL.HWSnapshot w -> swarn_txt w
let hwsfx ws = if ws = [] then "" else "!" ^ String.concat "," (List.map hwarn_txt ws)

let ty_of s =
  if s.[0] = 'o' then Snap.Ordinal (z_of_int (int_of_string (String.sub s 1 (String.length s - 1))))
  else Snap.Uuid (Snap.uuid_of_bytes (unhex (String.sub s 1 (String.length s - 1))))
(* printing a UUID divides a 128-bit inductive Z sixteen times: remember the few that occur *)
let uuid_cache = ref []
let ty_txt = function
  | Snap.Ordinal o -> "o" ^ zs o
  | Snap.Uuid u ->
    (match List.assoc_opt u !uuid_cache with
     | Some s -> s
     | None -> let s = "u" ^ hex (Snap.uuid_to_bytes u) in uuid_cache := (u, s) :: !uuid_cache; s)
let ints_of s = if s = "" then [] else List.map (fun x -> z_of_int (int_of_string x)) (String.split_on_char ',' s)
let item_of s =
  match String.split_on_char '/' s with
  | [ty; id; data] -> ((ty_of ty, z_of_int (int_of_string id)), ints_of data)
  | _ -> failwith "bad item"
let item_txt ((ty, id), data) = Printf.sprintf "%s/%s/%s" (ty_txt ty) (zs id) (String.concat "," (List.map zs data))
let hop_of s =
  match s.[0] with
  | 'S' -> (match String.split_on_char ':' s with
      | [_; t; items] ->
        let items = List.filter (fun x -> x <> "") (String.split_on_char ';' items) in
        DemoHL.HSnap (z_of_int (int_of_string t), List.map item_of items)
      | _ -> failwith "bad snap op")
  | _ -> DemoHL.HMsg (unhex (String.sub s 2 (String.length s - 2)))
let sizes_of s =
  (* sz=<ty>:<size>,... *)
  let body = String.sub s 3 (String.length s - 3) in
  if body = "" then [] else
  List.map (fun e -> match String.split_on_char ':' e with
      | [t; n] -> (z_of_int (int_of_string t), z_of_int (int_of_string n))
      | _ -> failwith "bad size") (String.split_on_char ',' body)

let hres_txt = function
  | Ok _ -> "o"
  | Err (DemoHL.HSnapBuilder e) -> "eB" ^ berr_txt e
  | Err DemoHL.HTooLowTickNumber -> "eT"
  | Err DemoHL.HTooLargeSnap -> "eS"
  | Err DemoHL.HTooLongNetMsg -> "eM"
  | Panic _ -> "p" | OutOfFuel -> "h"

let hchunk_txt = function
  | DemoHL.HCTick t -> "T" ^ zs t
  | DemoHL.HCMessage m -> "M" ^ hex m
  | DemoHL.HCSnapshot items -> "S[" ^ String.concat ";" (List.map item_txt items) ^ "]"
  | DemoHL.HCInvalid -> "I"

let hread_txt sz file : string =
  match DemoHL.hread_all sz file with
  | Err e -> "hdr-err:" ^ err_txt e
  | Panic _ -> "hdr-panic"
  | OutOfFuel -> "hdr-hang"
  | Ok ((h, ws), (cs, (fin, fws))) ->
    let b = Buffer.create 1024 in
    Buffer.add_string b (Printf.sprintf "hdr v=%s w=%s" (ver_txt (header_view h).hv_version) (warns ws));
    List.iter (fun (c, ws) -> Buffer.add_char b ' '; Buffer.add_string b (hchunk_txt c); Buffer.add_string b (hwsfx ws)) cs;
    Buffer.add_char b ' ';
    Buffer.add_string b (match fin with
      | Ok _ -> "end"
      | Err (DemoHL.HEInner e) -> "err:" ^ err_txt e
      | Err (DemoHL.HESnap e) -> "err:snap-" ^ serr_txt e
      | Panic _ -> "panic" | OutOfFuel -> "hang");
    Buffer.add_string b (hwsfx fws);
    Buffer.contents b

let run = function
  | "hl" :: nv :: mn :: sha :: crc :: kind :: len :: ts :: map :: sizes :: ops ->
    let ops = List.filter (fun s -> s <> "") ops in
    let sz = DemoHL.osize_of (sizes_of sizes) in
    (match writer_new (winput_of nv mn sha crc kind len ts map) with
     | Ok hdr ->
       let pieces = ref [hdr] and w = ref DemoHL.hwriter_new and res = ref [] and stop = ref false in
       List.iter (fun s ->
           if not !stop then begin
             let ((w', bs), r) = DemoHL.hstep sz !w (hop_of s) in
             pieces := bs :: !pieces; w := w'; res := hres_txt r :: !res;
             (match r with Panic _ | OutOfFuel -> stop := true | _ -> ())
           end) ops;
       let file = List.concat (List.rev !pieces) in
       Printf.sprintf "new=ok res=%s file=%s | %s" (String.concat "," (List.rev !res)) (hex file) (hread_txt sz file)
     | Err _ -> "new=err" | Panic _ -> "new=panic" | OutOfFuel -> "new=hang")
  | "wr" :: nv :: mn :: sha :: crc :: kind :: len :: ts :: map :: ops ->
    let ops = List.filter (fun s -> s <> "") ops in
    (match writer_new (winput_of nv mn sha crc kind len ts map) with
     | Ok hdr ->
       (* the file is kept as reversed pieces *)
       let pieces = ref [hdr] and prev = ref None and res = Buffer.create 16 in
       List.iter (fun s ->
           match write_chunk !prev (op_of s) with
           | Ok (bs, p) -> pieces := bs :: !pieces; prev := p; Buffer.add_char res 'o'
           | Err _ -> Buffer.add_char res 'e'
           | Panic _ -> Buffer.add_char res 'p'
           | OutOfFuel -> Buffer.add_char res 'h') ops;
       let file = List.concat (List.rev !pieces) in
       Printf.sprintf "new=ok ops=%s file=%s | %s" (Buffer.contents res) (hex file) (read_txt file)
     | Err _ -> "new=err" | Panic _ -> "new=panic" | OutOfFuel -> "new=hang")
  | ["rd"; h] -> read_txt (unhex h)
  | _ -> "model-unknown-case"

let () = main_loop run

(* C15 driver: runs Model/Demo.v (extracted) on the harness' cases.
     wr  <net_version> <map_name> <sha|none> <crc> <c|s> <length> <timestamp> <map> <op>...
         ops  t:<tick>:<0|1>  s:<hex>  d:<hex>  m:<hex>  u
         -> new=<ok|panic> ops=<o|p per op> file=<hex> | <read-back of that file>
     rd  <file hex>  -> <read-out>
   read-out: hdr ... w=<warnings> then one item per chunk, then `end`, `err:<kind>` or `panic` *)
open Tw_io
open Res
open Demo

let () = Gc.set { (Gc.get ()) with Gc.minor_heap_size = 8 * 1024 * 1024 }

let pw = function Varint.OverlongIntEncoding -> "mO" | Varint.NonZeroIntPadding -> "mP" | Varint.ExcessData -> "mX"
let warn_txt = function
  | NonAbsoluteTickmarkerTick -> "NonAbs" | NonIncreasingTick -> "NonIncTick"
  | NonIncreasingTimelineMarkers -> "NonIncTm" | NonZeroTickmarkerPadding -> "TickPad"
  | IntDecompressionOverlongEncoding -> "IntOverlong" | IntDecompressionNonZeroPadding -> "IntPad"
  | OverlongChunkSizeEncoding -> "OverlongSize" | StartingDeltaTick -> "StartDelta"
  | WTickOverflow -> "TickOverflow" | UnknownChunkType -> "UnknownType"
  | WeirdMapName -> "WeirdMapName" | WeirdNetVersion -> "WeirdNetVersion"
  | WeirdTimelineMarkerPadding -> "WeirdTmPad" | WeirdTimestamp -> "WeirdTimestamp"
  | WeirdType -> "WeirdType" | WMessage w -> pw w
let warns ws = if ws = [] then "-" else String.concat "," (List.map warn_txt ws)
let wsfx ws = if ws = [] then "" else "!" ^ warns ws

let err_txt = function
  | EEof -> "eof" | EBadMagic -> "badmagic" | ENoVariant -> "novariant" | EAssert -> "assert"
  | EIo -> "io" | EHuffman -> "huffman" | EMsgUnexpectedEnd -> "msgend" | EMsgTooLong -> "msglong"
  | ENotIncreasingTick -> "notinc" | EStartingDelta -> "startdelta" | ETickOverflow -> "tickoverflow"

let ver_txt v = string_of_int (int_of_z (version_num v))
let kind_txt = function Client -> "c" | Server -> "s"
let zs = fun z -> string_of_int (int_of_z z)

let chunk_txt = function
  | CTick (t, k) -> Printf.sprintf "T%d:%d" (int_of_z t) (if k then 1 else 0)
  | CSnapshot d -> "S" ^ hex d
  | CDelta d -> "D" ^ hex d
  | CMessage d -> "M" ^ hex d
  | CUnknown -> "U"

let read_txt file : string =
  match read_all file with
  | Err e -> "hdr-err:" ^ err_txt e
  | Panic _ -> "hdr-panic"
  | OutOfFuel -> "hdr-hang"
  | Ok ((h, ws), (cs, (fin, fws))) ->
    let v = header_view h in
    let b = Buffer.create 1024 in
    Buffer.add_string b (Printf.sprintf "hdr v=%s nv=%s mn=%s ms=%s crc=%s kind=%s len=%s ts=%s tm=%s sha=%s map=%s w=%s"
      (ver_txt v.hv_version) (hex v.hv_net_version) (hex v.hv_map_name) (zs v.hv_map_size) (zs v.hv_map_crc)
      (kind_txt v.hv_kind) (zs v.hv_length) (hex v.hv_timestamp)
      (if v.hv_markers = [] then "-" else String.concat "," (List.map zs v.hv_markers))
      (match v.hv_sha256 with Some s -> hex s | None -> "none") (hex v.hv_map) (warns ws));
    List.iter (fun (c, ws) -> Buffer.add_char b ' '; Buffer.add_string b (chunk_txt c); Buffer.add_string b (wsfx ws)) cs;
    Buffer.add_char b ' ';
    Buffer.add_string b (match fin with
      | Ok _ -> "end" | Err e -> "err:" ^ err_txt e | Panic _ -> "panic" | OutOfFuel -> "hang");
    Buffer.add_string b (wsfx fws);
    Buffer.contents b

let op_of s =
  match s.[0] with
  | 't' -> (match String.split_on_char ':' s with
      | [_; t; k] -> CTick (z_of_int (int_of_string t), k = "1")
      | _ -> failwith "bad tick op")
  | 's' -> CSnapshot (unhex (String.sub s 2 (String.length s - 2)))
  | 'd' -> CDelta (unhex (String.sub s 2 (String.length s - 2)))
  | 'm' -> CMessage (unhex (String.sub s 2 (String.length s - 2)))
  | _ -> CUnknown

let winput_of nv mn sha crc kind len ts map =
  { wi_net_version = unhex nv; wi_map_name = unhex mn;
    wi_sha256 = (if sha = "none" then None else Some (unhex sha));
    wi_map_crc = z_of_int (int_of_string crc); wi_kind = (if kind = "c" then Client else Server);
    wi_length = z_of_int (int_of_string len); wi_timestamp = unhex ts; wi_map = unhex map }

let run = function
  | "wr" :: nv :: mn :: sha :: crc :: kind :: len :: ts :: map :: ops ->
    let ops = List.filter (fun s -> s <> "") ops in
    (match writer_new (winput_of nv mn sha crc kind len ts map) with
     | Ok hdr ->
       (* the file is kept as reversed pieces *)
       let pieces = ref [hdr] and prev = ref None and res = Buffer.create 16 in
       List.iter (fun s ->
           match write_chunk !prev (op_of s) with
           | Ok (bs, p) -> pieces := bs :: !pieces; prev := p; Buffer.add_char res 'o'
           | Err _ -> Buffer.add_char res 'e'
           | Panic _ -> Buffer.add_char res 'p'
           | OutOfFuel -> Buffer.add_char res 'h') ops;
       let file = List.concat (List.rev !pieces) in
       Printf.sprintf "new=ok ops=%s file=%s | %s" (Buffer.contents res) (hex file) (read_txt file)
     | Err _ -> "new=err" | Panic _ -> "new=panic" | OutOfFuel -> "new=hang")
  | ["rd"; h] -> read_txt (unhex h)
  | _ -> "model-unknown-case"

let () = main_loop run

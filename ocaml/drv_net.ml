(* C20 driver: replays the harness' labels (harness/src/bin/net.rs) on Model/NetEndpoint.v.
   The datagram / event text forms are those of drv_conn.ml. *)
open Tw_io
open BinNums
open Res
open PacketTypes
open ConnCore
open Conn6
open NetEndpoint

let tok_txt = function None -> "none" | Some t -> hex t
let tok_of s = if s = "none" then None else Some (unhex s)
let time_txt = function None -> "-" | Some t -> string_of_int (int_of_z t)

let chunk_txt (c : chunk) =
  match c.ch_vital with
  | Some (s, r) -> Printf.sprintf "v%d.%d:%s" (int_of_z s) (if r then 1 else 0) (hex c.ch_data)
  | None -> "n:" ^ hex c.ch_data
let chunks_txt cs = if cs = [] then "-" else String.concat ";" (List.map chunk_txt cs)

let chunk_of s =
  let i = String.index s ':' in
  let h = String.sub s (i + 1) (String.length s - i - 1) in
  if s.[0] = 'n' then { ch_data = unhex h; ch_vital = None }
  else begin
    let sv = String.sub s 1 (i - 1) in
    match split_on '.' sv with
    | [a; b] -> { ch_data = unhex h; ch_vital = Some (z_of_int (int_of_string a), b = "1") }
    | _ -> failwith "chunk"
  end
let chunks_of s = if s = "-" then [] else List.map chunk_of (split_on ';' s)

let control_txt = function
  | KeepAlive -> "ka"
  | Connect r -> "co:" ^ tok_txt r
  | ConnectAccept -> "ca"
  | Accept -> "ac"
  | Close r -> "cl:" ^ hex r
  | TokenMsg r -> "tk:" ^ hex r
let control_of s =
  match split_on ':' s with
  | ["ka"] -> KeepAlive | ["ca"] -> ConnectAccept | ["ac"] -> Accept
  | ["co"; r] -> Connect (tok_of r)
  | ["cl"; r] -> Close (unhex r)
  | ["tk"; r] -> TokenMsg (unhex r)
  | _ -> failwith ("control " ^ s)

let dgram_txt = function
  | DConnless (t, r, p) -> Printf.sprintf "L|%s|%s|%s" (tok_txt t) (tok_txt r) (hex p)
  | DControl (t, a, c) -> Printf.sprintf "C|%s|%d|%s" (tok_txt t) (int_of_z a) (control_txt c)
  | DChunks (t, a, rr, n, cs) ->
    Printf.sprintf "K|%s|%d|%d|%d|%s" (tok_txt t) (int_of_z a) (if rr then 1 else 0) (int_of_z n) (chunks_txt cs)
let dgram_of s =
  match split_on '|' s with
  | ["L"; t; r; p] -> DConnless (tok_of t, tok_of r, unhex p)
  | ["C"; t; a; c] -> DControl (tok_of t, z_of_int (int_of_string a), control_of c)
  | ["K"; t; a; rr; n; cs] ->
    DChunks (tok_of t, z_of_int (int_of_string a), rr = "1", z_of_int (int_of_string n), chunks_of cs)
  | _ -> failwith ("dgram " ^ s)

let list_or_dash f l = if l = [] then "-" else String.concat "," (List.map f l)
let pid_txt = function None -> "-" | Some p -> string_of_int (int_of_z p)

let nev_txt (e : nev) =
  match e.ne_kind with
  | NKConnect -> "C:" ^ pid_txt e.ne_pid
  | NKConn (EvConnless d) -> Printf.sprintf "L:%d:%s:%s" (int_of_z e.ne_addr) (pid_txt e.ne_pid) (hex d)
  | NKConn (EvChunk (d, v)) -> Printf.sprintf "K:%s:%s:%d" (pid_txt e.ne_pid) (hex d) (if v then 1 else 0)
  | NKConn EvReady -> "R:" ^ pid_txt e.ne_pid
  | NKConn (EvDisconnect d) -> Printf.sprintf "D:%s:%s" (pid_txt e.ne_pid) (hex d)

let cwarn_txt = function WTokenMismatch -> "tm" | WUnexpected -> "ux"
let nwarn_txt = function
  | NWPeer (a, pid, w) -> Printf.sprintf "P:%d:%d:%s" (int_of_z a) (int_of_z pid) (cwarn_txt w)
  | NWConnless (a, w) -> Printf.sprintf "L:%d:%s" (int_of_z a) (cwarn_txt w)

let sent_txt (a, d) = Printf.sprintf "%d>%s" (int_of_z a) (dgram_txt d)

let live_txt (n : net) =
  let pids = List.sort compare (List.map (fun (pid, _) -> int_of_z pid) n.n_peers) in
  if pids = [] then "-" else String.concat "," (List.map string_of_int pids)

type world = { mutable net : net; mutable now : int; mutable dead : bool }
let worlds : (string, world) Hashtbl.t = Hashtbl.create 64

let rand_of s = if s = "-" || s = "" then [] else List.map unhex (split_on ',' s)
let parse_of s = if s = "garbage" then None else Some (dgram_of s)
let z s = z_of_int (int_of_string s)

let run = function
  | _ :: trace :: "new" :: acc :: _ ->
    Hashtbl.replace worlds trace { net = net_new (acc = "1"); now = 0; dead = false }; "ok"
  | _ :: trace :: "clock" :: t :: _ ->
    (Hashtbl.find worlds trace).now <- int_of_string t; "ok"
  | _ :: trace :: opname :: rnd :: args ->
    let w = Hashtbl.find worlds trace in
    if w.dead then "dead" else begin
      let env = { e_now = z_of_int w.now; e_rand = rand_of rnd } in
      let op = match opname, args with
        | "feed", a :: tn :: tt :: tf :: _ ->
          let pn = parse_of tn and pt = parse_of tt and pf = parse_of tf in
          NFeed (z a, (fun h -> match h with None -> pn | Some true -> pt | Some false -> pf))
        | "connect", a :: _ -> NConnect (z a)
        | "accept", p :: _ -> NAccept (z p)
        | "reject", p :: r :: _ -> NReject (z p, unhex r)
        | "disc", p :: r :: _ -> NDisconnect (z p, unhex r)
        | "ignore", p :: _ -> NIgnore (z p)
        | "send", p :: d :: v :: _ -> NSend (z p, unhex d, v = "1")
        | "flush", p :: _ -> NFlush (z p)
        | "connless", a :: d :: _ -> NSendConnless (z a, unhex d)
        | "tick", _ -> NTick
        | _ -> failwith ("op " ^ opname) in
      match net_step w.net env op with
      | Ok o ->
        w.net <- o.no_net;
        Printf.sprintf "res=%s pid=%s sent=%s ev=%s warn=%s tick=%s live=%s"
          (match o.no_res with ROk -> "ok" | RTooLongData -> "toolong")
          (pid_txt o.no_pid) (list_or_dash sent_txt o.no_sent) (list_or_dash nev_txt o.no_events)
          (list_or_dash nwarn_txt o.no_warns) (time_txt (net_needs_tick o.no_net)) (live_txt o.no_net)
      | Panic _ -> w.dead <- true; "panic"
      | OutOfFuel -> w.dead <- true; "hang"
      | Err _ -> w.dead <- true; "model-err"
    end
  | _ -> "model-unknown-case"

let () = main_loop run

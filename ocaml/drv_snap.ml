(* C09/C10/C11 driver: replays the harness' register-machine scripts on Model/Snap.v *)
open BinNums
open Datatypes
open Tw_io
open Res
open Varint
open Snap
open SnapCost

let nreg = 6

let ints_of s = if s = "-" || s = "" then [] else List.map (fun x -> z_of_int (int_of_string x)) (split_on ',' s)
let ints_txt l = if l = [] then "-" else String.concat "," (List.map (fun z -> string_of_int (int_of_z z)) l)

let items_of s =
  if s = "-" then [] else
  List.map (fun it ->
      match split_on '=' it with
      | [k; d] ->
        (match split_on '/' k with
         | [t; i] -> (z_of_int (int_of_string t), z_of_int (int_of_string i), ints_of d)
         | _ -> failwith "item key")
      | _ -> failwith "item") (split_on ';' s)

let table_of s : coq_Z -> coq_Z option =
  if s = "-" then (fun _ -> None) else
  let l = List.map (fun e -> match split_on '=' e with
      | [a; b] -> (int_of_string a, z_of_int (int_of_string b)) | _ -> failwith "table") (split_on ',' s) in
  fun ty -> List.assoc_opt (int_of_z ty) l

let tyid_of s =
  let v = String.sub s 1 (String.length s - 1) in
  if s.[0] = 'o' then Ordinal (z_of_int (int_of_string v)) else Uuid (uuid_of_bytes (unhex v))
let tyid_txt = function
  | Ordinal o -> "o" ^ string_of_int (int_of_z o)
  | Uuid u -> "u" ^ hex (uuid_to_bytes u)

let pw_txt = function OverlongIntEncoding -> "P.O" | NonZeroIntPadding -> "P.P" | ExcessData -> "P.X"
let warn_txt = function
  | WPacker w -> pw_txt w
  | NonZeroPadding -> "NonZeroPadding" | DuplicateDelete -> "DuplicateDelete"
  | DuplicateUpdate -> "DuplicateUpdate" | UnknownDelete -> "UnknownDelete"
  | DeleteUpdate -> "DeleteUpdate" | NumUpdatedItems -> "NumUpdatedItems"
  | ExcessSnapData -> "ExcessSnapData" | ExcessUuidItemData -> "ExcessUuidItemData"
let warns ws = if ws = [] then "-" else String.concat "," (List.map warn_txt ws)

let err_txt = function
  | UnexpectedEnd -> "UnexpectedEnd" | IntOutOfRange -> "IntOutOfRange"
  | DeletedItemsUnpacking -> "DeletedItemsUnpacking" | ItemDiffsUnpacking -> "ItemDiffsUnpacking"
  | TypeIdRange -> "TypeIdRange" | IdRange -> "IdRange" | NegativeSize -> "NegativeSize"
  | TooLongDiff -> "TooLongDiff" | TooLongSnap -> "TooLongSnap" | TooManyItems -> "TooManyItems"
  | DeltaDifferingSizes -> "DeltaDifferingSizes" | OffsetsUnpacking -> "OffsetsUnpacking"
  | InvalidOffset -> "InvalidOffset" | ItemsUnpacking -> "ItemsUnpacking" | DuplicateKey -> "DuplicateKey"
  | DuplicateUuidType -> "DuplicateUuidType" | InvalidUuidType -> "InvalidUuidType"
  | MissingUuidType -> "MissingUuidType"

(* refbuild / refdelta: items in the order given; SetStaticsize's asserts are checked once per table *)
let ritems_of s = List.map (fun (t, i, d) -> ((t, i), d)) (items_of s)
let ref_res = function
  | Ok l -> "ok:" ^ ints_txt l
  | Err _ -> "model-err" | Panic _ -> "model-ub" | OutOfFuel -> "model-fuel"
let ref_tables : (string, bool) Hashtbl.t = Hashtbl.create 4
let ref_table_checked t =
  match Hashtbl.find_opt ref_tables t with
  | Some b -> b
  | None -> let b = SnapRef.ref_sizes_ok (table_of t) in Hashtbl.add ref_tables t b; b

exception Dead of string   (* a panic (or fuel exhaustion) ends the script *)

let raw_items_txt l =
  if l = [] then "-" else
  String.concat ";" (List.map (fun (k, d) ->
      Printf.sprintf "%d/%d=%s" (int_of_z (key_to_raw_type_id k)) (int_of_z (key_to_id k))
        (if d = [] then "" else ints_txt d)) l)

let run_script (cmds : string list) : string =
  let r = Array.make nreg raw_empty in
  let s = Array.make nreg snap_empty in
  let d = Array.make nreg delta_empty in
  let b = ref builder_new in
  let out = Buffer.create 256 in
  let emit name v = if Buffer.length out > 0 then Buffer.add_char out ' ';
    Buffer.add_string out name; Buffer.add_char out '='; Buffer.add_string out v in
  let ok_or_dead = function
    | Ok x -> x
    | Err _ -> raise (Dead "panic")
    | Panic _ -> raise (Dead "panic")
    | OutOfFuel -> raise (Dead "hang") in
  (* a reader's result: register update on success, reset on error *)
  let rd (res, ws) set reset =
    match res with
    | Ok v -> set v; "ok:" ^ warns ws
    | Err e -> reset (); Printf.sprintf "err:%s:%s" (err_txt e) (warns ws)
    | Panic _ -> raise (Dead "panic")
    | OutOfFuel -> raise (Dead "hang") in
  let cap_res to_txt = function
    | Ok l -> "ok:" ^ to_txt l
    | Err _ -> "cap"
    | Panic _ -> raise (Dead "panic")
    | OutOfFuel -> raise (Dead "hang") in
  let reg x = int_of_string x in
  let step cmd =
    let toks = List.filter (fun x -> x <> "") (split_on ' ' cmd) in
    match toks with
    | [] -> ()
    | name :: args ->
      (try
         let v = match name, args with
           | "rbuild", [i; items] ->
             let codes = Buffer.create 16 in
             let cur = ref raw_empty in
             List.iter (fun (t, id, data) ->
                 match add_item !cur t id data with
                 | Ok r' -> cur := r'; Buffer.add_char codes 'k'
                 | Err BDuplicateKey -> Buffer.add_char codes 'd'
                 | Err BTooManyItems -> Buffer.add_char codes 'm'
                 | Err BTooLongSnap -> Buffer.add_char codes 'l'
                 | Panic _ -> raise (Dead "panic") | OutOfFuel -> raise (Dead "hang")) (items_of items);
             r.(reg i) <- !cur;
             if Buffer.length codes = 0 then "-" else Buffer.contents codes
           | "ritems", [i] -> raw_items_txt (ok_or_dead (raw_items r.(reg i)))
           | "ritem", [i; t; id] ->
             (match ok_or_dead (raw_item r.(reg i) (z_of_int (int_of_string t)) (z_of_int (int_of_string id))) with
              | Some dd -> ints_txt dd | None -> "none")
           | "rcrc", [i] -> string_of_int (int_of_z (crc r.(reg i)))
           | "rwi", [i; cap] -> cap_res ints_txt (raw_write_to_ints r.(reg i) (nat_of_int (int_of_string cap)))
           | "rwb", [i; cap] -> cap_res hex (raw_write_bytes r.(reg i) (nat_of_int (int_of_string cap)))
           | "rri", [i; ints] ->
             rd (raw_read_from_ints (ints_of ints)) (fun v -> r.(reg i) <- v) (fun () -> r.(reg i) <- raw_empty)
           | "rrb", [i; h] ->
             rd (raw_read_bytes (unhex h)) (fun v -> r.(reg i) <- v) (fun () -> r.(reg i) <- raw_empty)
           | "rcreate", [j; a; bb] ->
             d.(reg j) <- ok_or_dead (create_raw r.(reg a) r.(reg bb)); "ok"
           | "rapply", [k; a; j] ->
             rd (raw_read_with_delta r.(reg a) d.(reg j)) (fun v -> r.(reg k) <- v) (fun () -> r.(reg k) <- raw_empty)
           | "k09", [a; bb] -> if k09 r.(reg a) r.(reg bb) then "1" else "0"
           | "dwi", [j; t; cap] -> cap_res ints_txt (delta_write_to_ints (table_of t) d.(reg j) (nat_of_int (int_of_string cap)))
           | "dwb", [j; t; cap] -> cap_res hex (delta_write_bytes (table_of t) d.(reg j) (nat_of_int (int_of_string cap)))
           | "dri", [j; t; ints] ->
             rd (delta_read_from_ints (table_of t) (ints_of ints)) (fun v -> d.(reg j) <- v) (fun () -> d.(reg j) <- delta_empty)
           | "drb", [j; t; h] ->
             rd (delta_read_bytes (table_of t) (unhex h)) (fun v -> d.(reg j) <- v) (fun () -> d.(reg j) <- delta_empty)
           | "bnew", [] -> b := builder_new; "ok"
           | "badd", [t; id; data] ->
             let (b', res) = builder_add !b (tyid_of t) (z_of_int (int_of_string id)) (ints_of data) in
             b := b';
             (match res with
              | Ok _ -> "ok" | Err BDuplicateKey -> "dup" | Err BTooLongSnap -> "long" | Err BTooManyItems -> "many"
              | Panic _ -> raise (Dead "panic") | OutOfFuel -> raise (Dead "hang"))
           | "bfinish", [i] -> s.(reg i) <- builder_finish !b; b := builder_new; "ok"
           | "recycle", [i] ->
             let bb = ok_or_dead (snap_recycle s.(reg i)) in
             s.(reg i) <- snap_empty; b := bb; "ok"
           | "items", [i] ->
             let (n, l) = ok_or_dead (snap_items s.(reg i)) in
             Printf.sprintf "%d:%s" (int_of_z n)
               (if l = [] then "-" else
                  String.concat ";" (List.map (fun ((t, id), dd) ->
                      Printf.sprintf "%s/%d=%s" (tyid_txt t) (int_of_z id) (if dd = [] then "" else ints_txt dd)) l))
           | "item", [i; t; id] ->
             (match ok_or_dead (snap_item s.(reg i) (tyid_of t) (z_of_int (int_of_string id))) with
              | Some dd -> ints_txt dd | None -> "none")
           | "crc", [i] -> string_of_int (int_of_z (crc s.(reg i).sn_raw))
           | "wi", [i; cap] -> cap_res ints_txt (raw_write_to_ints s.(reg i).sn_raw (nat_of_int (int_of_string cap)))
           | "wb", [i; cap] -> cap_res hex (raw_write_bytes s.(reg i).sn_raw (nat_of_int (int_of_string cap)))
           | "ri", [i; ints] ->
             rd (snap_read_from_ints (ints_of ints)) (fun v -> s.(reg i) <- v) (fun () -> s.(reg i) <- snap_empty)
           | "rb", [i; h] ->
             rd (snap_read_bytes (unhex h)) (fun v -> s.(reg i) <- v) (fun () -> s.(reg i) <- snap_empty)
           | "create", [j; a; bb] ->
             d.(reg j) <- ok_or_dead (create_raw s.(reg a).sn_raw s.(reg bb).sn_raw); "ok"
           | "apply", [k; a; j] ->
             rd (snap_read_with_delta s.(reg a) d.(reg j)) (fun v -> s.(reg k) <- v) (fun () -> s.(reg k) <- snap_empty)
           (* the Gallina model of the DDNet reference (Model/SnapRef.v) against the real C++ *)
           | "refbuild", [items] -> ref_res (SnapRef.ref_builder_ints (ritems_of items))
           | "refdelta", [ia; ib; t] ->
             (match SnapRef.ref_builder_ints (ritems_of ia), SnapRef.ref_builder_ints (ritems_of ib) with
              | Ok fa, Ok fb ->
                if ref_table_checked t then ref_res (SnapRef.ref_create_delta (SnapRef.ref_sizes (table_of t)) fa fb)
                else "model-abort"
              | _ -> "model-abort")
           | _ -> failwith ("unknown command " ^ cmd) in
         emit name v
       with Dead what -> emit name what; raise (Dead what)) in
  (try List.iter step cmds with Dead _ -> ());
  Buffer.contents out

(* cost mode (DRV_SNAP_COST set; used by the harness itself, C11): one reader call per line on the
   cost-instrumented twins of Model/SnapCost.v; prints the model's high-water mark in words, the
   number the harness holds the allocation meter of the real code against.
     ri <ints> | rb <hex> | rri <ints> | rrb <hex>        Snap / RawSnap readers
     dri <table> <ints> | drb <table> <hex>                Delta readers
     apply <snapshot ints> <table> <delta ints>            Snap::read_with_delta of the two values read
   output: <peak words>:<ok|err|panic|hang>, or "-" when the operands of apply are not accepted *)
let run_cost (fields : string list) : string =
  let cmd = String.concat "\t" fields in
  let toks = List.filter (fun x -> x <> "") (split_on ' ' cmd) in
  let show ((res, _), m) =
    Printf.sprintf "%d:%s" (int_of_z m.m_peak)
      (match res with Ok _ -> "ok" | Err _ -> "err" | Panic _ -> "panic" | OutOfFuel -> "hang") in
  match toks with
  | ["ri"; ints] -> show (snap_read_from_ints_cost (ints_of ints))
  | ["rb"; h] -> show (snap_read_bytes_cost (unhex h))
  | ["rri"; ints] -> show (raw_read_from_ints_cost (ints_of ints))
  | ["rrb"; h] -> show (raw_read_bytes_cost (unhex h))
  | ["dri"; t; ints] -> show (delta_read_from_ints_cost (table_of t) (ints_of ints))
  | ["drb"; t; h] -> show (delta_read_bytes_cost (table_of t) (unhex h))
  | ["apply"; sints; t; dints] ->
    (match snap_read_from_ints (ints_of sints), delta_read_from_ints (table_of t) (ints_of dints) with
     | (Ok s, _), (Ok d, _) -> show (snap_read_with_delta_cost s d)
     | _ -> "-")
  | _ -> failwith ("unknown cost command " ^ cmd)

(* deep (non-tail) recursion of the extracted list functions on 64 KiB snapshots needs more
   than the default 8 MiB stack: re-run this program once under a raised soft limit *)
let () =
  match Sys.getenv_opt "DRV_SNAP_BIGSTACK" with
  | Some _ -> if Sys.getenv_opt "DRV_SNAP_COST" <> None then main_loop run_cost else main_loop run_script
  | None ->
    let cmd = Printf.sprintf
        "ulimit -s unlimited 2>/dev/null || ulimit -s 1000000 2>/dev/null || ulimit -s 200000 2>/dev/null; DRV_SNAP_BIGSTACK=1 exec %s"
        (Filename.quote Sys.executable_name) in
    exit (Sys.command cmd)

(* C01-C04 driver: replays the harness' labels on Model/Conn6.v (and Conn7.v) *)
open Tw_io
open BinNums
open Res
open PacketTypes
open ConnCore

let tok_txt = function None -> "none" | Some t -> hex t
let tok_of s = if s = "none" then None else Some (unhex s)
let time_txt = function None -> "-" | Some t -> string_of_int (int_of_z t)

let chunk_txt (c : chunk) =
  match c.ch_vital with
  | Some (s, r) -> Printf.sprintf "v%d.%d:%s" (int_of_z s) (if r then 1 else 0) (hex c.ch_data)
  | None -> "n:" ^ hex c.ch_data
let chunks_txt cs = if cs = [] then "-" else String.concat ";" (List.map chunk_txt cs)

let chunk_of s =
  let i = String.index s ':' in
  let h = String.sub s (i + 1) (String.length s - i - 1) in
  if s.[0] = 'n' then { ch_data = unhex h; ch_vital = None }
  else begin
    let sv = String.sub s 1 (i - 1) in
    match split_on '.' sv with
    | [a; b] -> { ch_data = unhex h; ch_vital = Some (z_of_int (int_of_string a), b = "1") }
    | _ -> failwith "chunk"
  end
let chunks_of s = if s = "-" then [] else List.map chunk_of (split_on ';' s)

let control_txt = function
  | KeepAlive -> "ka"
  | Connect r -> "co:" ^ tok_txt r
  | ConnectAccept -> "ca"
  | Accept -> "ac"
  | Close r -> "cl:" ^ hex r
  | TokenMsg r -> "tk:" ^ hex r
let control_of s =
  match split_on ':' s with
  | ["ka"] -> KeepAlive | ["ca"] -> ConnectAccept | ["ac"] -> Accept
  | ["co"; r] -> Connect (tok_of r)
  | ["cl"; r] -> Close (unhex r)
  | ["tk"; r] -> TokenMsg (unhex r)
  | _ -> failwith ("control " ^ s)

let dgram_txt = function
  | DConnless (t, r, p) -> Printf.sprintf "L|%s|%s|%s" (tok_txt t) (tok_txt r) (hex p)
  | DControl (t, a, c) -> Printf.sprintf "C|%s|%d|%s" (tok_txt t) (int_of_z a) (control_txt c)
  | DChunks (t, a, rr, n, cs) ->
    Printf.sprintf "K|%s|%d|%d|%d|%s" (tok_txt t) (int_of_z a) (if rr then 1 else 0) (int_of_z n) (chunks_txt cs)
let dgram_of s =
  match split_on '|' s with
  | ["L"; t; r; p] -> DConnless (tok_of t, tok_of r, unhex p)
  | ["C"; t; a; c] -> DControl (tok_of t, z_of_int (int_of_string a), control_of c)
  | ["K"; t; a; rr; n; cs] ->
    DChunks (tok_of t, z_of_int (int_of_string a), rr = "1", z_of_int (int_of_string n), chunks_of cs)
  | _ -> failwith ("dgram " ^ s)

let ev_txt = function
  | EvConnless d -> "L:" ^ hex d
  | EvChunk (d, v) -> Printf.sprintf "K:%s:%d" (hex d) (if v then 1 else 0)
  | EvReady -> "R"
  | EvDisconnect d -> "D:" ^ hex d

let rawhex bs = String.concat "" (List.map (fun b -> Printf.sprintf "%02x" (int_of_z b land 255)) bs)
let pc_txt (p : pcontents) = Printf.sprintf "%d:%s" (int_of_z p.pc_num) (chunks_txt p.pc_chunks)
let online_txt (o : online) =
  Printf.sprintf "own=%s their=%s ack=%d seq=%d rr=%b pkt=%s nv=%s q=[%s]"
    (tok_txt o.o_own) (tok_txt o.o_their) (int_of_z o.o_ack) (int_of_z o.o_seq) o.o_rr
    (pc_txt o.o_packet) (pc_txt o.o_packet_nv)
    (String.concat "," (List.map (fun c ->
         Printf.sprintf "%d@%s:%s" (int_of_z c.rc_seq) (time_txt c.rc_next) (rawhex c.rc_data)) o.o_queue))

let list_or_dash f l = if l = [] then "-" else String.concat "," (List.map f l)

(* ---- 0.6 ---- *)
module M6 = struct
  open Conn6
  let fp (c : conn6) =
    let st = match c.c_state with
      | Unconnected -> "Unconnected" | Connecting -> "Connecting"
      | Pending t -> "Pending tok=" ^ tok_txt t
      | Online o -> "Online " ^ online_txt o
      | Disconnected -> "Disconnected" in
    Printf.sprintf "%s send=%s" st (time_txt c.c_send)
  let warn_txt = function WTokenMismatch -> "tm" | WUnexpected -> "ux"
  let result (r : (unit, outcome) res) : (conn6 * env) option * string =
    match r with
    | Ok o ->
      Some (o.out_conn, o.out_env),
      Printf.sprintf "res=%s sent=%s ev=%s warn=%s tick=%s fp=%s"
        (match o.out_res with ROk -> "ok" | RTooLongData -> "toolong")
        (list_or_dash dgram_txt o.out_sent) (list_or_dash ev_txt o.out_events)
        (list_or_dash warn_txt o.out_warns) (time_txt (needs_tick o.out_conn)) (fp o.out_conn)
    | Panic _ -> None, "panic"
    | OutOfFuel -> None, "hang"
    | Err _ -> None, "model-err"
end

(* ---- 0.7 ---- *)
module M7 = struct
  open Conn7
  let fp (c : conn7) =
    let st = match c.c7_state with
      | Unconnected7 -> "Unconnected"
      | Token7 o -> "Token own=" ^ hex o
      | PendingConnect7 o -> "PendingConnect own=" ^ hex o
      | Connecting7 (o, t) -> Printf.sprintf "Connecting own=%s their=%s" (hex o) (hex t)
      | Pending7 (o, t) -> Printf.sprintf "Pending own=%s their=%s" (hex o) (hex t)
      | Online7 o -> "Online " ^ online_txt o
      | Disconnected7 -> "Disconnected" in
    Printf.sprintf "%s send=%s" st (time_txt c.c7_send)
  let warn_txt = function W7TokenMismatch -> "tm" | W7Unexpected -> "ux"
                        | W7ConnlessTokenMismatch -> "ctm" | W7ConnlessResponseTokenMismatch -> "crtm"
  let result (r : (unit, outcome7) res) : (conn7 * env) option * string =
    match r with
    | Ok o ->
      Some (o.out7_conn, o.out7_env),
      Printf.sprintf "res=%s sent=%s ev=%s warn=%s tick=%s fp=%s"
        (match o.out7_res with R7Ok -> "ok" | R7TooLongData -> "toolong")
        (list_or_dash dgram_txt o.out7_sent) (list_or_dash ev_txt o.out7_events)
        (list_or_dash warn_txt o.out7_warns) (time_txt (needs_tick7 o.out7_conn)) (fp o.out7_conn)
    | Panic _ -> None, "panic"
    | OutOfFuel -> None, "hang"
    | Err _ -> None, "model-err"
end

type side = { mutable c6 : Conn6.conn6; mutable c7 : Conn7.conn7; mutable rand : coq_Z list list; mutable dead : bool }
type world = { a : side; b : side; mutable now : int }
let worlds : (string, world) Hashtbl.t = Hashtbl.create 64

let rand_of s = if s = "" then [] else List.map unhex (split_on ',' s)

let run = function
  | proto :: trace :: "new" :: ra :: rb :: _ ->
    let mk r = { c6 = Conn6.conn6_new; c7 = Conn7.conn7_new; rand = rand_of r; dead = false } in
    Hashtbl.replace worlds trace { a = mk ra; b = mk rb; now = 0 };
    "ok"
  | proto :: trace :: "clock" :: t :: _ ->
    (Hashtbl.find worlds trace).now <- int_of_string t; "ok"
  | proto :: trace :: side :: opname :: args ->
    let w = Hashtbl.find worlds trace in
    let s = if side = "A" then w.a else w.b in
    if s.dead then "dead" else begin
      let env = { e_now = z_of_int w.now; e_rand = s.rand } in
      if proto = "7" then begin
        let op = match opname, args with
          | "connect", _ -> Conn7.Op7Connect
          | "send", d :: v :: _ -> Conn7.Op7Send (unhex d, v = "1")
          | "flush", _ -> Conn7.Op7Flush
          | "tick", _ -> Conn7.Op7Tick
          | "disc", r :: _ -> Conn7.Op7Disconnect (unhex r)
          | "connless", d :: _ -> Conn7.Op7SendConnless (unhex d)
          | "reset", _ -> Conn7.Op7Reset
          | "feed", d :: _ -> Conn7.Op7Feed (dgram_of d)
          | "feedgarbage", _ -> Conn7.Op7FeedGarbage
          | _ -> failwith ("op " ^ opname) in
        let (st, txt) = M7.result (Conn7.step7 s.c7 env op) in
        (match st with
         | Some (c, e) -> s.c7 <- c; s.rand <- e.e_rand
         | None -> s.dead <- true);
        txt
      end else begin
      let op = match opname, args with
        | "connect", _ -> Conn6.OpConnect
        | "send", d :: v :: _ -> Conn6.OpSend (unhex d, v = "1")
        | "flush", _ -> Conn6.OpFlush
        | "tick", _ -> Conn6.OpTick
        | "disc", r :: _ -> Conn6.OpDisconnect (unhex r)
        | "connless", d :: _ -> Conn6.OpSendConnless (unhex d)
        | "reset", _ -> Conn6.OpReset
        | "feed", d :: _ -> Conn6.OpFeed (dgram_of d)
        | "feedgarbage", _ -> Conn6.OpFeedGarbage
        | _ -> failwith ("op " ^ opname) in
      let (st, txt) = M6.result (Conn6.step s.c6 env op) in
      (match st with
       | Some (c, e) -> s.c6 <- c; s.rand <- e.e_rand
       | None -> s.dead <- true);
      txt
      end
    end
  | _ -> "model-unknown-case"

let () = main_loop run

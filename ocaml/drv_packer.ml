(* C08 driver: runs Model/Varint.v and Model/Packer.v on the harness' cases *)
open Tw_io
open Res
open Varint
open Packer

let warn_txt = function OverlongIntEncoding -> "O" | NonZeroIntPadding -> "P" | ExcessData -> "X"
let warns ws = if ws = [] then "-" else String.concat "," (List.map warn_txt ws)

let field_of s =
  let v = String.sub s 2 (String.length s - 2) in
  match s.[0] with
  | 'i' -> FInt (z_of_int (int_of_string v))
  | 's' -> FStr (unhex v)
  | 'd' -> FData (unhex v)
  | 'r' -> FRaw (unhex v)
  | _ -> FRest (unhex v)

let run = function
  | ["enc"; v] ->
    (match write_int (z_of_int (int_of_string v)) with
     | Ok bs -> "ok " ^ hex bs
     | Err _ -> "err" | Panic _ -> "panic" | OutOfFuel -> "hang")
  | ["dec"; h] ->
    (match read_int (unhex h) with
     | Ok ((v, ws), rest) -> Printf.sprintf "ok %d %s %s" (int_of_z v) (warns ws) (hex rest)
     | Err _ -> "err" | Panic _ -> "panic" | OutOfFuel -> "hang")
  | "pack" :: cap :: fs ->
    let fs = List.filter (fun s -> s <> "") fs in
    let (out, r) = pack (List.map field_of fs) (nat_of_int (int_of_string cap)) in
    (match r with
     | Ok _ -> "ok " ^ hex out
     | Err _ -> "cap " ^ hex out
     | Panic _ -> "panic" | OutOfFuel -> "hang")
  | "unpack" :: demo :: h :: kinds ->
    let demo = demo = "1" in
    let kinds = List.filter (fun s -> s <> "") kinds in
    let rest = ref (unhex h) in
    let steps = List.map (fun k ->
        if k = "f" then begin
          let w = finish_warns demo !rest in
          rest := []; Printf.sprintf "f:%d" (if w then 1 else 0)
        end else begin
          let kind = match k.[0] with
            | 'i' -> KInt | 's' -> KStr | 'd' -> KData | 't' -> KRest
            | _ -> KRaw (nat_of_int (int_of_string (String.sub k 1 (String.length k - 1)))) in
          let ((r, res), ws) = unpack_step !rest kind in
          rest := r;
          match res with
          | Ok (FInt v) -> Printf.sprintf "i:%d:%s" (int_of_z v) (warns ws)
          | Ok (FStr s) -> "s:" ^ hex s
          | Ok (FData d) -> Printf.sprintf "d:%s:%s" (hex d) (warns ws)
          | Ok (FRaw s) -> "r:" ^ hex s
          | Ok (FRest s) -> "t:" ^ hex s
          | Err _ -> if k.[0] = 'd' then "e:" ^ warns ws else "e"
          | Panic _ -> "panic" | OutOfFuel -> "hang"
        end) kinds in
    String.concat " " (steps @ ["rest=" ^ hex !rest])
  | _ -> "model-unknown-case"

let () = main_loop run

(* C13 driver: replays the harness' histories on Model/Storage.v (lstep), label by label.
   Case and result formats are described at the top of harness/src/bin/storage.rs. *)
open BinNums
open Datatypes
open Tw_io
open Res

let zi s = z_of_int (int_of_string s)
let zs z = string_of_int (int_of_z z)

let fnv_str (s : string) : int =
  let h = ref 0x811c9dc5 in
  String.iter (fun c -> h := ((!h lxor (Char.code c)) * 0x01000193) land 0xffffffff) s;
  !h
let fp_txt s = if String.length s <= 120 then s else Printf.sprintf "#%d.%08x" (String.length s) (fnv_str s)
let fp_bytes (bs : coq_Z list) =
  let n = List.length bs in
  if n <= 40 then hex bs
  else Printf.sprintf "#%d.%08x" n
      (List.fold_left (fun h b -> ((h lxor (int_of_z b)) * 0x01000193) land 0xffffffff) 0x811c9dc5 bs)

let ints_of s = if s = "" then [] else List.map zi (split_on ',' s)

let tyid_of s =
  let v = String.sub s 1 (String.length s - 1) in
  if s.[0] = 'o' then Snap.Ordinal (zi v) else Snap.Uuid (Snap.uuid_of_bytes (unhex v))
let tyid_txt = function
  | Snap.Ordinal o -> "o" ^ zs o
  | Snap.Uuid u -> "u" ^ hex (Snap.uuid_to_bytes u)

(* <ty>/<id>=<ints>;... *)
let world_of s : Storage.world =
  if s = "-" then [] else
  List.map (fun it ->
      match split_on '=' it with
      | [k; d] ->
        (match split_on '/' k with
         | [t; i] -> ((tyid_of t, zi i), ints_of d)
         | _ -> failwith "item key")
      | _ -> failwith ("item " ^ it)) (split_on ';' s)

let items_txt (l : ((Snap.tyid * coq_Z) * coq_Z list) list) =
  if l = [] then "-" else
  String.concat ";" (List.map (fun ((t, id), d) ->
      Printf.sprintf "%s/%s=%s" (tyid_txt t) (zs id) (String.concat "," (List.map zs d))) l)

let table_of s : coq_Z -> coq_Z option =
  if s = "-" then (fun _ -> None) else
  let l = List.map (fun e -> match split_on '=' e with
      | [a; b] -> (int_of_string a, zi b) | _ -> failwith "table") (split_on ',' s) in
  fun ty -> List.assoc_opt (int_of_z ty) l

let msg_of (s : string) : Receiver.snapmsg =
  match split_on ':' s with
  | ["P"; t; dt; n; p; c; d] -> Receiver.MSnap (zi t, zi dt, zi n, zi p, zi c, unhex d)
  | ["S"; t; dt; c; d] -> Receiver.MSnapSingle (zi t, zi dt, zi c, unhex d)
  | ["E"; t; dt] -> Receiver.MSnapEmpty (zi t, zi dt)
  | _ -> failwith ("message " ^ s)

let label_of (s : string) : Storage.label =
  let rest = String.sub s 1 (String.length s - 1) in
  match s.[0] with
  | 'W' -> Storage.World (world_of rest)
  | 'S' -> Storage.SendTick
  | 'D' -> Storage.Deliver (nat_of_int (int_of_string rest))
  | 'X' -> Storage.Drop (nat_of_int (int_of_string rest))
  | 'A' -> Storage.SendAck
  | 'R' -> Storage.DeliverAck (nat_of_int (int_of_string rest))
  | 'Y' -> Storage.DropAck (nat_of_int (int_of_string rest))
  | 'F' -> Storage.ForgeAck (zi rest)
  | 'Z' -> Storage.ResetMgr
  | 'I' -> Storage.Inject (msg_of rest)
  | _ -> failwith ("label " ^ s)

let pw_txt = function Varint.OverlongIntEncoding -> "PO" | Varint.NonZeroIntPadding -> "PP" | Varint.ExcessData -> "PX"
let fw_txt = function
  | Snap.WPacker w -> pw_txt w
  | Snap.NonZeroPadding -> "NonZeroPadding" | Snap.DuplicateDelete -> "DuplicateDelete"
  | Snap.DuplicateUpdate -> "DuplicateUpdate" | Snap.UnknownDelete -> "UnknownDelete"
  | Snap.DeleteUpdate -> "DeleteUpdate" | Snap.NumUpdatedItems -> "NumUpdatedItems"
  | Snap.ExcessSnapData -> "ExcessSnapData" | Snap.ExcessUuidItemData -> "ExcessUuidItemData"
let mwarn_txt = function
  | Storage.MWReceiver Receiver.DuplicateSnap -> "R.D"
  | Storage.MWReceiver Receiver.DifferingAttributes -> "R.A"
  | Storage.MWSnap w -> "P." ^ fw_txt w
  | Storage.MWStorage Storage.SWeirdNegativeDeltaTick -> "S.W"
  | Storage.MWStorage (Storage.SWUnpack w) -> "U." ^ fw_txt w
let mwarns ws = if ws = [] then "-" else String.concat "," (List.map mwarn_txt ws)

let serr_txt = function
  | Snap.UnexpectedEnd -> "UnexpectedEnd" | Snap.IntOutOfRange -> "IntOutOfRange"
  | Snap.DeletedItemsUnpacking -> "DeletedItemsUnpacking" | Snap.ItemDiffsUnpacking -> "ItemDiffsUnpacking"
  | Snap.TypeIdRange -> "TypeIdRange" | Snap.IdRange -> "IdRange" | Snap.NegativeSize -> "NegativeSize"
  | Snap.TooLongDiff -> "TooLongDiff" | Snap.TooLongSnap -> "TooLongSnap" | Snap.TooManyItems -> "TooManyItems"
  | Snap.DeltaDifferingSizes -> "DeltaDifferingSizes" | Snap.OffsetsUnpacking -> "OffsetsUnpacking"
  | Snap.InvalidOffset -> "InvalidOffset" | Snap.ItemsUnpacking -> "ItemsUnpacking" | Snap.DuplicateKey -> "DuplicateKey"
  | Snap.DuplicateUuidType -> "DuplicateUuidType" | Snap.InvalidUuidType -> "InvalidUuidType"
  | Snap.MissingUuidType -> "MissingUuidType"
let merr_txt = function
  | Storage.MReceiver Receiver.OldDelta -> "r.old"
  | Storage.MReceiver Receiver.InvalidNumParts -> "r.numparts"
  | Storage.MReceiver Receiver.InvalidPart -> "r.part"
  | Storage.MReceiver Receiver.DuplicatePart -> "r.dup"
  | Storage.MSnap e -> "p." ^ serr_txt e
  | Storage.MStorage Storage.SOldDelta -> "s.old"
  | Storage.MStorage Storage.SUnknownSnap -> "s.unknown"
  | Storage.MStorage Storage.SInvalidCrc -> "s.crc"
  | Storage.MStorage (Storage.SUnpack e) -> "s.unpack." ^ serr_txt e

let opt_txt = function Some z -> zs z | None -> "-"

let obs_txt (l : Storage.label) (o : Storage.lobs) : string =
  match l, o with
  | Storage.World _, _ -> "w"
  | _, Storage.OSent x ->
    Printf.sprintf "s:%s:%s:%s:%d:%s" (zs x.Storage.sn_tick) (zs x.Storage.sn_base) (zs x.Storage.sn_crc)
      (List.length x.Storage.sn_msgs) (fp_bytes x.Storage.sn_bytes)
  | _, Storage.ODeliver (tick, (r, ws), ack) ->
    let res = match r with
      | Ok None -> "none"
      | Ok (Some x) ->
        (match Snap.snap_items x with
         | Ok (_, l) -> "acc:" ^ fp_txt (items_txt l)
         | _ -> "acc:panic")
      | Err e -> "e." ^ merr_txt e
      | Panic _ -> "panic" | OutOfFuel -> "hang" in
    Printf.sprintf "d:%s:%s:%s:%s" (zs tick) res (mwarns ws) (opt_txt ack)
  | _, Storage.OAckSent v -> "a:" ^ zs v
  | _, Storage.OAckDelivered (v, r, weird, dt) ->
    Printf.sprintf "r:%s:%s%s:%s" (zs v) (match r with Ok _ -> "ok" | _ -> "unk") (if weird then "w" else "") (opt_txt dt)
  | (Storage.Deliver _ | Storage.DeliverAck _), Storage.ONone -> "n"
  | _, Storage.ONone -> "-"

let site_builder = int_of_z Storage.site_builder_unwrap
let site_write = int_of_z Storage.site_write_unwrap
let site_tick = int_of_z Storage.site_tick_i32

let run = function
  | "hist" :: t0 :: table :: [labels] ->
    let sz = table_of table in
    let s = ref (Storage.link_init (zi t0)) in
    let out = Buffer.create 4096 in
    let emit t = if Buffer.length out > 0 then Buffer.add_char out ' '; Buffer.add_string out t in
    (try
       List.iter (fun ls ->
           if ls <> "" then begin
             let l = label_of ls in
             (* the hypothesis of the theorems, as the model sees it *)
             let api = match l with
               | Storage.SendTick -> if Storage.api_ok sz !s l then ":A" else ":V"
               | _ -> "" in
             match Storage.lstep sz !s l with
             | Ok (s', o) -> s := s'; emit (obs_txt l o ^ api)
             | Panic site ->
               let st = int_of_z site in
               (match l with
                | Storage.SendTick ->
                  emit ("panic:" ^ (if st = site_builder then "builder" else if st = site_tick then "tick"
                                    else if st = site_write then "write" else "other") ^ api)
                | Storage.DeliverAck _ -> emit "panic:ack"
                | _ -> emit "panic:recv");
               raise Exit
             | OutOfFuel -> emit "hang"; raise Exit
             | Err _ -> emit "err"; raise Exit
           end) (split_on ' ' labels)
     with Exit -> ());
    if Buffer.length out = 0 then "-" else Buffer.contents out
  | _ -> "model-unknown-case"

let () = Gc.set { (Gc.get ()) with Gc.minor_heap_size = 8 * 1024 * 1024 }
let () = main_loop run

(* C14 driver: runs the interpreter Model/Codec.v on the codec tables translated from the
   generated Rust (Gen/Rs_<proto>.v) for the harness' cases *)
open Tw_io
open Res
open Varint
open Codec

let warn_txt = function OverlongIntEncoding -> "O" | NonZeroIntPadding -> "P" | ExcessData -> "X"
let warns ws = if ws = [] then "-" else String.concat "," (List.map warn_txt ws)

let err_txt = function
  | ControlCharacters -> "ControlCharacters"
  | IntOutOfRange -> "IntOutOfRange"
  | InvalidIntString -> "InvalidIntString"
  | UnexpectedEnd -> "UnexpectedEnd"
  | UnknownId -> "UnknownId"

let tables = function
  | "tw05" -> (Rs_tw05.codecs, Rs_tw05.objs)
  | "tw06" -> (Rs_tw06.codecs, Rs_tw06.objs)
  | "tw07" -> (Rs_tw07.codecs, Rs_tw07.objs)
  | "ddnet" -> (Rs_ddnet.codecs, Rs_ddnet.objs)
  | p -> failwith ("unknown protocol " ^ p)

let big_cap = nat_of_int 4096

let enc_txt = function
  | Ok bs -> hex bs
  | Err CapacityErr -> "cap"
  | Err IllTyped -> "illtyped"
  | Panic _ -> "panic"
  | OutOfFuel -> "hang"

let parse_id s =
  let body = String.sub s 1 (String.length s - 1) in
  match s.[0] with
  | 'o' -> IdOrd (z_of_int (int_of_string body))
  | 'u' -> IdUuid (unhex body)
  | _ -> IdConn (unhex body)

let words_of_txt s =
  if s = "-" then [] else List.map (fun w -> z_of_int (int_of_string w)) (split_on ',' s)

(* a padding byte is never shown *)
let masked bs =
  if bs = [] then "-" else
  String.concat "" (List.map (fun (pad, b) -> if pad then ".." else Printf.sprintf "%02x" (int_of_z b land 255)) bs)

let run = function
  | ["msg"; proto; kind; demo; small; h] ->
    let (codecs, _) = tables proto in
    let demo = demo = "1" in
    let bs = unhex h in
    let omsg = String.length kind > 5 && String.sub kind 0 5 = "omsg:" in
    let (r, ws) = match kind with
      | "sys" -> decode_sysgame codecs true demo bs
      | "game" -> decode_sysgame codecs false demo bs
      | "conn" -> decode_connless codecs demo bs
      | _ ->
        (* Obj::decode_msg: no id, the codec is named by the case *)
        (match find_codec codecs KObjMsg (parse_id (List.nth (split_on ':' kind) 2)) with
         | None -> failwith "no such objmsg codec"
         | Some c -> tag_codec c (decode_w c demo bs)) in
    (match r with
     | Ok (c, vs) ->
       let enc_fn = if omsg then encode c vs else encode_msg c vs in
       let enc = enc_txt (enc_fn big_cap) in
       let sm = if small = "-" then "-" else
           (match enc_fn (nat_of_int (int_of_string small)) with
            | Ok _ -> "fits" | other -> enc_txt other) in
       Printf.sprintf "ok %s %s %s" (warns ws) enc sm
     | Err e -> Printf.sprintf "err %s %s" (err_txt e) (warns ws)
     | Panic _ -> "panic"
     | OutOfFuel -> "hang")
  | ["obj"; proto; id; ws] ->
    let (_, objs) = tables proto in
    let (r, excess) = decode_snap_obj objs (parse_id id) (words_of_txt ws) in
    (match r with
     | Ok (o, vs) ->
       (match encode_obj_bytes o vs (fun _ -> z_of_int 0xde) with
        | Ok bs -> Printf.sprintf "ok %d %d %s" (if excess then 1 else 0) (List.length bs / 4) (masked bs)
        | Panic _ -> Printf.sprintf "ok %d encpanic" (if excess then 1 else 0)
        | Err _ -> "model-illtyped"
        | OutOfFuel -> "hang")
     | Err e -> "err " ^ err_txt e
     | Panic _ -> "panic"
     | OutOfFuel -> "hang")
  | ["enc"; proto; kind; id; cap; vals] ->
    let (codecs, _) = tables proto in
    let k = (match kind with "sys" -> KSystem | "game" -> KGame | _ -> KConnless) in
    (match find_codec codecs k (parse_id id) with
     | None -> "model-no-such-codec"
     | Some c ->
       let value s =
         let body = String.sub s 1 (String.length s - 1) in
         match s.[0] with
         | 'i' -> VInt (z_of_int (int_of_string body))
         | 'b' -> VBool (body = "1")
         | 's' -> VBytes (unhex body)
         | 'n' -> VNone
         | _ -> VUnit in
       let vs = List.map value (List.filter (fun s -> s <> "") (split_on ' ' vals)) in
       enc_txt (encode_msg c vs (nat_of_int (int_of_string cap))))
  | ["size"; proto; ty] ->
    let (_, objs) = tables proto in
    (match obj_size objs (z_of_int (int_of_string ty)) with
     | Some s -> Printf.sprintf "some %d" (int_of_z s)
     | None -> "none")
  | _ -> "model-unknown-case"

let () = main_loop run

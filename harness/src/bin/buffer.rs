//! C19: the uninitialized-buffer abstraction (libtw2-buffer) against the Coq model
//! Model/Buffer.v.  A case is a backing store (Vec / ArrayVec / slice / slice
//! reference, optionally capped once or twice) plus a program: the tree of
//! `with_buffer` closures with the operations done on each `BufferRef`.
//! The interpreter below drives the real crate, records every observable and keeps a
//! shadow log (the bytes each view accepted, in order) against which the property
//! statement is asserted directly.
use arrayvec::Array;
use arrayvec::ArrayVec;
use libtw2_buffer::with_buffer;
use libtw2_buffer::Buffer;
use libtw2_buffer::BufferRef;
use libtw2_buffer::ReadBuffer;
use libtw2_buffer::ReadBufferMarker;
use libtw2_buffer::ReadBufferRef;
use std::io;
use std::io::Read;
use tw2verif::*;

#[derive(Clone, Debug)]
enum Op {
    Write { q: bool, bs: Vec<u8> },
    Extend { q: bool, bs: Vec<u8> },
    Advance(u64),
    Poke(Vec<u8>),
    Remaining,
    Nested { q: bool, caps: Vec<u64>, sub: Vec<Op> },
    Read { caps: Vec<u64>, fail: bool, rk: u8, src: Vec<u8> },
    // terminal operations: they consume the view
    Init,
    ReadInto { fail: bool, rk: u8, src: Vec<u8> },
}

fn caps_txt(caps: &[u64]) -> String {
    if caps.is_empty() {
        "-".into()
    } else {
        caps.iter().map(|c| format!("{:x}", c)).collect::<Vec<_>>().join(",")
    }
}

fn prog_txt(ops: &[Op], out: &mut Vec<String>) {
    let f = |q: bool| if q { 'q' } else { '.' };
    for op in ops {
        match op {
            Op::Write { q, bs } => out.push(format!("w{}:{}", f(*q), hex(bs))),
            Op::Extend { q, bs } => out.push(format!("x{}:{}", f(*q), hex(bs))),
            Op::Advance(n) => out.push(format!("a:{:x}", n)),
            Op::Poke(bs) => out.push(format!("p:{}", hex(bs))),
            Op::Remaining => out.push("r".into()),
            Op::Nested { q, caps, sub } => {
                out.push(format!("n{}:{}(", f(*q), caps_txt(caps)));
                prog_txt(sub, out);
                out.push(")".into());
            }
            Op::Read { caps, fail, rk, src } => out.push(format!("R:{}:{}:{}:{}", caps_txt(caps), *fail as u8, rk, hex(src))),
            Op::Init => out.push("i".into()),
            Op::ReadInto { fail, rk, src } => out.push(format!("f:{}:{}:{}", *fail as u8, rk, hex(src))),
        }
    }
}

// ---------------------------------------------------------------- readers

/// hands out its data, at most what fits (like &[u8]), through a type of our own
struct Stingy(Vec<u8>);
impl Read for Stingy {
    fn read(&mut self, buf: &mut [u8]) -> io::Result<usize> {
        let k = self.0.len().min(buf.len());
        buf[..k].copy_from_slice(&self.0[..k]);
        self.0.drain(..k);
        Ok(k)
    }
}
unsafe impl ReadBufferMarker for Stingy {}

struct Failing;
impl Read for Failing {
    fn read(&mut self, _: &mut [u8]) -> io::Result<usize> {
        Err(io::Error::new(io::ErrorKind::Other, "failing reader"))
    }
}
unsafe impl ReadBufferMarker for Failing {}

macro_rules! read_with {
    // $call: a closure-like macro body using `$r` as the reader expression
    ($fail:expr, $rk:expr, $src:expr, |$r:ident| $body:expr) => {{
        let src: &[u8] = $src;
        if $fail {
            let mut $r = Failing;
            $body
        } else {
            match $rk {
                0 => {
                    let mut $r: &[u8] = src;
                    $body
                }
                1 => {
                    // io::Take over a longer slice
                    let mut long = src.to_vec();
                    long.extend_from_slice(&[0xEE; 7]);
                    let mut $r = (&long[..]).take(src.len() as u64);
                    $body
                }
                2 => {
                    let mut $r = Stingy(src.to_vec());
                    $body
                }
                3 => {
                    let empty: &[u8] = &[];
                    let mut $r = src.chain(empty);
                    $body
                }
                4 => {
                    let mut $r = io::BufReader::new(src);
                    $body
                }
                5 => {
                    let mut inner: &[u8] = src;
                    let mut $r = Box::new(&mut inner);
                    $body
                }
                _ => {
                    // io::Repeat / io::Empty: src is 64 copies of one byte, or nothing
                    if src.is_empty() {
                        let mut $r = io::empty();
                        $body
                    } else {
                        let mut $r = io::repeat(src[0]);
                        $body
                    }
                }
            }
        }
    }};
}

// ---------------------------------------------------------------- interpreter

struct Frame {
    cap0: usize,
    log: Vec<u8>,
}

struct Cx<'d> {
    tr: Vec<String>,
    held: Vec<(&'d [u8], Vec<u8>)>,
    frames: Vec<Frame>,
    fails: Vec<String>,
    expect_panic: Option<&'static str>,
    flags: u32,
    maxdepth: usize,
}

impl<'d> Cx<'d> {
    fn new() -> Cx<'d> {
        Cx { tr: vec![], held: vec![], frames: vec![], fails: vec![], expect_panic: None, flags: 0, maxdepth: 0 }
    }
    fn fail(&mut self, s: String) {
        if self.fails.len() < 20 {
            self.fails.push(s);
        }
    }
    fn top(&mut self) -> &mut Frame {
        self.frames.last_mut().unwrap()
    }
    /// expected remaining() of the current view according to the shadow log
    fn rem(&self) -> usize {
        let f = self.frames.last().unwrap();
        f.cap0 - f.log.len()
    }
}

fn capped(mut n: usize, caps: &[u64]) -> usize {
    for &c in caps {
        if (c as u128) < n as u128 {
            n = c as usize;
        }
    }
    n
}

/// the closure body: `b` is the view, `expect_cap` what the property says its capacity is
fn run<'d, 's>(mut b: BufferRef<'d, 's>, ops: &[Op], cx: &mut Cx<'d>, expect_cap: usize) -> Result<(), ()> {
    let rem0 = b.remaining();
    cx.tr.push(format!("o{}", rem0));
    if rem0 != expect_cap {
        cx.fail(format!("a new view reports remaining() = {} but its capacity should be {}", rem0, expect_cap));
    }
    cx.frames.push(Frame { cap0: rem0, log: vec![] });
    cx.maxdepth = cx.maxdepth.max(cx.frames.len());
    let r = run_ops(&mut b, ops, cx);
    match r {
        Some(res) => {
            // not consumed: dropped here
            let f = cx.frames.pop().unwrap();
            if let Some(p) = cx.frames.last_mut() {
                p.log.extend_from_slice(&f.log);
            } else {
                cx.frames.push(f); // the root frame stays for the final comparison
            }
            res
        }
        None => {
            // consumed by a terminal operation
            let last = ops.last().unwrap();
            let before = cx.rem();
            let res = match last {
                Op::Init => {
                    let s = b.initialized();
                    cx.tr.push(format!("b{}", hex(s)));
                    cx.flags |= 1 << 6;
                    let want = cx.top().log.clone();
                    if s != &want[..] {
                        cx.fail(format!("initialized() = {} but the accepted bytes are {}", hex(s), hex(&want)));
                    }
                    cx.held.push((s, s.to_vec()));
                    Ok(())
                }
                Op::ReadInto { fail, rk, src } => {
                    let r = read_with!(*fail, *rk, src, |rd| rd.read_buffer_ref(b));
                    cx.flags |= 1 << 7;
                    match r {
                        Ok(s) => {
                            cx.tr.push(format!("b{}", hex(s)));
                            let k = src.len().min(before);
                            let mut want = cx.top().log.clone();
                            want.extend_from_slice(&src[..k]);
                            if s != &want[..] {
                                cx.fail(format!("read_buffer_ref returned {} but accepted ++ read bytes = {}", hex(s), hex(&want)));
                            }
                            cx.top().log.extend_from_slice(&src[..k]);
                            cx.held.push((s, s.to_vec()));
                            Ok(())
                        }
                        Err(_) => {
                            cx.tr.push("E".into());
                            cx.flags |= 1 << 8;
                            if !*fail {
                                cx.fail("read_buffer_ref failed although the reader did not".into());
                            }
                            Err(())
                        }
                    }
                }
                _ => unreachable!(),
            };
            let f = cx.frames.pop().unwrap();
            if let Some(p) = cx.frames.last_mut() {
                p.log.extend_from_slice(&f.log);
            } else {
                cx.frames.push(f);
            }
            res
        }
    }
}

/// Some(result) when the closure ends with the view still alive, None when the last op must consume it
fn run_ops<'d, 's>(b: &mut BufferRef<'d, 's>, ops: &[Op], cx: &mut Cx<'d>) -> Option<Result<(), ()>> {
    for (i, op) in ops.iter().enumerate() {
        let before = cx.rem();
        match op {
            Op::Write { q, bs } => {
                let r = b.write(bs);
                cx.tr.push(format!("w{}", if r.is_ok() { '+' } else { '-' }));
                let fit = bs.len().min(before);
                cx.top().log.extend_from_slice(&bs[..fit]);
                cx.flags |= if r.is_ok() { 1 } else { 2 };
                if r.is_ok() != (bs.len() <= before) {
                    cx.fail(format!("write of {} bytes with {} remaining returned {:?}", bs.len(), before, r));
                }
                if b.remaining() != before - fit {
                    cx.fail(format!("write of {} bytes with {} remaining left remaining() = {}", bs.len(), before, b.remaining()));
                }
                if r.is_err() && *q {
                    return Some(Err(()));
                }
            }
            Op::Extend { q, bs } => {
                // the iterator's size_hint is advisory: whatever it claims (exact, nothing, too little,
                // too much), extend must behave the same -- one capacity check per byte
                let mode = (bs.len() + before + bs.first().copied().unwrap_or(0) as usize) % 5;
                let mut it = Hinted { inner: bs.iter().cloned(), pulled: 0, mode, len: bs.len() };
                let r = b.extend(&mut it);
                let pulled = it.pulled;
                cx.tr.push(format!("x{}{}", if r.is_ok() { '+' } else { '-' }, pulled));
                let fit = bs.len().min(before);
                cx.top().log.extend_from_slice(&bs[..fit]);
                cx.flags |= if r.is_ok() { 4 } else { 8 };
                if r.is_ok() != (bs.len() <= before) || b.remaining() != before - fit {
                    cx.fail(format!("extend of {} bytes with {} remaining returned {:?}, remaining() = {}", bs.len(), before, r, b.remaining()));
                }
                if r.is_err() && *q {
                    return Some(Err(()));
                }
            }
            Op::Advance(n) => {
                cx.flags |= 1 << 4;
                if (*n as u128) <= before as u128 {
                    let exposed = unsafe { b.uninitialized_mut()[..*n as usize].to_vec() };
                    cx.top().log.extend_from_slice(&exposed);
                    unsafe { b.advance(*n as usize) };
                    if b.remaining() != before - *n as usize {
                        cx.fail(format!("advance({}) with {} remaining left remaining() = {}", n, before, b.remaining()));
                    }
                } else {
                    // the documented safety net: assert!(initialized + n <= len)
                    cx.expect_panic = Some("advance");
                    unsafe { b.advance(*n as usize) };
                    cx.expect_panic = None;
                    cx.fail(format!("advance({}) with only {} remaining did not panic", n, before));
                }
            }
            Op::Poke(bs) => {
                cx.flags |= 1 << 5;
                let u = unsafe { b.uninitialized_mut() };
                if u.len() != before {
                    cx.fail(format!("uninitialized_mut() has {} bytes, remaining should be {}", u.len(), before));
                }
                let k = u.len().min(bs.len());
                u[..k].copy_from_slice(&bs[..k]);
            }
            Op::Remaining => {
                let r = b.remaining();
                cx.tr.push(format!("r{}", r));
                if r != before {
                    cx.fail(format!("remaining() = {} but capacity - accepted = {}", r, before));
                }
            }
            Op::Nested { q, caps, sub } => {
                cx.flags |= 1 << (9 + caps.len().min(2));
                let want = capped(before, caps);
                let r = match caps.len() {
                    0 => with_buffer(&mut *b, |c| run(c, sub, cx, want)),
                    1 => with_buffer((&mut *b).cap_at(caps[0] as usize), |c| run(c, sub, cx, want)),
                    _ => with_buffer((&mut *b).cap_at(caps[0] as usize).cap_at(caps[1] as usize), |c| run(c, sub, cx, want)),
                };
                let rem = b.remaining();
                cx.tr.push(format!("){}{}", if r.is_ok() { '+' } else { '-' }, rem));
                if rem != cx.rem() {
                    cx.fail(format!("after a nested view that accepted {} bytes the parent has remaining() = {}, before {}", before - cx.rem(), rem, before));
                }
                if r.is_err() && *q {
                    return Some(Err(()));
                }
            }
            Op::Read { caps, fail, rk, src } => {
                cx.flags |= 1 << 12;
                let want = capped(before, caps);
                let r = read_with!(*fail, *rk, src, |rd| match caps.len() {
                    0 => rd.read_buffer(&mut *b),
                    1 => rd.read_buffer((&mut *b).cap_at(caps[0] as usize)),
                    _ => rd.read_buffer((&mut *b).cap_at(caps[0] as usize).cap_at(caps[1] as usize)),
                });
                match r {
                    Ok(s) => {
                        cx.tr.push(format!("b{}", hex(s)));
                        let k = src.len().min(want);
                        if s != &src[..k] {
                            cx.fail(format!("read_buffer returned {} but the reader had {} and the view {} bytes", hex(s), hex(src), want));
                        }
                        cx.top().log.extend_from_slice(&src[..k]);
                        cx.held.push((s, s.to_vec()));
                    }
                    Err(_) => {
                        cx.tr.push("E".into());
                        if !*fail {
                            cx.fail("read_buffer failed although the reader did not".into());
                        }
                    }
                }
                let rem = b.remaining();
                cx.tr.push(format!("){}{}", if *fail { '-' } else { '+' }, rem));
                if rem != cx.rem() {
                    cx.fail(format!("after read_buffer the parent has remaining() = {}, expected {}", rem, cx.rem()));
                }
            }
            Op::Init | Op::ReadInto { .. } => {
                assert!(i + 1 == ops.len());
                return None;
            }
        }
    }
    Some(Ok(()))
}

fn root<'d, B: Buffer<'d>>(buf: B, caps: &[u64], ops: &[Op], cx: &mut Cx<'d>, spare: usize) -> Result<(), ()> {
    let want = capped(spare, caps);
    match caps.len() {
        0 => with_buffer(buf, |b| run(b, ops, cx, want)),
        1 => with_buffer(buf.cap_at(caps[0] as usize), |b| run(b, ops, cx, want)),
        _ => with_buffer(buf.cap_at(caps[0] as usize).cap_at(caps[1] as usize), |b| run(b, ops, cx, want)),
    }
}

/// reader.read_buffer(store): the library opens the view itself
fn root_read<'d, B: Buffer<'d>>(buf: B, caps: &[u64], op: &Op, cx: &mut Cx<'d>, spare: usize) -> Result<(), ()> {
    let want = capped(spare, caps);
    let (fail, rk, src) = match op {
        Op::ReadInto { fail, rk, src } => (*fail, *rk, src),
        _ => unreachable!(),
    };
    cx.frames.push(Frame { cap0: want, log: vec![] });
    let r = read_with!(fail, rk, src, |rd| match caps.len() {
        0 => rd.read_buffer(buf),
        1 => rd.read_buffer(buf.cap_at(caps[0] as usize)),
        _ => rd.read_buffer(buf.cap_at(caps[0] as usize).cap_at(caps[1] as usize)),
    });
    cx.flags |= 1 << 13;
    match r {
        Ok(s) => {
            cx.tr.push(format!("b{}", hex(s)));
            let k = src.len().min(want);
            if s != &src[..k] {
                cx.fail(format!("read_buffer returned {} but the reader had {} and the buffer {} bytes", hex(s), hex(src), want));
            }
            cx.top().log.extend_from_slice(&src[..k]);
            cx.held.push((s, s.to_vec()));
            Ok(())
        }
        Err(_) => {
            cx.tr.push("E".into());
            if !fail {
                cx.fail("read_buffer failed although the reader did not".into());
            }
            Err(())
        }
    }
}

// ---------------------------------------------------------------- stores

#[derive(Clone, Copy, PartialEq, Debug)]
enum Kind {
    Vec,
    ArrayVec,
    Slice,
    SliceRef,
}

impl Kind {
    fn txt(self) -> &'static str {
        match self {
            Kind::Vec => "V",
            Kind::ArrayVec => "A",
            Kind::Slice => "S",
            Kind::SliceRef => "R",
        }
    }
}

struct Case {
    kind: Kind,
    data: Vec<u8>,  // pre-existing contents (Vec / ArrayVec), empty for slices
    spare: Vec<u8>, // what the spare capacity / the slice holds beforehand
    caps: Vec<u64>,
    ops: Vec<Op>,
    lib_open: bool, // reader.read_buffer(store) instead of with_buffer(store, ..)
}

struct Outcome {
    tr: Vec<String>,
    exit: String,
    data: Vec<u8>,
    rest: Vec<u8>,
    log: Vec<u8>,
    fails: Vec<String>,
    flags: u32,
    depth: usize,
}

fn panic_class(msg: &str) -> String {
    if msg.contains("num_bytes <= self.buffer.len()") {
        "!advance".into()
    } else if msg.contains("attempt to add with overflow") {
        "!overflow".into()
    } else if msg.contains("attempt to subtract with overflow") {
        "!underflow".into()
    } else if msg.contains("out of range for slice") || msg.contains("slice index starts at") {
        "!index".into()
    } else if msg.contains("*self.initialized_ == 0") {
        "!capassert".into()
    } else if msg.contains("length <= self.capacity()") {
        "!setlen".into()
    } else {
        format!("!other[{}]", msg.chars().take(80).collect::<String>().replace(' ', "_"))
    }
}

/// common tail: run the guarded body, check the returned slices, classify the exit
fn conclude<'d>(r: Result<Result<(), ()>, String>, cx: &mut Cx<'d>) -> String {
    // every slice handed out must still hold what it held when it was returned
    let mut bad = vec![];
    for (s, copy) in cx.held.iter() {
        if *s != &copy[..] {
            bad.push(format!("a returned slice changed afterwards: was {}, is {}", hex(copy), hex(s)));
        }
    }
    for b in bad {
        cx.fail(b);
    }
    match r {
        Ok(Ok(())) => "ok".into(),
        Ok(Err(())) => "err".into(),
        Err(msg) => {
            let cls = panic_class(&msg);
            match cx.expect_panic {
                Some("advance") if cls == "!advance" || cls == "!overflow" => {}
                _ => cx.fail(format!("panic: {}", msg)),
            }
            cls
        }
    }
}

fn body<'d, B: Buffer<'d>>(buf: B, c: &Case, cx: &mut Cx<'d>) -> Result<(), ()> {
    if c.lib_open {
        root_read(buf, &c.caps, &c.ops[0], cx, c.spare.len())
    } else {
        root(buf, &c.caps, &c.ops, cx, c.spare.len())
    }
}

fn exec_vec(c: &Case) -> Outcome {
    let total = c.data.len() + c.spare.len();
    let mut v: Vec<u8> = Vec::with_capacity(total);
    assert!(v.capacity() == total, "Vec::with_capacity({}) gave {}", total, v.capacity());
    v.extend_from_slice(&c.data);
    v.extend_from_slice(&c.spare);
    v.truncate(c.data.len());
    let ptr = v.as_ptr();
    let mut cx = Cx::new();
    let r = guard(|| body(&mut v, c, &mut cx));
    let exit = conclude(r, &mut cx);
    let Cx { tr, fails, flags, maxdepth, frames, .. } = cx;
    let mut fails = fails;
    if v.capacity() != total || v.as_ptr() != ptr {
        fails.push("the Vec was reallocated".into());
    }
    if v.len() > v.capacity() {
        fails.push(format!("Vec length {} beyond capacity {}", v.len(), v.capacity()));
    }
    let data = v.clone();
    // the spare capacity was filled before, so every byte up to the capacity is initialised
    let len = v.len().min(total);
    unsafe { v.set_len(total) };
    let rest = v[len..].to_vec();
    let log: Vec<u8> = frames.iter().flat_map(|f| f.log.iter().cloned()).collect();
    Outcome { tr, exit, data, rest, log, fails, flags, depth: maxdepth }
}

fn exec_arrayvec_n<A: Array<Item = u8>>(c: &Case) -> Outcome {
    let total = c.data.len() + c.spare.len();
    let mut v: ArrayVec<A> = ArrayVec::new();
    assert!(v.capacity() == total);
    for &b in c.data.iter().chain(c.spare.iter()) {
        v.push(b);
    }
    v.truncate(c.data.len());
    let mut cx = Cx::new();
    let r = guard(|| body(&mut v, c, &mut cx));
    let exit = conclude(r, &mut cx);
    let Cx { tr, fails, flags, maxdepth, frames, .. } = cx;
    let mut fails = fails;
    if v.len() > v.capacity() {
        fails.push(format!("ArrayVec length {} beyond capacity {}", v.len(), v.capacity()));
    }
    let len = v.len().min(total);
    let data = v[..len].to_vec();
    unsafe { v.set_len(total) };
    let rest = v[len..].to_vec();
    let log: Vec<u8> = frames.iter().flat_map(|f| f.log.iter().cloned()).collect();
    Outcome { tr, exit, data, rest, log, fails, flags, depth: maxdepth }
}

macro_rules! arrayvec_dispatch {
    ($total:expr, $c:expr, $($n:literal)*) => {
        match $total {
            $($n => exec_arrayvec_n::<[u8; $n]>($c),)*
            n => panic!("no ArrayVec of capacity {}", n),
        }
    };
}

const ARRAYVEC_CAPS: [usize; 34] = [0, 1, 2, 3, 4, 5, 6, 7, 8, 9, 10, 11, 12, 13, 14, 15, 16, 17, 18, 19, 20, 21, 22, 23, 24, 25, 26, 27, 28, 29, 30, 31, 32, 40];

fn exec_arrayvec(c: &Case) -> Outcome {
    arrayvec_dispatch!(c.data.len() + c.spare.len(), c,
        0 1 2 3 4 5 6 7 8 9 10 11 12 13 14 15 16 17 18 19 20 21 22 23 24 25 26 27 28 29 30 31 32 40)
}

fn exec_slice(c: &Case) -> Outcome {
    let mut storage = c.spare.clone();
    let mut cx = Cx::new();
    let r = guard(|| body(&mut storage[..], c, &mut cx));
    let exit = conclude(r, &mut cx);
    let Cx { tr, fails, flags, maxdepth, frames, .. } = cx;
    let log: Vec<u8> = frames.iter().flat_map(|f| f.log.iter().cloned()).collect();
    Outcome { tr, exit, data: storage.clone(), rest: vec![], log, fails, flags, depth: maxdepth }
}

fn exec_slice_ref(c: &Case) -> Outcome {
    let mut storage = c.spare.clone();
    let start = storage.as_ptr();
    let (tr, exit, data, log, mut fails, flags, depth);
    {
        let mut s: &mut [u8] = &mut storage[..];
        // `&'d mut &'d mut [u8]` keeps `s` borrowed for as long as it lives; go through a raw
        // pointer so that the narrowed slice can be looked at afterwards
        let p: *mut &mut [u8] = &mut s;
        let mut cx = Cx::new();
        let r = guard(|| body(unsafe { &mut *p }, c, &mut cx));
        exit = conclude(r, &mut cx);
        let Cx { tr: t, fails: f, flags: fl, maxdepth, frames, .. } = cx;
        tr = t;
        fails = f;
        flags = fl;
        depth = maxdepth;
        log = frames.iter().flat_map(|f| f.log.iter().cloned()).collect::<Vec<u8>>();
        if s.as_ptr() != start {
            fails.push("the slice reference does not start where it did".into());
        }
        if s.len() > c.spare.len() {
            fails.push(format!("slice reference of {} bytes narrowed to {} bytes", c.spare.len(), s.len()));
        }
        data = s.to_vec();
    }
    let rest = storage[data.len().min(storage.len())..].to_vec();
    Outcome { tr, exit, data, rest, log, fails, flags, depth }
}

fn exec(c: &Case) -> Outcome {
    match c.kind {
        Kind::Vec => exec_vec(c),
        Kind::ArrayVec => exec_arrayvec(c),
        Kind::Slice => exec_slice(c),
        Kind::SliceRef => exec_slice_ref(c),
    }
}

fn do_case(o: &mut Out, c: &Case) {
    let mut toks = vec![];
    prog_txt(&c.ops, &mut toks);
    if let Ok(mut cur) = CURRENT_CASE.lock() {
        *cur = format!("{} data={} spare={} caps={} prog={}", c.kind.txt(), hex(&c.data), hex(&c.spare), caps_txt(&c.caps), toks.join(" "));
    }
    crumb(&format!("{} data={} spare={} caps={} prog={}", c.kind.txt(), hex(&c.data), hex(&c.spare), caps_txt(&c.caps), toks.join(" ")));
    PANICS_IN_FLIGHT.store(0, std::sync::atomic::Ordering::SeqCst);
    let out = exec(c);
    PANICS_IN_FLIGHT.store(0, std::sync::atomic::Ordering::SeqCst);
    let case = format!("{}\t{}\t{}\t{}\t{}\t{}", if c.lib_open { "read" } else { "run" }, c.kind.txt(), hex(&c.data), hex(&c.spare), caps_txt(&c.caps), toks.join(" "));
    let res = format!("{} | {} | {} | {} | {}", out.tr.join(" "), out.exit, hex(&out.data), hex(&out.rest), hex(&out.log));
    let sig = format!("{}{}{}:{:x}:{}", c.kind.txt(), c.caps.len(), out.exit.chars().take(6).collect::<String>(), out.flags, out.depth);
    let id = o.case(&case, &res, &sig);
    for f in &out.fails {
        o.check(false, "-", &id, || format!("{} [{} data={} spare={} caps={} prog={}]", f, c.kind.txt(), hex(&c.data), hex(&c.spare), caps_txt(&c.caps), toks.join(" ")));
    }
    // ---- the property statement on the final state
    let total = c.data.len() + c.spare.len();
    let desc = || format!("[{} data={} spare={} caps={} prog={}]", c.kind.txt(), hex(&c.data), hex(&c.spare), caps_txt(&c.caps), toks.join(" "));
    let cap = capped(c.spare.len(), &c.caps);
    o.check(out.log.len() <= cap, "-", &id, || format!("{} bytes accepted into a capacity of {} {}", out.log.len(), cap, desc()));
    o.check(out.data.len() + out.rest.len() == total, "-", &id, || format!("memory size changed {}", desc()));
    match c.kind {
        Kind::Vec | Kind::ArrayVec => {
            let mut want = c.data.clone();
            want.extend_from_slice(&out.log);
            o.check(out.data == want, "-", &id,
                    || format!("container holds {} afterwards, old contents ++ accepted bytes = {} {}", hex(&out.data), hex(&want), desc()));
        }
        Kind::SliceRef => {
            o.check(out.data == out.log, "-", &id,
                    || format!("slice reference narrowed to {}, accepted bytes = {} {}", hex(&out.data), hex(&out.log), desc()));
        }
        Kind::Slice => {
            o.check(out.data.len() == total && out.data.starts_with(&out.log), "-", &id,
                    || format!("slice holds {}, accepted bytes = {} {}", hex(&out.data), hex(&out.log), desc()));
        }
    }
}

// ---------------------------------------------------------------- generators

fn gen_bytes(r: &mut Rng, n: usize) -> Vec<u8> {
    (0..n).map(|_| if r.chance(1, 5) { *r.pick(&[0u8, 0xff, 0x80, 0x7f]) } else { r.byte() }).collect()
}

/// a size near the boundary `rem`
fn gen_size(r: &mut Rng, rem: usize) -> usize {
    match r.below(10) {
        0 => 0,
        1 => 1,
        2 => rem,
        3 => rem + 1,
        4 => rem.saturating_sub(1),
        5 => rem + 1 + r.below(4) as usize,
        6 | 7 => r.below(rem as u64 + 1) as usize,
        8 => r.below(6) as usize,
        _ => r.below(46) as usize,
    }
}

fn gen_caps(r: &mut Rng, rem: usize, allow: bool) -> Vec<u64> {
    if !allow || r.chance(1, 2) {
        return vec![];
    }
    let one = |r: &mut Rng| -> u64 {
        match r.below(12) {
            0 => 0,
            1 => 1,
            2 => rem as u64,
            3 => rem as u64 + 1,
            4 => (rem as u64).saturating_sub(1),
            5 => u64::MAX,
            6 => *r.pick(&[1u64 << 63, 1 << 32, (1 << 63) - 1, u64::MAX - 1]),
            7 | 8 => r.below(rem as u64 + 1),
            9 => rem as u64 + 1 + r.below(5),
            _ => r.below(46),
        }
    };
    if r.chance(1, 4) { vec![one(r), one(r)] } else { vec![one(r)] }
}

fn gen_reader(r: &mut Rng, rem: usize) -> (bool, u8, Vec<u8>) {
    let fail = r.chance(1, 12);
    let rk = r.below(7) as u8;
    let src = if rk == 6 {
        if r.chance(1, 5) { vec![] } else { vec![r.byte(); 64] }
    } else {
        let n = gen_size(r, rem);
        gen_bytes(r, n)
    };
    (fail, rk, src)
}

/// a closure body for a view with `rem` bytes; `depth` more levels may be opened below it
fn gen_prog(r: &mut Rng, mut rem: usize, depth: usize, hostile: bool) -> Vec<Op> {
    let n = match r.below(8) { 0 => 0, 1 => 1, 2 | 3 => 2 + r.below(3), _ => 3 + r.below(6) } as usize;
    let mut ops = vec![];
    let mut poked = 0usize;
    for _ in 0..n {
        let k = r.below(if depth > 0 { 16 } else { 11 });
        match k {
            0 | 1 | 2 => {
                let sz = gen_size(r, rem);
                let q = r.chance(1, 3);
                ops.push(Op::Write { q, bs: gen_bytes(r, sz) });
                if sz > rem && q { break; }
                rem -= sz.min(rem);
                poked = 0;
            }
            3 | 4 => {
                let sz = gen_size(r, rem);
                let q = r.chance(1, 3);
                ops.push(Op::Extend { q, bs: gen_bytes(r, sz) });
                if sz > rem && q { break; }
                rem -= sz.min(rem);
                poked = 0;
            }
            5 => {
                let sz = gen_size(r, rem);
                ops.push(Op::Poke(gen_bytes(r, sz)));
                poked = sz.min(rem);
            }
            6 | 7 => {
                // mostly within what is there; sometimes the assert must fire
                let n: u64 = if hostile && r.chance(1, 3) {
                    *r.pick(&[rem as u64 + 1, rem as u64 + 2, u64::MAX, u64::MAX - rem as u64, (u64::MAX - rem as u64).wrapping_add(1), 1 << 63, 1 << 32])
                } else if poked > 0 && r.chance(2, 3) {
                    r.below(poked as u64 + 1)
                } else {
                    match r.below(4) { 0 => 0, 1 => rem as u64, _ => r.below(rem as u64 + 1) }
                };
                ops.push(Op::Advance(n));
                if n as u128 > rem as u128 { break; }
                rem -= n as usize;
                poked = 0;
            }
            8 => ops.push(Op::Remaining),
            9 | 10 => {
                let caps = gen_caps(r, rem, true);
                let (fail, rk, src) = gen_reader(r, capped(rem, &caps));
                let k = src.len().min(capped(rem, &caps));
                ops.push(Op::Read { caps, fail, rk, src });
                if !fail { rem -= k; }
                poked = 0;
            }
            _ => {
                let caps = gen_caps(r, rem, true);
                let crem = capped(rem, &caps);
                let sub = gen_prog(r, crem, depth - 1, hostile);
                let used = accepted_len(&sub, crem);
                let q = r.chance(1, 3);
                ops.push(Op::Nested { q, caps, sub });
                rem -= used.min(rem);
                poked = 0;
            }
        }
    }
    match r.below(6) {
        0 | 1 => ops.push(Op::Init),
        2 => { let (fail, rk, src) = gen_reader(r, rem); ops.push(Op::ReadInto { fail, rk, src }); }
        _ => {}
    }
    ops
}

/// generator-side estimate of how many bytes a body accepts (only used to aim sizes at boundaries)
fn accepted_len(ops: &[Op], cap: usize) -> usize {
    let mut used = 0usize;
    for op in ops {
        let rem = cap - used;
        match op {
            Op::Write { q, bs } | Op::Extend { q, bs } => { let f = bs.len() > rem; used += bs.len().min(rem); if f && *q { break; } }
            Op::Advance(n) => { if *n as u128 > rem as u128 { break; } used += *n as usize; }
            Op::Nested { q: _, caps, sub } => { used += accepted_len(sub, capped(rem, caps)); }
            Op::Read { caps, fail, src, .. } => { if !*fail { used += src.len().min(capped(rem, caps)); } }
            Op::ReadInto { fail, src, .. } => { if !*fail { used += src.len().min(rem); } }
            _ => {}
        }
    }
    used
}

fn make_case(r: &mut Rng, kind: Kind, total: usize, len: usize, hostile: bool) -> Case {
    let (data, spare) = match kind {
        Kind::Vec | Kind::ArrayVec => (gen_bytes(r, len), gen_bytes(r, total - len)),
        _ => (vec![], gen_bytes(r, total)),
    };
    let allow = r.chance(2, 3);
    let caps = gen_caps(r, spare.len(), allow);
    let rem = capped(spare.len(), &caps);
    let depth = r.below(4) as usize; // the root view plus up to three nested levels
    let mut ops = gen_prog(r, rem, depth, hostile);
    let mut lib_open = false;
    if r.chance(1, 12) {
        let (fail, rk, src) = gen_reader(r, rem);
        ops = vec![Op::ReadInto { fail, rk, src }];
        lib_open = true;
    }
    Case { kind, data, spare, caps, ops, lib_open }
}

static LAST_PANIC: std::sync::Mutex<String> = std::sync::Mutex::new(String::new());
static CURRENT_CASE: std::sync::Mutex<String> = std::sync::Mutex::new(String::new());
static PANICS_IN_FLIGHT: std::sync::atomic::AtomicUsize = std::sync::atomic::AtomicUsize::new(0);

/// an iterator whose size_hint may misreport (legal: size_hint must never be relied on for safety)
struct Hinted<I> {
    inner: I,
    pulled: usize,
    mode: usize,
    len: usize,
}
impl<I: Iterator<Item = u8>> Iterator for Hinted<I> {
    type Item = u8;
    fn next(&mut self) -> Option<u8> {
        let r = self.inner.next();
        if r.is_some() {
            self.pulled += 1;
        }
        r
    }
    fn size_hint(&self) -> (usize, Option<usize>) {
        match self.mode {
            0 => self.inner.size_hint(),
            1 => (0, None),
            2 => (0, Some(0)),
            3 => (0, Some(self.len / 2)),
            _ => (0, Some(self.len + 5)),
        }
    }
}

fn main() {
    // `guard` silences the panic hook; keep the location of the last panic for diagnosis, and name
    // the case when a second panic starts while the first one unwinds (a panicking Drop: the
    // process is about to abort and no result files will be written)
    let _ = guard(|| ());
    std::panic::set_hook(Box::new(|info| {
        let msg = format!("{}", info).replace('\n', " ");
        if PANICS_IN_FLIGHT.fetch_add(1, std::sync::atomic::Ordering::SeqCst) > 0 {
            let case = CURRENT_CASE.lock().map(|c| c.clone()).unwrap_or_default();
            eprintln!("panic while unwinding (abort) in case: {}\n  first: {}\n  second: {}", case,
                      LAST_PANIC.lock().map(|l| l.clone()).unwrap_or_default(), msg);
        }
        if let Ok(mut l) = LAST_PANIC.lock() {
            *l = msg;
        }
    }));
    if let Err(e) = guard(real_main) {
        eprintln!("harness panic outside a case: {} ({})", e, LAST_PANIC.lock().map(|l| l.clone()).unwrap_or_default());
        std::process::exit(3);
    }
}

fn real_main() {
    let a = Args::parse();
    install_crash_handler(&a);
    let mut o = Out::new(&a, "run/read: seeded random programs (trees of with_buffer closures: write / extend / advance / poke / remaining / nested view / capped nested view / reader fill / early exit by `?`, by consuming the view, or by dropping it unused; up to three nested levels below the root view) against Vec and ArrayVec (every capacity 0..40 resp. 0..32 and 40, every pre-existing length), byte slices and slice references (every length 0..40), each plain, capped once and capped twice (cap values around the remaining capacity, 0, usize::MAX); plus a sweep of every cap value 0..capacity+2 on every store. distinct = distinct (store kind, number of caps, exit, set of operation outcomes seen, nesting depth) signatures");
    let mut r = Rng::new(a.seed);
    let th = a.thorough();

    // `--scale N` (percent) shrinks or grows the random part, `--sweep N` keeps every Nth case of the
    // sweep: for a (much slower) run under Miri. ./check never passes them.
    let opt = |name: &str, dflt: usize| -> usize {
        a.extra.iter().position(|x| x == name).and_then(|i| a.extra.get(i + 1)).and_then(|x| x.parse().ok()).unwrap_or(dflt)
    };
    let scale = opt("--scale", 100);
    let sweep_step = opt("--sweep", 1).max(1);
    let mut sweep_i = 0usize;
    // ---- sweep: every store kind x capacity x cap_at value around it (the cap_at boundary)
    for &kind in &[Kind::Vec, Kind::ArrayVec, Kind::Slice, Kind::SliceRef] {
        for total in 0..=40usize {
            if kind == Kind::ArrayVec && !ARRAYVEC_CAPS.contains(&total) { continue; }
            let lens: Vec<usize> = match kind { Kind::Vec | Kind::ArrayVec => vec![0, total / 2, total], _ => vec![0] };
            for len in lens {
                let spare = total - len;
                let mut ns: Vec<u64> = (0..=spare as u64 + 2).collect();
                ns.push(u64::MAX);
                for n in ns {
                    sweep_i += 1;
                    if sweep_i % sweep_step != 0 { continue; }
                    let data = match kind { Kind::Vec | Kind::ArrayVec => gen_bytes(&mut r, len), _ => vec![] };
                    let sp = gen_bytes(&mut r, spare);
                    let w = gen_bytes(&mut r, spare + 1);
                    let ops = vec![Op::Write { q: false, bs: w[..(n as usize).min(spare) / 2].to_vec() }, Op::Extend { q: false, bs: w.clone() }, Op::Remaining, Op::Init];
                    do_case(&mut o, &Case { kind, data, spare: sp, caps: vec![n], ops, lib_open: false });
                }
            }
        }
    }
    if sweep_step == 1 { o.exhaustive("cap_at(n) for every n in 0..=spare+2 and usize::MAX on every store kind, capacity 0..40 (ArrayVec: 0..32, 40), lengths 0, half, full"); }

    // ---- random programs: every kind x capacity x pre-existing length
    let per = ((if th { 240 } else { 20 }) * scale + 99) / 100;
    let per_slice = ((if th { 3600 } else { 300 }) * scale + 99) / 100;
    // `--stride N` keeps every Nth (store, capacity, length) configuration (Miri runs only)
    let stride = opt("--stride", 1).max(1);
    let mut cfg_i = 0usize;
    for &kind in &[Kind::Vec, Kind::ArrayVec, Kind::Slice, Kind::SliceRef] {
        for total in 0..=40usize {
            if kind == Kind::ArrayVec && !ARRAYVEC_CAPS.contains(&total) { continue; }
            match kind {
                Kind::Vec | Kind::ArrayVec => {
                    for len in 0..=total {
                        cfg_i += 1;
                        if cfg_i % stride != 0 { continue; }
                        for i in 0..per {
                            let c = make_case(&mut r, kind, total, len, i % 3 == 2);
                            do_case(&mut o, &c);
                        }
                    }
                }
                _ => {
                    cfg_i += 1;
                    if cfg_i % stride != 0 { continue; }
                    for i in 0..per_slice {
                        let c = make_case(&mut r, kind, total, 0, i % 3 == 2);
                        do_case(&mut o, &c);
                    }
                }
            }
        }
    }
    // ---- the intermediate object released without ever being turned into a view (oracle only: zero bytes
    //      were written, so the backing container must be exactly as before; a following use appends behind it)
    for len in [0usize, 1, 3, 7] {
        for spare in [0usize, 1, 4] {
            for capped in [None, Some(0usize), Some(2), Some(100)] {
                use libtw2_buffer::Buffer as _;
                let id = format!("unused-intermediate-{}-{}-{:?}", len, spare, capped);
                o.tick("unused-intermediate", "unused-intermediate");
                let orig: Vec<u8> = (0..len as u8).map(|x| x.wrapping_mul(37).wrapping_add(1)).collect();
                // Vec
                let r = guard(|| {
                    let mut v: Vec<u8> = Vec::with_capacity(len + spare);
                    v.extend_from_slice(&orig);
                    match capped { None => drop((&mut v).to_to_buffer_ref()), Some(c) => drop((&mut v).cap_at(c).to_to_buffer_ref()) }
                    let after_drop = v.clone();
                    let wrote = libtw2_buffer::with_buffer(&mut v, |mut b| b.write(&[0xee]).is_ok());
                    (after_drop, wrote, v)
                });
                match r {
                    Ok((after_drop, wrote, v)) => {
                        o.check(after_drop == orig, "-", &id, || format!("Vec {:?}: an intermediate released unused changed the vector to {:?}", orig, after_drop));
                        let mut want = orig.clone(); if wrote { want.push(0xee); }
                        o.check(v == want, "-", &id, || format!("Vec {:?}: after an unused intermediate a write of one byte (accepted: {}) gives {:?}", orig, wrote, v));
                    }
                    Err(p) => o.check(false, "-", &id, || format!("Vec: releasing an unused intermediate panicked: {}", p)),
                }
                // ArrayVec
                if len + spare <= 32 {
                    let r = guard(|| {
                        let mut v: arrayvec::ArrayVec<[u8; 32]> = arrayvec::ArrayVec::new();
                        for b in &orig { v.push(*b); }
                        match capped { None => drop((&mut v).to_to_buffer_ref()), Some(c) => drop((&mut v).cap_at(c).to_to_buffer_ref()) }
                        let after_drop: Vec<u8> = v.to_vec();
                        let wrote = libtw2_buffer::with_buffer(&mut v, |mut b| b.write(&[0xee]).is_ok());
                        (after_drop, wrote, v.to_vec())
                    });
                    match r {
                        Ok((after_drop, wrote, v)) => {
                            o.check(after_drop == orig, "-", &id, || format!("ArrayVec {:?}: an intermediate released unused changed it to {:?}", orig, after_drop));
                            let mut want = orig.clone(); if wrote { want.push(0xee); }
                            o.check(v == want, "-", &id, || format!("ArrayVec {:?}: after an unused intermediate a write of one byte gives {:?}", orig, v));
                        }
                        Err(p) => o.check(false, "-", &id, || format!("ArrayVec: releasing an unused intermediate panicked: {}", p)),
                    }
                }
            }
        }
    }
    o.finish();
}

//! C01-C04: two real `Connection` endpoints (0.6 with/without token, 0.7) on a scripted
//! network, against the Coq connection model. One label per line; see DESIGN.md C01.
//!
//! extra args: <proto: 6|6nt|7> <mode: link|sender|hostile|fair>
use std::collections::VecDeque;
use std::sync::atomic::{AtomicU64, Ordering};
use std::sync::{Arc, Mutex};
use std::time::{SystemTime, UNIX_EPOCH};
use tw2verif::*;

/// wall-clock start (ms) of the library call in progress, 0 = none: read by the watchdog thread
static HEART: AtomicU64 = AtomicU64::new(0);
static CURRENT: Mutex<Option<(String, String, String)>> = Mutex::new(None); // (case line, trace, description)
fn now_ms() -> u64 { SystemTime::now().duration_since(UNIX_EPOCH).unwrap().as_millis() as u64 }
type Shared = Arc<Mutex<Out>>;

#[derive(Clone, Debug, Default)]
pub struct StepOut {
    pub res: String,          // ok | toolong | panic:<msg>
    pub sent: Vec<Vec<u8>>,
    pub events: Vec<String>,  // L:<hex> | K:<hex>:<vital> | R | D:<hex>
    pub warns: Vec<String>,   // connection-level only: tm | ux | ctm | crtm ; packet/read warnings: p / r
}

pub struct CbState {
    pub now: u64,
    pub rand: VecDeque<[u8; 4]>,
    pub sent: Vec<Vec<u8>>,
}

macro_rules! endpoint {
    ($m:ident, $conn:ident, $proto:ident, $wt:ident, $dg:ident) => {
        pub mod $m {
            use super::*;
            use libtw2_net::$conn::{Callback, Connection, Error, ReceiveChunk, Warning};
            use libtw2_net::$proto as protocol;
            use libtw2_net::Timestamp;

            pub struct Cb(pub CbState);
            impl Callback for Cb {
                type Error = std::convert::Infallible;
                fn secure_random(&mut self, buffer: &mut [u8]) {
                    let r = self.0.rand.pop_front().unwrap_or([0x5a, 0x5a, 0x5a, 0x5a]);
                    buffer.copy_from_slice(&r);
                }
                fn send(&mut self, buffer: &[u8]) -> Result<(), Self::Error> {
                    self.0.sent.push(buffer.to_vec());
                    Ok(())
                }
                fn time(&mut self) -> Timestamp {
                    Timestamp::from_usecs_since_epoch(self.0.now)
                }
            }
            pub struct Ep {
                pub conn: Connection,
                pub cb: Cb,
            }
            struct W<'a>(&'a mut Vec<String>);
            impl<'a> libtw2_warn::Warn<Warning> for W<'a> {
                fn warn(&mut self, w: Warning) {
                    self.0.push(super::$wt(&w));
                }
            }
            impl Ep {
                fn wrap(&mut self, f: impl FnOnce(&mut Connection, &mut Cb, &mut StepOut)) -> StepOut {
                    let mut out = StepOut::default();
                    out.res = "ok".into();
                    self.cb.0.sent.clear();
                    let conn = &mut self.conn;
                    let cb = &mut self.cb;
                    let r = guard(|| f(conn, cb, &mut out));
                    if let Err(p) = r {
                        out.res = format!("panic:{}", p);
                    }
                    out.sent = std::mem::take(&mut self.cb.0.sent);
                    out
                }
            }
            impl super::Endpoint for Ep {
                fn new(rand: Vec<[u8; 4]>) -> Ep {
                    Ep { conn: Connection::new(), cb: Cb(CbState { now: 0, rand: rand.into(), sent: vec![] }) }
                }
                fn fp(&self) -> String {
                    self.conn.verif_fingerprint()
                }
                fn set_now(&mut self, now: u64) {
                    self.cb.0.now = now;
                }
                fn dgram(b: &[u8], h: Option<bool>) -> Option<(String, usize)> {
                    super::$dg(b, h)
                }
                fn needs_tick(&self) -> String {
                    match self.conn.needs_tick().to_opt() {
                        Some(t) => format!("{}", t.as_usecs_since_epoch()),
                        None => "-".into(),
                    }
                }
                fn connect(&mut self) -> StepOut {
                    self.wrap(|c, cb, _| c.connect(cb).unwrap())
                }
                fn send(&mut self, d: &[u8], vital: bool) -> StepOut {
                    self.wrap(|c, cb, o| match c.send(cb, d, vital) {
                        Ok(()) => {}
                        Err(Error::TooLongData) => o.res = "toolong".into(),
                        Err(Error::Callback(e)) => match e {},
                    })
                }
                fn flush(&mut self) -> StepOut {
                    self.wrap(|c, cb, _| c.flush(cb).unwrap())
                }
                fn tick(&mut self) -> StepOut {
                    self.wrap(|c, cb, _| c.tick(cb).unwrap())
                }
                fn disconnect(&mut self, r: &[u8]) -> StepOut {
                    self.wrap(|c, cb, _| c.disconnect(cb, r).unwrap())
                }
                fn send_connless(&mut self, d: &[u8]) -> StepOut {
                    self.wrap(|c, cb, o| match c.send_connless(cb, d) {
                        Ok(()) => {}
                        Err(Error::TooLongData) => o.res = "toolong".into(),
                        Err(Error::Callback(e)) => match e {},
                    })
                }
                fn reset(&mut self) -> StepOut {
                    self.wrap(|c, _, _| c.reset())
                }
                fn feed(&mut self, d: &[u8]) -> StepOut {
                    self.wrap(|c, cb, o| {
                        let mut buf = [0u8; protocol::MAX_PACKETSIZE];
                        let mut ws = vec![];
                        let (pkt, r) = c.feed(cb, &mut W(&mut ws), d, &mut buf[..]);
                        r.unwrap();
                        // the application drains every event iterator
                        for ev in pkt {
                            o.events.push(match ev {
                                ReceiveChunk::Connless(d) => format!("L:{}", hex(d)),
                                ReceiveChunk::Connected(d, v) => format!("K:{}:{}", hex(d), v as u8),
                                ReceiveChunk::Ready => "R".into(),
                                ReceiveChunk::Disconnect(d) => format!("D:{}", hex(d)),
                            });
                        }
                        o.warns = ws;
                    })
                }
            }
        }
    };
}
endpoint!(v6, connection, protocol, warn_txt6, dgram6);
endpoint!(v7, connection7, protocol7, warn_txt7, dgram7);

// ---------------- version specific: datagram -> abstract text ----------------

fn tok_txt(t: &[u8; 4]) -> String {
    hex(t)
}

fn chunks_txt6(payload: &[u8], n: u8, ws: &mut Vec<libtw2_net::protocol::Warning>) -> String {
    let mut it = libtw2_net::protocol::ChunksIter::new(payload, n);
    let mut v = vec![];
    while let Some(c) = it.next_warn(ws) {
        v.push(match c.vital {
            Some((s, r)) => format!("v{}.{}:{}", s, r as u8, hex(c.data)),
            None => format!("n:{}", hex(c.data)),
        });
    }
    // one more call: the trailing num_chunks warning
    let _ = it.next_warn(ws);
    if v.is_empty() { "-".into() } else { v.join(";") }
}
fn chunks_txt7(payload: &[u8], n: u8, ws: &mut Vec<libtw2_net::protocol7::Warning>) -> String {
    let mut it = libtw2_net::protocol7::ChunksIter::new(payload, n);
    let mut v = vec![];
    while let Some(c) = it.next_warn(ws) {
        v.push(match c.vital {
            Some((s, r)) => format!("v{}.{}:{}", s, r as u8, hex(c.data)),
            None => format!("n:{}", hex(c.data)),
        });
    }
    let _ = it.next_warn(ws);
    if v.is_empty() { "-".into() } else { v.join(";") }
}

/// (abstract text, number of packet-level warnings) or None when the reader rejects it
pub fn dgram6(bytes: &[u8], hint: Option<bool>) -> Option<(String, usize)> {
    use libtw2_net::protocol::*;
    let mut buf = [0u8; MAX_PACKETSIZE];
    let mut ws: Vec<Warning> = vec![];
    let p = Packet::read(&mut ws, bytes, hint, &mut buf[..]).ok()?;
    let t = |t: Option<Token>| t.map(|t| tok_txt(&t.0)).unwrap_or("none".into());
    let s = match p {
        Packet::Connless(d) => format!("L|none|none|{}", hex(d)),
        Packet::Connected(c) => match c.type_ {
            ConnectedPacketType::Control(ctl) => format!("C|{}|{}|{}", t(c.token), c.ack, match ctl {
                ControlPacket::KeepAlive => "ka".to_string(),
                ControlPacket::Connect => "co:none".to_string(),
                ControlPacket::ConnectAccept => "ca".to_string(),
                ControlPacket::Accept => "ac".to_string(),
                ControlPacket::Close(r) => format!("cl:{}", hex(r)),
            }),
            ConnectedPacketType::Chunks(rr, n, payload) => {
                let cs = chunks_txt6(payload, n, &mut ws);
                format!("K|{}|{}|{}|{}|{}", t(c.token), c.ack, rr as u8, n, cs)
            }
        },
    };
    Some((s, ws.len()))
}
pub fn dgram7(bytes: &[u8], _hint: Option<bool>) -> Option<(String, usize)> {
    use libtw2_net::protocol7::*;
    let mut buf = [0u8; MAX_PACKETSIZE];
    let mut ws: Vec<Warning> = vec![];
    let p = Packet::read(&mut ws, bytes, &mut buf[..]).ok()?;
    let s = match p {
        Packet::Connless(c) => format!("L|{}|{}|{}", tok_txt(&c.token.0), tok_txt(&c.response_token.0), hex(c.payload)),
        Packet::Connected(c) => match c.type_ {
            ConnectedPacketType::Control(ctl) => format!("C|{}|{}|{}", tok_txt(&c.token.0), c.ack, match ctl {
                ControlPacket::KeepAlive => "ka".to_string(),
                ControlPacket::Connect(t) => format!("co:{}", tok_txt(&t.0)),
                ControlPacket::Accept => "ac".to_string(),
                ControlPacket::Close(r) => format!("cl:{}", hex(r)),
                ControlPacket::Token(t) => format!("tk:{}", tok_txt(&t.0)),
            }),
            ConnectedPacketType::Chunks(rr, n, payload) => {
                let cs = chunks_txt7(payload, n, &mut ws);
                format!("K|{}|{}|{}|{}|{}", tok_txt(&c.token.0), c.ack, rr as u8, n, cs)
            }
        },
    };
    Some((s, ws.len()))
}

pub fn warn_txt6(w: &libtw2_net::connection::Warning) -> String {
    use libtw2_net::connection::Warning::*;
    match w { Packet(_) => "p".into(), Read(_) => "r".into(), TokenMismatch => "tm".into(), Unexpected => "ux".into() }
}
pub fn warn_txt7(w: &libtw2_net::connection7::Warning) -> String {
    use libtw2_net::connection7::Warning::*;
    match w { Packet(_) => "p".into(), Read(_) => "r".into(), TokenMismatch => "tm".into(), Unexpected => "ux".into(),
              ConnlessResponseTokenMismatch => "crtm".into(), ConnlessTokenMismatch => "ctm".into() }
}

pub trait Endpoint {
    fn new(rand: Vec<[u8; 4]>) -> Self;
    fn fp(&self) -> String;
    fn set_now(&mut self, now: u64);
    fn dgram(b: &[u8], h: Option<bool>) -> Option<(String, usize)>;
    fn needs_tick(&self) -> String;
    fn connect(&mut self) -> StepOut;
    fn send(&mut self, d: &[u8], vital: bool) -> StepOut;
    fn flush(&mut self) -> StepOut;
    fn tick(&mut self) -> StepOut;
    fn disconnect(&mut self, r: &[u8]) -> StepOut;
    fn send_connless(&mut self, d: &[u8]) -> StepOut;
    fn reset(&mut self) -> StepOut;
    fn feed(&mut self, d: &[u8]) -> StepOut;
}

// =====================================================================================
// the scripted network
// =====================================================================================

#[derive(Clone)]
struct Dg {
    bytes: Vec<u8>,
    n_emit: usize, // sender's count of submitted vital chunks at emission
    d_emit: usize, // sender's count of delivered vital chunks at emission
}

struct Side<E> {
    ep: Option<E>,
    sub: Vec<Vec<u8>>,       // vital payloads accepted by send()
    del: Vec<Vec<u8>>,       // vital payloads handed to the application
    nv_sent: Vec<Vec<u8>>,   // non-vital payloads accepted by send()
    ready: usize,
    got_answer: bool,        // a datagram from the peer was delivered before Ready
    dead: bool,              // panicked / hung: stop using it
}

struct World<E> {
    proto: String,
    v7: bool,
    trace: String,
    now: u64,
    s: [Side<E>; 2],
    bag: [Vec<Dg>; 2], // bag[0]: A->B, bag[1]: B->A
    arch: [Vec<Dg>; 2], // handshake datagrams ever emitted per direction: the network may deliver a late duplicate
    old: [Vec<Dg>; 2],  // a sample of the other datagrams emitted so far, for the same purpose
    steps: usize,
    forged: bool,      // a datagram the network invented was fed: the C01 oracles no longer apply
}

fn state_of(fp: &str) -> &str {
    fp.split(' ').next().unwrap_or("")
}
fn field<'a>(fp: &'a str, key: &str) -> Option<&'a str> {
    fp.split(' ').find_map(|p| p.strip_prefix(key))
}
fn queue_len(fp: &str) -> usize {
    match field(fp, "q=[") {
        Some(q) => { let q = q.trim_end_matches(']'); if q.is_empty() { 0 } else { q.split(',').count() } }
        None => 0,
    }
}
/// the token hint the endpoint's feed() passes to the reader (0.6)
fn recv_hint(v7: bool, fp: &str) -> Option<bool> {
    if v7 { return None; }
    match state_of(fp) {
        "Pending" => Some(field(fp, "tok=") != Some("none")),
        "Online" => Some(field(fp, "own=") != Some("none")),
        _ => None,
    }
}
/// does a datagram this endpoint just sent carry a token? (0.6)
fn sent_hint(v7: bool, before: &str, after: &str) -> Option<bool> {
    if v7 { return None; }
    let f = |fp: &str| match state_of(fp) {
        "Connecting" => Some(true),
        "Pending" => Some(field(fp, "tok=") != Some("none")),
        "Online" => Some(field(fp, "own=") != Some("none")),
        _ => None,
    };
    f(after).or(f(before)).or(Some(false))
}
fn canon_fp<E: Endpoint>(v7: bool, fp: &str) -> String {
    // pkt=<n>:<hex> and nv=<n>:<hex> -> structured chunks, via the real chunk iterator
    fp.split(' ')
        .map(|p| {
            for key in ["pkt=", "nv="] {
                if let Some(r) = p.strip_prefix(key) {
                    let (n, h) = r.split_once(':').unwrap();
                    let data = if h.is_empty() { vec![] } else { unhex(h) };
                    let n8: u8 = n.parse().unwrap();
                    let cs = if v7 { chunks_txt7(&data, n8, &mut vec![]) } else { chunks_txt6(&data, n8, &mut vec![]) };
                    return format!("{}{}:{}", key, n, cs);
                }
            }
            p.to_string()
        })
        .collect::<Vec<_>>()
        .join(" ")
}

#[derive(Clone, Debug)]
enum Label {
    Connect(usize),
    Send(usize, Vec<u8>, bool),
    Flush(usize),
    Tick(usize),
    Disconnect(usize, Vec<u8>),
    Connless(usize, Vec<u8>),
    Reset(usize),
    Clock(u64),
    Deliver(usize, usize, bool), // direction (0: A->B), bag index, keep a copy in the bag (duplication)
    Drop(usize, usize),
    FeedRaw(usize, Vec<u8>),     // hostile datagram fed to side
}

impl<E: Endpoint> World<E> {
    fn new(o: &Shared, proto: &str, trace: String, r: &mut Rng) -> World<E> {
        let v7 = proto == "7";
        let mut rnd = |r: &mut Rng| -> Vec<[u8; 4]> {
            // a run of 0..3 reserved values first (Token::random must draw again, every time)
            let k = match r.below(12) { 0 | 1 => 1, 2 => 2, 3 => 3, _ => 0 };
            (0..6).map(|i| if i < k { if r.chance(1, 2) { [0xff; 4] } else { [0; 4] } } else {
                let mut t = [r.byte(), r.byte(), r.byte(), r.byte()];
                if t == [0xff; 4] || t == [0; 4] { t[0] = 0x42; }
                t
            }).collect()
        };
        let ra = rnd(r);
        let rb = rnd(r);
        let t = |v: &Vec<[u8; 4]>| v.iter().map(|x| hex(x)).collect::<Vec<_>>().join(",");
        o.lock().unwrap().case(&format!("{}\t{}\tnew\t{}\t{}", proto, trace, t(&ra), t(&rb)), "ok", "");
        let mk = |rand| Side { ep: Some(E::new(rand)), sub: vec![], del: vec![], nv_sent: vec![], ready: 0, got_answer: false, dead: false };
        World { proto: proto.into(), v7, trace, now: 0, s: [mk(ra), mk(rb)], bag: [vec![], vec![]], arch: [vec![], vec![]], old: [vec![], vec![]], steps: 0, forged: false }
    }
    fn fp(&self, i: usize) -> String { match &self.s[i].ep { Some(e) => e.fp(), None => "Dead".into() } }
    fn online(&self, i: usize) -> bool { state_of(&self.fp(i)) == "Online" }

    /// run one label on the real endpoints; write case/result lines; run the oracles
    fn apply(&mut self, o: &Shared, l: &Label) {
        self.steps += 1;
        let sn = |i: usize| if i == 0 { "A" } else { "B" };
        match l {
            Label::Clock(dt) => {
                self.now += dt;
                for s in self.s.iter_mut() { if let Some(e) = s.ep.as_mut() { e.set_now(self.now); } }
                o.lock().unwrap().case(&format!("{}\t{}\tclock\t{}", self.proto, self.trace, self.now), "ok", "");
                return;
            }
            Label::Drop(dir, k) => {
                if *k < self.bag[*dir].len() { self.bag[*dir].remove(*k); }
                o.lock().unwrap().count("drop");
                return;
            }
            _ => {}
        }
        let (side, opname, case_op): (usize, &str, String) = match l {
            Label::Connect(i) => (*i, "connect", "connect".into()),
            Label::Send(i, d, v) => (*i, "send", format!("send\t{}\t{}", hex(d), *v as u8)),
            Label::Flush(i) => (*i, "flush", "flush".into()),
            Label::Tick(i) => (*i, "tick", "tick".into()),
            Label::Disconnect(i, r) => (*i, "disc", format!("disc\t{}", hex(r))),
            Label::Connless(i, d) => (*i, "connless", format!("connless\t{}", hex(d))),
            Label::Reset(i) => (*i, "reset", "reset".into()),
            Label::Deliver(dir, _, _) => (1 - *dir, "feed", String::new()),
            Label::FeedRaw(i, _) => (*i, "feedraw", String::new()),
            _ => unreachable!(),
        };
        if self.s[side].dead { return; }
        if matches!(l, Label::FeedRaw(..)) { self.forged = true; }
        let before = self.fp(side);
        let mut fed: Option<Dg> = None;
        let mut fed_txt: Option<String> = None;
        let case_op = match l {
            Label::Deliver(dir, k, keep) => {
                let dg = if *keep { self.bag[*dir][*k].clone() } else { self.bag[*dir].remove(*k) };
                let txt = E::dgram(&dg.bytes, recv_hint(self.v7, &before)).map(|x| x.0);
                fed = Some(dg);
                fed_txt = txt.clone();
                match txt { Some(t) => format!("feed\t{}", t), None => "feedgarbage".into() }
            }
            Label::FeedRaw(_, b) => {
                let txt = E::dgram(b, recv_hint(self.v7, &before)).map(|x| x.0);
                fed = Some(Dg { bytes: b.clone(), n_emit: 0, d_emit: 0 });
                fed_txt = txt.clone();
                match txt { Some(t) => format!("feed\t{}", t), None => "feedgarbage".into() }
            }
            _ => case_op,
        };
        let ep = self.s[side].ep.as_mut().unwrap();
        // every call runs under a wall-clock watchdog: "every call returns" (C02)
        *CURRENT.lock().unwrap() = Some((
            format!("{}\t{}\t{}\t{}", self.proto, self.trace, sn(side), case_op),
            self.trace.clone(),
            format!("C02 step {}: {} {} did not return within 8 s (state before: {})", self.steps, sn(side), opname, before),
        ));
        HEART.store(now_ms(), Ordering::SeqCst);
        let out = match l {
            Label::Connect(_) => ep.connect(),
            Label::Send(_, d, v) => ep.send(d, *v),
            Label::Flush(_) => ep.flush(),
            Label::Tick(_) => ep.tick(),
            Label::Disconnect(_, r) => ep.disconnect(r),
            Label::Connless(_, d) => ep.send_connless(d),
            Label::Reset(_) => ep.reset(),
            Label::Deliver(..) | Label::FeedRaw(..) => ep.feed(&fed.as_ref().unwrap().bytes),
            _ => unreachable!(),
        };
        HEART.store(0, Ordering::SeqCst);
        let mut og = o.lock().unwrap();
        let o = &mut *og;
        let after = self.fp(side);
        let panicked = out.res.starts_with("panic");
        // ---- result line
        let sh = sent_hint(self.v7, &before, &after);
        let mut sent_txt = vec![];
        for d in &out.sent {
            match E::dgram(d, sh) {
                Some((t, nw)) => {
                    sent_txt.push(t.clone());
                    // C03: a token handed out (0.6 ConnectAccept) or announced (0.7 token request / answer, Connect) is never a reserved value
                    {
                        let f: Vec<&str> = t.split('|').collect();
                        let bad = if f[0] == "C" && f.len() >= 4 {
                            if !self.v7 { f[3] == "ca" && (f[1] == "ffffffff" || f[1] == "00000000") }
                            else { (f[3].starts_with("tk:") || f[3].starts_with("co:")) && &f[3][3..] == "ffffffff" }
                        } else { false };
                        o.check(!bad, "-", &self.trace, || format!("C03 step {}: {} {} sent {} which carries a reserved token value", self.steps, sn(side), opname, t));
                    }
                    // C04: the library's own reader accepts it without a single warning
                    o.check(nw == 0, "-", &self.trace, || format!("C04 step {}: {} {} sent datagram {} which its own reader parses with {} warning(s): {}", self.steps, sn(side), opname, hex(d), nw, t));
                    if let Some(n) = t.strip_prefix("K|") {
                        let f: Vec<&str> = n.split('|').collect();
                        let cnt = if f[4] == "-" { 0 } else { f[4].split(';').count() };
                        o.check(f[3].parse::<usize>().ok() == Some(cnt), "-", &self.trace, || format!("C04 step {}: datagram {} announces {} chunks but carries {}", self.steps, hex(d), f[3], cnt));
                    }
                }
                None => {
                    sent_txt.push(format!("unreadable:{}", hex(d)));
                    o.check(false, "-", &self.trace, || format!("C04 step {}: {} {} sent datagram {} which its own reader rejects", self.steps, sn(side), opname, hex(d)));
                }
            }
            o.check(d.len() <= 1400, "-", &self.trace, || format!("C04 step {}: datagram of {} bytes", self.steps, d.len()));
        }
        // C03: a connection-oriented datagram that does not carry the token this endpoint expects is inert,
        // whoever sent it (forged, mutated, or a stale / duplicated datagram of the genuine peer)
        if fed.is_some() && !panicked {
            let v7 = self.v7;
            let st = state_of(&before).to_string();
            let expected: Option<String> = if v7 {
                if matches!(st.as_str(), "Token" | "PendingConnect" | "Connecting" | "Pending" | "Online") { field(&before, "own=").map(|s| s.to_string()) } else { None }
            } else {
                match st.as_str() { "Pending" => field(&before, "tok=").filter(|t| *t != "none").map(|s| s.to_string()), "Online" => field(&before, "own=").filter(|t| *t != "none").map(|s| s.to_string()), _ => None }
            };
            let carried: Option<String> = fed_txt.as_ref().and_then(|t| { let f: Vec<&str> = t.split('|').collect(); if f[0] == "L" && !v7 { None } else { Some(f[1].to_string()) } });
            let conn_oriented = fed_txt.as_ref().map(|t| v7 || !t.starts_with("L|")).unwrap_or(true);
            if let Some(exp) = expected {
                if conn_oriented && carried.as_deref() != Some(exp.as_str()) {
                    let exception7 = v7 && st == "PendingConnect" && fed_txt.as_deref().map(|t| t.starts_with("C|ffffffff|") && t.contains("|tk:")).unwrap_or(false);
                    let sent = out.sent.len();
                    let inert = before == after && out.events.is_empty() && (sent == 0 || (exception7 && sent == 1));
                    let dbytes = hex(&fed.as_ref().unwrap().bytes);
                    o.check(inert, "-", &self.trace, || format!("C03 step {}: datagram {} (parsed {:?}) without the agreed token {} changed {} -> {} / sent {} / events {:?}", self.steps, dbytes, fed_txt, exp, before, after, sent, out.events));
                    o.count("c03-foreign-feeds");
                }
            }
        }
        // C03: the token a 0.6 acceptor hands out in its ConnectAccept is the token the connector then insists on
        // (an endpoint that silently drops the protection lets every token-less datagram through)
        if !self.v7 && !panicked && state_of(&before) == "Connecting" {
            if let Some(t) = fed_txt.as_deref() {
                let f: Vec<&str> = t.split('|').collect();
                if f.len() >= 4 && f[0] == "C" && f[3] == "ca" && f[1] != "none" && state_of(&after) == "Online" {
                    let own = field(&after, "own=").unwrap_or("?").to_string();
                    o.check(own == f[1], "-", &self.trace, || format!("C03 step {}: ConnectAccept handed out the token {} but the connector goes online with own={}", self.steps, f[1], own));
                }
            }
        }
        let conn_warns: Vec<&String> = out.warns.iter().filter(|w| *w != "p" && *w != "r").collect();
        let res = if panicked { "panic".to_string() } else {
            format!("res={} sent={} ev={} warn={} tick={} fp={}",
                out.res,
                if sent_txt.is_empty() { "-".to_string() } else { sent_txt.join(",") },
                if out.events.is_empty() { "-".to_string() } else { out.events.join(",") },
                if conn_warns.is_empty() { "-".to_string() } else { conn_warns.iter().map(|s| s.as_str()).collect::<Vec<_>>().join(",") },
                self.s[side].ep.as_ref().unwrap().needs_tick(),
                canon_fp::<E>(self.v7, &after))
        };
        let sig = format!("{}:{}>{}:{}{}{}", opname, state_of(&before), state_of(&after), out.res.chars().next().unwrap(), out.sent.len().min(3), out.events.len().min(3));
        o.case(&format!("{}\t{}\t{}\t{}", self.proto, self.trace, sn(side), case_op), &res, &sig);
        if panicked {
            self.s[side].dead = true;
            // C04: no sequence of valid API calls panics (the generators only issue valid calls
            // unless the label is marked invalid by the caller through `expect_panic`)
            return;
        }
        // ---- ghost bookkeeping and oracles
        match l {
            Label::Send(_, d, v) if out.res == "ok" => {
                if *v { self.s[side].sub.push(d.clone()); } else { self.s[side].nv_sent.push(d.clone()); }
            }
            Label::Send(_, d, _) if out.res == "toolong" => {
                // C04: refusal leaves the connection usable: nothing changed
                o.check(before == after && out.sent.is_empty(), "-", &self.trace, || format!("C04 step {}: refused send of {} bytes changed the connection", self.steps, d.len()));
            }
            _ => {}
        }
        let peer = 1 - side;
        for e in &out.events {
            if let Some(r) = e.strip_prefix("K:") {
                let (h, v) = r.rsplit_once(':').unwrap();
                let data = unhex(h);
                if v == "1" {
                    self.s[side].del.push(data);
                    let n = self.s[side].del.len();
                    // C01: delivered vital chunks form a prefix of the submitted ones
                    let okp = n <= self.s[peer].sub.len() && self.s[side].del[n - 1] == self.s[peer].sub[n - 1];
                    o.check(okp || self.forged, "-", &self.trace, || format!("C01 step {}: {} received vital chunk #{} = {} which is not chunk #{} submitted by the peer", self.steps, sn(side), n, h, n));
                } else {
                    let genuine = self.s[peer].nv_sent.contains(&data);
                    o.check(genuine || self.forged, "-", &self.trace, || format!("C01 step {}: {} received non-vital chunk {} that was never sent", self.steps, sn(side), h));
                }
            } else if e == "R" {
                self.s[side].ready += 1;
                let (rd, ga) = (self.s[side].ready, self.s[side].got_answer || fed.is_some());
                o.check(rd <= 1 || self.forged, "-", &self.trace, || format!("C01 step {}: Ready reported {} times", self.steps, rd));
                o.check(ga, "-", &self.trace, || "C01: Ready before the acceptor answered".to_string());
            }
        }
        if fed.is_some() && matches!(l, Label::Deliver(..)) { self.s[side].got_answer = true; }
        // emitted datagrams go into the bag with their ghosts
        for (d, t) in out.sent.into_iter().zip(sent_txt.iter()) {
            let dg = Dg { bytes: d, n_emit: self.s[side].sub.len(), d_emit: self.s[side].del.len() };
            let hs = t.starts_with("C|") && ["|co:", "|ca", "|ac", "|tk:"].iter().any(|k| t.contains(k));
            if hs && self.arch[side].len() < 8 { self.arch[side].push(dg.clone()); }
            // and a thin sample of everything else (late duplicates of old data / ack datagrams)
            if !hs && self.steps % 7 == 3 { if self.old[side].len() < 8 { self.old[side].push(dg.clone()); } else { let k = self.steps % 8; self.old[side][k] = dg.clone(); } }
            self.bag[side].push(dg);
        }
        // C02: while anything is unsent, unacknowledged or mid-handshake the deadline is finite
        let st = state_of(&after);
        let pending = matches!(st, "Connecting" | "Pending" | "Token")
            || (st == "Online" && (queue_len(&after) > 0 || !field(&after, "pkt=").unwrap_or("0:").starts_with("0:") || field(&after, "rr=") == Some("true")));
        if pending {
            let nt = self.s[side].ep.as_ref().unwrap().needs_tick();
            o.check(nt != "-", "-", &self.trace, || format!("C02 step {}: {} has pending work ({}) but reports no deadline", self.steps, sn(side), after));
        }
        let _ = fed_txt;
    }
}

const SIZES: [usize; 30] = [0, 1, 2, 15, 16, 17, 63, 64, 100, 500, 1000, 1022, 1023, 1024, 1025, 1383, 1384, 1385, 1386, 1387, 1388, 1389, 1390, 1391, 1392, 1393, 1394, 1395, 1400, 2000];

fn payload(r: &mut Rng, max_ok: usize, allow_too_long: bool) -> Vec<u8> {
    let n = match r.below(10) {
        0..=4 => r.below(40) as usize,
        5..=7 => { let s = *r.pick(&SIZES); if s > max_ok && !allow_too_long { max_ok - (s % 3) } else { s } }
        _ => r.below(max_ok as u64 + 1) as usize,
    };
    let mode = r.below(3);
    (0..n).map(|i| match mode { 0 => 0, 1 => (i % 7) as u8 + b'a', _ => r.byte() }).collect()
}

impl<E: Endpoint> World<E> {
    /// (F): may datagram k of direction dir be delivered now without aliasing the 10-bit sequence space?
    fn admissible(&self, dir: usize, k: usize) -> bool {
        let dg = &self.bag[dir][k];
        let recv = 1 - dir;
        let txt = match E::dgram(&dg.bytes, None).or(E::dgram(&dg.bytes, Some(true))).or(E::dgram(&dg.bytes, Some(false))) { Some(t) => t.0, None => return true };
        // ack ghost
        if self.s[recv].sub.len() as i64 - dg.d_emit as i64 >= 1024 - 512 { return false; }
        if let Some(n) = txt.strip_prefix("K|") {
            let f: Vec<&str> = n.split('|').collect();
            if f[4] != "-" {
                for c in f[4].split(';') {
                    if let Some(v) = c.strip_prefix('v') {
                        let s: i64 = v.split('.').next().unwrap().parse().unwrap();
                        let n_emit = dg.n_emit as i64;
                        // the unique i in (n_emit-1024, n_emit] with i = s mod 1024
                        let mut i = n_emit - ((n_emit - s).rem_euclid(1024));
                        if i > n_emit { i -= 1024; }
                        let d = self.s[recv].del.len() as i64;
                        if d - i >= 1023 - 512 { return false; }
                    }
                }
            }
        }
        true
    }
    fn handshake(&mut self, o: &Shared, r: &mut Rng, lossy: bool) {
        if state_of(&self.fp(0)) == "Unconnected" { self.apply(o, &Label::Connect(0)); }
        for _ in 0..40 {
            if self.proto == "6nt" {
                // the peer does not know the token extension: it sees a plain Connect
                for d in self.bag[0].iter_mut() { if d.bytes.len() == 12 && d.bytes[3] == 1 { d.bytes.truncate(4); } }
            }
            if self.online(0) && self.online(1) { break; }
            let mut progressed = false;
            for dir in 0..2 {
                while !self.bag[dir].is_empty() {
                    if lossy && r.chance(1, 4) { self.apply(o, &Label::Drop(dir, 0)); }
                    else { let dup = lossy && r.chance(1, 5); self.apply(o, &Label::Deliver(dir, 0, dup)); if dup && self.bag[dir].len() > 6 { self.apply(o, &Label::Drop(dir, 0)); } }
                    progressed = true;
                }
            }
            if self.online(0) && !self.online(1) && state_of(&self.fp(1)) == "Pending" && self.bag[0].is_empty() {
                // the acceptor goes online with the first chunk packet: make the client say something
                self.apply(o, &Label::Send(0, vec![1, 2, 3], true));
                self.apply(o, &Label::Flush(0));
                progressed = true;
            }
            if !progressed {
                self.apply(o, &Label::Clock(500_000));
                self.apply(o, &Label::Tick(0));
                self.apply(o, &Label::Tick(1));
            }
        }
    }
    fn random_step(&mut self, o: &Shared, r: &mut Rng, max_chunk: usize, loss: u64) {
        let side = r.below(2) as usize;
        match r.below(20) {
            0..=6 => {
                if self.online(side) && queue_len(&self.fp(side)) < 480 {
                    let tl = r.chance(1, 20); let d = payload(r, max_chunk, tl);
                    let v = r.chance(2, 3);
                    self.apply(o, &Label::Send(side, d, v));
                }
            }
            7..=8 => { if self.online(side) { self.apply(o, &Label::Flush(side)); } }
            9..=10 => self.apply(o, &Label::Tick(side)),
            11 => { let dt = *r.pick(&[1u64, 1000, 100_000, 499_999, 500_000, 500_001, 999_999, 1_000_000, 1_000_001, 2_500_000]); self.apply(o, &Label::Clock(dt)); }
            12 => {
                if r.chance(1, 2) {
                    // a handshake datagram duplicated by the network long ago shows up now
                    let dir = r.below(2) as usize;
                    let pool: &Vec<Dg> = if r.chance(1, 2) || self.old[dir].is_empty() { &self.arch[dir] } else { &self.old[dir] };
                    if !pool.is_empty() && self.bag[dir].len() < 40 {
                        let dg = r.pick(pool).clone();
                        let at = r.below(self.bag[dir].len() as u64 + 1) as usize;
                        self.bag[dir].insert(at, dg);
                        o.lock().unwrap().count("late-handshake-duplicate");
                    }
                } else if self.online(side) && r.chance(1, 2) { let d = payload(r, 1390, true); self.apply(o, &Label::Connless(side, d)); }
            }
            _ => {
                let dir = r.below(2) as usize;
                if !self.bag[dir].is_empty() {
                    // mostly in order, sometimes any
                    let k = if r.chance(3, 4) { 0 } else { r.below(self.bag[dir].len() as u64) as usize };
                    if r.below(100) < loss || !self.admissible(dir, k) { self.apply(o, &Label::Drop(dir, k)); }
                    else { let dup = r.chance(1, 8) && self.bag[dir].len() < 12; self.apply(o, &Label::Deliver(dir, k, dup)); }
                }
            }
        }
    }
    /// C02, handshake half: once the network stops misbehaving and both sides tick at their deadlines, the
    /// connecting side becomes ready (and, with something to say, the acceptor goes online too)
    fn fair_handshake(&mut self, o: &Shared) -> bool {
        for _round in 0..30 {
            for dir in 0..2 {
                let n = self.bag[dir].len();
                for _ in 0..n {
                    if self.proto == "6nt" && dir == 0 {
                        let d = &mut self.bag[0][0];
                        if d.bytes.len() == 12 && d.bytes[3] == 1 { d.bytes.truncate(4); }
                    }
                    if self.admissible(dir, 0) { self.apply(o, &Label::Deliver(dir, 0, false)); } else { self.apply(o, &Label::Drop(dir, 0)); }
                }
            }
            if self.s[0].dead || self.s[1].dead { return false; }
            if self.online(0) && self.s[0].ready == 1 { return true; }
            if !(self.bag[0].is_empty() && self.bag[1].is_empty()) { continue; }
            let dl: Vec<Option<u64>> = (0..2).map(|i| self.s[i].ep.as_ref().and_then(|e| e.needs_tick().parse::<u64>().ok())).collect();
            match dl.iter().flatten().min().copied() {
                Some(t) => {
                    if t > self.now { self.apply(o, &Label::Clock(t - self.now)); }
                    for i in 0..2 { if dl[i].map(|x| x <= self.now).unwrap_or(false) { self.apply(o, &Label::Tick(i)); } }
                }
                None => return false,
            }
        }
        false
    }
    /// the fair suffix of C02: every datagram delivered once in order, ticks at the deadlines
    fn fair_suffix(&mut self, o: &Shared) -> bool {
        for _round in 0..60 {
            for dir in 0..2 {
                let n = self.bag[dir].len();
                for _ in 0..n {
                    if self.admissible(dir, 0) { self.apply(o, &Label::Deliver(dir, 0, false)); } else { self.apply(o, &Label::Drop(dir, 0)); }
                }
            }
            let quiet = self.bag[0].is_empty() && self.bag[1].is_empty() && (0..2).all(|i| {
                let fp = self.fp(i);
                state_of(&fp) == "Online" && queue_len(&fp) == 0 && field(&fp, "pkt=").unwrap_or("").starts_with("0:") && field(&fp, "rr=") == Some("false")
            }) && self.s[0].del == self.s[1].sub && self.s[1].del == self.s[0].sub;
            if quiet { return true; }
            if self.s[0].dead || self.s[1].dead { return false; }
            if !(self.bag[0].is_empty() && self.bag[1].is_empty()) { continue; }
            // advance the clock to the earliest deadline and tick whoever is due
            let dl: Vec<Option<u64>> = (0..2).map(|i| self.s[i].ep.as_ref().and_then(|e| e.needs_tick().parse::<u64>().ok())).collect();
            let next = dl.iter().flatten().min().copied();
            match next {
                Some(t) => {
                    if t > self.now { self.apply(o, &Label::Clock(t - self.now)); }
                    for i in 0..2 { if dl[i].map(|x| x <= self.now).unwrap_or(false) { self.apply(o, &Label::Tick(i)); } }
                }
                None => return false,
            }
        }
        false
    }
}

fn run_proto<E: Endpoint>(a: &Args, o: &Shared, proto: &str, modes: &[&str]) {
    let th = a.thorough();
    let mut r = Rng::new(a.seed ^ (proto.len() as u64 * 7919 + proto.as_bytes()[0] as u64));
    let v7 = proto == "7";
    let max_chunk = if v7 { 1390 } else { 1023 };
    let mut tn = 0;
    for mode in modes {
        let n = match *mode { "link" => if th { 1500 } else { 60 }, "sender" => if th { 800 } else { 40 }, "fair" => if th { 800 } else { 40 }, "wrap" => if th { 20 } else { 2 }, _ => if th { 1500 } else { 160 } };
        for _ in 0..n {
            tn += 1;
            let trace = format!("{}{}{}", mode, proto, tn);
            let mut w: World<E> = World::new(o, proto, trace.clone(), &mut r);
            if proto == "6nt" {
                // the peer does not support tokens: strip the token from the Connect (as a vanilla server sees it)
            }
            match *mode {
                "link" | "fair" => {
                    let lossy = r.chance(1, 2);
                    if *mode == "fair" && r.chance(1, 2) {
                        // a misbehaving prefix of the handshake (every datagram lost with probability 1/2, one
                        // early tick), then the fair suffix must make the connecting side ready
                        w.apply(o, &Label::Connect(0));
                        for _ in 0..(1 + r.below(5)) {
                            for dir in 0..2 {
                                while !w.bag[dir].is_empty() {
                                    if proto == "6nt" && dir == 0 { let d = &mut w.bag[0][0]; if d.bytes.len() == 12 && d.bytes[3] == 1 { d.bytes.truncate(4); } }
                                    if r.chance(1, 2) { w.apply(o, &Label::Drop(dir, 0)); } else { w.apply(o, &Label::Deliver(dir, 0, false)); }
                                }
                            }
                            if r.chance(1, 2) { w.apply(o, &Label::Clock(*r.pick(&[100_000u64, 500_000, 500_001]))); w.apply(o, &Label::Tick(r.below(2) as usize)); }
                        }
                        let st0 = state_of(&w.fp(0)).to_string();
                        if !(w.s[0].dead || w.s[1].dead) && matches!(st0.as_str(), "Connecting" | "Token" | "Online") {
                            let ok = w.fair_handshake(o);
                            let (fa, fb) = (w.fp(0), w.fp(1));
                            o.lock().unwrap().check(ok, "-", &trace, || format!("C02: the connecting side is not ready after 30 fair rounds of the handshake; A={} B={}", fa, fb));
                        }
                    }
                    if !w.online(0) && state_of(&w.fp(0)) == "Unconnected" { w.handshake(o, &mut r, lossy); }
                    if *mode == "fair" && r.chance(1, 8) && w.online(0) && !(w.s[0].dead || w.s[1].dead) {
                        // a burst: several hundred vital chunks submitted before the first acknowledgement comes back
                        // (every datagram of the burst is lost or late, nothing is reordered), then the fair suffix
                        let n = *r.pick(&[300usize, 511, 512, 513, 514, 515, 600, 700]);
                        for i in 0..n {
                            w.apply(o, &Label::Send(0, vec![(i % 251) as u8; (i % 3) as usize], true));
                            if i % 40 == 39 { w.apply(o, &Label::Flush(0)); }
                            if w.s[0].dead { break; }
                        }
                        w.apply(o, &Label::Flush(0));
                        if r.chance(1, 2) { while !w.bag[0].is_empty() { w.apply(o, &Label::Drop(0, 0)); } }
                        if !(w.s[0].dead || w.s[1].dead) {
                            let q = w.fair_suffix(o);
                            let (fa, fb) = (w.fp(0), w.fp(1));
                            o.lock().unwrap().check(q, "-", &trace, || format!("C02: no quiescence within 60 fair rounds after a burst of {} vital chunks; A={} B={}", n, &fa[..fa.len().min(300)], &fb[..fb.len().min(200)]));
                        }
                        continue;
                    }
                    let loss = *r.pick(&[0u64, 5, 20, 40]);
                    let steps = if th { 40 + r.below(400) } else { 30 + r.below(150) };
                    for _ in 0..steps { w.random_step(o, &mut r, max_chunk, loss); if w.s[0].dead || w.s[1].dead { break; } }
                    if *mode == "fair" && !(w.s[0].dead || w.s[1].dead) && w.online(0) {
                        let q = w.fair_suffix(o);
                        let (fa, fb) = (w.fp(0), w.fp(1));
                        o.lock().unwrap().check(q, "-", &trace, || format!("C02: no quiescence within 60 fair rounds; A={} B={}", fa, fb));
                    }
                }
                "wrap" => {
                    // > 1024 vital chunks with acks: the sequence space wraps
                    w.handshake(o, &mut r, false);
                    // in half of the traces the connecting side stops at exactly 1024 vital chunks: its last chunk
                    // carries sequence number 0 and the acknowledgement it waits for is 0
                    let stop_a = if r.chance(1, 2) { Some(1024usize) } else { None };
                    for i in 0..(1400 + r.below(200)) {
                        let side = if i % 5 == 4 { 1 } else { 0 };
                        let stopped = side == 0 && stop_a.map(|n| w.s[0].sub.len() >= n).unwrap_or(false);
                        if w.online(side) && !stopped { w.apply(o, &Label::Send(side, vec![(i % 251) as u8, (i / 251) as u8], true)); }
                        if i % 3 == 2 { w.apply(o, &Label::Flush(0)); if w.online(1) { w.apply(o, &Label::Flush(1)); } }
                        for dir in 0..2 { while !w.bag[dir].is_empty() { if r.chance(1, 15) { w.apply(o, &Label::Drop(dir, 0)); } else { w.apply(o, &Label::Deliver(dir, 0, false)); } } }
                        if i % 50 == 49 { w.apply(o, &Label::Clock(1_000_001)); w.apply(o, &Label::Tick(0)); w.apply(o, &Label::Tick(1)); }
                        if w.s[0].dead || w.s[1].dead { break; }
                    }
                    if !(w.s[0].dead || w.s[1].dead) {
                        let q = w.fair_suffix(o);
                        o.lock().unwrap().check(q, "-", &trace, || "C02: no quiescence after the wrap trace".to_string());
                    }
                    let dead = w.s[0].dead || w.s[1].dead;
                    o.lock().unwrap().check(!dead, "-", &trace, || "C04: a sequence of valid API calls panicked (wrap trace: more than 1024 vital chunks; see the trace's last line)".to_string());
                }
                "sender" => {
                    // C04: stress the sending side with valid API calls only
                    w.handshake(o, &mut r, false);
                    let tiny_run = r.chance(1, 3);
                    let steps = if tiny_run { 600 + r.below(600) } else if th { 100 + r.below(600) } else { 60 + r.below(300) };
                    if r.chance(1, 3) {
                        // many small chunks queued without a flush (the 8-bit chunk counter)
                        let n = *r.pick(&[254usize, 255, 256, 257, 300, 520, 700]);
                        let vital = r.chance(1, 3);
                        for i in 0..n {
                            if w.s[0].dead { break; }
                            let d = vec![(i % 256) as u8; r.below(3) as usize];
                            if queue_len(&w.fp(0)) < 480 { w.apply(o, &Label::Send(0, d, vital)); }
                        }
                    }
                    for _ in 0..steps {
                        if w.s[0].dead { break; }
                        if !w.online(0) { break; }
                        match r.below(24) {
                            0..=13 => { let d = if tiny_run { vec![7u8; r.below(3) as usize] } else { { let tl = r.chance(1, 10); payload(&mut r, max_chunk, tl) } }; let v = r.chance(1, 2); if queue_len(&w.fp(0)) < 480 { w.apply(o, &Label::Send(0, d, v)); } }
                            14 => w.apply(o, &Label::Flush(0)),
                            15..=16 => { w.apply(o, &Label::Clock(*r.pick(&[400_000u64, 600_000, 1_000_001]))); w.apply(o, &Label::Tick(0)); }
                            17 => { let d = if r.chance(1, 2) { vec![0x41u8; *r.pick(&[1386usize, 1387, 1388, 1389, 1390, 1391, 1392, 1393, 1394, 1395, 1396, 1397, 1398, 1400, 1401])] } else { payload(&mut r, 1390, true) }; w.apply(o, &Label::Connless(0, d)); }
                            18..=20 => { for dir in 0..2 { while !w.bag[dir].is_empty() { if r.chance(1, 3) && w.admissible(dir, 0) { w.apply(o, &Label::Deliver(dir, 0, false)); } else { w.apply(o, &Label::Drop(dir, 0)); } } } }
                            21 => { if w.online(1) { w.apply(o, &Label::Send(1, vec![1], true)); w.apply(o, &Label::Flush(1)); } }
                            22 => w.apply(o, &Label::Tick(0)),
                            _ => { if r.chance(1, 6) { let n = *r.pick(&[0usize, 1, 5, 126, 127]); let reason: Vec<u8> = (0..n).map(|_| 1 + r.byte() % 255).collect(); w.apply(o, &Label::Disconnect(0, reason)); } }
                        }
                    }
                    let dead = w.s[0].dead || w.s[1].dead;
                    o.lock().unwrap().check(!dead, "-", &trace, || "C04: a sequence of valid API calls panicked (see the trace's last line)".to_string());
                }
                _ => {
                    // hostile: foreign tokens, mutations, truncations, garbage fed at every point
                    let lossy = r.chance(1, 3);
                    if r.chance(1, 3) {
                        // the connecting side, still waiting for the first answer, is shown its own first datagram
                        // (reflected) and variants of it with another token value inside
                        w.apply(o, &Label::Connect(0));
                        let own: Vec<Vec<u8>> = w.bag[0].iter().map(|d| d.bytes.clone()).collect();
                        for d in own {
                            w.apply(o, &Label::FeedRaw(0, d.clone()));
                            let mut e = d.clone();
                            let n = e.len();
                            if n >= 12 { for j in 8..12 { e[j] = r.byte(); } }
                            w.apply(o, &Label::FeedRaw(0, e));
                        }
                    }
                    if !v7 && proto == "6" && state_of(&w.fp(0)) == "Unconnected" && r.chance(1, 6) {
                        // a (foreign) server answers the connect request with the placeholder value ff ff ff ff as the
                        // token: whatever the connecting side makes of it, datagrams that do not carry the token it
                        // then reports as agreed must stay inert
                        w.apply(o, &Label::Connect(0));
                        while !w.bag[0].is_empty() { w.apply(o, &Label::Drop(0, 0)); }
                        w.apply(o, &Label::FeedRaw(0, vec![0x10, 0, 0, 2, b'T', b'K', b'E', b'N', 0xff, 0xff, 0xff, 0xff]));
                        let t = [r.byte(), r.byte(), r.byte(), 0x11];
                        for d in [vec![0x10u8, 0, 0, 4], vec![0x10, 0, 0, 4, t[0], t[1], t[2], t[3]], vec![0x00, 0, 1, 0x00, 0x01, 0x41], vec![0x00, 0, 1, 0x40, 0x01, 0x01, 0x41], vec![0x10, 0, 0, 0]] {
                            if w.s[0].dead { break; }
                            w.apply(o, &Label::FeedRaw(0, d));
                        }
                        continue;
                    }
                    if state_of(&w.fp(0)) == "Unconnected" && r.chance(1, 2) {
                        // the acceptor is half-connected (it has answered the connect request, nothing else has
                        // arrived yet): datagrams without the token it handed out must not move it
                        w.apply(o, &Label::Connect(0));
                        for _ in 0..3 { if !w.bag[0].is_empty() { w.apply(o, &Label::Deliver(0, 0, false)); } if !w.bag[1].is_empty() && v7 && state_of(&w.fp(0)) != "Connecting" { w.apply(o, &Label::Deliver(1, 0, false)); } }
                        let forged: Vec<Vec<u8>> = if v7 {
                            let t = [r.byte(), r.byte(), r.byte(), r.byte()];
                            vec![vec![0x04, 0, 0, t[0], t[1], t[2], t[3], 4], vec![0x04, 0, 0, 0xff, 0xff, 0xff, 0xff, 4], vec![0x00, 0, 1, t[0], t[1], t[2], t[3], 0x00, 0x01, 0x41], vec![0x04, 0, 0, t[0], t[1], t[2], t[3], 0]]
                        } else {
                            let t = [r.byte(), r.byte(), r.byte(), r.byte()];
                            vec![vec![0x10, 0, 0, 4], vec![0x10, 0, 0, 4, t[0], t[1], t[2], t[3]], vec![0x00, 0, 1, 0x00, 0x01, 0x41], vec![0x00, 0, 1, 0x00, 0x01, 0x41, t[0], t[1], t[2], t[3]],
                                 vec![0x00, 0, 1, 0x40, 0x01, 0x01, 0x41], vec![0x10, 0, 0, 0], vec![0x10, 0, 0, 3], vec![0x10, 0, 0, 4, 0xff, 0xff, 0xff, 0xff]]
                        };
                        for d in forged { if w.s[1].dead { break; } w.apply(o, &Label::FeedRaw(1, d)); }
                    }
                    w.handshake(o, &mut r, lossy);
                    // the handshake datagrams of both directions are known to the attacker as well
                    let mut captured: Vec<Vec<u8>> = w.arch.iter().flat_map(|a| a.iter().map(|d| d.bytes.clone())).collect();
                    let steps = if th { 150 } else { 60 };
                    for _ in 0..steps {
                        if w.s[0].dead || w.s[1].dead { break; }
                        for dir in 0..2 { for d in &w.bag[dir] { if captured.len() < 64 { captured.push(d.bytes.clone()); } } }
                        if r.chance(1, 2) { w.random_step(o, &mut r, max_chunk, 10); continue; }
                        let side = r.below(2) as usize;
                        let mut d = if captured.is_empty() || r.chance(1, 6) { let n = r.below(40) as usize; r.bytes(n) } else { r.pick(&captured).clone() };
                        match r.below(8) {
                            6 | 7 => {
                                // the acknowledgement field names a chunk the target still has in flight (or its
                                // current sequence number); the token is the placeholder, random, or left as captured
                                if d.len() >= 7 {
                                    let fp = w.fp(side);
                                    let mut seqs: Vec<u16> = vec![];
                                    if let Some(q) = fp.split("q=[").nth(1) { for e in q.split(',') { if let Some(n) = e.split('@').next().and_then(|x| x.trim_end_matches(']').parse::<u16>().ok()) { seqs.push(n); } } }
                                    if let Some(n) = field(&fp, "seq=").and_then(|x| x.parse::<u16>().ok()) { seqs.push(n); }
                                    if !seqs.is_empty() {
                                        let a = *r.pick(&seqs) & 0x3ff;
                                        d[0] = (d[0] & 0xfc) | (a >> 8) as u8;
                                        d[1] = (a & 0xff) as u8;
                                    }
                                    let n = d.len();
                                    let off = if v7 { 3 } else { n - 4 };
                                    match r.below(3) { 0 => { for j in 0..4 { d[off + j] = 0xff; } } 1 => { for j in 0..4 { d[off + j] = r.byte(); } } _ => {} }
                                }
                            }
                            0 => { let k = r.below(d.len() as u64 + 1) as usize; d.truncate(k); }
                            1 => { if !d.is_empty() { let k = r.below(d.len() as u64) as usize; d[k] ^= 1 << r.below(8); } }
                            2 => { let n = d.len(); if n >= 4 { let off = if v7 { 3.min(n - 4) } else { n - 4 }; for j in 0..4 { d[off + j] = r.byte(); } } }
                            3 => { let n = d.len(); if n >= 4 { let off = if v7 { 3.min(n - 4) } else { n - 4 }; d[off + r.below(4) as usize] ^= 1 << r.below(8); } }
                            4 => { if !d.is_empty() { d[0] ^= *r.pick(&[0x10u8, 0x20, 0x40, 0x80, 0x08, 0x04]); } }
                            _ => {}
                        }
                        w.apply(o, &Label::FeedRaw(side, d.clone()));
                    }
                }
            }
        }
    }
}

// ---------------- a send callback that fails now and then (oracle only; the model assumes Infallible) ----------------
// C04: "no sequence of valid API calls panics" and a refused / failed call "leaves the connection usable" are
// checked on the real code with a callback whose `send` returns an error at chosen points.
macro_rules! failing_send {
    ($name:ident, $conn:ident, $tag:expr, $max:expr) => {
        fn $name(o: &Shared, seed: u64, n: usize) {
            use libtw2_net::$conn::{Callback, Connection};
            struct Cb { now: u64, k: u8, fail_in: Option<u32>, sent: Vec<Vec<u8>> }
            impl Callback for Cb {
                type Error = &'static str;
                fn secure_random(&mut self, b: &mut [u8]) { self.k = self.k.wrapping_add(29); for x in b { *x = self.k | 1; } }
                fn send(&mut self, d: &[u8]) -> Result<(), &'static str> {
                    if let Some(n) = self.fail_in.as_mut() { if *n == 0 { self.fail_in = None; return Err("network unreachable"); } *n -= 1; }
                    self.sent.push(d.to_vec());
                    Ok(())
                }
                fn time(&mut self) -> libtw2_net::Timestamp { libtw2_net::Timestamp::from_usecs_since_epoch(self.now) }
            }
            let mut r = Rng::new(seed ^ 0xfa11);
            for t in 0..n {
                let trace = format!("failsend{}-{}", $tag, t);
                let mut log: Vec<String> = vec![];
                let res = {
                    let log = &mut log;
                    let r = &mut r;
                    guard(move || -> Result<(), String> {
                        let (mut a, mut b) = (Connection::new(), Connection::new());
                        let mut ca = Cb { now: 0, k: 1, fail_in: None, sent: vec![] };
                        let mut cb = Cb { now: 0, k: 100, fail_in: None, sent: vec![] };
                        a.connect(&mut ca).map_err(|e| e.to_string())?;
                        let mut buf = [0u8; 2048];
                        for _ in 0..12 {
                            for d in std::mem::take(&mut ca.sent) { let (ev, res) = b.feed(&mut cb, &mut libtw2_warn::Ignore, &d, &mut buf[..]); for _ in ev {} res.map_err(|e| e.to_string())?; }
                            for d in std::mem::take(&mut cb.sent) { let (ev, res) = a.feed(&mut ca, &mut libtw2_warn::Ignore, &d, &mut buf[..]); for _ in ev {} res.map_err(|e| e.to_string())?; }
                        }
                        // the connecting side is online now; stress it with a callback that fails at chosen sends
                        for step in 0..(60 + r.below(140)) {
                            // send / flush / send_connless are valid calls only while online (a timeout or a close ends that)
                            if !a.verif_fingerprint().starts_with("Online") { break; }
                            if r.chance(1, 5) { ca.fail_in = Some(r.below(3) as u32); }
                            let op = r.below(10);
                            let what;
                            let res: Result<(), String> = match op {
                                0..=5 => {
                                    let n = match r.below(4) { 0 => r.below(40) as usize, 1 => *r.pick(&[$max - 3usize, $max - 2, $max - 1, $max, 300, 700, 1000, 1020]), _ => r.below($max as u64 + 1) as usize };
                                    let v = r.chance(1, 2);
                                    what = format!("send {} {}", n, v);
                                    a.send(&mut ca, &vec![(step % 251) as u8; n], v).map_err(|e| format!("{:?}", e))
                                }
                                6 => { what = "flush".into(); a.flush(&mut ca).map_err(|e| e.to_string()) }
                                7 | 8 => { ca.now += *r.pick(&[400_000u64, 600_000, 1_000_001]); what = "tick".into(); a.tick(&mut ca).map_err(|e| e.to_string()) }
                                _ => { let n = *r.pick(&[0usize, 10, 1389, 1390]); what = format!("connless {}", n); a.send_connless(&mut ca, &vec![7u8; n]).map_err(|e| format!("{:?}", e)) }
                            };
                            log.push(format!("{}{}", what, if res.is_err() { "!" } else { "" }));
                            if log.len() > 40 { log.remove(0); }
                            // now and then the peer hears from us (acks come back, the queue shrinks)
                            if r.chance(1, 3) {
                                for d in std::mem::take(&mut ca.sent) { let (ev, res) = b.feed(&mut cb, &mut libtw2_warn::Ignore, &d, &mut buf[..]); for _ in ev {} let _ = res; }
                                if b.verif_fingerprint().starts_with("Online") { let _ = b.flush(&mut cb); }
                                for d in std::mem::take(&mut cb.sent) { let (ev, res) = a.feed(&mut ca, &mut libtw2_warn::Ignore, &d, &mut buf[..]); for _ in ev {} let _ = res; }
                            } else { ca.sent.clear(); }
                        }
                        Ok(())
                    })
                };
                let mut g = o.lock().unwrap();
                g.tick("failsend", "failsend");
                match res {
                    Ok(Ok(())) => g.check(true, "-", &trace, String::new),
                    Ok(Err(e)) => g.check(true || e.is_empty(), "-", &trace, String::new), // the handshake itself failed: nothing to judge
                    Err(p) => g.check(false, "-", &trace, || format!("C04: valid API calls with a send callback that fails now and then panicked: {} (last calls, ! = returned an error: {})", p, log.join(", "))),
                }
            }
        }
    };
}
failing_send!(failing_send6, connection, "6", 1023);
failing_send!(failing_send7, connection7, "7", 1390);

fn main() {
    let a = Args::parse();
    let o: Shared = Arc::new(Mutex::new(Out::new(&a, "labelled traces over two real Connection endpoints and a scripted lossy/duplicating/reordering network; modes: link (random structured traces), fair (lossy prefix + fair suffix), wrap (>1024 vital chunks), sender (valid-API stress of the sending side), hostile (foreign tokens, mutations, truncations, garbage). distinct = distinct (operation, state before > state after, result, #datagrams, #events) signatures")));
    // watchdog: a library call that does not return within 8 s is recorded as a hang and ends the run
    {
        let o = o.clone();
        std::thread::spawn(move || loop {
            std::thread::sleep(std::time::Duration::from_millis(250));
            let h = HEART.load(Ordering::SeqCst);
            if h != 0 && now_ms() > h + 8000 {
                let cur = CURRENT.lock().unwrap().clone();
                let mut g = o.lock().unwrap();
                if let Some((case, trace, what)) = cur {
                    g.case(&case, "hang", "hang");
                    g.check(false, "-", &trace, || what);
                }
                g.finish_ref();
                std::process::exit(0);
            }
        });
    }
    let protos: Vec<String> = if a.extra.is_empty() { vec!["6".into()] } else { a.extra[0].split(',').map(|s| s.to_string()).collect() };
    let modes: Vec<String> = if a.extra.len() < 2 { vec!["link".into(), "fair".into(), "wrap".into(), "sender".into(), "hostile".into()] } else { a.extra[1].split(',').map(|s| s.to_string()).collect() };
    let m: Vec<&str> = modes.iter().map(|s| s.as_str()).collect();
    for p in &protos {
        match p.as_str() {
            "7" => run_proto::<v7::Ep>(&a, &o, "7", &m),
            p => run_proto::<v6::Ep>(&a, &o, p, &m),
        }
    }
    if m.contains(&"sender") {
        let n = if a.thorough() { 2000 } else { 150 };
        if protos.iter().any(|p| p == "6") { failing_send6(&o, a.seed, n); }
        if protos.iter().any(|p| p == "7") { failing_send7(&o, a.seed, n); }
    }
    o.lock().unwrap().finish_ref();
}

//! C16: datafile reader (libtw2-datafile raw::Reader through in-memory callbacks and the
//! public file-based Reader) and the map reader (libtw2-map) against the Coq model.
//!
//! The files come from an *independent writer* (below, written from doc/datafile.md; it never
//! calls the crate). Case lines:
//!   ser   <version> <crude> <items> <datas>           -> hex of the file (model: Datafile.serialize)
//!   open  <filehex> <ztable> <queries>                -> error kind | full accessor dump
//!   map   <filehex> <ztable>                          -> dump of every map accessor
//! `ztable` is the graph of zlib's uncompress on the (capacity, source) pairs that occur, computed
//! here by calling libtw2-zlib-minimal directly; the model takes uncompress as a parameter.
use libtw2_datafile as df;
use libtw2_datafile::format;
use libtw2_datafile::raw;
use libtw2_datafile::raw::CallbackError;
use libtw2_datafile::raw::CallbackNew;
use libtw2_datafile::raw::CallbackReadData;
use libtw2_map::format as mf;
use libtw2_map::reader as mr;
use std::collections::BTreeMap;
use std::path::PathBuf;
use tw2verif::*;

// ------------------------------------------------------------------ independent writer

#[derive(Clone, Debug, PartialEq)]
struct Item {
    type_id: u16,
    id: u16,
    /// item_data as bytes (a multiple of four for well-formed items)
    payload: Vec<u8>,
}

fn item_words(ws: &[i32]) -> Vec<u8> {
    ws.iter().flat_map(|w| w.to_le_bytes()).collect()
}

#[derive(Clone, Debug)]
struct Spec {
    version: i32,
    /// size/swaplen computed without the data_sizes table (the "crude" v4 writer)
    crude: bool,
    items: Vec<Item>,
    /// uncompressed data items
    datas: Vec<Vec<u8>>,
    /// what is stored in the data section (v3: the data itself; v4: zlib compress output)
    stored: Vec<Vec<u8>>,
}

/// where the 32-bit fields of a written file are (for the corruption sweeps)
#[derive(Clone, Debug, Default)]
struct Layout {
    fields: Vec<(&'static str, usize)>,
    items_start: usize,
    data_start: usize,
    size_items: usize,
    size_data: usize,
}

fn put(out: &mut Vec<u8>, lay: &mut Layout, class: &'static str, v: i32) {
    lay.fields.push((class, out.len()));
    out.extend_from_slice(&v.to_le_bytes());
}

/// doc/datafile.md: version_header, header, item_types, item_offsets, data_offsets,
/// [_data_sizes], items, data. Items are expected grouped by type.
fn write_file(s: &Spec) -> (Vec<u8>, Layout) {
    let mut lay = Layout::default();
    // item types: maximal runs of equal type_id
    let mut types: Vec<(i32, i32, i32)> = vec![];
    for (i, it) in s.items.iter().enumerate() {
        match types.last_mut() {
            Some(t) if t.0 == it.type_id as i32 => t.2 += 1,
            _ => types.push((it.type_id as i32, i as i32, 1)),
        }
    }
    let mut item_offsets = vec![];
    let mut off = 0usize;
    for it in &s.items {
        item_offsets.push(off as i32);
        off += 8 + it.payload.len();
    }
    let size_items = off;
    let mut data_offsets = vec![];
    let mut doff = 0usize;
    for d in &s.stored {
        data_offsets.push(doff as i32);
        doff += d.len();
    }
    let size_data = doff;
    let nd = s.datas.len();
    let tables = 12 * types.len() + 4 * s.items.len() + 4 * nd + if s.version >= 4 { 4 * nd } else { 0 };
    let total = 36 + tables + size_items + size_data;
    let mut size = total as i64 - 16;
    if s.crude {
        size -= 4 * nd as i64;
    }
    let swaplen = size - size_data as i64;
    let mut out = vec![];
    out.extend_from_slice(b"DATA");
    put(&mut out, &mut lay, "version", s.version);
    put(&mut out, &mut lay, "size", size as i32);
    put(&mut out, &mut lay, "swaplen", swaplen as i32);
    put(&mut out, &mut lay, "num_item_types", types.len() as i32);
    put(&mut out, &mut lay, "num_items", s.items.len() as i32);
    put(&mut out, &mut lay, "num_data", nd as i32);
    put(&mut out, &mut lay, "size_items", size_items as i32);
    put(&mut out, &mut lay, "size_data", size_data as i32);
    for t in &types {
        put(&mut out, &mut lay, "type.type_id", t.0);
        put(&mut out, &mut lay, "type.start", t.1);
        put(&mut out, &mut lay, "type.num", t.2);
    }
    for o in &item_offsets {
        put(&mut out, &mut lay, "item_offset", *o);
    }
    for o in &data_offsets {
        put(&mut out, &mut lay, "data_offset", *o);
    }
    if s.version >= 4 {
        for d in &s.datas {
            put(&mut out, &mut lay, "data_size", d.len() as i32);
        }
    }
    lay.items_start = out.len();
    for it in &s.items {
        put(&mut out, &mut lay, "item.type_id__id", (((it.type_id as u32) << 16) | it.id as u32) as i32);
        put(&mut out, &mut lay, "item.size", it.payload.len() as i32);
        out.extend_from_slice(&it.payload);
    }
    lay.data_start = out.len();
    for d in &s.stored {
        out.extend_from_slice(d);
    }
    lay.size_items = size_items;
    lay.size_data = size_data;
    assert_eq!(out.len(), total);
    (out, lay)
}

fn zcompress(d: &[u8]) -> Vec<u8> {
    libtw2_zlib_minimal::compress_vec(d).expect("zlib compress")
}

/// zlib stream made of stored (uncompressed) deflate blocks, written by hand (RFC 1950/1951)
fn zstore(d: &[u8]) -> Vec<u8> {
    let mut out = vec![0x78, 0x01];
    let mut chunks: Vec<&[u8]> = d.chunks(65535).collect();
    if chunks.is_empty() {
        chunks.push(&[]);
    }
    let n = chunks.len();
    for (i, c) in chunks.iter().enumerate() {
        out.push(if i + 1 == n { 1 } else { 0 });
        out.extend_from_slice(&(c.len() as u16).to_le_bytes());
        out.extend_from_slice(&(!(c.len() as u16)).to_le_bytes());
        out.extend_from_slice(c);
    }
    let (mut a, mut b) = (1u32, 0u32);
    for &x in d {
        a = (a + x as u32) % 65521;
        b = (b + a) % 65521;
    }
    out.extend_from_slice(&((b << 16) | a).to_be_bytes());
    out
}

fn mk_spec(version: i32, crude: bool, items: Vec<Item>, datas: Vec<Vec<u8>>, r: &mut Rng) -> Spec {
    let stored = if version >= 4 {
        datas.iter().map(|d| if r.chance(1, 3) { zstore(d) } else { zcompress(d) }).collect()
    } else {
        datas.clone()
    };
    Spec { version, crude, items, datas, stored }
}

// ------------------------------------------------------------------ in-memory callbacks

struct MemNew<'a> {
    data: &'a [u8],
    pos: usize,
    seek_base: Option<usize>,
}

impl<'a> CallbackNew for MemNew<'a> {
    fn read(&mut self, buffer: &mut [u8]) -> Result<usize, CallbackError> {
        let n = buffer.len().min(self.data.len() - self.pos);
        buffer[..n].copy_from_slice(&self.data[self.pos..self.pos + n]);
        self.pos += n;
        Ok(n)
    }
    fn set_seek_base(&mut self) -> Result<(), CallbackError> {
        self.seek_base = Some(self.pos);
        Ok(())
    }
    fn ensure_filesize(&mut self, filesize: u32) -> Result<Result<(), ()>, CallbackError> {
        Ok(if self.data.len() as u64 >= filesize as u64 { Ok(()) } else { Err(()) })
    }
}

struct MemData<'a> {
    data: &'a [u8],
    seek_base: usize,
    buffer: Option<Vec<u8>>,
    /// (absolute offset, length) of every seek_read and the capacity of every allocation
    reads: Vec<(usize, usize)>,
    allocs: Vec<usize>,
}

impl<'a> CallbackReadData for MemData<'a> {
    fn seek_read(&mut self, start: u32, buffer: &mut [u8]) -> Result<usize, CallbackError> {
        let off = self.seek_base + start as usize;
        self.reads.push((off, buffer.len()));
        let avail = self.data.len().saturating_sub(off);
        let n = buffer.len().min(avail);
        if n > 0 {
            buffer[..n].copy_from_slice(&self.data[off..off + n]);
        }
        Ok(n)
    }
    fn alloc_data_buffer(&mut self, length: usize) -> Result<(), CallbackError> {
        self.allocs.push(length);
        self.buffer = Some(vec![0u8; length]);
        Ok(())
    }
    fn data_buffer(&mut self) -> &mut [u8] {
        self.buffer.as_mut().unwrap()
    }
}

// ------------------------------------------------------------------ observables

fn df_err(e: &format::Error) -> String {
    use format::Error::*;
    match e {
        WrongMagic(_) => "WrongMagic".into(),
        UnsupportedVersion(v) => format!("UnsupportedVersion({})", v),
        MalformedHeader => "MalformedHeader".into(),
        Malformed => "Malformed".into(),
        CompressionWrongSize => "CompressionWrongSize".into(),
        CompressionError(z) => format!("CompressionError({})", z.raw_error()),
        TooShort => "TooShort".into(),
        TooShortHeaderVersion => "TooShortHeaderVersion".into(),
        TooShortHeader => "TooShortHeader".into(),
    }
}

fn raw_err(e: &raw::Error) -> String {
    match e {
        raw::Error::Df(e) => df_err(e),
        raw::Error::Callback => "Callback".into(),
    }
}

fn file_err(e: &df::Error) -> String {
    match e {
        df::Error::Df(e) => df_err(e),
        df::Error::Io(_) => "Io".into(),
    }
}

fn words(ws: &[i32]) -> String {
    if ws.is_empty() {
        "-".into()
    } else {
        ws.iter().map(|w| w.to_string()).collect::<Vec<_>>().join(".")
    }
}

fn le32(b: &[u8], p: usize) -> i32 {
    i32::from_le_bytes([b[p], b[p + 1], b[p + 2], b[p + 3]])
}

/// the graph of uncompress needed for one file: key "cap:srchex"
type ZTable = BTreeMap<String, String>;

fn ztable_txt(z: &ZTable) -> String {
    if z.is_empty() {
        "-".into()
    } else {
        z.iter().map(|(k, v)| format!("{}={}", k, v)).collect::<Vec<_>>().join(",")
    }
}

/// zlib's uncompress called directly (not through the reader) on (capacity, source)
fn zcall(cap: usize, src: &[u8]) -> String {
    let mut dest = vec![0u8; cap];
    match libtw2_zlib_minimal::uncompress(&mut dest, src) {
        Ok(n) => {
            dest.truncate(n);
            format!("ok:{}", hex(&dest))
        }
        Err(e) => format!("err:{}", e.raw_error()),
    }
}

struct View {
    type_id: u16,
    id: u16,
    off: isize,
    len: usize,
    data: Vec<i32>,
}

fn view_txt(v: &View) -> String {
    format!("{}/{}@{}+{}:{}", v.type_id, v.id, v.off, v.len, words(&v.data))
}

/// A query list: (type_id, id) pairs for find_item / item_type_indices / item_type_items
fn queries_for(bytes: &[u8], r: &mut Rng) -> Vec<(u16, u16)> {
    let mut q = vec![(0u16, 0u16), (1, 0), (5, 1), (0xffff, 0)];
    // whatever looks like a type table entry / item header in the file
    if bytes.len() >= 36 {
        let nt = le32(bytes, 16).clamp(0, 8) as usize;
        for k in 0..nt {
            let p = 36 + 12 * k;
            if p + 4 <= bytes.len() {
                let t = le32(bytes, p) as u16;
                q.push((t, 0));
                q.push((t, r.below(4) as u16));
                q.push((t.wrapping_add(1), 0));
            }
        }
    }
    q.push((r.next() as u16, r.next() as u16));
    q.sort();
    q.dedup();
    q
}

/// Everything the raw reader exposes, on an in-memory file. Returns (result text, signature,
/// ztable, Option<parsed dump for the oracles>).
struct Dump {
    version: raw::Version,
    types: Vec<(u16, usize, usize)>,
    items: Vec<View>,
    datas: Vec<Result<Vec<u8>, String>>,
    text: String,
}

fn sweep_raw(bytes: &[u8], queries: &[(u16, u16)], z: &mut ZTable) -> Result<Dump, String> {
    let mut cbn = MemNew { data: bytes, pos: 0, seek_base: None };
    let rd = match raw::Reader::new(&mut cbn) {
        Ok(r) => r,
        Err(e) => return Err(raw_err(&e)),
    };
    let seek_base = cbn.seek_base.expect("seek base set");
    let mut out = String::new();
    let version = rd.version();
    out.push_str(match version {
        raw::Version::V3 => "ok v=3",
        raw::Version::V4Crude => "ok v=4c",
        raw::Version::V4 => "ok v=4",
    });
    // item types and their index ranges
    let nt = rd.num_item_types();
    let mut types = vec![];
    let mut tt = vec![];
    for i in 0..nt {
        let t = rd.item_type(i);
        let rg = rd.item_type_indices(t);
        types.push((t, rg.start, rg.end));
        tt.push(format!("{}:{}-{}", t, rg.start, rg.end));
    }
    let via_iter: Vec<u16> = rd.item_types().collect();
    assert!(via_iter == types.iter().map(|t| t.0).collect::<Vec<_>>(), "item_types() differs from item_type(i)");
    out.push_str(&format!(" types=[{}]", tt.join(",")));
    // items
    let n = rd.num_items();
    let mut items = vec![];
    let mut base: Option<*const i32> = None;
    for i in 0..n {
        let it = rd.item(i);
        let p = it.data.as_ptr();
        if base.is_none() {
            base = Some(p.wrapping_sub(2));
        }
        let off = (p as isize - base.unwrap() as isize) / 4;
        items.push(View { type_id: it.type_id, id: it.id, off, len: it.data.len(), data: it.data.to_vec() });
    }
    let via_iter: Vec<format::ItemView> = rd.items().collect();
    assert!(via_iter.len() == n && via_iter.iter().zip(&items).all(|(a, b)| a.type_id == b.type_id && a.id == b.id && a.data == &b.data[..]),
            "items() differs from item(i)");
    out.push_str(&format!(" items=[{}]", items.iter().map(view_txt).collect::<Vec<_>>().join(";")));
    // data
    let nd = rd.num_data();
    let mut datas = vec![];
    let mut dt = vec![];
    for i in 0..nd {
        let mut cbd = MemData { data: bytes, seek_base, buffer: None, reads: vec![], allocs: vec![] };
        let res = rd.read_data(&mut cbd, i);
        // what zlib says about this block, asked directly
        if version != raw::Version::V3 {
            if let (Some(&(off, len)), Some(&cap)) = (cbd.reads.first(), cbd.allocs.first()) {
                if off + len <= bytes.len() {
                    let src = &bytes[off..off + len];
                    z.entry(format!("{}:{}", cap, hex(src))).or_insert_with(|| zcall(cap, src));
                }
            }
        }
        // the read must lie inside the data block announced by the header
        for &(off, len) in &cbd.reads {
            assert!(off >= seek_base && off + len <= bytes.len(), "read_data({}) reads [{},{}) outside the file of {} bytes", i, off, off + len, bytes.len());
        }
        match res {
            Ok(()) => {
                let b = cbd.buffer.take().unwrap();
                dt.push(format!("ok:{}", hex(&b)));
                datas.push(Ok(b));
            }
            Err(e) => {
                dt.push(format!("err:{}", raw_err(&e)));
                datas.push(Err(raw_err(&e)));
            }
        }
    }
    out.push_str(&format!(" data=[{}]", dt.join(",")));
    // queries
    let mut qt = vec![];
    for &(t, id) in queries {
        let rg = rd.item_type_indices(t);
        let f = rd.find_item(t, id);
        let cnt = rd.item_type_items(t).count();
        assert!(cnt == rg.end - rg.start, "item_type_items({}) yields {} items for range {:?}", t, cnt, rg);
        // find_item returns the first item of that type with that id, in whatever order the ids are stored
        let scan = rd.item_type_items(t).find(|it| it.id == id).map(|it| (it.id, it.data.as_ptr() as usize, it.data.len()));
        let got = f.as_ref().map(|it| (it.id, it.data.as_ptr() as usize, it.data.len()));
        assert!(scan == got, "find_item({}, {}) = {:?} but scanning the items of that type finds {:?}", t, id, got.map(|x| (x.0, x.2)), scan.map(|x| (x.0, x.2)));
        let ft = match f {
            None => "none".to_string(),
            Some(it) => {
                let off = (it.data.as_ptr() as isize - base.unwrap() as isize) / 4;
                format!("{}/{}@{}+{}", it.type_id, it.id, off, it.data.len())
            }
        };
        qt.push(format!("{}/{}:{}-{}:{}", t, id, rg.start, rg.end, ft));
    }
    out.push_str(&format!(" q=[{}]", qt.join(",")));
    Ok(Dump { version, types, items, datas, text: out })
}

/// the same sweep through the public file-based reader; returns a comparable text
fn sweep_file(path: &PathBuf, queries: &[(u16, u16)]) -> String {
    let mut rd = match df::Reader::open(path) {
        Ok(r) => r,
        Err(e) => return file_err(&e),
    };
    let mut out = String::new();
    out.push_str(match rd.version() {
        raw::Version::V3 => "ok v=3",
        raw::Version::V4Crude => "ok v=4c",
        raw::Version::V4 => "ok v=4",
    });
    let mut tt = vec![];
    for i in 0..rd.num_item_types() {
        let t = rd.item_type(i);
        let rg = rd.item_type_indices(t);
        tt.push(format!("{}:{}-{}", t, rg.start, rg.end));
    }
    out.push_str(&format!(" types=[{}]", tt.join(",")));
    let mut its = vec![];
    let mut base: Option<*const i32> = None;
    for i in 0..rd.num_items() {
        let it = rd.item(i);
        let p = it.data.as_ptr();
        if base.is_none() {
            base = Some(p.wrapping_sub(2));
        }
        let off = (p as isize - base.unwrap() as isize) / 4;
        its.push(view_txt(&View { type_id: it.type_id, id: it.id, off, len: it.data.len(), data: it.data.to_vec() }));
    }
    out.push_str(&format!(" items=[{}]", its.join(";")));
    let dt: Vec<String> = rd.data_iter().map(|d| match d {
        Ok(b) => format!("ok:{}", hex(&b)),
        Err(e) => format!("err:{}", file_err(&e)),
    }).collect();
    out.push_str(&format!(" data=[{}]", dt.join(",")));
    let mut qt = vec![];
    for &(t, id) in queries {
        let rg = rd.item_type_indices(t);
        let ft = match rd.find_item(t, id) {
            None => "none".to_string(),
            Some(it) => {
                let off = (it.data.as_ptr() as isize - base.unwrap() as isize) / 4;
                format!("{}/{}@{}+{}", it.type_id, it.id, off, it.data.len())
            }
        };
        qt.push(format!("{}/{}:{}-{}:{}", t, id, rg.start, rg.end, ft));
    }
    out.push_str(&format!(" q=[{}]", qt.join(",")));
    out
}

/// known-finding class of a panic message: none are open for C16 (both defects were fixed)
fn classify(_panic_msg: &str) -> &'static str {
    "-"
}

/// A persistent watchdog thread (spawning one thread per case costs ~2 ms in this sandbox):
/// jobs run under catch_unwind on the worker; if one does not answer in time the worker is
/// abandoned and a fresh one is started. Same contract as tw2verif::guard_timeout.
type Job<R> = Box<dyn FnOnce() -> R + Send>;
struct Worker<R: Send + 'static> {
    tx: std::sync::mpsc::Sender<Job<R>>,
    rx: std::sync::mpsc::Receiver<Result<R, String>>,
}

impl<R: Send + 'static> Worker<R> {
    fn new() -> Worker<R> {
        let (tx, jrx) = std::sync::mpsc::channel::<Job<R>>();
        let (rtx, rx) = std::sync::mpsc::channel();
        std::thread::Builder::new().stack_size(64 << 20).spawn(move || {
            for job in jrx {
                if rtx.send(guard(job)).is_err() {
                    break;
                }
            }
        }).unwrap();
        Worker { tx, rx }
    }
    fn run(&mut self, ms: u64, job: Job<R>) -> Result<Option<R>, String> {
        self.tx.send(job).unwrap();
        match self.rx.recv_timeout(std::time::Duration::from_millis(ms)) {
            Ok(Ok(v)) => Ok(Some(v)),
            Ok(Err(p)) => Err(p),
            Err(_) => {
                *self = Worker::new();
                Ok(None)
            }
        }
    }
}

type CaseOut = (Result<(Result<Dump, String>, ZTable), String>, Option<Result<String, String>>, Option<Result<Result<String, String>, String>>);

struct Ctx {
    worker: Worker<CaseOut>,
    o: Out,
    tmp: PathBuf,
    with_file: bool,
    opened: u64,
    rejected: u64,
}

/// one datafile case: raw reader (compared with the model), file reader (must agree with the
/// raw reader), the oracles of the property. `truth` = what an unmodified writer file contains.
fn do_open(c: &mut Ctx, bytes: &[u8], truth: Option<&Spec>, r: &mut Rng, kind: &str) {
    let queries = queries_for(bytes, r);
    let mut z = ZTable::new();
    let b2 = bytes.to_vec();
    let q2 = queries.clone();
    let path = c.tmp.join("case.bin");
    let with_file = c.with_file;
    if with_file {
        std::fs::write(&path, bytes).unwrap();
    }
    let p2 = path.clone();
    // one watchdog thread per case; inside it each sweep has its own panic guard
    let all = c.worker.run(30_000, Box::new(move || {
        let raw = guard(|| {
            let mut z = ZTable::new();
            let r = sweep_raw(&b2, &q2, &mut z);
            (r, z)
        });
        let file = if with_file { Some(guard(|| sweep_file(&p2, &q2))) } else { None };
        let map = match &file {
            Some(Ok(t)) if t.starts_with("ok ") => Some(guard(|| sweep_map(&p2))),
            _ => None,
        };
        (raw, file, map)
    }));
    let (res, file_res, map_res) = match all {
        Ok(Some((raw, file, map))) => (raw.map(Some), file, map),
        Ok(None) => (Ok(None), None, None),
        Err(p) => (Err(p), None, None),
    };
    let mut panicked: Option<String> = None;
    let mut hung = false;
    let returned = matches!(res, Ok(Some(_)));
    let (text, sig, dump) = match res {
        Ok(Some((Ok(d), zz))) => {
            z = zz;
            (d.text.clone(), format!("{} ok {:?} t{} i{} d{}", kind, d.version, d.types.len().min(3), d.items.len().min(3), d.datas.len().min(3)), Some(d))
        }
        Ok(Some((Err(e), _))) => {
            let cls = e.split('(').next().unwrap_or("").to_string();
            (format!("err {}", e), format!("{} err {}", kind, cls), None)
        }
        Ok(None) => { hung = true; ("hang".to_string(), format!("{} hang", kind), None) }
        Err(p) => { let sg = format!("{} panic {}", kind, &p[..p.len().min(40)]); panicked = Some(p); (format!("panic"), sg, None) }
    };
    let qtxt = queries.iter().map(|(t, i)| format!("{}/{}", t, i)).collect::<Vec<_>>().join(",");
    let id = c.o.case(&format!("open\t{}\t{}\t{}", hex(bytes), ztable_txt(&z), qtxt), &text, &sig);
    if let Some(p) = &panicked {
        c.o.check(false, classify(p), &id, || format!("{}: raw::Reader::new / accessor sweep panicked: {} -- file {}", kind, p, hex(bytes)));
    }
    if hung {
        c.o.check(false, "-", &id, || format!("{}: reader did not return within 20 s -- file {}", kind, hex(bytes)));
    }
    if dump.is_some() { c.opened += 1 } else { c.rejected += 1 }
    // ---- oracles on an accepted file
    if let Some(d) = &dump {
        let size_items = le32(bytes, 28) as isize;
        let size_data = le32(bytes, 32) as usize;
        // every item view lies inside the item area and the items tile it
        let mut expect = 2isize;
        let mut ok = true;
        for v in &d.items {
            if v.off != expect || v.off < 0 || (v.off + v.len as isize) * 4 > size_items {
                ok = false;
            }
            expect = v.off + v.len as isize + 2;
        }
        if !d.items.is_empty() && (expect - 2) * 4 != size_items {
            ok = false;
        }
        c.o.check(ok, "-", &id, || format!("{}: item views do not tile the item area of {} bytes: {}", kind, size_items, d.text));
        // type ranges partition 0..num_items, and each item has its range's type
        let mut pos = 0usize;
        let mut okt = true;
        for &(t, s, e) in &d.types {
            if s != pos || e < s || e > d.items.len() {
                okt = false;
                break;
            }
            for k in s..e {
                if d.items[k].type_id != t {
                    okt = false;
                }
            }
            pos = e;
        }
        c.o.check(okt && pos == d.items.len(), "-", &id, || format!("{}: item type ranges are not a partition by type: {}", kind, d.text));
        // v3 data blocks are exactly the sub-slices of the data section the offset table names
        // (the table is re-read here, independently of the reader)
        if d.version == raw::Version::V3 {
            let nt = le32(bytes, 16) as usize;
            let ni = le32(bytes, 20) as usize;
            let nd = le32(bytes, 24) as usize;
            let tab = 36 + 12 * nt + 4 * ni;
            let dstart = tab + 4 * nd + size_items as usize;
            let mut okd = d.datas.len() == nd;
            for (i, got) in d.datas.iter().enumerate() {
                let s0 = le32(bytes, tab + 4 * i) as usize;
                let e0 = if i + 1 < nd { le32(bytes, tab + 4 * (i + 1)) as usize } else { size_data };
                okd = okd && s0 <= e0 && e0 <= size_data && dstart + e0 <= bytes.len()
                    && got.as_ref().ok().map(|g| &g[..]) == Some(&bytes[dstart + s0..dstart + e0]);
            }
            c.o.check(okd, "-", &id, || format!("{}: v3 data blocks are not the slices of the {}-byte data section named by the offset table: {}", kind, size_data, d.text));
        }
        if let Some(s) = truth {
            let want: Vec<(u16, u16, Vec<u8>)> = s.items.iter().map(|i| (i.type_id, i.id, i.payload.clone())).collect();
            let got: Vec<(u16, u16, Vec<u8>)> = d.items.iter().map(|v| (v.type_id, v.id, item_words(&v.data))).collect();
            c.o.check(want == got, "-", &id, || format!("{}: well-formed file: items read back differ: {}", kind, d.text));
            let gd: Vec<Option<Vec<u8>>> = d.datas.iter().map(|x| x.clone().ok()).collect();
            let wd: Vec<Option<Vec<u8>>> = s.datas.iter().map(|x| Some(x.clone())).collect();
            c.o.check(gd == wd, "-", &id, || format!("{}: well-formed file: data read back differs: {}", kind, d.text));
            let wv = if s.version == 3 { raw::Version::V3 } else if s.crude && !s.datas.is_empty() { raw::Version::V4Crude } else { raw::Version::V4 };
            c.o.check(d.version == wv, "-", &id, || format!("{}: well-formed file: version {:?}, wanted {:?}", kind, d.version, wv));
        }
    } else if truth.is_some() && returned {
        c.o.check(false, "-", &id, || format!("{}: well-formed file rejected: {} -- file {}", kind, text, hex(bytes)));
    }
    // ---- the public file-based reader must behave like the raw reader
    if let Some(fr) = file_res {
        let ftext = match fr {
            Ok(t) => if t.starts_with("ok ") { t } else { format!("err {}", t) },
            Err(p) => format!("panic {}", p),
        };
        let same = ftext == text || (ftext.starts_with("panic") && text == "panic");
        c.o.check(same, "-", &id, || format!("{}: datafile::Reader::open differs from raw::Reader::new: file-based {} / in-memory {}", kind, &ftext[..ftext.len().min(200)], &text[..text.len().min(200)]));
    }
    if let Some(mres) = map_res {
        report_map(c, bytes, mres, &z, kind, true);
    }
}

// ------------------------------------------------------------------ map layer

fn name_txt(n: &[u8; 12]) -> String {
    hex(&n[..])
}

fn opt_txt(o: Option<usize>) -> String {
    match o {
        Some(v) => v.to_string(),
        None => "n".into(),
    }
}

fn map_err(e: &mf::Error) -> String {
    format!("{:?}", e).replace(' ', "")
}

fn mr_err(e: &mr::Error) -> String {
    match e {
        mr::Error::Map(e) => map_err(e),
        mr::Error::Df(e) => format!("Df({})", file_err(e)),
    }
}

fn tilemap_txt(t: &mr::LayerTilemap) -> String {
    use mr::LayerTilemapType::*;
    let ty = match t.type_ {
        Normal(n) => format!(
            "Normal({}.{}.{}.{},{},{},{})",
            n.color.red, n.color.green, n.color.blue, n.color.alpha,
            match n.color_env_and_offset { Some((e, o)) => format!("{}+{}", e, o), None => "n".into() },
            opt_txt(n.image), n.data),
        Game(d) => format!("Game({})", d),
        RaceTeleport(d, z) => format!("Tele({},{})", d, z),
        RaceSpeedup(d, z) => format!("Speedup({},{})", d, z),
        DdraceFront(d, z) => format!("Front({},{})", d, z),
        DdraceSwitch(d, z) => format!("Switch({},{})", d, z),
        DdraceTune(d, z) => format!("Tune({},{})", d, z),
    };
    format!("Tilemap({}x{},{},{})", t.width, t.height, ty, name_txt(&t.name))
}

fn layer_txt(l: &mr::Layer) -> String {
    let t = match &l.t {
        mr::LayerType::Quads(q) => format!("Quads({},{},{},{})", q.num_quads, q.data, opt_txt(q.image), name_txt(&q.name)),
        mr::LayerType::Tilemap(t) => tilemap_txt(t),
        mr::LayerType::DdraceSounds(s) => format!("Sounds({},{},{},{},{})", s.num_sources, s.data, opt_txt(s.sound), s.legacy as u8, name_txt(&s.name)),
    };
    format!("{}{}", if l.detail { "D" } else { "" }, t)
}

fn group_txt(g: &mr::Group) -> String {
    format!("G({},{},{},{},{}-{},{},{})", g.offset_x, g.offset_y, g.parallax_x, g.parallax_y, g.layer_indices.start, g.layer_indices.end,
            match g.clipping { Some(c) => format!("{}.{}.{}.{}", c.x, c.y, c.width, c.height), None => "n".into() }, name_txt(&g.name))
}

/// every accessor of libtw2-map's Reader on the file at `path`; text compared with the model
fn sweep_map(path: &PathBuf) -> Result<String, String> {
    let mut m = match mr::Reader::open(path) {
        Ok(m) => m,
        Err(e) => return Err(mr_err(&e)),
    };
    let mut out = String::new();
    out.push_str(&format!("version={}", match m.version() { Ok(v) => v.to_string(), Err(e) => map_err(&e) }));
    out.push_str(&format!(" check={}", match m.check_version() { Ok(()) => "ok".to_string(), Err(e) => map_err(&e) }));
    out.push_str(&format!(" info={}", match m.info() {
        Ok(i) => format!("({},{},{},{},{})", opt_txt(i.author), opt_txt(i.version), opt_txt(i.credits), opt_txt(i.license), opt_txt(i.settings)),
        Err(e) => map_err(&e),
    }));
    // groups and the layers they name
    let gi = m.group_indices();
    let mut gs = vec![];
    let mut tile_jobs: Vec<(mr::LayerTilemap, Vec<usize>)> = vec![];
    for i in gi.clone() {
        match m.group(i) {
            Ok(g) => {
                let mut ls = vec![];
                for k in g.layer_indices.clone() {
                    match m.layer(k) {
                        Ok(l) => {
                            if let mr::LayerType::Tilemap(t) = &l.t {
                                use mr::LayerTilemapType::*;
                                let ds = match t.type_ {
                                    Normal(n) => vec![n.data],
                                    Game(d) => vec![d],
                                    RaceTeleport(a, b) | RaceSpeedup(a, b) | DdraceFront(a, b) | DdraceSwitch(a, b) | DdraceTune(a, b) => vec![a, b],
                                };
                                tile_jobs.push((*t, ds));
                            }
                            ls.push(format!("{}:{}", k, layer_txt(&l)));
                        }
                        Err(e) => ls.push(format!("{}:{}", k, map_err(&e))),
                    }
                }
                gs.push(format!("{}:{}[{}]", i, group_txt(&g), ls.join(";")));
            }
            Err(e) => gs.push(format!("{}:{}", i, map_err(&e))),
        }
    }
    out.push_str(&format!(" groups={}-{}[{}]", gi.start, gi.end, gs.join("|")));
    // images
    let ii = m.reader.item_type_indices(mf::MAP_ITEMTYPE_IMAGE);
    let mut is = vec![];
    for i in ii.clone() {
        is.push(match m.image(i) {
            Ok(im) => format!("{}:I({}x{},{},{})", i, im.width, im.height, im.name, opt_txt(im.data)),
            Err(e) => format!("{}:{}", i, map_err(&e)),
        });
    }
    out.push_str(&format!(" images={}-{}[{}]", ii.start, ii.end, is.join("|")));
    out.push_str(&format!(" game={}", match m.game_layers() {
        Ok(g) => {
            // the tile indices handed out must be usable
            let mut t = vec![];
            let w = g.width; let h = g.height;
            let _ = (g.game(), g.teleport(), g.speedup(), g.front(), g.switch(), g.tune());
            t.push(format!("{}x{}", w, h));
            t.push(format!("{},{},{},{},{},{}", g.game_raw, opt_txt(g.teleport_raw), opt_txt(g.speedup_raw), opt_txt(g.front_raw), opt_txt(g.switch_raw), opt_txt(g.tune_raw)));
            t.push(group_txt(&g.group));
            t.join(",")
        }
        Err(e) => map_err(&e),
    }));
    // every data block through every typed accessor
    let nd = m.reader.num_data();
    let mut ds = vec![];
    for i in 0..nd {
        let mut parts = vec![];
        parts.push(match m.string(i) { Ok(s) => format!("s:{}", hex(&s)), Err(e) => format!("s!{}", mr_err(&e)) });
        parts.push(match m.image_name(i) { Ok(s) => format!("n:{}", hex(&s)), Err(e) => format!("n!{}", mr_err(&e)) });
        parts.push(match m.settings(i) {
            Ok(s) => {
                let v: Vec<String> = s.iter().map(|x| hex(x)).collect();
                format!("c:{}", v.join("."))
            }
            Err(e) => format!("c!{}", mr_err(&e)),
        });
        parts.push(match m.layer_tiles_raw(i) { Ok(t) => format!("t:{}", t.len()), Err(e) => format!("t!{}", mr_err(&e)) });
        parts.push(match m.tele_layer_tiles_raw(i) { Ok(t) => format!("e:{}", t.len()), Err(e) => format!("e!{}", mr_err(&e)) });
        parts.push(match m.speedup_layer_tiles_raw(i) { Ok(t) => format!("p:{}", t.len()), Err(e) => format!("p!{}", mr_err(&e)) });
        parts.push(match m.switch_layer_tiles_raw(i) { Ok(t) => format!("w:{}", t.len()), Err(e) => format!("w!{}", mr_err(&e)) });
        parts.push(match m.tune_layer_tiles_raw(i) { Ok(t) => format!("u:{}", t.len()), Err(e) => format!("u!{}", mr_err(&e)) });
        parts.push(match m.image_data(i) { Ok(t) => format!("i:{}", t.len()), Err(e) => format!("i!{}", mr_err(&e)) });
        ds.push(parts.join(" "));
    }
    out.push_str(&format!(" data=[{}]", ds.join("|")));
    // shaped tile arrays of every tilemap layer that decoded
    let mut ts = vec![];
    for (t, dsx) in &tile_jobs {
        for &d in dsx {
            let a = match m.layer_tiles(t.tiles(d)) { Ok(a) => format!("{:?}", a.dim()), Err(e) => mr_err(&e) };
            let b = match m.tele_layer_tiles(t.tiles(d)) { Ok(a) => format!("{:?}", a.dim()), Err(e) => mr_err(&e) };
            let c = match m.speedup_layer_tiles(t.tiles(d)) { Ok(a) => format!("{:?}", a.dim()), Err(e) => mr_err(&e) };
            let e = match m.switch_layer_tiles(t.tiles(d)) { Ok(a) => format!("{:?}", a.dim()), Err(e) => mr_err(&e) };
            let f = match m.tune_layer_tiles(t.tiles(d)) { Ok(a) => format!("{:?}", a.dim()), Err(e) => mr_err(&e) };
            ts.push(format!("{}x{}@{}:{}/{}/{}/{}/{}", t.width, t.height, d, a, b, c, e, f).replace(' ', ""));
        }
    }
    out.push_str(&format!(" tiles=[{}]", ts.join("|")));
    Ok(out)
}

fn report_map(c: &mut Ctx, bytes: &[u8], res: Result<Result<String, String>, String>, z: &ZTable, kind: &str, as_case: bool) {
    let text = match &res {
        Ok(Ok(t)) => t.clone(),
        Ok(Err(e)) => format!("err {}", e),
        Err(_) => "panic".into(),
    };
    let id = if as_case {
        let mut sig = format!("map {}", text.split(' ').map(|s| s.chars().filter(|c| c.is_alphabetic()).take(14).collect::<String>()).collect::<Vec<_>>().join(" "));
        sig.truncate(120);
        c.o.case(&format!("map\t{}\t{}", hex(bytes), ztable_txt(z)), &text, &sig)
    } else {
        c.o.tick("mapsweep", "");
        format!("m{}", c.o.n)
    };
    if let Err(p) = res {
        c.o.check(false, "-", &id, || format!("{}: map accessor sweep panicked: {} -- file {}", kind, p, hex(bytes)));
    }
}

// ------------------------------------------------------------------ generators

fn gen_items(r: &mut Rng, max_types: u64, max_per: u64, max_words: u64) -> Vec<Item> {
    let nt = r.below(max_types + 1);
    let mut tids: Vec<u16> = (0..nt).map(|_| match r.below(4) { 0 => r.below(8) as u16, 1 => 0xffff - r.below(3) as u16, _ => r.next() as u16 }).collect();
    tids.sort();
    tids.dedup();
    let mut items = vec![];
    for t in tids {
        let n = 1 + r.below(max_per);
        let fixed = r.below(max_words + 1);
        for k in 0..n {
            let w = if r.chance(3, 4) { fixed } else { r.below(max_words + 1) };
            let ws: Vec<i32> = (0..w).map(|_| r.i32_edgy()).collect();
            let id = if r.chance(3, 4) { k as u16 } else { r.next() as u16 };
            items.push(Item { type_id: t, id, payload: item_words(&ws) });
        }
    }
    items
}

fn gen_datas(r: &mut Rng, max_n: u64, max_len: u64) -> Vec<Vec<u8>> {
    let n = r.below(max_n + 1);
    (0..n).map(|_| {
        let l = match r.below(4) { 0 => 0, 1 => r.below(5), _ => r.below(max_len + 1) } as usize;
        if r.chance(1, 3) { vec![r.byte(); l] } else { r.bytes(l) }
    }).collect()
}


// ------------------------------------------------------------------ map-shaped files

fn nul_str(r: &mut Rng, max: u64) -> Vec<u8> {
    let n = r.below(max + 1) as usize;
    let mut v: Vec<u8> = (0..n).map(|_| b'a' + r.below(26) as u8).collect();
    if r.chance(1, 12) && !v.is_empty() { let k = r.below(v.len() as u64) as usize; v[k] = *r.pick(&[0u8, b'/', b'\\']); }
    if !r.chance(1, 12) { v.push(0); }
    v
}

fn name_words(r: &mut Rng) -> [i32; 3] {
    if r.chance(1, 3) { [r.next() as i32, r.next() as i32, r.next() as i32] }
    else { [0x80808080u32 as i32 + (r.below(26) as i32) * 0x01000000, 0x80808080u32 as i32, 0x80808080u32 as i32] }
}

/// an index field: valid for `count` (or -1 if optional); when `hostile`, sometimes
/// -1 / count / count+1 / MIN / MAX / -2
fn idx(r: &mut Rng, count: usize, optional: bool, hostile: bool) -> i32 {
    if hostile {
        match r.below(12) {
            0 => return -1,
            1 => return count as i32,
            2 => return count as i32 + 1,
            3 => return *r.pick(&[i32::MIN, i32::MAX, -2, 0x10000]),
            _ => {}
        }
    }
    if count == 0 || (optional && r.chance(1, 4)) { if optional { -1 } else { 0 } } else { r.below(count as u64) as i32 }
}

/// A datafile that looks like a Teeworlds / DDNet map (doc/map.md). `hostile` = 0: valid;
/// 1: valid with one word of one item replaced by a boundary value (or one item truncated);
/// 2: the boundary values of every index / count / version / flag field mixed in everywhere.
fn gen_map(r: &mut Rng, hostile: u32) -> (Vec<Item>, Vec<Vec<u8>>) {
    let hz = hostile >= 2;
    let bad = |r: &mut Rng, den: u64| hz && r.chance(1, den);
    let mut datas: Vec<Vec<u8>> = vec![];
    let dims: Vec<(i32, i32)> = (0..3).map(|_| (1 + r.below(4) as i32, 1 + r.below(4) as i32)).collect();
    // data 0..2: tile arrays for the three sizes, then strings and blobs
    for k in 0..3 {
        let (w, h) = dims[k];
        let sz = if hz { *r.pick(&[4usize, 4, 2, 6]) } else { 4 };
        datas.push(r.bytes((w * h) as usize * sz));
    }
    for _ in 0..r.below(5) {
        datas.push(match r.below(4) {
            0 | 1 => if hz { nul_str(r, 12) } else { let mut v: Vec<u8> = (0..r.below(9)).map(|_| b'a' + r.below(26) as u8).collect(); v.push(0); v },
            2 => { let mut v = vec![]; for _ in 0..r.below(4) { let mut x: Vec<u8> = (0..r.below(6)).map(|_| b'a' + r.below(26) as u8).collect(); x.push(0); v.extend(x); } if v.is_empty() { v.push(0); } v }
            _ => { let n = r.below(30) as usize; r.bytes(n) }
        });
    }
    if hz && r.chance(1, 3) { let k = r.below(datas.len() as u64) as usize; datas[k] = vec![]; }
    let nd = datas.len();
    let n_images = r.below(3) as usize;
    let n_envs = r.below(3) as usize;
    let n_groups = 1 + r.below(3) as usize;
    let n_sounds = r.below(3) as usize;
    let game_group = r.below(n_groups as u64) as usize;
    let mut layers: Vec<Vec<i32>> = vec![];
    let mut groups: Vec<Vec<i32>> = vec![];
    for gi in 0..n_groups {
        let nl = r.below(4) as usize + if gi == game_group { 1 } else { 0 };
        let start = layers.len();
        let mut specials: Vec<i32> = if gi == game_group { let mut v = vec![1]; for f in [2, 4, 8, 16, 32] { if r.chance(1, 3) { v.push(f); } } v } else { vec![] };
        for li in 0..nl {
            let lflags = if bad(r, 10) { *r.pick(&[2, 3, -1]) } else { r.below(2) as i32 };
            let mut l = vec![r.below(3) as i32, 0, lflags];
            let kind = if li < specials.len() || specials.len() > nl { 0 } else { r.below(8) };
            match kind {
                0 | 1 | 2 | 3 | 4 => {
                    l[1] = 2;
                    let ver = if bad(r, 8) { *r.pick(&[1, 4, 0]) } else { *r.pick(&[2, 3, 3]) };
                    let special = if gi == game_group && !specials.is_empty() { Some(specials.remove(0)) } else { None };
                    let (w, h) = if special.is_some() && !bad(r, 10) { dims[0] } else { dims[r.below(3) as usize] };
                    let tflags = match special { Some(f) => f, None => if bad(r, 6) { *r.pick(&[1, 2, 4, 8, 16, 32, 3, 64, -1]) } else { 0 } };
                    let col = |r: &mut Rng| if hz && r.chance(1, 15) { *r.pick(&[-1, 256, 1000, i32::MIN]) } else { r.below(256) as i32 };
                    let di = if w == dims[0].0 && h == dims[0].1 { 0 } else if w == dims[1].0 && h == dims[1].1 { 1 } else { 2 };
                    l.extend([ver, if bad(r, 15) { *r.pick(&[0, -1, i32::MAX]) } else { w }, if bad(r, 15) { *r.pick(&[0, -1, i32::MAX]) } else { h }, tflags,
                              col(r), col(r), col(r), col(r), idx(r, n_envs, true, hz), r.below(100) as i32, idx(r, n_images, true, hz),
                              if hz { idx(r, nd, false, true) } else { di }]);
                    if ver >= 3 || bad(r, 4) { l.extend(name_words(r)); }
                    let extra = if special.map(|f| f > 1).unwrap_or(false) && !bad(r, 6) { 5 } else if hz { r.below(7) as usize } else { 0 };
                    for _ in 0..extra { l.push(if hz { idx(r, nd, false, true) } else { di }); }
                }
                5 => {
                    l[1] = 3;
                    let ver = if bad(r, 8) { *r.pick(&[0, 3]) } else { *r.pick(&[1, 2, 2]) };
                    l.extend([ver, if bad(r, 10) { -1 } else { r.below(9) as i32 }, idx(r, nd, false, hz), idx(r, n_images, true, hz)]);
                    if ver >= 2 || bad(r, 4) { l.extend(name_words(r)); }
                }
                6 => {
                    l[1] = *r.pick(&[10, 9]);
                    let ver = if bad(r, 8) { *r.pick(&[0, 3]) } else { *r.pick(&[1, 2, 2]) };
                    l.extend([ver, if bad(r, 10) { -5 } else { r.below(9) as i32 }, idx(r, nd, false, hz), idx(r, n_sounds, true, hz)]);
                    l.extend(name_words(r));
                }
                _ => {
                    if hz { l[1] = *r.pick(&[0, 1, 4, 11, -1, i32::MAX]); l.extend([1, 2, 3]); }
                    else { l[1] = 3; l.extend([2, 0, idx(r, nd, false, false), -1]); l.extend(name_words(r)); }
                }
            }
            if bad(r, 12) { let k = r.below(l.len() as u64 + 1) as usize; l.truncate(k); }
            layers.push(l);
        }
        let ver = if bad(r, 8) { *r.pick(&[0, 4]) } else { *r.pick(&[1, 2, 3, 3, 3]) };
        let mut g = vec![ver, r.range(-50, 50) as i32, r.range(-50, 50) as i32, 100, 100,
                         if bad(r, 8) { idx(r, layers.len(), false, true) } else { start as i32 },
                         if bad(r, 8) { idx(r, nl + 1, false, true) } else { nl as i32 }];
        if ver >= 2 || bad(r, 4) { g.extend([r.below(2) as i32, 1, 2, 30, 40]); }
        if ver >= 3 || bad(r, 4) { g.extend(name_words(r)); }
        if bad(r, 12) { let k = r.below(g.len() as u64 + 1) as usize; g.truncate(k); }
        groups.push(g);
    }
    let mut its: Vec<(u16, u16, Vec<i32>)> = vec![];
    if hz { match r.below(10) { 0 => {} 1 => its.push((0, 0, vec![])), 2 => its.push((0, 0, vec![*r.pick(&[0, 2, -1, i32::MAX])])), 3 => its.push((0, 1, vec![1])), _ => its.push((0, 0, vec![1])) } }
    else { its.push((0, 0, vec![1])); }
    let info_kind = if hz { r.below(8) } else { 4 + r.below(2) };
    match info_kind {
        0 => {}
        1 => its.push((1, 0, vec![1, idx(r, nd, true, hz)])),
        2 => its.push((1, 0, vec![*r.pick(&[0, 2, -3]), -1, -1, -1, -1])),
        4 => its.push((1, 0, vec![1, idx(r, nd, true, hz), idx(r, nd, true, hz), idx(r, nd, true, hz), idx(r, nd, true, hz)])),
        _ => its.push((1, 0, vec![1, idx(r, nd, true, hz), idx(r, nd, true, hz), idx(r, nd, true, hz), idx(r, nd, true, hz), idx(r, nd, true, hz)])),
    }
    for k in 0..n_images {
        let ver = if bad(r, 6) { *r.pick(&[0, 3]) } else { *r.pick(&[1, 1, 2]) };
        let ext = if bad(r, 6) { *r.pick(&[2, -1]) } else { r.below(2) as i32 };
        let mut im = vec![ver, if bad(r, 10) { -1 } else { r.below(64) as i32 }, if bad(r, 10) { i32::MIN } else { r.below(64) as i32 },
                          ext, idx(r, nd, false, hz), if ext != 0 && !hz { -1 } else { idx(r, nd, false, hz) }];
        if ver >= 2 { im.push(r.below(2) as i32); }
        if bad(r, 12) { let n = r.below(im.len() as u64 + 1) as usize; im.truncate(n); }
        its.push((2, k as u16, im));
    }
    for k in 0..n_envs { let mut e = vec![*r.pick(&[1, 2, 3]), 4, 0, 0]; e.extend([0i32; 8]); e.push(1); its.push((3, k as u16, e)); }
    for (k, g) in groups.iter().enumerate() { its.push((4, k as u16, g.clone())); }
    for (k, l) in layers.iter().enumerate() { its.push((5, k as u16, l.clone())); }
    if n_envs > 0 { its.push((6, 0, vec![0; 6])); }
    for k in 0..n_sounds { its.push((7, k as u16, vec![1, 0, idx(r, nd, false, hz), idx(r, nd, false, hz), 10])); }
    if r.chance(1, 6) { its.push((0xffff, 7, vec![1, 2, 3])); }
    if hostile == 1 {
        // one field of one item at a boundary, or one item cut short
        let k = r.below(its.len() as u64) as usize;
        let n = its[k].2.len();
        if n > 0 {
            if r.chance(1, 5) { let m = r.below(n as u64) as usize; its[k].2.truncate(m); }
            else {
                let p = r.below(n as u64) as usize;
                let o = its[k].2[p];
                its[k].2[p] = *r.pick(&[0, 1, -1, 2, 3, 4, o + 1, o - 1, nd as i32, nd as i32 + 1, layers.len() as i32, layers.len() as i32 + 1, 255, 256, i32::MIN, i32::MAX, 9, 10, 16, 32, 64]);
            }
        }
    }
    let items = its.into_iter().map(|(t, id, ws)| Item { type_id: t, id, payload: item_words(&ws) }).collect();
    (items, datas)
}

fn spec_items_txt(s: &Spec) -> String {
    if s.items.is_empty() { return "-".into(); }
    s.items.iter().map(|i| format!("{}/{}:{}", i.type_id, i.id, hex(&i.payload))).collect::<Vec<_>>().join(";")
}

fn spec_datas_txt(s: &Spec) -> String {
    if s.datas.is_empty() { return "-".into(); }
    s.datas.iter().zip(&s.stored).map(|(d, st)| format!("{}>{}", hex(d), hex(st))).collect::<Vec<_>>().join(",")
}

fn do_ser(c: &mut Ctx, s: &Spec) -> (Vec<u8>, Layout) {
    let (bytes, lay) = write_file(s);
    c.o.case(&format!("ser\t{}\t{}\t{}\t{}", s.version, s.crude as u8, spec_items_txt(s), spec_datas_txt(s)), &hex(&bytes),
             &format!("ser v{} c{} i{} d{}", s.version, s.crude as u8, s.items.len().min(3), s.datas.len().min(3)));
    (bytes, lay)
}

fn boundary_values(orig: i32, lay: &Layout, total: usize) -> Vec<i32> {
    let mut v: Vec<i64> = vec![0, 1, -1, 2, 3, 4, 5, 7, 8, i32::MIN as i64, i32::MIN as i64 + 1, i32::MAX as i64, i32::MAX as i64 - 1,
                               0xffff, 0x10000, 0x10001, -0x10000, 0x7fff_fffc, 0x4000_0000, 0x2000_0000, 0x1fff_ffff, 0x1555_5556];
    let o = orig as i64;
    for d in [-8i64, -5, -4, -3, -2, -1, 1, 2, 3, 4, 5, 8, 12] {
        v.push(o + d);
    }
    for e in [total as i64, lay.size_items as i64, lay.size_data as i64, (lay.size_items / 4) as i64] {
        for d in [-4i64, -1, 0, 1, 4] {
            v.push(e + d);
        }
    }
    v.push(-o);
    let mut out: Vec<i32> = v.into_iter().filter(|x| *x >= i32::MIN as i64 && *x <= i32::MAX as i64 && *x != o).map(|x| x as i32).collect();
    out.sort();
    out.dedup();
    out
}

fn set32(b: &mut [u8], p: usize, v: i32) {
    b[p..p + 4].copy_from_slice(&v.to_le_bytes());
}

fn main() {
    let a = Args::parse();
    let th = a.thorough();
    let o = Out::new(&a, "ser: independent writer (Rust, from doc/datafile.md) vs Model.Datafile.serialize_stored on random item/data sets, v3/v4/crude, zlib-compressed or stored blocks; \
open: writer files (accepted, read back exactly), every 32-bit field of header / type table / offset tables / size table / item headers set to each boundary value \
(0, +-1, +-small, unaligned, MIN, MAX, 0xffff/0x10000, just past each section end), magic variants, consistent-but-unaligned item sizes, type-table rewrites, truncation at every position, \
appended bytes, corrupted / truncated / oversized / undersized compressed blocks and decompression bombs, random bytes behind a valid prefix, random tables, random bytes; \
map: map-shaped files (doc/map.md) valid / one field at a boundary / every index, count, version, flag field hostile; each file through raw::Reader::new on memory (compared with the model), \
datafile::Reader::open on a temp file (must equal the in-memory result) and every libtw2-map accessor (compared with the model). \
distinct = (generator, outcome class, version, clipped counts) and (map accessor outcome shape) signatures");
    let tmp = a.out.join("tmp");
    std::fs::create_dir_all(&tmp).unwrap();
    let _ = guard(|| ());
    let mut c = Ctx { worker: Worker::new(), o, tmp, with_file: true, opened: 0, rejected: 0 };
    let mut r = Rng::new(a.seed);

    // ---- the two defects of DESIGN.md section 9 (#15, #16), first
    {
        let s = Spec { version: 4, crude: false,
            items: vec![Item { type_id: 1, id: 0, payload: vec![1, 2, 3, 4, 5] }, Item { type_id: 1, id: 1, payload: vec![1, 2, 3, 4, 5, 6, 7] }],
            datas: vec![], stored: vec![] };
        let (b, _) = write_file(&s);
        do_open(&mut c, &b, None, &mut r, "unaligned-sizes");
        let s = Spec { version: 4, crude: false, items: vec![Item { type_id: 1, id: 0, payload: item_words(&[7]) }], datas: vec![], stored: vec![] };
        let (mut b, lay) = write_file(&s);
        let p = lay.fields.iter().find(|f| f.0 == "type.start").unwrap().1;
        set32(&mut b, p, i32::MIN);
        do_open(&mut c, &b, None, &mut r, "start-min");
    }

    // ---- well-formed files, both versions, crude sizes
    let n_wf = if th { 4000 } else { 500 };
    let mut bases: Vec<(Spec, Vec<u8>, Layout)> = vec![];
    for k in 0..n_wf {
        let version = if k % 2 == 0 { 3 } else { 4 };
        let crude = r.chance(1, 5);
        let items = gen_items(&mut r, 4, 3, 5);
        let datas = gen_datas(&mut r, 4, if k % 50 == 7 { 70_000 } else { 40 });
        let s = mk_spec(version, crude, items, datas, &mut r);
        let (b, lay) = do_ser(&mut c, &s);
        do_open(&mut c, &b, Some(&s), &mut r, "wellformed");
        if bases.len() < (if th { 24 } else { 6 }) && b.len() < 400 && s.items.len() >= 2 && s.datas.len() >= 1 + (k % 2) && !crude {
            bases.push((s, b, lay));
        }
    }
    // large item areas: header + tables + items well beyond 8 KiB (the file-backed reader must cope with reads
    // that are served in pieces), one big item / many small items / both
    for version in [3, 4] {
        for shape in 0..3 {
            let items = match shape {
                0 => gen_items(&mut r, 2, 1, 3500),
                1 => gen_items(&mut r, 6, 400, 2),
                _ => { let mut v = gen_items(&mut r, 3, 300, 3); v.extend(gen_items(&mut r, 1, 1, 4000)); v.sort_by_key(|i| i.type_id); v.dedup_by_key(|i| (i.type_id, i.id)); v }
            };
            let datas = gen_datas(&mut r, 3, 9000);
            let s = mk_spec(version, false, items, datas, &mut r);
            let (b, _) = do_ser(&mut c, &s);
            do_open(&mut c, &b, Some(&s), &mut r, "wellformed-large");
        }
    }
    // the smallest files
    for version in [3, 4] {
        for crude in [false, true] {
            let s = mk_spec(version, crude, vec![], vec![], &mut r);
            let (b, _) = do_ser(&mut c, &s);
            do_open(&mut c, &b, Some(&s), &mut r, "wellformed-empty");
            let s = mk_spec(version, crude, vec![Item { type_id: 0, id: 0, payload: vec![] }], vec![vec![]], &mut r);
            let (b, lay) = do_ser(&mut c, &s);
            do_open(&mut c, &b, Some(&s), &mut r, "wellformed-empty");
            if !crude { bases.push((s, b, lay)); }
        }
    }

    // ---- single-field corruption with every boundary value
    for (_s, b, lay) in bases.iter() {
        for &(class, p) in &lay.fields {
            let orig = le32(b, p);
            let vals = boundary_values(orig, lay, b.len());
            for v in vals {
                let mut m = b.clone();
                set32(&mut m, p, v);
                do_open(&mut c, &m, None, &mut r, &format!("field:{}", class));
            }
        }
        // the magic
        for mg in [&b"ATAD"[..], b"DATB", b"data", b"\0\0\0\0"] {
            let mut m = b.clone();
            m[..4].copy_from_slice(mg);
            do_open(&mut c, &m, None, &mut r, "magic");
        }
        // truncation at every position, and a few appended bytes
        let step = 1;
        let mut k = 0;
        while k < b.len() {
            do_open(&mut c, &b[..k], None, &mut r, "truncate");
            k += step;
        }
        for extra in [1usize, 3, 4, 100] {
            let mut m = b.clone();
            m.extend(r.bytes(extra));
            do_open(&mut c, &m, None, &mut r, "append");
        }
    }

    c.o.exhaustive(&format!("every 32-bit field x every boundary value, and truncation at every position, of {} base files", bases.len()));

    // ---- consistent but odd structures (several fields changed together)
    for _ in 0..(if th { 3000 } else { 400 }) {
        let version = if r.chance(1, 2) { 3 } else { 4 };
        let mut items = gen_items(&mut r, 3, 3, 3);
        let datas = gen_datas(&mut r, 3, 20);
        let kind;
        match r.below(6) {
            0 => {
                // payload lengths that are not multiples of four, offsets consistent
                for it in items.iter_mut() { let l = r.below(13) as usize; it.payload = r.bytes(l); }
                kind = "odd-sizes";
            }
            1 => { items.reverse(); kind = "types-descending"; }
            2 => { let n = items.len(); if n >= 2 { let i = r.below(n as u64) as usize; let j = r.below(n as u64) as usize; items.swap(i, j); } kind = "items-swapped"; }
            3 => { if let Some(f) = items.first().cloned() { items.push(f); } kind = "type-repeated"; }
            4 => { for it in items.iter_mut() { it.type_id = 7; } kind = "one-type"; }
            _ => { kind = "plain"; }
        }
        let s = mk_spec(version, r.chance(1, 6), items, datas, &mut r);
        let (mut b, lay) = write_file(&s);
        // sometimes one more field on top
        if r.chance(1, 3) && !lay.fields.is_empty() {
            let (_, p) = *r.pick(&lay.fields);
            let vals = boundary_values(le32(&b, p), &lay, b.len());
            let v = *r.pick(&vals);
            set32(&mut b, p, v);
        }
        do_open(&mut c, &b, None, &mut r, kind);
    }

    // ---- compressed blocks: corrupt, truncated, oversized and undersized announcements
    for _ in 0..(if th { 3000 } else { 400 }) {
        let items = gen_items(&mut r, 2, 2, 2);
        let mut datas = gen_datas(&mut r, 3, 60);
        if datas.is_empty() { datas.push(r.bytes(9)); }
        let mut s = mk_spec(4, r.chance(1, 6), items, datas, &mut r);
        let k = r.below(s.stored.len() as u64) as usize;
        let kind;
        match r.below(7) {
            0 => { let n = s.stored[k].len(); let p = r.below(n as u64) as usize; s.stored[k][p] ^= 1 << r.below(8); kind = "z-bitflip"; }
            1 => { let n = s.stored[k].len(); s.stored[k].truncate(r.below(n as u64) as usize); kind = "z-truncated"; }
            2 => { let e = 1 + r.below(5) as usize; s.stored[k].extend(r.bytes(e)); kind = "z-trailing"; }
            3 => { let e = r.below(20) as usize; s.stored[k] = r.bytes(e); kind = "z-random"; }
            4 => { s.datas[k].push(0); kind = "z-announced-larger"; }
            5 => { if !s.datas[k].is_empty() { s.datas[k].pop(); } kind = "z-announced-smaller"; }
            _ => { s.stored[k] = zcompress(&vec![0x55u8; 5000 + r.below(70_000) as usize]); kind = "z-bomb"; }
        }
        let (b, _) = write_file(&s);
        do_open(&mut c, &b, None, &mut r, kind);
    }

    // ---- map-shaped files: every index / count / version field of every item kind at its boundaries
    for k in 0..(if th { 20_000 } else { 2500 }) {
        let (items, datas) = gen_map(&mut r, (k % 4).min(2) as u32);
        let version = if k % 3 == 0 { 3 } else { 4 };
        let s = mk_spec(version, false, items, datas, &mut r);
        let (b, _) = write_file(&s);
        do_open(&mut c, &b, Some(&s), &mut r, "map");
    }

    // ---- random bytes behind a plausible prefix, and plain random bytes
    for _ in 0..(if th { 30_000 } else { 3000 }) {
        let n = r.below(120) as usize;
        let mut b = r.bytes(n);
        let kind;
        match r.below(4) {
            0 => { kind = "random"; }
            1 => { if b.len() >= 8 { b[..4].copy_from_slice(b"DATA"); set32(&mut b, 4, if r.chance(1, 2) { 3 } else { 4 }); } kind = "random-magic"; }
            _ => {
                // a header with small counts, random tables
                b = vec![];
                b.extend_from_slice(if r.chance(1, 8) { b"ATAD" } else { b"DATA" });
                let v = if r.chance(1, 2) { 3 } else { 4 };
                let nt = r.below(3) as i32; let ni = r.below(4) as i32; let nd = r.below(3) as i32;
                let si = 4 * r.below(12) as i32; let sd = r.below(12) as i32;
                let total = 36 + 12 * nt + 4 * ni + 4 * nd + if v == 4 { 4 * nd } else { 0 } + si + sd;
                for w in [v, total - 16, total - 16 - sd, nt, ni, nd, si, sd] { b.extend_from_slice(&w.to_le_bytes()); }
                let mut start = 0;
                for t in 0..nt { let num = if t + 1 == nt { ni - start } else { r.below((ni - start + 1) as u64) as i32 };
                    for w in [r.below(6) as i32 + 3 * t, start, num] { b.extend_from_slice(&w.to_le_bytes()); } start += num; }
                while (b.len() as i32) < total { let w = match r.below(3) { 0 => r.below(40) as i32, 1 => 4 * r.below(10) as i32, _ => (r.below(8) as i32) << 16 | r.below(3) as i32 }; b.extend_from_slice(&w.to_le_bytes()); }
                b.truncate(total as usize);
                kind = "random-tables";
            }
        }
        do_open(&mut c, &b, None, &mut r, kind);
    }

    let (op, rej) = (c.opened, c.rejected);
    c.o.sample(format!("{} files accepted, {} rejected", op, rej));
    let _ = std::fs::remove_dir_all(&c.tmp);
    c.o.finish();
}

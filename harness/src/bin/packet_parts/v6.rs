//! 0.6 / DDNet half: net/src/protocol.rs through its public API
use super::common::*;
use libtw2_common::bytes::AsBytesExt;
use libtw2_common::bytes::FromBytesExt;
use libtw2_net::protocol as p6;
use tw2verif::*;

#[derive(Clone, Debug, PartialEq)]
pub enum Ty6 {
    Chunks(bool, u8, Vec<u8>),
    KeepAlive,
    Connect,
    ConnectAccept,
    Accept,
    Close(Vec<u8>),
}

#[derive(Clone, Debug, PartialEq)]
pub enum Pkt6 {
    Connless(Vec<u8>),
    Connected { ack: u16, tok: Option<[u8; 4]>, ty: Ty6 },
}

pub fn txt6(p: &Pkt6) -> String {
    match p {
        Pkt6::Connless(d) => format!("L:{}", hex(d)),
        Pkt6::Connected { ack, tok, ty } => {
            let t = match tok {
                Some(t) => tok_txt(t),
                None => "-".into(),
            };
            let y = match ty {
                Ty6::Chunks(r, n, d) => format!("H:{}:{}:{}", *r as u8, n, hex(d)),
                Ty6::KeepAlive => "K".into(),
                Ty6::Connect => "N".into(),
                Ty6::ConnectAccept => "M".into(),
                Ty6::Accept => "A".into(),
                Ty6::Close(r) => format!("X:{}", hex(r)),
            };
            format!("C:{}:{}:{}", ack, t, y)
        }
    }
}

pub fn api6<'a>(p: &'a Pkt6) -> p6::Packet<'a> {
    match p {
        Pkt6::Connless(d) => p6::Packet::Connless(d),
        Pkt6::Connected { ack, tok, ty } => p6::Packet::Connected(p6::ConnectedPacket {
            ack: *ack,
            token: tok.map(p6::Token),
            type_: match ty {
                Ty6::Chunks(r, n, d) => p6::ConnectedPacketType::Chunks(*r, *n, d),
                Ty6::KeepAlive => p6::ConnectedPacketType::Control(p6::ControlPacket::KeepAlive),
                Ty6::Connect => p6::ConnectedPacketType::Control(p6::ControlPacket::Connect),
                Ty6::ConnectAccept => p6::ConnectedPacketType::Control(p6::ControlPacket::ConnectAccept),
                Ty6::Accept => p6::ConnectedPacketType::Control(p6::ControlPacket::Accept),
                Ty6::Close(r) => p6::ConnectedPacketType::Control(p6::ControlPacket::Close(r)),
            },
        }),
    }
}

/// owned copy of a parsed packet plus the provenance of every slice it borrows
pub fn own6(p: &p6::Packet, input: (usize, usize), scratch: (usize, usize)) -> (Pkt6, Vec<String>) {
    match *p {
        p6::Packet::Connless(d) => (Pkt6::Connless(d.to_vec()), vec![provenance(d, input, scratch)]),
        p6::Packet::Connected(c) => {
            let mut views = vec![];
            let ty = match c.type_ {
                p6::ConnectedPacketType::Chunks(r, n, d) => {
                    views.push(provenance(d, input, scratch));
                    Ty6::Chunks(r, n, d.to_vec())
                }
                p6::ConnectedPacketType::Control(k) => match k {
                    p6::ControlPacket::KeepAlive => Ty6::KeepAlive,
                    p6::ControlPacket::Connect => Ty6::Connect,
                    p6::ControlPacket::ConnectAccept => Ty6::ConnectAccept,
                    p6::ControlPacket::Accept => Ty6::Accept,
                    p6::ControlPacket::Close(r) => {
                        views.push(provenance(r, input, scratch));
                        Ty6::Close(r.to_vec())
                    }
                },
            };
            (Pkt6::Connected { ack: c.ack, tok: c.token.map(|t| t.0), ty }, views)
        }
    }
}

pub fn warns6(ws: &[p6::Warning]) -> String {
    join(&ws.iter().map(|w| format!("{:?}", w)).collect::<Vec<_>>())
}

pub fn true_hint6(p: &Pkt6) -> Option<bool> {
    match p {
        Pkt6::Connless(_) => Some(false),
        Pkt6::Connected { tok, .. } => Some(tok.is_some()),
    }
}

pub fn k05_6(p: &Pkt6) -> bool {
    matches!(p, Pkt6::Connected { ty: Ty6::Chunks(false, 0, _), .. })
}

pub fn k06_6(p: &Pkt6) -> bool {
    matches!(p, Pkt6::Connless(d) if d.len() > p6::MAX_PAYLOAD)
}

fn hint_txt(h: Option<bool>) -> &'static str {
    match h {
        None => "n",
        Some(true) => "t",
        Some(false) => "f",
    }
}

/// the payload ConnectedPacket::write_impl hands to the compressor (token appended, ArrayVec cut)
fn chunks_payload6(p: &Pkt6) -> Option<Vec<u8>> {
    if let Pkt6::Connected { tok, ty: Ty6::Chunks(_, _, d), .. } = p {
        let mut v = d.clone();
        if let Some(t) = tok {
            v.extend_from_slice(t);
            v.truncate(2048);
        }
        Some(v)
    } else {
        None
    }
}

#[derive(Debug)]
pub enum WriteOut {
    Ok(Vec<u8>),
    TooLong,
    Cap,
    Panic(String),
}

/// Packet::write into a fresh buffer of exactly `cap` bytes
pub fn do_write6(o: &mut Out, p: &Pkt6, cap: usize) -> (String, WriteOut) {
    let side = match chunks_payload6(p) {
        Some(v) => hc(&v),
        None => ".".to_string(),
    };
    let mut buf: Vec<u8> = Vec::with_capacity(cap);
    let exact = buf.capacity() == cap;
    let r = guard(|| api6(p).write(&mut buf).map(|s| s.to_vec()));
    let (res, out, sig) = match r {
        Ok(Ok(b)) => {
            let compressed = b.len() >= 3 && b[0] & 0x80 != 0 && b[0] & 0x20 == 0;
            o.count(if compressed { "write6.compressed" } else { "write6.plain" });
            (format!("ok {}", hex(&b)), WriteOut::Ok(b), format!("w6ok{}", compressed))
        }
        Ok(Err(p6::Error::TooLongData)) => ("toolong".to_string(), WriteOut::TooLong, "w6toolong".into()),
        Ok(Err(p6::Error::Capacity(_))) => {
            (if exact { format!("cap {}", hex(&buf)) } else { "cap ?".into() }, WriteOut::Cap, "w6cap".into())
        }
        Err(m) => ("panic".to_string(), WriteOut::Panic(m), "w6panic".into()),
    };
    let id = o.case(&format!("w6\t{}\t{}\t{}", cap, txt6(p), side), &res, &sig);
    (id, out)
}

pub type ReadOut6 = Result<Result<(Pkt6, Vec<p6::Warning>, Vec<String>), (p6::PacketReadError, Vec<p6::Warning>)>, String>;

/// Packet::read (cap = Some(scratch size)) or read_panic_on_decompression (cap = None)
pub fn read6_raw(bytes: &[u8], hint: Option<bool>, cap: Option<usize>) -> ReadOut6 {
    // the datagram sits in the middle of a larger allocation so that one-past-the-end of the input
    // can never be the start of the scratch buffer
    let mut holder = vec![0x55u8; bytes.len() + 32];
    holder[16..16 + bytes.len()].copy_from_slice(bytes);
    let input = &holder[16..16 + bytes.len()];
    let mut scratch = vec![0xAAu8; cap.unwrap_or(0) + 32];
    let sc = cap.unwrap_or(0);
    let ib = (input.as_ptr() as usize, input.len());
    let sb = (scratch[16..].as_ptr() as usize, sc);
    guard(move || {
        let mut ws: Vec<p6::Warning> = vec![];
        let r = match cap {
            Some(_) => p6::Packet::read(&mut ws, input, hint, &mut scratch[16..16 + sc]),
            None => p6::Packet::read_panic_on_decompression(&mut ws, input, hint),
        };
        match r {
            Ok(p) => {
                let (own, views) = own6(&p, ib, sb);
                Ok((own, ws, views))
            }
            Err(e) => Err((e, ws)),
        }
    })
}

pub fn read6_txt(r: &ReadOut6) -> (String, String) {
    match r {
        Ok(Ok((p, ws, vs))) => (
            // c= the class predicates K05, K06 and the size limits, as the harness decides them (the
            // driver prints the Coq definitions K05_6, K06_6, expressible6 for the same value)
            format!("ok {} w={} v={} c={}{}{}", txt6(p), warns6(ws), join(vs), k05_6(p) as u8, k06_6(p) as u8, expressible6(p) as u8),
            format!("r6ok{}{}", &txt6(p)[..1], warns6(ws)),
        ),
        Ok(Err((e, ws))) => (format!("err {:?} w={}", e, warns6(ws)), format!("r6err{:?}{}", e, warns6(ws))),
        Err(_) => ("panic".to_string(), "r6panic".to_string()),
    }
}

/// side information for the model: what the real Huffman decoder makes of the payload
fn hd_side6(bytes: &[u8], cap: Option<usize>) -> String {
    match cap {
        Some(c) if bytes.len() >= 3 && bytes.len() <= p6::MAX_PACKETSIZE && bytes[0] & 0x20 == 0 && bytes[0] & 0x80 != 0 && c >= 3 => {
            hd(&bytes[3..], c - 3)
        }
        _ => ".".to_string(),
    }
}

pub fn do_read6(o: &mut Out, bytes: &[u8], hint: Option<bool>, cap: Option<usize>) -> (String, ReadOut6) {
    let r = read6_raw(bytes, hint, cap);
    let (res, sig) = read6_txt(&r);
    let case = match cap {
        Some(c) => format!("r6\t{}\t{}\t{}\t{}", hint_txt(hint), c, hex(bytes), hd_side6(bytes, cap)),
        None => format!("rp6\t{}\t{}", hint_txt(hint), hex(bytes)),
    };
    let id = o.case(&case, &res, &sig);
    (id, r)
}

/// C05: write p, read the bytes back with the true hint, compare
pub fn roundtrip6(o: &mut Out, p: &Pkt6, cap: usize) {
    let (id, w) = do_write6(o, p, cap);
    match w {
        WriteOut::Ok(bytes) => {
            o.check(bytes.len() <= cap, "-", &id, || format!("wrote {} bytes into {}", bytes.len(), cap));
            let scratch = if bytes.len() % 3 == 0 { 1400 } else { 2048 };
            let (rid, r) = do_read6(o, &bytes, true_hint6(p), Some(scratch));
            match r {
                Ok(Ok((q, ws, vs))) => {
                    let same = &q == p;
                    let views_ok = vs.iter().all(|v| !v.starts_with('X'));
                    o.check(views_ok, "-", &rid, || format!("slice outside both buffers: {:?} for {}", vs, hex(&bytes)));
                    if same && ws.is_empty() {
                        o.check(true, "-", &rid, String::new);
                    } else if same && k05_6(p) && ws == [p6::Warning::ChunksNoChunks] {
                        o.check(false, "K05", &rid, || format!("0.6 {} written as {} is read back with warning ChunksNoChunks", txt6(p), hex(&bytes)));
                    } else {
                        // outside the size limits of the statement a different value may come back
                        o.check(!expressible6(p), "-", &rid, || format!("0.6 {} written as {} is read back as {} warnings {}", txt6(p), hex(&bytes), txt6(&q), warns6(&ws)));
                    }
                }
                Ok(Err((e, _))) => {
                    // a value outside the size limits may be written and then refused; inside them it may not
                    let inside = expressible6(p);
                    o.check(!inside, "-", &rid, || format!("0.6 {} written as {} bytes is refused by read: {:?}", txt6(p), bytes.len(), e));
                }
                Err(m) => o.check(false, "-", &rid, || format!("0.6 read of own output panicked: {} ({})", m, hex(&bytes))),
            }
        }
        WriteOut::Panic(m) => {
            o.check(!expressible6(p), "-", &id, || format!("0.6 write {} panicked: {}", txt6(p), m));
        }
        WriteOut::TooLong => {
            o.check(matches!(p, Pkt6::Connless(d) if d.len() > p6::MAX_PAYLOAD), "-", &id, || format!("0.6 write {} says TooLongData", txt6(p)));
        }
        WriteOut::Cap => {}
    }
}

/// the size limits of the statement of C05
pub fn expressible6(p: &Pkt6) -> bool {
    match p {
        Pkt6::Connless(d) => d.len() <= 1394,
        Pkt6::Connected { ack, tok, ty } => {
            *ack < 1024
                && match ty {
                    Ty6::Chunks(_, _, d) => d.len() + if tok.is_some() { 4 } else { 0 } <= 1397,
                    Ty6::Close(r) => r.len() <= 127 && !r.contains(&0),
                    _ => true,
                }
        }
    }
}

/// C06: any byte string, every hint: no panic, slices inside the buffers, accepted => rewritable
pub fn hostile6(o: &mut Out, bytes: &[u8], cap: usize) {
    for hint in [None, Some(true), Some(false)] {
        let (id, r) = do_read6(o, bytes, hint, Some(cap));
        match r {
            Err(m) => o.check(cap < p6::MAX_PACKETSIZE, "-", &id, || format!("0.6 read({}, hint {:?}) panicked: {}", hex(bytes), hint, m)),
            Ok(Err(_)) => o.check(true, "-", &id, String::new),
            Ok(Ok((p, _ws, vs))) => {
                o.check(vs.iter().all(|v| !v.starts_with('X')), "-", &id, || format!("0.6 read({}) returned a slice outside both buffers: {:?}", hex(bytes), vs));
                accept_rewrite6(o, &id, &p);
            }
        }
    }
}

pub fn accept_rewrite6(o: &mut Out, id: &str, p: &Pkt6) {
    let mut buf = vec![0u8; 2048];
    let w = guard(|| api6(p).write(&mut buf[..]).map(|s| s.to_vec()));
    match w {
        Ok(Ok(b)) => {
            let r = read6_raw(&b, true_hint6(p), Some(1400));
            let back = matches!(&r, Ok(Ok((q, _, _))) if q == p);
            o.check(back, "-", id, || format!("0.6 accepted value {} rewritten as {} reads back as {}", txt6(p), hex(&b), read6_txt(&r).0));
        }
        Ok(Err(e)) => {
            let cls = if k06_6(p) && matches!(e, p6::Error::TooLongData) { "K06" } else { "-" };
            o.check(false, cls, id, || format!("0.6 read accepts {} ({} payload bytes) but write refuses it: {:?}", &txt6(p)[..12.min(txt6(p).len())], match p { Pkt6::Connless(d) => d.len(), _ => 0 }, e));
        }
        Err(m) => o.check(false, "-", id, || format!("0.6 read accepts {} but write panics: {}", txt6(p), m)),
    }
}

// ---------------------------------------------------------------- chunks

pub fn vital_txt(v: Option<(u16, bool)>) -> String {
    match v {
        Some((s, r)) => format!("{}/{}", s, r as u8),
        None => "-".to_string(),
    }
}

/// ChunksIter over `payload`: every chunk until None, then one more call
pub fn do_iter6(o: &mut Out, payload: &[u8], nc: u8) -> (String, Option<(Vec<(Vec<u8>, Option<(u16, bool)>)>, Vec<p6::Warning>)>) {
    let base = (payload.as_ptr() as usize, payload.len());
    let r = guard(|| {
        let mut ws: Vec<p6::Warning> = vec![];
        let mut it = p6::ChunksIter::new(payload, nc);
        let mut items = vec![];
        let mut chunks = vec![];
        while let Some(c) = it.next_warn(&mut ws) {
            items.push(format!("{}:{}", &provenance(c.data, base, (0, 0))[1..], vital_txt(c.vital)));
            chunks.push((c.data.to_vec(), c.vital));
            if items.len() > payload.len() {
                break;
            }
        }
        let again = it.next_warn(&mut ws).is_some();
        (items, chunks, ws, it.pos(), again)
    });
    let (res, sig, ret) = match r {
        Ok((items, chunks, ws, pos, again)) => (
            format!("{} w={} pos={}{}", if items.is_empty() { "-".to_string() } else { items.join(" ") }, warns6(&ws), pos, if again { " again" } else { "" }),
            format!("it6{}{}", items.len().min(4), warns6(&ws)),
            Some((items, chunks, ws)),
        ),
        Err(_) => ("panic".to_string(), "it6panic".to_string(), None),
    };
    let id = o.case(&format!("it6\t{}\t{}", nc, hex(payload)), &res, &sig);
    match ret {
        None => {
            o.check(false, "-", &id, || format!("0.6 ChunksIter over {} panicked", hex(payload)));
            (id, None)
        }
        Some((items, chunks, ws)) => {
            o.check(items.len() <= payload.len() / 2, "-", &id, || format!("0.6 ChunksIter yields {} chunks from {} bytes", items.len(), payload.len()));
            o.check(items.iter().all(|i| !i.contains("X")), "-", &id, || format!("0.6 chunk outside the payload: {:?}", items));
            (id, Some((chunks, ws)))
        }
    }
}

pub fn do_wc6(o: &mut Out, data: &[u8], vital: Option<(u16, bool)>, cap: usize) -> (String, Option<Vec<u8>>) {
    let mut buf: Vec<u8> = Vec::with_capacity(cap);
    let exact = buf.capacity() == cap;
    let r = guard(|| p6::write_chunk(data, vital, &mut buf).map(|s| s.to_vec()));
    let (res, sig, out) = match r {
        Ok(Ok(b)) => (format!("ok {}", hex(&b)), "wc6ok", Some(b)),
        Ok(Err(_)) => (if exact { format!("cap {}", hex(&buf)) } else { "cap ?".into() }, "wc6cap", None),
        Err(_) => ("panic".to_string(), "wc6panic", None),
    };
    let id = o.case(&format!("wc6\t{}\t{}\t{}", cap, vital_txt(vital), hex(data)), &res, sig);
    (id, out)
}

/// C05: chunks written by write_chunk come back from ChunksIter unchanged and warning-free
pub fn chunks_roundtrip6(o: &mut Out, chunks: &[(Vec<u8>, Option<(u16, bool)>)]) {
    let mut payload = vec![];
    for (d, v) in chunks {
        let (id, out) = do_wc6(o, d, *v, d.len() + 3);
        match out {
            Some(b) => payload.extend_from_slice(&b),
            None => {
                o.check(d.len() >= 1024 || v.map(|(s, _)| s >= 1024).unwrap_or(false), "-", &id, || format!("0.6 write_chunk({} bytes, {:?}) failed", d.len(), v));
                return;
            }
        }
    }
    let (id, r) = do_iter6(o, &payload, chunks.len().min(255) as u8);
    if let Some((back, ws)) = r {
        let ok = back == chunks && (ws.is_empty() || chunks.len() > 255);
        o.check(ok, "-", &id, || format!("0.6 chunks {:?} written as {} iterate as {:?} warnings {}", chunks.iter().map(|(d, v)| (d.len(), *v)).collect::<Vec<_>>(), hex(&payload[..payload.len().min(24)]), back.iter().map(|(d, v)| (d.len(), *v)).collect::<Vec<_>>(), warns6(&ws)));
    }
}

// ---------------------------------------------------------------- headers

fn wmask6(ws: &[p6::Warning]) -> String {
    warns6(ws)
}

/// "hu": bytes -> fields, warnings, re-packed bytes
pub fn hu6(kind: &str, b: &[u8]) -> String {
    match kind {
        "ph6" => {
            let mut ws = vec![];
            let h = p6::PacketHeaderPacked::from_array([b[0], b[1], b[2]]).unpack_warn(&mut ws);
            let r = guard(|| h.pack().as_byte_array().to_vec());
            format!("{},{},{} w={} r={}", h.flags, h.ack, h.num_chunks, wmask6(&ws), r.map(|x| hex(&x)).unwrap_or("panic".into()))
        }
        "ch6" => {
            let mut ws = vec![];
            let h = p6::ChunkHeaderPacked::from_array([b[0], b[1]]).unpack_warn(&mut ws);
            let r = guard(|| h.pack().as_byte_array().to_vec());
            format!("{},{} w={} r={}", h.flags, h.size, wmask6(&ws), r.map(|x| hex(&x)).unwrap_or("panic".into()))
        }
        "chv6" => {
            let mut ws = vec![];
            let h = p6::ChunkHeaderVitalPacked::from_array([b[0], b[1], b[2]]).unpack_warn(&mut ws);
            let r = guard(|| h.pack().as_byte_array().to_vec());
            format!("{},{},{} w={} r={}", h.h.flags, h.h.size, h.sequence, wmask6(&ws), r.map(|x| hex(&x)).unwrap_or("panic".into()))
        }
        _ => unreachable!(),
    }
}

/// "hp": fields -> packed bytes (or panic), unpacked again
pub fn hp6(kind: &str, f: &[u32]) -> String {
    match kind {
        "ph6" => {
            let h = p6::PacketHeader { flags: f[0] as u8, ack: f[1] as u16, num_chunks: f[2] as u8 };
            match guard(|| *h.pack().as_byte_array()) {
                Ok(b) => {
                    let mut ws = vec![];
                    let u = p6::PacketHeaderPacked::from_array(b).unpack_warn(&mut ws);
                    format!("{} b={},{},{} w={}", hex(&b), u.flags, u.ack, u.num_chunks, wmask6(&ws))
                }
                Err(_) => "panic".into(),
            }
        }
        "ch6" => {
            let h = p6::ChunkHeader { flags: f[0] as u8, size: f[1] as u16 };
            match guard(|| *h.pack().as_byte_array()) {
                Ok(b) => {
                    let mut ws = vec![];
                    let u = p6::ChunkHeaderPacked::from_array(b).unpack_warn(&mut ws);
                    format!("{} b={},{} w={}", hex(&b), u.flags, u.size, wmask6(&ws))
                }
                Err(_) => "panic".into(),
            }
        }
        "chv6" => {
            let h = p6::ChunkHeaderVital { h: p6::ChunkHeader { flags: f[0] as u8, size: f[1] as u16 }, sequence: f[2] as u16 };
            match guard(|| *h.pack().as_byte_array()) {
                Ok(b) => {
                    let mut ws = vec![];
                    let u = p6::ChunkHeaderVitalPacked::from_array(b).unpack_warn(&mut ws);
                    format!("{} b={},{},{} w={}", hex(&b), u.h.flags, u.h.size, u.sequence, wmask6(&ws))
                }
                Err(_) => "panic".into(),
            }
        }
        _ => unreachable!(),
    }
}

/// the canonical bit patterns of a header (property statement, written independently of the code)
pub fn canonical6(kind: &str, b: &[u8]) -> bool {
    match kind {
        "ph6" => b[0] & 0x0c == 0,
        "ch6" => b[1] & 0xf0 == 0,
        "chv6" => (b[1] >> 4) & 3 == b[2] >> 6,
        _ => unreachable!(),
    }
}

/// does unpack_warn stay silent exactly on the canonical patterns (0.6 packet header: a set
/// connless bit silences the padding warning)
pub fn silent_expected6(kind: &str, b: &[u8]) -> bool {
    match kind {
        "ph6" => b[0] & 0x0c == 0 || b[0] & 0x20 != 0,
        _ => canonical6(kind, b),
    }
}

pub fn is_initial6(o: &mut Out, bytes: &[u8]) {
    let r = guard(|| p6::Packet::is_initial(bytes));
    let res = match r {
        Ok(b) => format!("{}", b as u8),
        Err(_) => "panic".into(),
    };
    let id = o.case(&format!("ini6\t{}", hex(bytes)), &res, &format!("ini6{}", res));
    o.check(res != "panic", "-", &id, || format!("0.6 is_initial({}) panicked", hex(bytes)));
}

pub fn decompress_if_needed6(o: &mut Out, bytes: &[u8], cap: usize) {
    let mut buf: Vec<u8> = Vec::with_capacity(cap);
    let exact = buf.capacity() == cap;
    let r = guard(|| p6::Packet::decompress_if_needed(bytes, &mut buf));
    let res = match r {
        Ok(Ok(false)) => "false".to_string(),
        Ok(Ok(true)) => format!("true {}", hex(&buf)),
        Ok(Err(_)) => "err".to_string(),
        Err(_) => "panic".to_string(),
    };
    if !exact {
        return;
    }
    let id = o.case(&format!("dn6\t{}\t{}\t{}", cap, hex(bytes), hd_side6(bytes, Some(cap))), &res, &format!("dn6{}", &res[..3.min(res.len())]));
    o.check(res != "panic" || cap < p6::MAX_PACKETSIZE, "-", &id, || format!("0.6 decompress_if_needed({}) panicked", hex(bytes)));
}

//! 0.7 half: net/src/protocol7.rs through its public API
use super::common::*;
use super::v6::vital_txt;
use super::v6::WriteOut;
use libtw2_common::bytes::AsBytesExt;
use libtw2_common::bytes::FromBytesExt;
use libtw2_net::protocol7 as p7;
use tw2verif::*;

#[derive(Clone, Debug, PartialEq)]
pub enum Ty7 {
    Chunks(bool, u8, Vec<u8>),
    KeepAlive,
    Connect([u8; 4]),
    Accept,
    Close(Vec<u8>),
    Token([u8; 4]),
}

#[derive(Clone, Debug, PartialEq)]
pub enum Pkt7 {
    Connless { payload: Vec<u8>, tok: [u8; 4], rtok: [u8; 4] },
    Connected { ack: u16, tok: [u8; 4], ty: Ty7 },
}

pub fn txt7(p: &Pkt7) -> String {
    match p {
        Pkt7::Connless { payload, tok, rtok } => format!("L:{}:{}:{}", tok_txt(tok), tok_txt(rtok), hex(payload)),
        Pkt7::Connected { ack, tok, ty } => {
            let y = match ty {
                Ty7::Chunks(r, n, d) => format!("H:{}:{}:{}", *r as u8, n, hex(d)),
                Ty7::KeepAlive => "K".into(),
                Ty7::Connect(rt) => format!("N:{}", tok_txt(rt)),
                Ty7::Accept => "A".into(),
                Ty7::Close(r) => format!("X:{}", hex(r)),
                Ty7::Token(rt) => format!("T:{}", tok_txt(rt)),
            };
            format!("C:{}:{}:{}", ack, tok_txt(tok), y)
        }
    }
}

pub fn api7<'a>(p: &'a Pkt7) -> p7::Packet<'a> {
    match p {
        Pkt7::Connless { payload, tok, rtok } => p7::Packet::Connless(p7::ConnlessPacket {
            payload,
            token: p7::Token(*tok),
            response_token: p7::Token(*rtok),
        }),
        Pkt7::Connected { ack, tok, ty } => p7::Packet::Connected(p7::ConnectedPacket {
            ack: *ack,
            token: p7::Token(*tok),
            type_: match ty {
                Ty7::Chunks(r, n, d) => p7::ConnectedPacketType::Chunks(*r, *n, d),
                Ty7::KeepAlive => p7::ConnectedPacketType::Control(p7::ControlPacket::KeepAlive),
                Ty7::Connect(rt) => p7::ConnectedPacketType::Control(p7::ControlPacket::Connect(p7::Token(*rt))),
                Ty7::Accept => p7::ConnectedPacketType::Control(p7::ControlPacket::Accept),
                Ty7::Close(r) => p7::ConnectedPacketType::Control(p7::ControlPacket::Close(r)),
                Ty7::Token(rt) => p7::ConnectedPacketType::Control(p7::ControlPacket::Token(p7::Token(*rt))),
            },
        }),
    }
}

pub fn own7(p: &p7::Packet, input: (usize, usize), scratch: (usize, usize)) -> (Pkt7, Vec<String>) {
    match *p {
        p7::Packet::Connless(c) => (
            Pkt7::Connless { payload: c.payload.to_vec(), tok: c.token.0, rtok: c.response_token.0 },
            vec![provenance(c.payload, input, scratch)],
        ),
        p7::Packet::Connected(c) => {
            let mut views = vec![];
            let ty = match c.type_ {
                p7::ConnectedPacketType::Chunks(r, n, d) => {
                    views.push(provenance(d, input, scratch));
                    Ty7::Chunks(r, n, d.to_vec())
                }
                p7::ConnectedPacketType::Control(k) => match k {
                    p7::ControlPacket::KeepAlive => Ty7::KeepAlive,
                    p7::ControlPacket::Connect(rt) => Ty7::Connect(rt.0),
                    p7::ControlPacket::Accept => Ty7::Accept,
                    p7::ControlPacket::Close(r) => {
                        views.push(provenance(r, input, scratch));
                        Ty7::Close(r.to_vec())
                    }
                    p7::ControlPacket::Token(rt) => Ty7::Token(rt.0),
                },
            };
            (Pkt7::Connected { ack: c.ack, tok: c.token.0, ty }, views)
        }
    }
}

pub fn warns7(ws: &[p7::Warning]) -> String {
    join(&ws.iter().map(|w| format!("{:?}", w)).collect::<Vec<_>>())
}

pub fn k05_7(p: &Pkt7) -> bool {
    matches!(p, Pkt7::Connected { ty: Ty7::Chunks(false, 0, _), .. })
}

pub fn k06_7(p: &Pkt7) -> bool {
    matches!(p, Pkt7::Connless { payload, .. } if payload.len() > p7::MAX_PAYLOAD)
}

pub fn k06t_7(p: &Pkt7) -> bool {
    matches!(p, Pkt7::Connected { ty: Ty7::Connect(rt), .. } | Pkt7::Connected { ty: Ty7::Token(rt), .. } if *rt == [0xff; 4])
}

/// the size limits alone (Coq: expressible7; a response token NONE is class K06T, not a size limit)
pub fn limits7(p: &Pkt7) -> bool {
    match p {
        Pkt7::Connless { payload, .. } => payload.len() <= 1391,
        Pkt7::Connected { ack, ty, .. } => {
            *ack < 1024
                && match ty {
                    Ty7::Chunks(_, _, d) => d.len() <= 1393,
                    Ty7::Close(r) => r.len() <= 127 && !r.contains(&0),
                    _ => true,
                }
        }
    }
}

pub fn expressible7(p: &Pkt7) -> bool {
    match p {
        Pkt7::Connless { payload, .. } => payload.len() <= 1391,
        Pkt7::Connected { ack, ty, .. } => {
            *ack < 1024
                && match ty {
                    Ty7::Chunks(_, _, d) => d.len() <= 1393,
                    Ty7::Close(r) => r.len() <= 127 && !r.contains(&0),
                    Ty7::Connect(rt) | Ty7::Token(rt) => *rt != [0xff; 4],
                    _ => true,
                }
        }
    }
}

pub fn do_write7(o: &mut Out, p: &Pkt7, cap: usize) -> (String, WriteOut) {
    let side = match p {
        Pkt7::Connected { ty: Ty7::Chunks(_, _, d), .. } => hc(d),
        _ => ".".to_string(),
    };
    let mut buf: Vec<u8> = Vec::with_capacity(cap);
    let exact = buf.capacity() == cap;
    let r = guard(|| api7(p).write(&mut buf).map(|s| s.to_vec()));
    let (res, out, sig) = match r {
        Ok(Ok(b)) => {
            let compressed = b.len() >= 7 && b[0] & 0x10 != 0 && b[0] & 0x20 == 0;
            o.count(if compressed { "write7.compressed" } else { "write7.plain" });
            (format!("ok {}", hex(&b)), WriteOut::Ok(b), format!("w7ok{}", compressed))
        }
        Ok(Err(p7::Error::TooLongData)) => ("toolong".to_string(), WriteOut::TooLong, "w7toolong".into()),
        Ok(Err(p7::Error::Capacity(_))) => {
            (if exact { format!("cap {}", hex(&buf)) } else { "cap ?".into() }, WriteOut::Cap, "w7cap".into())
        }
        Err(m) => ("panic".to_string(), WriteOut::Panic(m), "w7panic".into()),
    };
    let id = o.case(&format!("w7\t{}\t{}\t{}", cap, txt7(p), side), &res, &sig);
    (id, out)
}

pub type ReadOut7 = Result<Result<(Pkt7, Vec<p7::Warning>, Vec<String>), (p7::PacketReadError, Vec<p7::Warning>)>, String>;

pub fn read7_raw(bytes: &[u8], cap: Option<usize>) -> ReadOut7 {
    let mut holder = vec![0x55u8; bytes.len() + 32];
    holder[16..16 + bytes.len()].copy_from_slice(bytes);
    let input = &holder[16..16 + bytes.len()];
    let sc = cap.unwrap_or(0);
    let mut scratch = vec![0xAAu8; sc + 32];
    let ib = (input.as_ptr() as usize, input.len());
    let sb = (scratch[16..].as_ptr() as usize, sc);
    guard(move || {
        let mut ws: Vec<p7::Warning> = vec![];
        let r = match cap {
            Some(_) => p7::Packet::read(&mut ws, input, &mut scratch[16..16 + sc]),
            None => p7::Packet::read_panic_on_decompression(&mut ws, input),
        };
        match r {
            Ok(p) => {
                let (own, views) = own7(&p, ib, sb);
                Ok((own, ws, views))
            }
            Err(e) => Err((e, ws)),
        }
    })
}

pub fn read7_txt(r: &ReadOut7) -> (String, String) {
    match r {
        Ok(Ok((p, ws, vs))) => (
            format!("ok {} w={} v={} c={}{}{}{}", txt7(p), warns7(ws), join(vs), k05_7(p) as u8, k06_7(p) as u8, k06t_7(p) as u8, limits7(p) as u8),
            format!("r7ok{}{}", &txt7(p)[..1], warns7(ws)),
        ),
        Ok(Err((e, ws))) => (format!("err {:?} w={}", e, warns7(ws)), format!("r7err{:?}{}", e, warns7(ws))),
        Err(_) => ("panic".to_string(), "r7panic".to_string()),
    }
}

fn hd_side7(bytes: &[u8], cap: Option<usize>) -> String {
    match cap {
        Some(c) if bytes.len() >= 7 && bytes.len() <= p7::MAX_PACKETSIZE && bytes[0] & 0x20 == 0 && bytes[0] & 0x10 != 0 && c >= 7 => {
            hd(&bytes[7..], c - 7)
        }
        _ => ".".to_string(),
    }
}

pub fn do_read7(o: &mut Out, bytes: &[u8], cap: Option<usize>) -> (String, ReadOut7) {
    let r = read7_raw(bytes, cap);
    let (res, sig) = read7_txt(&r);
    let case = match cap {
        Some(c) => format!("r7\t{}\t{}\t{}", c, hex(bytes), hd_side7(bytes, cap)),
        None => format!("rp7\t{}", hex(bytes)),
    };
    let id = o.case(&case, &res, &sig);
    (id, r)
}

pub fn roundtrip7(o: &mut Out, p: &Pkt7, cap: usize) {
    let (id, w) = do_write7(o, p, cap);
    match w {
        WriteOut::Ok(bytes) => {
            o.check(bytes.len() <= cap, "-", &id, || format!("wrote {} bytes into {}", bytes.len(), cap));
            let scratch = if bytes.len() % 3 == 0 { 1400 } else { 2048 };
            let (rid, r) = do_read7(o, &bytes, Some(scratch));
            match r {
                Ok(Ok((q, ws, vs))) => {
                    let same = &q == p;
                    o.check(vs.iter().all(|v| !v.starts_with('X')), "-", &rid, || format!("slice outside both buffers: {:?} for {}", vs, hex(&bytes)));
                    if same && ws.is_empty() {
                        o.check(true, "-", &rid, String::new);
                    } else if same && k05_7(p) && ws == [p7::Warning::ChunksNoChunks] {
                        o.check(false, "K05", &rid, || format!("0.7 {} written as {} is read back with warning ChunksNoChunks", txt7(p), hex(&bytes)));
                    } else {
                        o.check(!expressible7(p), "-", &rid, || format!("0.7 {} written as {} is read back as {} warnings {}", txt7(p), hex(&bytes), txt7(&q), warns7(&ws)));
                    }
                }
                Ok(Err((e, _))) => {
                    o.check(!expressible7(p), "-", &rid, || format!("0.7 {} written as {} bytes is refused by read: {:?}", txt7(p), bytes.len(), e));
                }
                Err(m) => o.check(false, "-", &rid, || format!("0.7 read of own output panicked: {} ({})", m, hex(&bytes))),
            }
        }
        WriteOut::Panic(m) => o.check(!expressible7(p), "-", &id, || format!("0.7 write {} panicked: {}", txt7(p), m)),
        WriteOut::TooLong => o.check(k06_7(p), "-", &id, || format!("0.7 write {} says TooLongData", txt7(p))),
        WriteOut::Cap => {}
    }
}

pub fn hostile7(o: &mut Out, bytes: &[u8], cap: usize) {
    let (id, r) = do_read7(o, bytes, Some(cap));
    match r {
        Err(m) => o.check(cap < p7::MAX_PACKETSIZE, "-", &id, || format!("0.7 read({}) panicked: {}", hex(bytes), m)),
        Ok(Err(_)) => o.check(true, "-", &id, String::new),
        Ok(Ok((p, _ws, vs))) => {
            o.check(vs.iter().all(|v| !v.starts_with('X')), "-", &id, || format!("0.7 read({}) returned a slice outside both buffers: {:?}", hex(bytes), vs));
            accept_rewrite7(o, &id, &p);
        }
    }
}

pub fn accept_rewrite7(o: &mut Out, id: &str, p: &Pkt7) {
    let mut buf = vec![0u8; 2048];
    let w = guard(|| api7(p).write(&mut buf[..]).map(|s| s.to_vec()));
    let short = |p: &Pkt7| {
        let t = txt7(p);
        t[..40.min(t.len())].to_string()
    };
    match w {
        Ok(Ok(b)) => {
            let r = read7_raw(&b, Some(1400));
            let back = matches!(&r, Ok(Ok((q, _, _))) if q == p);
            o.check(back, "-", id, || format!("0.7 accepted value {} rewritten as {} reads back as {}", txt7(p), hex(&b), read7_txt(&r).0));
        }
        Ok(Err(e)) => {
            let cls = if k06_7(p) && matches!(e, p7::Error::TooLongData) { "K06" } else { "-" };
            o.check(false, cls, id, || format!("0.7 read accepts {} ({} payload bytes) but write refuses it: {:?}", short(p), match p { Pkt7::Connless { payload, .. } => payload.len(), _ => 0 }, e));
        }
        Err(m) => {
            let cls = if k06t_7(p) && m.contains("response_token != TOKEN_NONE") { "K06T" } else { "-" };
            o.check(false, cls, id, || format!("0.7 read accepts {} but write panics: {}", short(p), m));
        }
    }
}

// ---------------------------------------------------------------- chunks

pub fn do_iter7(o: &mut Out, payload: &[u8], nc: u8) -> (String, Option<(Vec<(Vec<u8>, Option<(u16, bool)>)>, Vec<p7::Warning>)>) {
    let base = (payload.as_ptr() as usize, payload.len());
    let r = guard(|| {
        let mut ws: Vec<p7::Warning> = vec![];
        let mut it = p7::ChunksIter::new(payload, nc);
        let mut items = vec![];
        let mut chunks = vec![];
        while let Some(c) = it.next_warn(&mut ws) {
            items.push(format!("{}:{}", &provenance(c.data, base, (0, 0))[1..], vital_txt(c.vital)));
            chunks.push((c.data.to_vec(), c.vital));
            if items.len() > payload.len() {
                break;
            }
        }
        let again = it.next_warn(&mut ws).is_some();
        (items, chunks, ws, it.pos(), again)
    });
    let (res, sig, ret) = match r {
        Ok((items, chunks, ws, pos, again)) => (
            format!("{} w={} pos={}{}", if items.is_empty() { "-".to_string() } else { items.join(" ") }, warns7(&ws), pos, if again { " again" } else { "" }),
            format!("it7{}{}", items.len().min(4), warns7(&ws)),
            Some((items, chunks, ws)),
        ),
        Err(_) => ("panic".to_string(), "it7panic".to_string(), None),
    };
    let id = o.case(&format!("it7\t{}\t{}", nc, hex(payload)), &res, &sig);
    match ret {
        None => {
            o.check(false, "-", &id, || format!("0.7 ChunksIter over {} panicked", hex(payload)));
            (id, None)
        }
        Some((items, chunks, ws)) => {
            o.check(items.len() <= payload.len() / 2, "-", &id, || format!("0.7 ChunksIter yields {} chunks from {} bytes", items.len(), payload.len()));
            o.check(items.iter().all(|i| !i.contains("X")), "-", &id, || format!("0.7 chunk outside the payload: {:?}", items));
            (id, Some((chunks, ws)))
        }
    }
}

pub fn do_wc7(o: &mut Out, data: &[u8], vital: Option<(u16, bool)>, cap: usize) -> (String, Option<Vec<u8>>) {
    let mut buf: Vec<u8> = Vec::with_capacity(cap);
    let exact = buf.capacity() == cap;
    let r = guard(|| p7::write_chunk(data, vital, &mut buf).map(|s| s.to_vec()));
    let (res, sig, out) = match r {
        Ok(Ok(b)) => (format!("ok {}", hex(&b)), "wc7ok", Some(b)),
        Ok(Err(_)) => (if exact { format!("cap {}", hex(&buf)) } else { "cap ?".into() }, "wc7cap", None),
        Err(_) => ("panic".to_string(), "wc7panic", None),
    };
    let id = o.case(&format!("wc7\t{}\t{}\t{}", cap, vital_txt(vital), hex(data)), &res, sig);
    (id, out)
}

pub fn chunks_roundtrip7(o: &mut Out, chunks: &[(Vec<u8>, Option<(u16, bool)>)]) {
    let mut payload = vec![];
    for (d, v) in chunks {
        let (id, out) = do_wc7(o, d, *v, d.len() + 3);
        match out {
            Some(b) => payload.extend_from_slice(&b),
            None => {
                o.check(d.len() >= 4096 || v.map(|(s, _)| s >= 1024).unwrap_or(false), "-", &id, || format!("0.7 write_chunk({} bytes, {:?}) failed", d.len(), v));
                return;
            }
        }
    }
    let (id, r) = do_iter7(o, &payload, chunks.len().min(255) as u8);
    if let Some((back, ws)) = r {
        let ok = back == chunks && (ws.is_empty() || chunks.len() > 255);
        o.check(ok, "-", &id, || format!("0.7 chunks {:?} written as {} iterate as {:?} warnings {}", chunks.iter().map(|(d, v)| (d.len(), *v)).collect::<Vec<_>>(), hex(&payload[..payload.len().min(24)]), back.iter().map(|(d, v)| (d.len(), *v)).collect::<Vec<_>>(), warns7(&ws)));
    }
}

// ---------------------------------------------------------------- headers

pub fn hu7(kind: &str, b: &[u8]) -> String {
    let pk = |r: Result<Vec<u8>, String>| r.map(|x| hex(&x)).unwrap_or("panic".into());
    match kind {
        "ph7" => {
            let mut ws = vec![];
            let h = p7::PacketHeaderPacked::from_array([b[0], b[1], b[2], b[3], b[4], b[5], b[6]]).unpack_warn(&mut ws);
            let r = guard(|| h.pack().as_byte_array().to_vec());
            format!("{},{},{},{} w={} r={}", h.flags, h.ack, h.num_chunks, tok_txt(&h.token.0), warns7(&ws), pk(r))
        }
        "phc7" => {
            let mut ws = vec![];
            let h = p7::PacketHeaderConnlessPacked::from_array([b[0], b[1], b[2], b[3], b[4], b[5], b[6], b[7], b[8]]).unpack_warn(&mut ws);
            let r = guard(|| h.pack().as_byte_array().to_vec());
            format!("{},{},{},{} w={} r={}", h.flags, h.version, tok_txt(&h.token.0), tok_txt(&h.response_token.0), warns7(&ws), pk(r))
        }
        "ch7" => {
            let mut ws = vec![];
            let h = p7::ChunkHeaderPacked::from_array([b[0], b[1]]).unpack_warn(&mut ws);
            let r = guard(|| h.pack().as_byte_array().to_vec());
            format!("{},{} w={} r={}", h.flags, h.size, warns7(&ws), pk(r))
        }
        "chv7" => {
            let mut ws = vec![];
            let h = p7::ChunkHeaderVitalPacked::from_array([b[0], b[1], b[2]]).unpack_warn(&mut ws);
            let r = guard(|| h.pack().as_byte_array().to_vec());
            format!("{},{},{} w={} r={}", h.h.flags, h.h.size, h.sequence, warns7(&ws), pk(r))
        }
        _ => unreachable!(),
    }
}

/// fields: ph7: flags, ack, num_chunks, token(u32 big endian); phc7: flags, version, token, response token
pub fn hp7(kind: &str, f: &[u32]) -> String {
    match kind {
        "ph7" => {
            let h = p7::PacketHeader { flags: f[0] as u8, ack: f[1] as u16, num_chunks: f[2] as u8, token: p7::Token(f[3].to_be_bytes()) };
            match guard(|| *h.pack().as_byte_array()) {
                Ok(b) => {
                    let mut ws = vec![];
                    let u = p7::PacketHeaderPacked::from_array(b).unpack_warn(&mut ws);
                    format!("{} b={},{},{},{} w={}", hex(&b), u.flags, u.ack, u.num_chunks, tok_txt(&u.token.0), warns7(&ws))
                }
                Err(_) => "panic".into(),
            }
        }
        "phc7" => {
            let h = p7::PacketHeaderConnless { flags: f[0] as u8, version: f[1] as u8, token: p7::Token(f[2].to_be_bytes()), response_token: p7::Token(f[3].to_be_bytes()) };
            match guard(|| *h.pack().as_byte_array()) {
                Ok(b) => {
                    let mut ws = vec![];
                    let u = p7::PacketHeaderConnlessPacked::from_array(b).unpack_warn(&mut ws);
                    format!("{} b={},{},{},{} w={}", hex(&b), u.flags, u.version, tok_txt(&u.token.0), tok_txt(&u.response_token.0), warns7(&ws))
                }
                Err(_) => "panic".into(),
            }
        }
        "ch7" => {
            let h = p7::ChunkHeader { flags: f[0] as u8, size: f[1] as u16 };
            match guard(|| *h.pack().as_byte_array()) {
                Ok(b) => {
                    let mut ws = vec![];
                    let u = p7::ChunkHeaderPacked::from_array(b).unpack_warn(&mut ws);
                    format!("{} b={},{} w={}", hex(&b), u.flags, u.size, warns7(&ws))
                }
                Err(_) => "panic".into(),
            }
        }
        "chv7" => {
            let h = p7::ChunkHeaderVital { h: p7::ChunkHeader { flags: f[0] as u8, size: f[1] as u16 }, sequence: f[2] as u16 };
            match guard(|| *h.pack().as_byte_array()) {
                Ok(b) => {
                    let mut ws = vec![];
                    let u = p7::ChunkHeaderVitalPacked::from_array(b).unpack_warn(&mut ws);
                    format!("{} b={},{},{} w={}", hex(&b), u.h.flags, u.h.size, u.sequence, warns7(&ws))
                }
                Err(_) => "panic".into(),
            }
        }
        _ => unreachable!(),
    }
}

pub fn canonical7(kind: &str, b: &[u8]) -> bool {
    match kind {
        "ph7" | "phc7" => b[0] & 0xc0 == 0,
        "ch7" => b[1] & 0xc0 == 0,
        "chv7" => true,
        _ => unreachable!(),
    }
}

pub fn decompress_if_needed7(o: &mut Out, bytes: &[u8], cap: usize) {
    let mut buf: Vec<u8> = Vec::with_capacity(cap);
    if buf.capacity() != cap {
        return;
    }
    let r = guard(|| p7::Packet::decompress_if_needed(bytes, &mut buf));
    let res = match r {
        Ok(Ok(false)) => "false".to_string(),
        Ok(Ok(true)) => format!("true {}", hex(&buf)),
        Ok(Err(_)) => "err".to_string(),
        Err(_) => "panic".to_string(),
    };
    let id = o.case(&format!("dn7\t{}\t{}\t{}", cap, hex(bytes), hd_side7(bytes, Some(cap))), &res, &format!("dn7{}", &res[..3.min(res.len())]));
    o.check(res != "panic" || cap < p7::MAX_PACKETSIZE, "-", &id, || format!("0.7 decompress_if_needed({}) panicked", hex(bytes)));
}

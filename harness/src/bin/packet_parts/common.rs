//! helpers shared by the 0.6 and 0.7 halves of the packet harness
use libtw2_huffman::instances::TEEWORLDS;
use tw2verif::*;

pub fn fnv(s: &[u8]) -> u32 {
    let mut h: u32 = 0x811c_9dc5;
    for &b in s {
        h ^= b as u32;
        h = h.wrapping_mul(16_777_619);
    }
    h
}

pub fn join<T: AsRef<str>>(xs: &[T]) -> String {
    if xs.is_empty() {
        "-".to_string()
    } else {
        xs.iter().map(|x| x.as_ref()).collect::<Vec<_>>().join(",")
    }
}

/// where a returned slice lives: (source letter, offset, length); 'X' = outside both buffers
pub fn provenance(s: &[u8], input: (usize, usize), scratch: (usize, usize)) -> String {
    let p = s.as_ptr() as usize;
    let inside = |b: (usize, usize)| p >= b.0 && p + s.len() <= b.0 + b.1;
    if inside(input) {
        format!("I{}+{}", p - input.0, s.len())
    } else if inside(scratch) {
        format!("S{}+{}", p - scratch.0, s.len())
    } else {
        format!("X{}", s.len())
    }
}

/// HUFFMAN.compress into a 2048-byte buffer, as ConnectedPacket::write_impl does: hex or "!"
pub fn hc(payload: &[u8]) -> String {
    let mut b = [0u8; 2048];
    match TEEWORLDS.compress(payload, &mut b[..]) {
        Ok(s) => hex(s),
        Err(_) => "!".to_string(),
    }
}

pub fn compress_vec(payload: &[u8]) -> Vec<u8> {
    TEEWORLDS.compress_into_vec(payload)
}

/// HUFFMAN.decompress into a buffer with `cap` bytes left: hex or "!"
pub fn hd(stream: &[u8], cap: usize) -> String {
    let mut b = vec![0u8; cap];
    let r = guard(|| TEEWORLDS.decompress(stream, &mut b[..]).map(|s| s.to_vec()));
    match r {
        Ok(Ok(s)) => hex(&s),
        Ok(Err(_)) => "!".to_string(),
        Err(_) => "P".to_string(),
    }
}

/// five compressibility classes
pub const CLASSES: [&str; 5] = ["zero", "two", "text", "ramp", "rand"];
pub fn payload_of_class(r: &mut Rng, class: usize, n: usize) -> Vec<u8> {
    match class {
        0 => vec![0u8; n],
        1 => (0..n).map(|_| if r.chance(1, 4) { 1 } else { 0 }).collect(),
        2 => {
            let words: [&[u8]; 8] = [b"the ", b"player ", b"joined ", b"team ", b"red\0", b"blue ", b"0 ", b"\x01\x02"];
            let mut v = vec![];
            while v.len() < n {
                let w: &[u8] = words[r.below(8) as usize];
                v.extend_from_slice(w);
            }
            v.truncate(n);
            v
        }
        3 => (0..n).map(|i| (i % 251) as u8).collect(),
        5 => {
            // the bytes with the longest codes of the built-in table: the compressed form of a long payload
            // of these does not fit the writers' 2048-byte scratch buffer (they must then send it plain)
            let h = &libtw2_huffman::instances::TEEWORLDS;
            let mut by_len: Vec<(usize, u8)> = (0..=255u8).map(|b| (h.compressed_len(&[b; 64]), b)).collect();
            by_len.sort();
            let worst: Vec<u8> = by_len[256 - 12..].iter().map(|x| x.1).collect();
            (0..n).map(|_| *r.pick(&worst)).collect()
        }
        _ => r.bytes(n),
    }
}

pub fn tok_txt(t: &[u8; 4]) -> String {
    hex(&t[..])
}

pub fn parse4(v: &[u8]) -> [u8; 4] {
    [v[0], v[1], v[2], v[3]]
}

//! C20: one real `Net` endpoint (net/src/net.rs) fed interleavings of datagrams from 2-4
//! remote addresses (produced by real per-address `Connection`s: handshakes, data, closes;
//! plus garbage, mutations and cross-address replays), application calls and ticks, on
//! accepting and non-accepting endpoints.
//!
//! Every label is (1) written as a case for the Coq model (Model/NetEndpoint.v, driver
//! ocaml/drv_net.ml) and the observable result of the real code next to it, and (2) checked
//! against the isolation oracle: an independent real `Connection` per address ("shadow") that
//! sees only the sub-history concerning that address; events, outgoing datagrams (raw bytes and
//! destination address) and the deadline must agree.
//!
//! The datagram text form is the one of harness/src/bin/conn.rs.
use std::collections::{BTreeMap, VecDeque};
use std::convert::Infallible;
use std::sync::atomic::{AtomicU64, Ordering};
use std::sync::{Arc, Mutex};
use std::time::{SystemTime, UNIX_EPOCH};

use libtw2_net::connection::{self, Connection, ReceiveChunk};
use libtw2_net::net::{Callback as NetCallback, Chunk, ChunkOrEvent, Net, PeerId, Warning as NetWarning};
use libtw2_net::protocol;
use libtw2_net::Timestamp;
use tw2verif::*;

static HEART: AtomicU64 = AtomicU64::new(0);
static CURRENT: Mutex<Option<(String, String, String)>> = Mutex::new(None); // (case line, trace, description)
fn now_ms() -> u64 { SystemTime::now().duration_since(UNIX_EPOCH).unwrap().as_millis() as u64 }
type Shared = Arc<Mutex<Out>>;

const CONNECT_PACKET: &[u8; 12] = b"\x10\x00\x00\x01TKEN\xff\xff\xff\xff";
const CONNECT_PACKET_NO_TOKEN: &[u8; 4] = b"\x10\x00\x00\x01";

#[derive(Clone, Copy, Debug, Eq, Hash, Ord, PartialEq, PartialOrd)]
struct Addr(u8);

// ---------------- datagram -> abstract text (as in conn.rs) ----------------

fn chunks_txt6(payload: &[u8], n: u8, ws: &mut Vec<protocol::Warning>) -> String {
    let mut it = protocol::ChunksIter::new(payload, n);
    let mut v = vec![];
    while let Some(c) = it.next_warn(ws) {
        v.push(match c.vital {
            Some((s, r)) => format!("v{}.{}:{}", s, r as u8, hex(c.data)),
            None => format!("n:{}", hex(c.data)),
        });
    }
    let _ = it.next_warn(ws);
    if v.is_empty() { "-".into() } else { v.join(";") }
}

/// abstract text, or None when the reader rejects the datagram
fn dgram6(bytes: &[u8], hint: Option<bool>) -> Option<String> {
    use libtw2_net::protocol::*;
    let mut buf = [0u8; MAX_PACKETSIZE];
    let mut ws: Vec<Warning> = vec![];
    let p = Packet::read(&mut ws, bytes, hint, &mut buf[..]).ok()?;
    let t = |t: Option<Token>| t.map(|t| hex(&t.0)).unwrap_or("none".into());
    Some(match p {
        Packet::Connless(d) => format!("L|none|none|{}", hex(d)),
        Packet::Connected(c) => match c.type_ {
            ConnectedPacketType::Control(ctl) => format!("C|{}|{}|{}", t(c.token), c.ack, match ctl {
                ControlPacket::KeepAlive => "ka".to_string(),
                ControlPacket::Connect => "co:none".to_string(),
                ControlPacket::ConnectAccept => "ca".to_string(),
                ControlPacket::Accept => "ac".to_string(),
                ControlPacket::Close(r) => format!("cl:{}", hex(r)),
            }),
            ConnectedPacketType::Chunks(rr, n, payload) => {
                let cs = chunks_txt6(payload, n, &mut ws);
                format!("K|{}|{}|{}|{}|{}", t(c.token), c.ack, rr as u8, n, cs)
            }
        },
    })
}

fn warn_txt6(w: &connection::Warning) -> String {
    use libtw2_net::connection::Warning::*;
    match w { Packet(_) => "p".into(), Read(_) => "r".into(), TokenMismatch => "tm".into(), Unexpected => "ux".into() }
}

fn state_of(fp: &str) -> &str { fp.split(' ').next().unwrap_or("") }
fn field<'a>(fp: &'a str, key: &str) -> Option<&'a str> { fp.split(' ').find_map(|p| p.strip_prefix(key)) }
/// does a datagram a connection just sent carry a token? (fingerprints before / after the call)
fn sent_hint(before: Option<&str>, after: Option<&str>) -> Option<bool> {
    let f = |fp: Option<&str>| fp.and_then(|fp| match state_of(fp) {
        "Connecting" => Some(true),
        "Pending" => Some(field(fp, "tok=") != Some("none")),
        "Online" => Some(field(fp, "own=") != Some("none")),
        _ => None,
    });
    f(after).or(f(before)).or(Some(false))
}

// ---------------- a single real Connection (remote ends and shadows) ----------------

struct ConnCb { now: u64, rand: VecDeque<[u8; 4]>, sent: Vec<Vec<u8>> }
impl connection::Callback for ConnCb {
    type Error = Infallible;
    fn secure_random(&mut self, buffer: &mut [u8]) {
        let r = self.rand.pop_front().unwrap_or([0x5a; 4]);
        buffer.copy_from_slice(&r);
    }
    fn send(&mut self, buffer: &[u8]) -> Result<(), Infallible> { self.sent.push(buffer.to_vec()); Ok(()) }
    fn time(&mut self) -> Timestamp { Timestamp::from_usecs_since_epoch(self.now) }
}

#[derive(Clone, Debug, PartialEq)]
enum SEv { Connless(Vec<u8>), Chunk(Vec<u8>, bool), Ready, Disconnect(Vec<u8>) }

#[derive(Default)]
struct SOut { res: String, sent: Vec<Vec<u8>>, events: Vec<SEv>, warns: Vec<String> }

struct Single { conn: Connection, cb: ConnCb }
struct WS<'a>(&'a mut Vec<String>);
impl<'a> libtw2_warn::Warn<connection::Warning> for WS<'a> {
    fn warn(&mut self, w: connection::Warning) { self.0.push(warn_txt6(&w)); }
}
impl Single {
    fn new() -> Single { Single { conn: Connection::new(), cb: ConnCb { now: 0, rand: VecDeque::new(), sent: vec![] } } }
    fn fp(&self) -> String { self.conn.verif_fingerprint() }
    fn state(&self) -> String { state_of(&self.fp()).to_string() }
    fn needs_tick(&self) -> Option<u64> { self.conn.needs_tick().to_opt().map(|t| t.as_usecs_since_epoch()) }
    fn call(&mut self, now: u64, rnd: &[[u8; 4]], f: impl FnOnce(&mut Connection, &mut ConnCb, &mut SOut)) -> SOut {
        let mut out = SOut::default();
        out.res = "ok".into();
        self.cb.now = now;
        self.cb.rand = rnd.iter().cloned().collect();
        self.cb.sent.clear();
        let (conn, cb) = (&mut self.conn, &mut self.cb);
        if let Err(p) = guard(|| f(conn, cb, &mut out)) { out.res = format!("panic:{}", p); }
        out.sent = std::mem::take(&mut self.cb.sent);
        out
    }
    fn feed(&mut self, now: u64, rnd: &[[u8; 4]], d: &[u8]) -> SOut {
        self.call(now, rnd, |c, cb, o| {
            let mut buf = [0u8; protocol::MAX_PACKETSIZE];
            let mut ws = vec![];
            let (pkt, r) = c.feed(cb, &mut WS(&mut ws), d, &mut buf[..]);
            r.unwrap();
            for ev in pkt {
                o.events.push(match ev {
                    ReceiveChunk::Connless(d) => SEv::Connless(d.to_vec()),
                    ReceiveChunk::Connected(d, v) => SEv::Chunk(d.to_vec(), v),
                    ReceiveChunk::Ready => SEv::Ready,
                    ReceiveChunk::Disconnect(d) => SEv::Disconnect(d.to_vec()),
                });
            }
            o.warns = ws;
        })
    }
    fn op_send(&mut self, now: u64, d: &[u8], vital: bool) -> SOut {
        self.call(now, &[], |c, cb, o| match c.send(cb, d, vital) {
            Ok(()) => {}
            Err(connection::Error::TooLongData) => o.res = "toolong".into(),
            Err(connection::Error::Callback(e)) => match e {},
        })
    }
}

// ---------------- the endpoint under test ----------------

struct NetCb { now: u64, rand: VecDeque<[u8; 4]>, sent: Vec<(u8, Vec<u8>)> }
impl NetCallback<Addr> for NetCb {
    type Error = Infallible;
    fn secure_random(&mut self, buffer: &mut [u8]) {
        let r = self.rand.pop_front().unwrap_or([0x5a; 4]);
        buffer.copy_from_slice(&r);
    }
    fn send(&mut self, addr: Addr, data: &[u8]) -> Result<(), Infallible> { self.sent.push((addr.0, data.to_vec())); Ok(()) }
    fn time(&mut self) -> Timestamp { Timestamp::from_usecs_since_epoch(self.now) }
}
struct WN<'a>(&'a mut Vec<String>);
impl<'a> libtw2_warn::Warn<NetWarning<Addr>> for WN<'a> {
    fn warn(&mut self, w: NetWarning<Addr>) {
        let s = match &w {
            NetWarning::Peer(a, pid, w) => (warn_txt6(w), format!("P:{}:{}:", a.0, pid.0)),
            NetWarning::Connless(a, w) => (warn_txt6(w), format!("L:{}:", a.0)),
        };
        // packet-level / read warnings are the packet codec's business (C05/C06)
        if s.0 != "p" && s.0 != "r" { self.0.push(format!("{}{}", s.1, s.0)); }
    }
}

#[derive(Default)]
struct NOut { res: String, pid: Option<u32>, sent: Vec<(u8, Vec<u8>)>, events: Vec<String>, warns: Vec<String> }

#[derive(Clone, Debug)]
enum L {
    Clock(u64),
    Feed(usize, Vec<u8>),
    Connect(usize),
    Accept(u32),
    Reject(u32, Vec<u8>),
    Disconnect(u32, Vec<u8>),
    Ignore(u32),
    Send(u32, Vec<u8>, bool),
    Flush(u32),
    Connless(usize, Vec<u8>),
    Tick,
}

struct Shadow { s: Single, tok: bool }

struct World {
    trace: String,
    accepting: bool,
    now: u64,
    net: Net<Addr>,
    cb: NetCb,
    naddr: usize,
    shadow: Vec<Option<Shadow>>,
    pid_of: Vec<Option<u32>>,
    owner: BTreeMap<u32, usize>,
    next_probe: u32, // pids below this bound are probed for liveness after every call
    remote: Vec<Single>,
    role_client: Vec<bool>,
    to_net: Vec<Vec<Vec<u8>>>,
    to_remote: Vec<Vec<Vec<u8>>>,
    captured: Vec<Vec<u8>>,
    dead: bool,
    contract: bool, // the history so far respects valid_net_api
    steps: usize,
    rnd_src: Rng,
}

fn ev_txt(pid: u32, a: usize, e: &SEv) -> String {
    match e {
        SEv::Connless(d) => format!("L:{}:{}:{}", a, pid, hex(d)),
        SEv::Chunk(d, v) => format!("K:{}:{}:{}", pid, hex(d), *v as u8),
        SEv::Ready => format!("R:{}", pid),
        SEv::Disconnect(d) => format!("D:{}:{}", pid, hex(d)),
    }
}
fn t_txt(t: Option<u64>) -> String { t.map(|t| t.to_string()).unwrap_or("-".into()) }
fn tmin(a: Option<u64>, b: Option<u64>) -> Option<u64> { match (a, b) { (None, x) => x, (x, None) => x, (Some(x), Some(y)) => Some(x.min(y)) } }

impl World {
    fn new(o: &Shared, trace: String, accepting: bool, naddr: usize, seed: u64, r: &mut Rng) -> World {
        o.lock().unwrap().case(&format!("net\t{}\tnew\t{}", trace, accepting as u8), "ok", "");
        World {
            trace, accepting, now: 0,
            net: if accepting { Net::server() } else { Net::client() },
            cb: NetCb { now: 0, rand: VecDeque::new(), sent: vec![] },
            naddr,
            shadow: (0..naddr).map(|_| None).collect(),
            pid_of: vec![None; naddr],
            owner: BTreeMap::new(),
            next_probe: 3,
            remote: (0..naddr).map(|_| Single::new()).collect(),
            role_client: (0..naddr).map(|_| accepting && r.chance(3, 4) || r.chance(1, 4)).collect(),
            to_net: vec![vec![]; naddr],
            to_remote: vec![vec![]; naddr],
            captured: vec![],
            dead: false, contract: true, steps: 0,
            rnd_src: Rng::new(seed ^ 0x20c20),
        }
    }
    fn live(&self) -> Vec<u32> {
        (0..self.next_probe).filter(|&p| {
            let mut c = ChunkOrEvent::Chunk(Chunk { pid: PeerId(p), vital: false, data: &[] });
            self.net.is_receive_chunk_still_valid(&mut c)
        }).collect()
    }
    fn shadow_state(&self, a: usize) -> String { self.shadow[a].as_ref().map(|s| s.s.state()).unwrap_or("None".into()) }
    fn draw_rnd(&mut self) -> Vec<[u8; 4]> {
        let r = &mut self.rnd_src;
        let mut v = vec![];
        for _ in 0..r.below(3) { v.push(match r.below(5) { 0 => [0xff; 4], 1 => [0; 4], _ => [r.byte(), r.byte(), r.byte(), r.byte()] }); }
        let mut last = [r.byte(), r.byte(), r.byte(), r.byte() | 1];
        if last == [0xff; 4] { last = [1, 2, 3, 4]; }
        v.push(last);
        v
    }

    /// run one label on the real endpoint; write the case and result lines; run the oracles
    fn apply(&mut self, o: &Shared, l: &L) {
        if self.dead { return; }
        self.steps += 1;
        if let L::Clock(dt) = l {
            self.now += dt;
            o.lock().unwrap().case(&format!("net\t{}\tclock\t{}", self.trace, self.now), "ok", "");
            return;
        }
        let rnd = self.draw_rnd();
        let rnd_txt = rnd.iter().map(|x| hex(x)).collect::<Vec<_>>().join(",");
        let na = self.naddr;
        let before_fp: Vec<Option<String>> = (0..na).map(|a| self.shadow[a].as_ref().map(|s| s.s.fp())).collect();
        let live_before = self.live();
        // ---- the label: case text, the address it concerns, is it inside the API contract?
        let pid_addr = |w: &World, p: u32| w.owner.get(&p).cloned();
        let st = |w: &World, p: u32| pid_addr(w, p).map(|a| w.shadow_state(a)).unwrap_or("None".into());
        let reason_ok = |r: &Vec<u8>| r.len() <= 127 && r.iter().all(|&b| b != 0);
        let (opname, case_op, concerned, valid): (&str, String, Option<usize>, bool) = match l {
            L::Feed(a, b) => {
                let t = |h| dgram6(b, h).unwrap_or("garbage".into());
                ("feed", format!("feed\t{}\t{}\t{}\t{}\t{}", rnd_txt, a, t(None), t(Some(true)), t(Some(false))), Some(*a), true)
            }
            L::Connect(a) => ("connect", format!("connect\t{}\t{}", rnd_txt, a), Some(*a), self.pid_of[*a].is_none()),
            L::Accept(p) => ("accept", format!("accept\t{}\t{}", rnd_txt, p), pid_addr(self, *p), st(self, *p) == "Unconnected"),
            L::Reject(p, r) => ("reject", format!("reject\t{}\t{}\t{}", rnd_txt, p, hex(r)), pid_addr(self, *p), st(self, *p) == "Unconnected" && reason_ok(r)),
            L::Disconnect(p, r) => ("disc", format!("disc\t{}\t{}\t{}", rnd_txt, p, hex(r)), pid_addr(self, *p),
                                    !matches!(st(self, *p).as_str(), "None" | "Unconnected") && reason_ok(r)),
            L::Ignore(p) => ("ignore", format!("ignore\t{}\t{}", rnd_txt, p), pid_addr(self, *p), st(self, *p) != "None"),
            L::Send(p, d, v) => ("send", format!("send\t{}\t{}\t{}\t{}", rnd_txt, p, hex(d), *v as u8), pid_addr(self, *p), st(self, *p) == "Online"),
            L::Flush(p) => ("flush", format!("flush\t{}\t{}", rnd_txt, p), pid_addr(self, *p), st(self, *p) == "Online"),
            L::Connless(a, d) => ("connless", format!("connless\t{}\t{}\t{}", rnd_txt, a, hex(d)), Some(*a), true),
            L::Tick => ("tick", format!("tick\t{}", rnd_txt), None, true),
            L::Clock(_) => unreachable!(),
        };
        if !valid { self.contract = false; }
        let case_line = format!("net\t{}\t{}", self.trace, case_op);
        // ---- the real endpoint, under the watchdog
        *CURRENT.lock().unwrap() = Some((case_line.clone(), self.trace.clone(),
            format!("C20 step {}: Net::{} did not return within 8 s", self.steps, opname)));
        HEART.store(now_ms(), Ordering::SeqCst);
        let mut out = NOut::default();
        out.res = "ok".into();
        self.cb.now = self.now;
        self.cb.rand = rnd.iter().cloned().collect();
        self.cb.sent.clear();
        {
            let (net, cb, out) = (&mut self.net, &mut self.cb, &mut out);
            let r = guard(|| match l {
                L::Feed(a, b) => {
                    let mut buf = [0u8; protocol::MAX_PACKETSIZE];
                    let mut ws = vec![];
                    let (pkt, r) = net.feed(cb, &mut WN(&mut ws), Addr(*a as u8), b, &mut buf[..]);
                    r.unwrap();
                    for ev in pkt {
                        out.events.push(match ev {
                            ChunkOrEvent::Chunk(c) => format!("K:{}:{}:{}", c.pid.0, hex(c.data), c.vital as u8),
                            ChunkOrEvent::Connless(c) => format!("L:{}:{}:{}", c.addr.0, c.pid.map(|p| p.0.to_string()).unwrap_or("-".into()), hex(c.data)),
                            ChunkOrEvent::Connect(p) => format!("C:{}", p.0),
                            ChunkOrEvent::Ready(p) => format!("R:{}", p.0),
                            ChunkOrEvent::Disconnect(p, r) => format!("D:{}:{}", p.0, hex(r)),
                        });
                    }
                    out.warns = ws;
                }
                L::Connect(a) => { let (pid, r) = net.connect(cb, Addr(*a as u8)); r.unwrap(); out.pid = Some(pid.0); }
                L::Accept(p) => net.accept(cb, PeerId(*p)).unwrap(),
                L::Reject(p, r) => net.reject(cb, PeerId(*p), r).unwrap(),
                L::Disconnect(p, r) => net.disconnect(cb, PeerId(*p), r).unwrap(),
                L::Ignore(p) => net.ignore(PeerId(*p)),
                L::Send(p, d, v) => match net.send(cb, Chunk { pid: PeerId(*p), vital: *v, data: d }) {
                    Ok(()) => {}
                    Err(connection::Error::TooLongData) => out.res = "toolong".into(),
                    Err(connection::Error::Callback(e)) => match e {},
                },
                L::Flush(p) => net.flush(cb, PeerId(*p)).unwrap(),
                L::Connless(a, d) => match net.send_connless(cb, Addr(*a as u8), d) {
                    Ok(()) => {}
                    Err(connection::Error::TooLongData) => out.res = "toolong".into(),
                    Err(connection::Error::Callback(e)) => match e {},
                },
                L::Tick => { for e in net.tick(cb) { match e {} } }
                L::Clock(_) => unreachable!(),
            });
            if let Err(p) = r { out.res = format!("panic:{}", p); }
        }
        HEART.store(0, Ordering::SeqCst);
        out.sent = std::mem::take(&mut self.cb.sent);
        let panicked = out.res.starts_with("panic");
        if let Some(p) = out.pid { self.next_probe = self.next_probe.max(p + 3); }
        for e in &out.events { if let Some(p) = e.strip_prefix("C:") { let p: u32 = p.parse().unwrap(); self.next_probe = self.next_probe.max(p + 3); } }
        let live_after = self.live();
        let net_tick = self.net.needs_tick().to_opt().map(|t| t.as_usecs_since_epoch());

        // ---- the isolation oracle: the projected history on independent connections
        let mut exp_events: Vec<String> = vec![];
        let mut exp_warns: Vec<String> = vec![];
        let mut exp_sent: Vec<Vec<Vec<u8>>> = vec![vec![]; na];
        let mut exp_res = "ok".to_string();
        let mut exp_live = live_before.clone();
        let mut shadow_panic: Option<String> = None;
        let mut after_fp: Vec<Option<String>> = before_fp.clone();
        let now = self.now;
        let mut new_pid: Option<u32> = None;
        if self.contract && !panicked {
            match l {
                L::Feed(a, b) => {
                    let a = *a;
                    let routed = self.shadow[a].as_ref().map(|s| s.s.state() != "Unconnected").unwrap_or(false);
                    if routed {
                        let pid = self.pid_of[a].unwrap();
                        let so = self.shadow[a].as_mut().unwrap().s.feed(now, &rnd, b);
                        if so.res != "ok" { shadow_panic = Some(so.res.clone()); }
                        exp_events = so.events.iter().map(|e| ev_txt(pid, a, e)).collect();
                        exp_warns = so.warns.iter().filter(|w| *w != "p" && *w != "r").map(|w| format!("P:{}:{}:{}", a, pid, w)).collect();
                        exp_sent[a] = so.sent;
                        after_fp[a] = Some(self.shadow[a].as_ref().unwrap().s.fp());
                        if so.events.iter().any(|e| matches!(e, SEv::Disconnect(_))) {
                            self.shadow[a] = None; self.pid_of[a] = None; self.owner.remove(&pid);
                            exp_live.retain(|&p| p != pid);
                        }
                    } else {
                        // nobody takes it: the stateless front door
                        match dgram6(b, None) {
                            None => {}
                            Some(t) if t.starts_with("L|") => exp_events.push(format!("L:{}:-:{}", a, t.rsplit('|').next().unwrap())),
                            Some(t) if t.starts_with("C|") && t.ends_with("|co:none") => {
                                if self.shadow[a].is_some() {
                                    // a repeated Connect for a peer the application has not decided about yet
                                } else if self.accepting {
                                    // exactly one new pending peer, under a fresh pid
                                    let fresh: Vec<u32> = live_after.iter().cloned().filter(|p| !live_before.contains(p)).collect();
                                    o.lock().unwrap().check(fresh.len() == 1, "-", &self.trace, || format!("C20 unknown_addr step {}: a Connect from address {} on an accepting endpoint changed the live pids {:?} -> {:?}", self.steps, a, live_before, live_after));
                                    if let Some(&p) = fresh.first() {
                                        new_pid = Some(p);
                                        exp_events.push(format!("C:{}", p));
                                        exp_live.push(p); exp_live.sort();
                                        self.shadow[a] = Some(Shadow { s: Single::new(), tok: !t.starts_with("C|none|") });
                                        self.pid_of[a] = Some(p); self.owner.insert(p, a);
                                        after_fp[a] = Some(self.shadow[a].as_ref().unwrap().s.fp());
                                    }
                                } else { exp_warns.push(format!("L:{}:ux", a)); }
                            }
                            Some(_) => exp_warns.push(format!("L:{}:ux", a)),
                        }
                    }
                }
                L::Connect(a) => {
                    let a = *a;
                    let mut s = Single::new();
                    let so = s.call(now, &rnd, |c, cb, _| c.connect(cb).unwrap());
                    exp_sent[a] = so.sent;
                    if let Some(p) = out.pid {
                        o.lock().unwrap().check(!live_before.contains(&p), "-", &self.trace, || format!("C20 pids_distinct step {}: connect returned pid {} which is live ({:?})", self.steps, p, live_before));
                        exp_live.push(p); exp_live.sort();
                        after_fp[a] = Some(s.fp());
                        self.shadow[a] = Some(Shadow { s, tok: false });
                        self.pid_of[a] = Some(p); self.owner.insert(p, a);
                    }
                }
                L::Accept(p) => {
                    let a = concerned.unwrap();
                    let sh = self.shadow[a].as_mut().unwrap();
                    let pkt: &[u8] = if sh.tok { CONNECT_PACKET } else { CONNECT_PACKET_NO_TOKEN };
                    let so = sh.s.feed(now, &rnd, pkt);
                    if so.res != "ok" { shadow_panic = Some(so.res.clone()); }
                    exp_sent[a] = so.sent;
                    after_fp[a] = Some(sh.s.fp());
                    let _ = p;
                }
                L::Reject(p, r) => {
                    // no connection state exists yet: a plain Close goes to the address, the peer is dropped
                    let a = concerned.unwrap();
                    let mut d = vec![0x10, 0x00, 0x00, 0x04];
                    d.extend_from_slice(r); d.push(0);
                    exp_sent[a] = vec![d];
                    self.shadow[a] = None; self.pid_of[a] = None; self.owner.remove(p); after_fp[a] = None;
                    exp_live.retain(|q| q != p);
                }
                L::Disconnect(p, r) => {
                    let a = concerned.unwrap();
                    let so = self.shadow[a].as_mut().unwrap().s.call(now, &rnd, |c, cb, _| c.disconnect(cb, r).unwrap());
                    if so.res != "ok" { shadow_panic = Some(so.res.clone()); }
                    exp_sent[a] = so.sent;
                    after_fp[a] = Some(self.shadow[a].as_ref().unwrap().s.fp());
                    self.shadow[a] = None; self.pid_of[a] = None; self.owner.remove(p);
                    exp_live.retain(|q| q != p);
                }
                L::Ignore(p) => {
                    let a = concerned.unwrap();
                    self.shadow[a] = None; self.pid_of[a] = None; self.owner.remove(p); after_fp[a] = None;
                    exp_live.retain(|q| q != p);
                }
                L::Send(_, d, v) => {
                    let a = concerned.unwrap();
                    let so = self.shadow[a].as_mut().unwrap().s.op_send(now, d, *v);
                    if so.res.starts_with("panic") { shadow_panic = Some(so.res.clone()); }
                    exp_res = so.res.clone();
                    exp_sent[a] = so.sent;
                    after_fp[a] = Some(self.shadow[a].as_ref().unwrap().s.fp());
                }
                L::Flush(_) => {
                    let a = concerned.unwrap();
                    let so = self.shadow[a].as_mut().unwrap().s.call(now, &rnd, |c, cb, _| c.flush(cb).unwrap());
                    if so.res != "ok" { shadow_panic = Some(so.res.clone()); }
                    exp_sent[a] = so.sent;
                    after_fp[a] = Some(self.shadow[a].as_ref().unwrap().s.fp());
                }
                L::Connless(a, d) => {
                    if d.len() > 1390 { exp_res = "toolong".into(); } else {
                        let mut x = vec![0xffu8; 6]; x.extend_from_slice(d); exp_sent[*a] = vec![x];
                    }
                }
                L::Tick => {
                    for a in 0..na {
                        if let Some(sh) = self.shadow[a].as_mut() {
                            let so = sh.s.call(now, &rnd, |c, cb, _| c.tick(cb).unwrap());
                            if so.res != "ok" { shadow_panic = Some(so.res.clone()); }
                            exp_sent[a] = so.sent;
                            after_fp[a] = Some(sh.s.fp());
                        }
                    }
                }
                L::Clock(_) => unreachable!(),
            }
        }

        // ---- result line (abstract datagrams: parsed by the real reader with the sender's token mode)
        let mut guard_ = o.lock().unwrap();
        let og = &mut *guard_;
        let sent_txt: Vec<String> = out.sent.iter().map(|(a, d)| {
            let a_ = *a as usize;
            let h = if let L::Connect(_) = l { Some(true) } else if a_ < na { sent_hint(before_fp[a_].as_deref(), after_fp[a_].as_deref()) } else { Some(false) };
            match dgram6(d, h) { Some(t) => format!("{}>{}", a, t), None => format!("{}>unreadable:{}", a, hex(d)) }
        }).collect();
        let dash = |v: &Vec<String>| if v.is_empty() { "-".to_string() } else { v.join(",") };
        let live_txt = |v: &Vec<u32>| if v.is_empty() { "-".to_string() } else { v.iter().map(|p| p.to_string()).collect::<Vec<_>>().join(",") };
        let res = if panicked { "panic".to_string() } else {
            format!("res={} pid={} sent={} ev={} warn={} tick={} live={}", out.res,
                out.pid.map(|p| p.to_string()).unwrap_or("-".into()), dash(&sent_txt), dash(&out.events), dash(&out.warns),
                t_txt(net_tick), live_txt(&live_after))
        };
        let sb = concerned.map(|a| before_fp.get(a).cloned().flatten().map(|f| state_of(&f).to_string()).unwrap_or("None".into())).unwrap_or("-".into());
        let sa = concerned.map(|a| after_fp.get(a).cloned().flatten().map(|f| state_of(&f).to_string()).unwrap_or("None".into())).unwrap_or("-".into());
        let sig = format!("{}{}:{}>{}:{}{}{}{}", opname, self.accepting as u8, sb, sa, out.res.chars().next().unwrap(), out.sent.len().min(3), out.events.len().min(3), out.warns.len().min(2));
        og.case(&case_line, &res, &sig);

        if panicked {
            self.dead = true;
            // inside the API contract no call panics: one remote address must not take the endpoint down
            og.check(!self.contract, "-", &self.trace, || format!("C20 step {}: Net::{} panicked inside the API contract: {} (label {:?}, shadow state {})", self.steps, opname, out.res, short(l), sb));
            return;
        }
        // outside the API contract only the model comparison of the offending call applies; the history ends here
        if !self.contract { self.dead = true; return; }

        // ---- compare with the shadows
        let steps = self.steps;
        og.check(shadow_panic.is_none(), "-", &self.trace, || format!("C20 step {}: the reference connection panicked on {:?}: {:?}", steps, short(l), shadow_panic));
        og.check(out.res == exp_res, "-", &self.trace, || format!("C20 isolation step {}: {} returned {} but the independent connection {}", steps, opname, out.res, exp_res));
        og.check(out.events == exp_events, "-", &self.trace, || format!("C20 isolation step {}: {:?}: events {:?}, the independent connection of that address gives {:?}", steps, short(l), out.events, exp_events));
        og.check(out.warns == exp_warns, "-", &self.trace, || format!("C20 isolation step {}: {:?}: warnings {:?}, expected {:?}", steps, short(l), out.warns, exp_warns));
        for a in 0..na {
            let got: Vec<&Vec<u8>> = out.sent.iter().filter(|(x, _)| *x as usize == a).map(|(_, d)| d).collect();
            let same = got.len() == exp_sent[a].len() && got.iter().zip(exp_sent[a].iter()).all(|(x, y)| *x == y);
            og.check(same, "-", &self.trace, || format!("C20 isolation step {}: {:?}: datagrams sent to address {}: {:?}, the independent connection of that address sends {:?}", steps, short(l), a,
                got.iter().map(|d| hex(d)).collect::<Vec<_>>(), exp_sent[a].iter().map(|d| hex(d)).collect::<Vec<_>>()));
        }
        og.check(out.sent.iter().all(|(x, _)| (*x as usize) < na), "-", &self.trace, || format!("C20 isolation step {}: a datagram went to an address nobody uses", steps));
        let exp_tick = (0..na).fold(None, |m, a| tmin(m, self.shadow[a].as_ref().and_then(|s| s.s.needs_tick())));
        og.check(net_tick == exp_tick, "-", &self.trace, || format!("C20 isolation step {}: {:?}: needs_tick {:?}, minimum over the independent connections {:?}", steps, short(l), net_tick, exp_tick));
        // peer table: distinct live pids, exactly the expected ones
        og.check(live_after == exp_live, "-", &self.trace, || format!("C20 peers step {}: {:?}: live pids {:?}, expected {:?} (before: {:?})", steps, short(l), live_after, exp_live, live_before));
        if let Some(p) = new_pid { og.check(!live_before.contains(&p), "-", &self.trace, || format!("C20 pids_distinct step {}: new pid {} was live", steps, p)); }
        if let L::Feed(a, _) = l {
            if before_fp[*a].is_none() {
                // C20_unknown_addr: the table changes iff this is a Connect on an accepting endpoint
                let changed = live_after != live_before;
                let is_connect = new_pid.is_some();
                og.check(changed == is_connect, "-", &self.trace, || format!("C20 unknown_addr step {}: datagram from address {} without a peer: live pids {:?} -> {:?}", steps, a, live_before, live_after));
                og.count("feed-unknown-addr");
            }
        }
        match l {
            L::Disconnect(p, _) | L::Reject(p, _) | L::Ignore(p) => {
                og.check(!live_after.contains(p), "-", &self.trace, || format!("C20 gone_after_disconnect step {}: pid {} still live after {}", steps, p, opname));
            }
            _ => {}
        }
        for e in &out.events {
            if let Some(r) = e.strip_prefix("D:") {
                let p: u32 = r.split(':').next().unwrap().parse().unwrap();
                og.check(!live_after.contains(&p), "-", &self.trace, || format!("C20 gone_after_disconnect step {}: pid {} still live after its Disconnect event", steps, p));
            }
        }
        drop(guard_);
        self.route(out.sent);
    }
    fn route(&mut self, sent: Vec<(u8, Vec<u8>)>) {
        for (a, d) in sent {
            if (a as usize) < self.naddr {
                if self.captured.len() < 48 { self.captured.push(d.clone()); }
                if self.to_remote[a as usize].len() < 64 { self.to_remote[a as usize].push(d); }
            }
        }
    }

    // ---------------- the remote ends (traffic generators only) ----------------
    fn remote_do(&mut self, a: usize, f: impl FnOnce(&mut Single, u64) -> SOut) -> SOut {
        let now = self.now;
        let so = f(&mut self.remote[a], now);
        for d in &so.sent {
            if self.captured.len() < 48 { self.captured.push(d.clone()); }
            if self.to_net[a].len() < 64 { self.to_net[a].push(d.clone()); }
        }
        if so.res.starts_with("panic") || self.remote[a].state() == "Disconnected" { self.remote[a] = Single::new(); }
        so
    }
    fn remote_rnd(&mut self) -> Vec<[u8; 4]> { let r = &mut self.rnd_src; vec![[r.byte(), r.byte() | 1, r.byte(), r.byte() & 0xfe]] }
}

fn short(l: &L) -> String {
    let s = format!("{:?}", l);
    if s.len() > 120 { format!("{}..", &s[..120]) } else { s }
}

fn payload(r: &mut Rng) -> Vec<u8> {
    let n = match r.below(12) {
        0..=6 => r.below(24) as usize,
        7..=8 => *r.pick(&[0usize, 1, 100, 500, 1000, 1023]),
        9 => *r.pick(&[1024usize, 1390, 1391, 1400]),
        _ => r.below(300) as usize,
    };
    let mode = r.below(3);
    (0..n).map(|i| match mode { 0 => 0, 1 => (i % 7) as u8 + b'a', _ => r.byte() }).collect()
}
fn reason(r: &mut Rng) -> Vec<u8> {
    let n = *r.pick(&[0usize, 1, 4, 11, 126, 127]);
    (0..n).map(|_| 1 + r.byte() % 255).collect()
}

impl World {
    fn pending_pids(&self) -> Vec<u32> { self.owner.iter().filter(|(_, &a)| self.shadow_state(a) == "Unconnected").map(|(p, _)| *p).collect() }
    fn pids_in(&self, st: &str) -> Vec<u32> { self.owner.iter().filter(|(_, &a)| self.shadow_state(a) == st).map(|(p, _)| *p).collect() }

    fn deliver_to_net(&mut self, o: &Shared, r: &mut Rng, a: usize) {
        if self.to_net[a].is_empty() { return; }
        let k = if r.chance(4, 5) { 0 } else { r.below(self.to_net[a].len() as u64) as usize };
        if r.chance(1, 12) { self.to_net[a].remove(k); return; }
        let d = if r.chance(1, 10) { self.to_net[a][k].clone() } else { self.to_net[a].remove(k) };
        self.apply(o, &L::Feed(a, d));
    }
    fn deliver_to_remote(&mut self, r: &mut Rng, a: usize) {
        if self.to_remote[a].is_empty() { return; }
        let k = if r.chance(4, 5) { 0 } else { r.below(self.to_remote[a].len() as u64) as usize };
        let d = self.to_remote[a].remove(k);
        if r.chance(1, 12) { return; }
        let rnd = self.remote_rnd();
        self.remote_do(a, |s, now| s.feed(now, &rnd, &d));
    }
    fn remote_step(&mut self, r: &mut Rng, a: usize) {
        match self.remote[a].state().as_str() {
            "Unconnected" => {
                if self.role_client[a] && (self.pid_of[a].is_none() || r.chance(1, 6)) {
                    let so = self.remote_do(a, |s, now| s.call(now, &[], |c, cb, _| c.connect(cb).unwrap()));
                    // a client that does not know the token extension sends the plain Connect
                    if r.chance(1, 3) { let _ = so; if let Some(d) = self.to_net[a].last_mut() { if d.len() == 12 { d.truncate(4); } } }
                }
            }
            "Online" => match r.below(10) {
                0..=5 => { let d = payload(r); let v = r.chance(2, 3); self.remote_do(a, |s, now| s.op_send(now, &d, v)); }
                6..=8 => { self.remote_do(a, |s, now| s.call(now, &[], |c, cb, _| c.flush(cb).unwrap())); }
                _ => { if r.chance(1, 3) { let rs = reason(r); self.remote_do(a, |s, now| s.call(now, &[], |c, cb, _| c.disconnect(cb, &rs).unwrap())); } }
            },
            "Connecting" | "Pending" => {
                if r.chance(1, 10) { let rs = reason(r); self.remote_do(a, |s, now| s.call(now, &[], |c, cb, _| c.disconnect(cb, &rs).unwrap())); }
                else { self.remote_do(a, |s, now| s.call(now, &[], |c, cb, _| c.tick(cb).unwrap())); }
            }
            _ => {}
        }
    }
    fn hostile_feed(&mut self, o: &Shared, r: &mut Rng, a: usize) {
        let mut d = if self.captured.is_empty() || r.chance(1, 5) { let n = r.below(40) as usize; r.bytes(n) } else { r.pick(&self.captured).clone() };
        match r.below(7) {
            0 => { let k = r.below(d.len() as u64 + 1) as usize; d.truncate(k); }
            1 => { if !d.is_empty() { let k = r.below(d.len() as u64) as usize; d[k] ^= 1 << r.below(8); } }
            2 => { let n = d.len(); if n >= 4 { for j in 0..4 { d[n - 4 + j] = r.byte(); } } }
            3 => { if !d.is_empty() { d[0] ^= *r.pick(&[0x10u8, 0x20, 0x40, 0x80, 0x08, 0x04]); } }
            4 => { d = r.pick(&[CONNECT_PACKET.to_vec(), CONNECT_PACKET_NO_TOKEN.to_vec(), b"\x10\x00\x00\x04bye\0".to_vec(), b"\x10\x00\x00\x00".to_vec(), b"\x10\x00\x00\x03".to_vec()]).clone(); }
            _ => {} // a datagram of another address, replayed verbatim from this one
        }
        self.apply(o, &L::Feed(a, d));
    }
    fn random_step(&mut self, o: &Shared, r: &mut Rng, hostile: bool, invalid: bool) {
        let a = r.below(self.naddr as u64) as usize;
        match r.below(100) {
            0..=9 => self.remote_step(r, a),
            10..=31 => self.deliver_to_net(o, r, a),
            32..=47 => self.deliver_to_remote(r, a),
            48..=57 => {
                let p = self.pending_pids();
                if !p.is_empty() {
                    let pid = *r.pick(&p);
                    match r.below(10) {
                        0..=5 => self.apply(o, &L::Accept(pid)),
                        6..=7 => { let rs = reason(r); self.apply(o, &L::Reject(pid, rs)); }
                        8 => self.apply(o, &L::Ignore(pid)),
                        _ => {}
                    }
                }
            }
            58..=71 => {
                let p = self.pids_in("Online");
                if !p.is_empty() {
                    let pid = *r.pick(&p);
                    match r.below(12) {
                        0..=6 => { let d = payload(r); let v = r.chance(2, 3); self.apply(o, &L::Send(pid, d, v)); }
                        7..=9 => self.apply(o, &L::Flush(pid)),
                        10 => { let rs = reason(r); self.apply(o, &L::Disconnect(pid, rs)); }
                        _ => { if r.chance(1, 3) { self.apply(o, &L::Ignore(pid)); } }
                    }
                } else {
                    let mut p = self.pids_in("Connecting"); p.extend(self.pids_in("Pending"));
                    if !p.is_empty() && r.chance(1, 5) { let pid = *r.pick(&p); let rs = reason(r); self.apply(o, &L::Disconnect(pid, rs)); }
                }
            }
            72..=76 => { if self.pid_of[a].is_none() && !self.role_client[a] && self.remote[a].state() == "Unconnected" { self.apply(o, &L::Connect(a)); } }
            77..=84 => { self.apply(o, &L::Tick); for b in 0..self.naddr { if r.chance(1, 2) { self.remote_do(b, |s, now| s.call(now, &[], |c, cb, _| c.tick(cb).unwrap())); } } }
            85..=89 => { let dt = *r.pick(&[1u64, 1000, 100_000, 499_999, 500_000, 500_001, 999_999, 1_000_000, 1_000_001, 2_500_000]); self.apply(o, &L::Clock(dt)); }
            90..=91 => { let d = payload(r); self.apply(o, &L::Connless(a, d)); }
            92..=93 => { let d = payload(r); if d.len() <= 1390 { let mut x = vec![0xffu8; 6]; x.extend_from_slice(&d); self.apply(o, &L::Feed(a, x)); } }
            _ => {
                if invalid && r.chance(1, 12) { self.invalid_call(o, r, a); }
                else if hostile { self.hostile_feed(o, r, a); } else { self.deliver_to_net(o, r, a); }
            }
        }
    }
    /// calls outside valid_net_api: the model must still agree (a panic on both sides, or the same behaviour)
    fn invalid_call(&mut self, o: &Shared, r: &mut Rng, a: usize) {
        let unknown = self.next_probe + 1 + r.below(3) as u32;
        let anypid = self.owner.keys().cloned().collect::<Vec<_>>();
        match r.below(8) {
            0 => self.apply(o, &L::Flush(unknown)),
            1 => self.apply(o, &L::Ignore(unknown)),
            2 => self.apply(o, &L::Accept(unknown)),
            3 => { if !anypid.is_empty() { let p = *r.pick(&anypid); if !self.pending_pids().contains(&p) { self.apply(o, &L::Accept(p)); } } }
            4 => { let p = self.pending_pids(); if !p.is_empty() { let p = *r.pick(&p); self.apply(o, &L::Disconnect(p, b"x".to_vec())); } }
            5 => { let p = self.pids_in("Connecting"); if !p.is_empty() { let p = *r.pick(&p); self.apply(o, &L::Send(p, vec![1], true)); } }
            6 => { if self.pid_of[a].is_some() { self.apply(o, &L::Connect(a)); } }
            _ => { let p = self.pids_in("Online"); if !p.is_empty() { let p = *r.pick(&p); self.apply(o, &L::Disconnect(p, b"a\0b".to_vec())); } }
        }
    }
    /// bring address a online through a loss-free handshake (client role: the remote connects; else the endpoint does)
    fn handshake(&mut self, o: &Shared, a: usize) {
        if self.role_client[a] && self.accepting {
            self.remote_do(a, |s, now| s.call(now, &[], |c, cb, _| c.connect(cb).unwrap()));
        } else if !self.role_client[a] {
            self.apply(o, &L::Connect(a));
        } else { return; }
        for _ in 0..8 {
            while !self.to_net[a].is_empty() { let d = self.to_net[a].remove(0); self.apply(o, &L::Feed(a, d)); }
            for p in self.pending_pids() { if self.owner.get(&p) == Some(&a) { self.apply(o, &L::Accept(p)); } }
            while !self.to_remote[a].is_empty() { let d = self.to_remote[a].remove(0); let rnd = self.remote_rnd(); self.remote_do(a, |s, now| s.feed(now, &rnd, &d)); }
            if self.remote[a].state() == "Online" && self.shadow_state(a) == "Pending" && self.to_net[a].is_empty() {
                self.remote_do(a, |s, now| s.op_send(now, &[1, 2, 3], true));
                self.remote_do(a, |s, now| s.call(now, &[], |c, cb, _| c.flush(cb).unwrap()));
            }
            if self.remote[a].state() == "Pending" && self.shadow_state(a) == "Online" && self.to_remote[a].is_empty() {
                if let Some(p) = self.pid_of[a] { self.apply(o, &L::Send(p, vec![4, 5], true)); self.apply(o, &L::Flush(p)); }
            }
            if self.dead { return; }
        }
    }
}

/// histories written out by hand: the defects of DESIGN.md section 9 #21 and their neighbours
fn directed(a: &Args, o: &Shared, r: &mut Rng) {
    let mut tn = 0;
    let mut mk = |o: &Shared, r: &mut Rng, acc: bool| { tn += 1; World::new(o, format!("dir{}", tn), acc, 3, a.seed + tn as u64, r) };
    for tok in [true, false] {
        let c: Vec<u8> = if tok { CONNECT_PACKET.to_vec() } else { CONNECT_PACKET_NO_TOKEN.to_vec() };
        // #21: Connect, Connect again while the peer is pending, accept
        let mut w = mk(o, r, true);
        w.apply(o, &L::Feed(1, c.clone()));
        w.apply(o, &L::Feed(1, c.clone()));
        w.apply(o, &L::Clock(500_000)); w.apply(o, &L::Tick);
        w.apply(o, &L::Feed(1, c.clone()));
        if let Some(p) = w.pid_of[1] { w.apply(o, &L::Accept(p)); w.apply(o, &L::Feed(1, c.clone())); w.apply(o, &L::Clock(500_000)); w.apply(o, &L::Tick); }
        // reject / ignore / close-while-pending / traffic-while-pending
        let mut w = mk(o, r, true);
        w.apply(o, &L::Feed(0, c.clone()));
        if let Some(p) = w.pid_of[0] { w.apply(o, &L::Reject(p, b"This server is full".to_vec())); }
        w.apply(o, &L::Feed(0, c.clone()));
        if let Some(p) = w.pid_of[0] { w.apply(o, &L::Ignore(p)); }
        w.apply(o, &L::Feed(0, c.clone()));
        w.apply(o, &L::Feed(0, b"\x10\x00\x00\x04bye\0".to_vec()));
        w.apply(o, &L::Feed(0, b"\x10\x00\x00\x00".to_vec()));
        w.apply(o, &L::Feed(0, b"\x00\x00\x01\x40\x01\x01\x42".to_vec()));
        w.apply(o, &L::Feed(0, b"\xff\xff\xff\xff\xff\xffinfo".to_vec()));
        w.apply(o, &L::Feed(2, c.clone()));
        if let Some(p) = w.pid_of[0] { w.apply(o, &L::Reject(p, vec![])); }
        if let Some(p) = w.pid_of[2] { w.apply(o, &L::Accept(p)); }
        w.apply(o, &L::Tick);
        // a non-accepting endpoint
        let mut w = mk(o, r, false);
        w.apply(o, &L::Feed(0, c.clone()));
        w.apply(o, &L::Feed(0, b"\xff\xff\xff\xff\xff\xffinfo".to_vec()));
        w.apply(o, &L::Connect(1));
        w.apply(o, &L::Feed(0, c.clone()));
        w.apply(o, &L::Feed(1, c.clone()));
        // full life cycle, two addresses, then the same address again under a new pid
        let mut w = mk(o, r, true);
        w.role_client = vec![true, true, false];
        for x in 0..3 { w.handshake(o, x); }
        for x in 0..3 { if let Some(p) = w.pid_of[x] { if w.shadow_state(x) == "Online" { w.apply(o, &L::Send(p, vec![x as u8; 5], true)); w.apply(o, &L::Flush(p)); } } }
        if let Some(p) = w.pid_of[0] { w.apply(o, &L::Disconnect(p, b"bye".to_vec())); }
        w.apply(o, &L::Clock(1_000_001)); w.apply(o, &L::Tick);
        w.remote[0] = Single::new(); w.to_net[0].clear(); w.to_remote[0].clear();
        w.handshake(o, 0);
        w.apply(o, &L::Clock(1_000_001)); w.apply(o, &L::Tick);
        // the peer closes: Disconnect event, the pid is gone, the table is reordered (swap_remove)
        w.remote_do(1, |s, now| s.call(now, &[], |c, cb, _| c.disconnect(cb, b"quit").unwrap()));
        while !w.to_net[1].is_empty() { let d = w.to_net[1].remove(0); w.apply(o, &L::Feed(1, d)); }
        w.apply(o, &L::Clock(1_000_001)); w.apply(o, &L::Tick);
    }
}

/// a callback whose send can be made to fail (the model assumes an infallible callback; these
/// scenarios are judged by the statement of C20 alone: "a peer is gone after it was disconnected")
struct FailCb { fail: bool, sent: Vec<(u8, Vec<u8>)>, k: u8 }
impl NetCallback<Addr> for FailCb {
    type Error = &'static str;
    fn secure_random(&mut self, buffer: &mut [u8]) { self.k = self.k.wrapping_add(17); for b in buffer { *b = self.k | 1; } }
    fn send(&mut self, addr: Addr, data: &[u8]) -> Result<(), &'static str> {
        if self.fail { return Err("network unreachable"); }
        self.sent.push((addr.0, data.to_vec()));
        Ok(())
    }
    fn time(&mut self) -> Timestamp { Timestamp::from_usecs_since_epoch(0) }
}

fn failing_send_scenarios(o: &Shared) {
    fn connect(net: &mut Net<Addr>, cb: &mut FailCb, addr: Addr, pkt: &[u8]) -> Option<PeerId> {
        let mut buf = [0u8; protocol::MAX_PACKETSIZE];
        let (ev, res) = net.feed(cb, &mut libtw2_warn::Ignore, addr, pkt, &mut buf[..]);
        let mut pid = None;
        for e in ev { if let ChunkOrEvent::Connect(p) = e { pid = Some(p); } }
        let _ = res;
        pid
    }
    for (name, token, reject) in [("disconnect", true, false), ("disconnect-notoken", false, false), ("reject", true, true), ("reject-notoken", false, true)] {
        let id = format!("failing-send-{}", name);
        let r = guard(|| {
            let pkt: &[u8] = if token { CONNECT_PACKET } else { CONNECT_PACKET_NO_TOKEN };
            let mut cb = FailCb { fail: false, sent: vec![], k: 3 };
            let mut net: Net<Addr> = Net::server();
            let (a1, a2) = (Addr(1), Addr(2));
            let p1 = connect(&mut net, &mut cb, a1, pkt).ok_or("no Connect event for address 1")?;
            let p2 = connect(&mut net, &mut cb, a2, pkt).ok_or("no Connect event for address 2")?;
            if !reject { net.accept(&mut cb, p1).map_err(|_| "accept failed")?; }
            net.accept(&mut cb, p2).map_err(|_| "accept failed")?;
            cb.fail = true;
            let res = if reject { net.reject(&mut cb, p1, b"no") } else { net.disconnect(&mut cb, p1, b"bye") };
            cb.fail = false;
            if res.is_ok() { return Err("the failing send was not reported"); }
            // gone: a connect request from the same address is announced as a fresh pending peer
            let p1b = connect(&mut net, &mut cb, a1, pkt).ok_or("after the disconnect a connect request from the same address creates no pending peer: the peer is not gone")?;
            if p1b == p1 || p1b == p2 { return Err("the new pending peer reuses a live peer id"); }
            cb.sent.clear();
            net.accept(&mut cb, p1b).map_err(|_| "accept of the new peer failed")?;
            if cb.sent.len() != 1 || cb.sent[0].0 != 1 { return Err("accepting the new peer does not answer its address"); }
            Ok::<(), &'static str>(())
        });
        let mut g = o.lock().unwrap();
        g.tick("failing-send", &id);
        match r {
            Ok(Ok(())) => g.check(true, "-", &id, String::new),
            Ok(Err(e)) => g.check(false, "-", &id, || format!("C20 {} with a failing send callback: {}", name, e)),
            Err(p) => g.check(false, "-", &id, || format!("C20 {} with a failing send callback panicked: {}", name, p)),
        }
    }
}

/// many addresses waiting for the application's decision at once (oracle only): every one of them stays
/// known until it is accepted, rejected or ignored, whatever the others do
fn many_pending_scenario(o: &Shared) {
    for n in [17usize, 40, 200] {
        let id = format!("many-pending-{}", n);
        let r = guard(|| -> Result<(), String> {
            let mut cb = FailCb { fail: false, sent: vec![], k: 9 };
            let mut net: Net<Addr> = Net::server();
            let mut pids: Vec<PeerId> = vec![];
            let mut buf = [0u8; protocol::MAX_PACKETSIZE];
            for a in 0..n {
                let (ev, res) = net.feed(&mut cb, &mut libtw2_warn::Ignore, Addr(a as u8), if a % 2 == 0 { CONNECT_PACKET } else { CONNECT_PACKET_NO_TOKEN }, &mut buf[..]);
                let mut pid = None;
                for e in ev { if let ChunkOrEvent::Connect(p) = e { pid = Some(p); } }
                res.map_err(|e| e.to_string())?;
                pids.push(pid.ok_or(format!("no Connect event for address {}", a))?);
            }
            let mut d = pids.clone(); d.sort(); d.dedup();
            if d.len() != pids.len() { return Err("two pending peers share an id".into()); }
            // decide them oldest first: accept, reject, ignore in turn
            for (a, pid) in pids.iter().enumerate() {
                cb.sent.clear();
                match a % 3 {
                    0 => { net.accept(&mut cb, *pid).map_err(|e| e.to_string())?; if cb.sent.len() != 1 || cb.sent[0].0 != a as u8 { return Err(format!("accepting address {} sent {:?}", a, cb.sent.iter().map(|x| x.0).collect::<Vec<_>>())); } }
                    1 => { net.reject(&mut cb, *pid, b"full").map_err(|e| e.to_string())?; if cb.sent.len() != 1 || cb.sent[0].0 != a as u8 { return Err(format!("rejecting address {} sent {:?}", a, cb.sent.iter().map(|x| x.0).collect::<Vec<_>>())); } }
                    _ => { net.ignore(*pid); }
                }
            }
            Ok(())
        });
        let mut g = o.lock().unwrap();
        g.tick("many-pending", &id);
        match r {
            Ok(Ok(())) => g.check(true, "-", &id, String::new),
            Ok(Err(e)) => g.check(false, "-", &id, || format!("C20 {} addresses pending at once: {}", n, e)),
            Err(p) => g.check(false, "-", &id, || format!("C20 {} addresses pending at once: panic {}", n, p)),
        }
    }
}

fn main() {
    let a = Args::parse();
    let o: Shared = Arc::new(Mutex::new(Out::new(&a, "labelled histories over one real Net endpoint and 2-4 remote addresses (real Connections as traffic sources; loss, duplication, reordering, garbage, mutations, cross-address replays), application calls and ticks, accepting and non-accepting; every label compared with the Coq model and with independent per-address Connections (isolation oracle). distinct = distinct (operation, accepting?, peer state before > after, result, #datagrams, #events, #warnings) signatures")));
    {
        let o = o.clone();
        std::thread::spawn(move || loop {
            std::thread::sleep(std::time::Duration::from_millis(250));
            let h = HEART.load(Ordering::SeqCst);
            if h != 0 && now_ms() > h + 8000 {
                let cur = CURRENT.lock().unwrap().clone();
                let mut g = o.lock().unwrap();
                if let Some((case, trace, what)) = cur {
                    g.case(&case, "hang", "hang");
                    g.check(false, "-", &trace, || what);
                }
                g.finish_ref();
                std::process::exit(0);
            }
        });
    }
    // the canonical connect packets of net.rs, as the reader returns them
    {
        let mut g = o.lock().unwrap();
        g.check(dgram6(CONNECT_PACKET, None).as_deref() == Some("C|ffffffff|0|co:none"), "-", "const", || "CONNECT_PACKET does not parse as Connect with token ffffffff".into());
        g.check(dgram6(CONNECT_PACKET_NO_TOKEN, None).as_deref() == Some("C|none|0|co:none"), "-", "const", || "CONNECT_PACKET_NO_TOKEN does not parse as a plain Connect".into());
    }
    let th = a.thorough();
    let mut r = Rng::new(a.seed ^ 0xc20);
    directed(&a, &o, &mut r);
    failing_send_scenarios(&o);
    many_pending_scenario(&o);
    let modes: Vec<String> = if a.extra.is_empty() { vec!["server".into(), "client".into(), "mixed".into(), "hostile".into(), "invalid".into()] } else { a.extra[0].split(',').map(|s| s.to_string()).collect() };
    let mut tn = 0;
    for mode in &modes {
        let n = match mode.as_str() { "invalid" => if th { 800 } else { 120 }, _ => if th { 2500 } else { 250 } };
        for _ in 0..n {
            tn += 1;
            let accepting = match mode.as_str() { "client" => false, "server" => true, _ => r.chance(2, 3) };
            let naddr = if r.chance(1, 8) { 5 + r.below(2) as usize } else { 2 + r.below(3) as usize };
            let mut w = World::new(&o, format!("{}{}", mode, tn), accepting, naddr, a.seed * 7919 + tn, &mut r);
            match mode.as_str() { "server" => { for x in w.role_client.iter_mut() { *x = r.chance(9, 10); } } "client" => { for x in w.role_client.iter_mut() { *x = r.chance(1, 5); } } _ => {} }
            if r.chance(1, 2) { for x in 0..naddr { if r.chance(2, 3) { w.handshake(&o, x); } } }
            let steps = if th { 60 + r.below(500) } else { 40 + r.below(260) };
            let hostile = mode == "hostile" || mode == "invalid";
            for _ in 0..steps { w.random_step(&o, &mut r, hostile, mode == "invalid"); if w.dead { break; } }
        }
    }
    o.lock().unwrap().finish_ref();
}

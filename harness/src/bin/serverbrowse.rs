//! C18: server-info parsing and merging — real libtw2-serverbrowse against the Coq model.
//!
//! Case kinds (see ocaml/drv_serverbrowse.ml for the model side):
//!   resp   <hex datagram>              parse_response, then Info*Response::parse on an info payload
//!   parse  <kind> <hex payload>        one of the seven Info*Response::parse on an arbitrary payload
//!   merge  <kind:hex;...> <ops>        a PartialServerInfo history: first op = index of the initial part,
//!                                      then indices (merge that part), G (get_info), T (take_info),
//!                                      S (merge a clone of itself)
use libtw2_packer::with_packer;
use libtw2_serverbrowse::protocol::*;
use std::collections::BTreeMap;
use tw2verif::*;

// ------------------------------------------------------------------ canonical text

fn opt_hex(s: Option<&[u8]>) -> String {
    match s {
        Some(s) => hex(s),
        None => "none".into(),
    }
}
fn opt_num<T: std::fmt::Display>(v: Option<T>) -> String {
    match v {
        Some(v) => v.to_string(),
        None => "none".into(),
    }
}

fn client_txt(c: &ClientInfo) -> String {
    format!("{}:{}:{}:{}:{}", hex(c.name.as_bytes()), hex(c.clan.as_bytes()), c.country, c.score, c.flags)
}

fn clients_txt(cs: &[String]) -> String {
    if cs.is_empty() {
        "-".into()
    } else {
        cs.join(",")
    }
}

/// every public field of a ServerInfo
fn info_txt(i: &ServerInfo) -> String {
    let cs: Vec<String> = i.clients.iter().map(client_txt).collect();
    format!(
        "{:?} tok={} ver={} name={} host={} map={} crc={} size={} gt={} flags={} prog={} skill={} {}/{} {}/{} [{}]",
        i.info_version,
        i.token,
        hex(i.version.as_bytes()),
        hex(i.name.as_bytes()),
        opt_hex(i.hostname.as_ref().map(|h| h.as_bytes())),
        hex(i.map.as_bytes()),
        opt_num(i.map_crc),
        opt_num(i.map_size),
        hex(i.game_type.as_bytes()),
        i.flags,
        opt_num(i.progression),
        opt_num(i.skill_level),
        i.num_players,
        i.max_players,
        i.num_clients,
        i.max_clients,
        clients_txt(&cs)
    )
}

/// A PartialServerInfo keeps `info` and `received` private; its derived Debug shows both
/// (`PartialServerInfo { info: <ServerInfo as Debug>, received: N }`; the ServerInfo Debug omits
/// map_crc and map_size). The Debug text is parsed back: quoted strings are un-escaped, so the
/// result does not depend on which characters Rust chose to escape.
struct Cur<'a> {
    s: &'a [u8],
    p: usize,
}
impl<'a> Cur<'a> {
    fn peek(&self) -> u8 {
        *self.s.get(self.p).unwrap_or(&0)
    }
    fn eat(&mut self, t: &str) -> bool {
        if self.s[self.p..].starts_with(t.as_bytes()) {
            self.p += t.len();
            true
        } else {
            false
        }
    }
    fn expect(&mut self, t: &str) {
        assert!(self.eat(t), "debug text: expected {:?} at {}", t, self.p);
    }
    fn bare(&mut self) -> String {
        let st = self.p;
        while self.p < self.s.len() && !b" ,/:])(".contains(&self.s[self.p]) {
            self.p += 1;
        }
        String::from_utf8(self.s[st..self.p].to_vec()).unwrap()
    }
    /// a `{:?}`-formatted str: returns the bytes of the original string
    fn quoted(&mut self) -> Vec<u8> {
        self.expect("\"");
        let mut out = String::new();
        let txt = std::str::from_utf8(&self.s[self.p..]).unwrap();
        let mut it = txt.char_indices();
        loop {
            let (i, c) = it.next().expect("debug text: unterminated string");
            match c {
                '"' => {
                    self.p += i + 1;
                    break;
                }
                '\\' => {
                    let (_, e) = it.next().unwrap();
                    match e {
                        'n' => out.push('\n'),
                        'r' => out.push('\r'),
                        't' => out.push('\t'),
                        '0' => out.push('\0'),
                        '\\' => out.push('\\'),
                        '"' => out.push('"'),
                        '\'' => out.push('\''),
                        'u' => {
                            let (_, b) = it.next().unwrap();
                            assert_eq!(b, '{');
                            let mut v = 0u32;
                            loop {
                                let (_, h) = it.next().unwrap();
                                if h == '}' {
                                    break;
                                }
                                v = v * 16 + h.to_digit(16).unwrap();
                            }
                            out.push(char::from_u32(v).unwrap());
                        }
                        x => panic!("debug text: unknown escape {:?}", x),
                    }
                }
                c => out.push(c),
            }
        }
        out.into_bytes()
    }
    fn opt_quoted(&mut self) -> String {
        if self.eat("None") {
            "none".into()
        } else {
            self.expect("Some(");
            let v = self.quoted();
            self.expect(")");
            hex(&v)
        }
    }
    fn opt_bare(&mut self) -> String {
        if self.eat("None") {
            "none".into()
        } else {
            self.expect("Some(");
            let v = self.bare();
            self.expect(")");
            v
        }
    }
}

/// (received, number of clients, info text with crc=? size=?)
fn partial_parts(p: &PartialServerInfo) -> (u64, usize, String) {
    let d = format!("{:?}", p);
    let d = d.strip_prefix("PartialServerInfo { info: ").expect("debug prefix");
    let d = d.strip_suffix(" }").expect("debug suffix");
    let k = d.rfind(", received: ").expect("debug received");
    let received: u64 = d[k + 12..].parse().expect("received number");
    let mut c = Cur { s: d[..k].as_bytes(), p: 0 };
    let ver = c.bare();
    c.expect(" ");
    let tok = c.bare();
    c.expect(" ");
    let version = c.quoted();
    c.expect(" ");
    let name = c.quoted();
    c.expect(" ");
    let host = c.opt_quoted();
    c.expect(" ");
    let map = c.quoted();
    c.expect(" ");
    let gt = c.quoted();
    c.expect(" ");
    let flags = c.bare();
    c.expect(" ");
    let prog = c.opt_bare();
    c.expect(" ");
    let skill = c.opt_bare();
    c.expect(" ");
    let np = c.bare();
    c.expect("/");
    let mp = c.bare();
    c.expect(" ");
    let nc = c.bare();
    c.expect("/");
    let mc = c.bare();
    c.expect(": [");
    let mut cs = vec![];
    while c.peek() != b']' {
        if !cs.is_empty() {
            c.expect(", ");
        }
        let n = c.quoted();
        c.expect(" ");
        let cl = c.quoted();
        c.expect(" ");
        let country = c.bare();
        c.expect(" ");
        let score = c.bare();
        c.expect(" ");
        let fl = c.bare();
        cs.push(format!("{}:{}:{}:{}:{}", hex(&n), hex(&cl), country, score, fl));
    }
    c.expect("]");
    assert!(c.p == c.s.len(), "debug text: trailing input");
    let n = cs.len();
    (
        received,
        n,
        format!(
            "{} tok={} ver={} name={} host={} map={} crc=? size=? gt={} flags={} prog={} skill={} {}/{} {}/{} [{}]",
            ver, tok, hex(&version), hex(&name), host, hex(&map), hex(&gt), flags, prog, skill, np, mp, nc, mc,
            clients_txt(&cs)
        ),
    )
}

/// the state as the model driver prints it: received, the Debug view, and (on a clone) get_info
fn partial_txt(p: &PartialServerInfo) -> String {
    let (recv, _, dbg) = partial_parts(p);
    let mut c = p.clone();
    let g = match c.get_info() {
        Some(i) => info_txt(i),
        None => "incomplete".into(),
    };
    format!("recv={} {} | {}", recv, dbg, g)
}

fn full_txt(r: Option<ServerInfo>) -> String {
    match r {
        Some(i) => info_txt(&i),
        None => "none".into(),
    }
}
fn part_txt(r: Option<PartialServerInfo>) -> String {
    match r {
        Some(p) => partial_txt(&p),
        None => "none".into(),
    }
}

fn addr_txt(a: Addr) -> String {
    match a.ip_address {
        std::net::IpAddr::V4(x) => format!("4:{}:{}", hex(&x.octets()), a.port),
        std::net::IpAddr::V6(x) => format!("6:{}:{}", hex(&x.octets()), a.port),
    }
}
fn addrs_txt(v: Vec<String>) -> String {
    if v.is_empty() {
        "-".into()
    } else {
        v.join(",")
    }
}

#[derive(Clone, Copy, PartialEq, Eq, Debug)]
enum Kind {
    K5,
    K6,
    K6d,
    K664,
    KEx,
    KMore,
    K7,
}
use Kind::*;
const KINDS: [Kind; 7] = [K5, K6, K6d, K664, KEx, KMore, K7];

impl Kind {
    fn name(self) -> &'static str {
        match self {
            K5 => "5",
            K6 => "6",
            K6d => "6d",
            K664 => "664",
            KEx => "ex",
            KMore => "more",
            K7 => "7",
        }
    }
    fn header(self) -> Vec<u8> {
        match self {
            K5 => INFO_5.to_vec(),
            K6 => INFO_6.to_vec(),
            K6d => INFO_6_DDPER.to_vec(),
            K664 => INFO_6_64.to_vec(),
            KEx => INFO_6_EX.to_vec(),
            KMore => INFO_6_EX_MORE.to_vec(),
            K7 => INFO_7.to_vec(),
        }
    }
}

fn parse_kind(k: Kind, payload: &[u8]) -> String {
    match k {
        K5 => full_txt(Info5Response(payload).parse()),
        K6 => full_txt(Info6Response(payload).parse()),
        K6d => full_txt(Info6DdperResponse(payload).parse()),
        K664 => part_txt(Info664Response(payload).parse()),
        KEx => part_txt(Info6ExResponse(payload).parse()),
        KMore => part_txt(Info6ExMoreResponse(payload).parse()),
        K7 => full_txt(Info7Response(Token7([0; 4]), Token7([0; 4]), payload).parse()),
    }
}

fn parse_partial(k: Kind, payload: &[u8]) -> Option<PartialServerInfo> {
    match k {
        K664 => Info664Response(payload).parse(),
        KEx => Info6ExResponse(payload).parse(),
        KMore => Info6ExMoreResponse(payload).parse(),
        _ => None,
    }
}

fn response_txt(data: &[u8]) -> String {
    match parse_response(data) {
        None => "none".into(),
        Some(Response::List5(List5Response(l))) => format!("list5 {}", addrs_txt(l.iter().map(|a| addr_txt(a.unpack())).collect())),
        Some(Response::List6(List6Response(l))) => format!("list6 {}", addrs_txt(l.iter().map(|a| addr_txt(a.unpack())).collect())),
        Some(Response::List7(List7Response(o, t, l))) => format!("list7 {} {} {}", hex(&o.0), hex(&t.0), addrs_txt(l.iter().map(|a| addr_txt(a.unpack())).collect())),
        Some(Response::Count(CountResponse(n))) => format!("count {}", n),
        Some(Response::Count7(Count7Response(o, t, n))) => format!("count7 {} {} {}", hex(&o.0), hex(&t.0), n),
        Some(Response::Info5(r)) => format!("info5 {}", full_txt(r.parse())),
        Some(Response::Info6(r)) => format!("info6 {}", full_txt(r.parse())),
        Some(Response::Info6Ddper(r)) => format!("info6d {}", full_txt(r.parse())),
        Some(Response::Info664(r)) => format!("info664 {}", part_txt(r.parse())),
        Some(Response::Info6Ex(r)) => format!("infoex {}", part_txt(r.parse())),
        Some(Response::Info6ExMore(r)) => format!("infomore {}", part_txt(r.parse())),
        Some(Response::Info7(r)) => format!("info7 {} {} {}", hex(&(r.0).0), hex(&(r.1).0), full_txt(r.parse())),
        Some(Response::Token7(Token7Response(o, t))) => format!("token7 {} {}", hex(&o.0), hex(&t.0)),
    }
}

fn sig_of(res: &str) -> String {
    // coarse behaviour class: first word, whether the info parsed / is complete, client count bucket
    let w: Vec<&str> = res.split(' ').collect();
    let mut s = w[0].to_string();
    if res.contains(" none") || res == "none" {
        s.push_str("-none");
    }
    if res.contains("incomplete") {
        s.push_str("-inc");
    }
    if let Some(k) = res.rfind('[') {
        let n = res[k..].matches(',').count();
        s.push_str(&format!("-c{}", n.min(5)));
    }
    s
}

fn do_resp(o: &mut Out, data: &[u8]) {
    let r = guard(|| response_txt(data));
    let res = match &r {
        Ok(s) => s.clone(),
        Err(_) => "panic".into(),
    };
    let id = o.case(&format!("resp\t{}", hex(data)), &res, &format!("resp-{}", sig_of(&res)));
    if let Err(p) = r {
        o.check(false, "-", &id, || format!("parse_response / parse panicked on {}: {}", hex(data), p));
    }
}

fn do_parse(o: &mut Out, k: Kind, payload: &[u8]) {
    let r = guard(|| parse_kind(k, payload));
    let res = match &r {
        Ok(s) => s.clone(),
        Err(_) => "panic".into(),
    };
    let id = o.case(&format!("parse\t{}\t{}", k.name(), hex(payload)), &res, &format!("parse{}-{}", k.name(), sig_of(&res)));
    if let Err(p) = r {
        o.check(false, "-", &id, || format!("Info{}Response::parse panicked on {}: {}", k.name(), hex(payload), p));
    }
}

// ------------------------------------------------------------------ building datagrams

#[derive(Clone, Debug)]
enum I {
    V(i64),
    T(Vec<u8>),
}

struct W {
    buf: Vec<u8>,
    var: bool,
}
impl W {
    fn s(&mut self, s: &[u8]) {
        self.buf.extend_from_slice(s);
        self.buf.push(0);
    }
    fn i(&mut self, v: &I) {
        match v {
            I::V(v) if self.var => {
                let mut b = [0u8; 8];
                let x = with_packer(&mut b[..], |mut p| {
                    p.write_int(*v as i32).unwrap();
                    p.written().to_vec()
                });
                self.buf.extend_from_slice(&x);
            }
            I::V(v) => self.s(v.to_string().as_bytes()),
            I::T(t) if self.var => self.buf.extend_from_slice(t), // raw bytes in place of a varint
            I::T(t) => self.s(t),
        }
    }
}

#[derive(Clone, Debug)]
struct Cl {
    name: Vec<u8>,
    clan: Vec<u8>,
    country: I,
    score: I,
    flags: I, // client_flags (0.7) or client_is_player (0.6)
    extra: Vec<u8>,
}

#[derive(Clone, Debug)]
struct Hdr {
    token: I,
    packet_no: I,
    version: Vec<u8>,
    name: Vec<u8>,
    hostname: Vec<u8>,
    map: Vec<u8>,
    crc: I,
    size: I,
    game_type: Vec<u8>,
    flags: I,
    progression: I,
    skill: I,
    np: I,
    mp: I,
    nc: I,
    mc: I,
    offset: I,
    extra: Vec<u8>,
}

const INT_FIELDS: [&str; 12] = ["token", "packet_no", "crc", "size", "flags", "progression", "skill", "np", "mp", "nc", "mc", "offset"];

impl Hdr {
    fn set(&mut self, f: &str, v: I) {
        match f {
            "token" => self.token = v,
            "packet_no" => self.packet_no = v,
            "crc" => self.crc = v,
            "size" => self.size = v,
            "flags" => self.flags = v,
            "progression" => self.progression = v,
            "skill" => self.skill = v,
            "np" => self.np = v,
            "mp" => self.mp = v,
            "nc" => self.nc = v,
            "mc" => self.mc = v,
            "offset" => self.offset = v,
            _ => unreachable!(),
        }
    }
}

fn build(k: Kind, h: &Hdr, cls: &[Cl]) -> Vec<u8> {
    let mut w = W { buf: vec![], var: k == K7 };
    w.i(&h.token);
    if k == KMore {
        w.i(&h.packet_no);
    } else {
        w.s(&h.version);
        w.s(&h.name);
        if k == K7 {
            w.s(&h.hostname);
        }
        w.s(&h.map);
        if k == KEx {
            w.i(&h.crc);
            w.i(&h.size);
        }
        w.s(&h.game_type);
        w.i(&h.flags);
        if k == K5 {
            w.i(&h.progression);
        }
        if k == K7 {
            w.i(&h.skill);
        }
        w.i(&h.np);
        w.i(&h.mp);
        if k != K5 {
            w.i(&h.nc);
            w.i(&h.mc);
        }
        if k == K664 {
            w.i(&h.offset);
        }
    }
    if k == KEx || k == KMore {
        w.s(&h.extra);
    }
    for c in cls {
        w.s(&c.name);
        if k != K5 {
            w.s(&c.clan);
            w.i(&c.country);
        }
        w.i(&c.score);
        if k != K5 {
            w.i(&c.flags);
        }
        if k == KEx || k == KMore {
            w.s(&c.extra);
        }
    }
    w.buf
}

/// strings around the ArrayString capacities, with multi-byte characters straddling the cut
fn gen_str(r: &mut Rng, cap: usize) -> Vec<u8> {
    let alphabet: [&str; 12] = ["a", "Z", "0", " ", "-", "é", "ß", "€", "語", "😀", "\u{7f}", "\u{80}"];
    let n = match r.below(8) {
        0 => 0,
        1 => r.below(4) as usize,
        2 => cap.saturating_sub(1 + r.below(3) as usize),
        3 => cap,
        4 => cap + 1 + r.below(4) as usize,
        5 => cap * 2 + r.below(5) as usize,
        _ => r.below(cap as u64 + 2) as usize,
    };
    let mut s = Vec::new();
    while s.len() < n {
        let c = if r.chance(2, 3) { "abcdefghijklmnopqrstuvwxyz"[(r.below(26) as usize)..][..1].to_string() } else { r.pick(&alphabet).to_string() };
        s.extend_from_slice(c.as_bytes());
    }
    // sometimes exactly n bytes (cuts a multi-byte character: invalid UTF-8 at the end)
    if r.chance(1, 12) {
        s.truncate(n);
    }
    if r.chance(1, 40) && !s.is_empty() {
        let k = r.below(s.len() as u64) as usize;
        s[k] = *r.pick(&[0x80u8, 0xbf, 0xc0, 0xc1, 0xf5, 0xff, 0xed, 0xe0, 0xf0, 0xf4]);
    }
    s.retain(|&b| b != 0);
    s
}

fn hostile_ints() -> Vec<Vec<u8>> {
    ["", "-", "+", "+1", "-0", "+0", "01", "0000000000000000000012", "1x", " 1", "1 ", "2147483647", "2147483648", "-2147483648", "-2147483649",
     "99999999999999999999", "-99999999999999999999", "+2147483647", "+2147483648", "--1", "+-1", "1e3", "0x10", "٣", "１", "1\u{0301}"]
        .iter()
        .map(|s| s.as_bytes().to_vec())
        .chain(vec![vec![0xffu8], vec![0x31, 0x80], vec![0xc3, 0x28]])
        .collect()
}

fn gen_int(r: &mut Rng, small: bool) -> I {
    match r.below(if small { 6 } else { 12 }) {
        0..=5 => I::V(r.range(-2, 70)),
        6 | 7 => I::V(r.i32_edgy() as i64),
        8 => I::V(*r.pick(&[i32::MIN as i64, i32::MAX as i64, -1, 0, 1])),
        9 => I::V(r.range(-300, 300)),
        10 => I::V(r.i32_any() as i64),
        _ => I::T(r.pick(&hostile_ints()).clone()),
    }
}

fn gen_client(r: &mut Rng) -> Cl {
    Cl {
        name: gen_str(r, 15),
        clan: gen_str(r, 11),
        country: if r.chance(9, 10) { I::V(r.range(-1, 900)) } else { gen_int(r, false) },
        score: if r.chance(9, 10) { I::V(r.range(-20, 2000)) } else { gen_int(r, false) },
        flags: if r.chance(9, 10) { I::V(r.range(0, 3)) } else { gen_int(r, false) },
        extra: if r.chance(1, 5) { gen_str(r, 4) } else { vec![] },
    }
}

/// a header whose counts pass the sanity check for `n` clients (before hostile edits)
fn gen_hdr(r: &mut Rng, k: Kind, n: usize) -> Hdr {
    let limit: i64 = match k {
        K5 | K6 | K6d => 16,
        K664 | K7 => 64,
        _ => 200,
    };
    let nc = (n as i64).min(limit);
    let mc = r.range(nc, limit);
    let np = r.range(0, nc);
    let mp = r.range(np, mc);
    Hdr {
        token: I::V(if r.chance(1, 2) { r.range(0, 0xff_ffff) } else { r.i32_edgy() as i64 }),
        packet_no: I::V(r.range(1, 63)),
        version: gen_str(r, 32),
        name: gen_str(r, 64),
        hostname: gen_str(r, 64),
        map: gen_str(r, 32),
        crc: I::V(r.i32_edgy() as i64),
        size: I::V(if r.chance(5, 6) { r.range(0, 5_000_000) } else { r.i32_edgy() as i64 }),
        game_type: gen_str(r, 32),
        flags: I::V(r.range(0, 3)),
        progression: I::V(r.range(-1, 100)),
        skill: I::V(r.range(0, 2)),
        np: I::V(np),
        mp: I::V(mp),
        nc: I::V(nc),
        mc: I::V(mc),
        offset: I::V(0),
        extra: if r.chance(1, 5) { gen_str(r, 4) } else { vec![] },
    }
}

fn plain_hdr(nc: i64, mc: i64) -> Hdr {
    Hdr {
        token: I::V(7),
        packet_no: I::V(1),
        version: b"0.6.4".to_vec(),
        name: b"srv".to_vec(),
        hostname: b"host".to_vec(),
        map: b"dm1".to_vec(),
        crc: I::V(-5),
        size: I::V(1234),
        game_type: b"DM".to_vec(),
        flags: I::V(1),
        progression: I::V(50),
        skill: I::V(1),
        np: I::V(nc),
        mp: I::V(mc),
        nc: I::V(nc),
        mc: I::V(mc),
        offset: I::V(0),
        extra: vec![],
    }
}

fn plain_client(i: usize) -> Cl {
    Cl {
        name: format!("p{:02}", (i * 37) % 100).into_bytes(),
        clan: format!("c{}", i % 3).into_bytes(),
        country: I::V(i as i64 % 5 - 1),
        score: I::V((i as i64 * 7) % 13),
        flags: I::V((i % 2) as i64),
        extra: vec![],
    }
}

fn mutate(r: &mut Rng, d: &mut Vec<u8>) {
    for _ in 0..1 + r.below(3) {
        match r.below(7) {
            0 if !d.is_empty() => {
                let k = r.below(d.len() as u64) as usize;
                d[k] = r.byte();
            }
            1 if !d.is_empty() => {
                let k = r.below(d.len() as u64) as usize;
                d[k] ^= 1 << r.below(8);
            }
            2 if !d.is_empty() => {
                let k = r.below(d.len() as u64) as usize;
                d.remove(k);
            }
            3 => {
                let k = r.below(d.len() as u64 + 1) as usize;
                d.insert(k, *r.pick(&[0u8, 0, b'0', b'9', b'-', b'+', 0x80, 0xff, b'1', 0x40]));
            }
            4 => {
                let k = r.below(d.len() as u64 + 1) as usize;
                d.truncate(k);
            }
            5 if !d.is_empty() => {
                // replace one NUL-terminated field by a hostile integer text
                let k = r.below(d.len() as u64) as usize;
                let st = d[..k].iter().rposition(|&b| b == 0).map(|x| x + 1).unwrap_or(0);
                let en = d[k..].iter().position(|&b| b == 0).map(|x| x + k).unwrap_or(d.len());
                let t = r.pick(&hostile_ints()).clone();
                d.splice(st..en, t);
            }
            _ => {
                let n = r.below(6) as usize;
                let t = r.bytes(n);
                d.extend(t);
            }
        }
    }
}

// ------------------------------------------------------------------ merging

struct Part {
    kind: Kind,
    payload: Vec<u8>,
}

fn parts_txt(ps: &[Part]) -> String {
    ps.iter().map(|p| format!("{}:{}", p.kind.name(), hex(&p.payload))).collect::<Vec<_>>().join(";")
}

#[derive(Clone, Copy, PartialEq, Eq, Debug)]
enum Op {
    M(usize),
    G,
    T,
    S,
}

fn ops_txt(ops: &[Op]) -> String {
    ops.iter()
        .map(|o| match o {
            Op::M(i) => i.to_string(),
            Op::G => "G".into(),
            Op::T => "T".into(),
            Op::S => "S".into(),
        })
        .collect::<Vec<_>>()
        .join(",")
}

fn merge_res(r: Result<(), MergeError>) -> &'static str {
    match r {
        Ok(()) => "ok",
        Err(MergeError::DifferingTokens) => "tok",
        Err(MergeError::DifferingVersions) => "ver",
        Err(MergeError::NotMultipartVersion) => "multi",
        Err(MergeError::OverlappingInfos) => "overlap",
    }
}

struct Hist {
    take_agrees: bool,
    steps: Vec<String>,
    all_ok: bool,
    fin: Option<ServerInfo>,
    recv: u64,
    text: String,
}

/// run a history on the real code
fn run_hist(parsed: &[PartialServerInfo], ops: &[Op]) -> Hist {
    let first = match ops[0] {
        Op::M(i) => i,
        _ => unreachable!(),
    };
    let mut st = parsed[first].clone();
    let mut steps = vec![];
    let mut all_ok = true;
    for op in &ops[1..] {
        let s = match op {
            Op::M(i) => {
                let r = st.merge(parsed[*i].clone());
                all_ok &= r.is_ok();
                merge_res(r).to_string()
            }
            Op::S => {
                let c = st.clone();
                let r = st.merge(c);
                all_ok &= r.is_ok();
                merge_res(r).to_string()
            }
            Op::G => match st.get_info() {
                Some(i) => format!("some({})", info_txt(i)),
                None => "nope".into(),
            },
            Op::T => match st.take_info() {
                Some(i) => format!("took({})", info_txt(&i)),
                None => "nope".into(),
            },
        };
        let (recv, n, _) = partial_parts(&st);
        steps.push(format!("{}/{}/{}", s, recv, n));
    }
    let (recv, _, _) = partial_parts(&st);
    let text = format!(
        "k18={} {} || {}",
        has_repeat(ops) as u8,
        if steps.is_empty() { "-".to_string() } else { steps.join(" ") },
        partial_txt(&st)
    );
    let fin = st.clone().get_info().cloned();
    // take_info hands out what get_info shows (checked on a copy of the final state)
    let taken = st.clone().take_info();
    let take_agrees = match (&fin, &taken) { (Some(a), Some(b)) => format!("{:?}", a) == format!("{:?}", b), (None, None) => true, _ => false };
    Hist { steps, all_ok, fin, recv, text, take_agrees }
}

fn parse_parts(ps: &[Part]) -> Option<Vec<PartialServerInfo>> {
    ps.iter().map(|p| parse_partial(p.kind, &p.payload)).collect()
}

/// one merge case; returns the history for the oracles of the caller
fn do_merge(o: &mut Out, ps: &[Part], ptxt: &str, ops: &[Op], sig: &str) -> (String, Option<Hist>) {
    let r = guard(|| parse_parts(ps).map(|parsed| run_hist(&parsed, ops)));
    let res = match &r {
        Ok(Some(h)) => h.text.clone(),
        Ok(None) => "badpart".into(),
        Err(_) => "panic".into(),
    };
    let id = o.case(&format!("merge\t{}\t{}", ptxt, ops_txt(ops)), &res, sig);
    match r {
        Err(p) => {
            o.check(false, "-", &id, || format!("merge history {} over {} panicked: {}", ops_txt(ops), ptxt, p));
            (id, None)
        }
        Ok(h) => (id, h),
    }
}

/// A multi-part info built by the generator: the parts, the clients every part carries, the
/// announced number of clients and the expected header text.
struct Multi {
    parts: Vec<Part>,
    part_clients: Vec<Vec<Cl>>,
    announced: i64,
    ex: bool,
}

fn gen_multi(r: &mut Rng, ex: bool, nparts: usize, sizes: &[usize]) -> Multi {
    let total: usize = sizes.iter().sum();
    let mut all: Vec<Cl> = (0..total).map(|i| match r.below(6) {
        // players still connecting look alike except for country and flags: ties in (name, clan, score)
        0 => Cl { name: b"(connecting)".to_vec(), clan: vec![], country: I::V(r.range(-1, 3)), score: I::V(0), flags: I::V(r.range(0, 1)), extra: vec![] },
        1 | 2 | 3 => plain_client(i + r.below(50) as usize),
        _ => gen_client(r),
    }).collect();
    for c in all.iter_mut() {
        // keep every client parsable: the merge generators want well-formed parts
        if let I::T(_) = c.country { c.country = I::V(1); }
        if let I::T(_) = c.score { c.score = I::V(2); }
        if let I::T(_) = c.flags { c.flags = I::V(0); }
        c.name = String::from_utf8_lossy(&c.name).replace('\u{fffd}', "?").into_bytes();
        c.clan = String::from_utf8_lossy(&c.clan).replace('\u{fffd}', "?").into_bytes();
        c.extra = String::from_utf8_lossy(&c.extra).replace('\u{fffd}', "?").into_bytes();
    }
    let mut h = gen_hdr(r, if ex { KEx } else { K664 }, total);
    for s in [&mut h.version, &mut h.name, &mut h.map, &mut h.game_type, &mut h.extra] {
        *s = String::from_utf8_lossy(s).replace('\u{fffd}', "?").into_bytes();
    }
    h.token = I::V(r.range(0, 0xff_ffff));
    if let I::T(_) = h.crc { h.crc = I::V(1); }
    h.size = I::V(r.range(0, 100000));
    h.nc = I::V(total as i64);
    h.mc = I::V((total as i64).max(if ex { 80 } else { 64 }).min(if ex { 1000 } else { 64 }));
    h.np = I::V(r.range(0, total as i64));
    h.mp = h.nc.clone();
    let mut parts = vec![];
    let mut part_clients = vec![];
    let mut start = 0;
    // packet numbers of the `more` parts: distinct, 1..=63
    let mut nos: Vec<i64> = (1..=63).collect();
    for i in (1..nos.len()).rev() {
        let j = r.below(i as u64 + 1) as usize;
        nos.swap(i, j);
    }
    for p in 0..nparts {
        let cs: Vec<Cl> = all.drain(..sizes[p]).collect();
        let mut hp = h.clone();
        let kind = if !ex {
            hp.offset = I::V(start as i64);
            K664
        } else if p == 0 {
            KEx
        } else {
            hp.packet_no = I::V(nos[p - 1]);
            KMore
        };
        parts.push(Part { kind, payload: build(kind, &hp, &cs) });
        start += cs.len();
        part_clients.push(cs);
    }
    Multi { parts, part_clients, announced: total as i64, ex }
}

/// the clients a set of parts carries, as the implementation would list them (parsed through the
/// real single-part parser, then sorted with the derived Ord) — used only to compare *sets*
fn expected_clients(parsed: &[PartialServerInfo], set: &[usize]) -> Vec<String> {
    let mut v: Vec<ClientInfo> = vec![];
    for &i in set {
        // a part on its own: its clients are what partial_parts shows; take them through Debug-free API:
        // merge into an empty accumulator is not available, so re-parse the Debug view
        let (_, _, dbg) = partial_parts(&parsed[i]);
        let k = dbg.rfind('[').unwrap();
        let body = &dbg[k + 1..dbg.len() - 1];
        if body != "-" {
            for c in body.split(',') {
                let f: Vec<&str> = c.split(':').collect();
                let mut ci = ClientInfo::default();
                ci.name.push_str(std::str::from_utf8(&unhex(f[0])).unwrap());
                ci.clan.push_str(std::str::from_utf8(&unhex(f[1])).unwrap());
                ci.country = f[2].parse().unwrap();
                ci.score = f[3].parse().unwrap();
                ci.flags = f[4].parse().unwrap();
                v.push(ci);
            }
        }
    }
    // the documented order of a complete info: by name, clan, country, score, flags (the field order of ClientInfo) --
    // spelled out here so that the expectation does not depend on the crate's own Ord
    v.sort_by(|a, b| (a.name.as_bytes(), a.clan.as_bytes(), a.country, a.score, a.flags).cmp(&(b.name.as_bytes(), b.clan.as_bytes(), b.country, b.score, b.flags)));
    v.iter().map(client_txt).collect()
}

/// oracle state for one multi-part info: the final state per covered set of parts, taken from an
/// order without a repeated part
struct SetOracle {
    seen: BTreeMap<Vec<usize>, (String, String)>, // set -> (case id, canonical final state)
}

/// K18 (known finding): `merge` never ors `other.received` into `self.received`, so a repeated part
/// is not recognised (unless it is the one whose mask the state carries). Failures of histories
/// with a repeated part are filed under that class and nothing else is.
fn has_repeat(ops: &[Op]) -> bool {
    let mut v: Vec<usize> = ops.iter().filter_map(|x| if let Op::M(i) = x { Some(*i) } else { None }).collect();
    let n = v.len();
    v.sort();
    v.dedup();
    v.len() != n
}

fn check_history(o: &mut Out, m: &Multi, parsed: &[PartialServerInfo], ops: &[Op], id: &str, h: &Hist, so: &mut SetOracle) {
    let mut set: Vec<usize> = ops.iter().filter_map(|x| if let Op::M(i) = x { Some(*i) } else { None }).collect();
    set.sort();
    set.dedup();
    let class = if has_repeat(ops) { "K18" } else { "-" };
    // no merge of parts of one info fails
    o.check(h.all_ok, class, id, || format!("merging parts of one info in order {} failed: {}", ops_txt(ops), h.steps.join(" ")));
    // complete exactly when every announced client has been received once
    let got: usize = set.iter().map(|&i| m.part_clients[i].len()).sum();
    let announced = if !m.ex || set.contains(&0) { m.announced } else { 0 };
    let want_complete = got as i64 == announced;
    o.check(h.fin.is_some() == want_complete, class, id, || {
        format!("order {}: parts {:?} carry {} of {} announced clients but get_info is {}", ops_txt(ops), set, got, announced, if h.fin.is_some() { "Some" } else { "None" })
    });
    o.check(h.take_agrees, class, id, || format!("order {}: take_info on the final state does not hand out what get_info shows (get_info is {})", ops_txt(ops), if h.fin.is_some() { "Some" } else { "None" }));
    if let Some(i) = &h.fin {
        let exp = expected_clients(parsed, &set);
        let have: Vec<String> = i.clients.iter().map(client_txt).collect();
        o.check(exp == have, class, id, || format!("order {}: complete info lists {:?}, the parts carry {:?}", ops_txt(ops), have, exp));
        let mut sorted = i.clients.clone();
        sorted.sort();
        o.check(sorted == i.clients, class, id, || format!("order {}: complete info is not sorted", ops_txt(ops)));
    }
    // any two orders covering the same set of parts end in the same state (clients up to the sort)
    let canon = canonical_final(parsed, ops);
    if class == "-" && !so.seen.contains_key(&set) {
        so.seen.insert(set, (id.to_string(), canon));
    } else if let Some((id0, c0)) = so.seen.get(&set) {
        let same = *c0 == canon;
        let id0 = id0.clone();
        let c0 = c0.clone();
        o.check(same, class, id, || format!("the orders of case {} and this one ({}) cover the same parts {:?} but end differently: {} vs {}", id0, ops_txt(ops), set, c0, canon));
    }
}

/// final state of a history with the clients sorted (header, sorted clients, mask, get_info)
fn canonical_final(parsed: &[PartialServerInfo], ops: &[Op]) -> String {
    let first = match ops[0] {
        Op::M(i) => i,
        _ => unreachable!(),
    };
    let mut st = parsed[first].clone();
    for op in &ops[1..] {
        if let Op::M(i) = op {
            let _ = st.merge(parsed[*i].clone());
        }
    }
    let (recv, _, dbg) = partial_parts(&st);
    let k = dbg.rfind('[').unwrap();
    let body = &dbg[k + 1..dbg.len() - 1];
    let mut cs: Vec<&str> = if body == "-" { vec![] } else { body.split(',').collect() };
    cs.sort();
    let g = match st.get_info() {
        Some(i) => info_txt(i),
        None => "incomplete".into(),
    };
    let _ = recv; // the mask is internal; K18 makes it depend on the order
    format!("{} [{}] | {}", &dbg[..k], cs.join(","), g)
}

/// all sequences over 0..n of length 1..=maxlen
fn sequences(n: usize, maxlen: usize) -> Vec<Vec<usize>> {
    let mut out = vec![];
    let mut cur: Vec<Vec<usize>> = vec![vec![]];
    for _ in 0..maxlen {
        let mut next = vec![];
        for s in &cur {
            for i in 0..n {
                let mut t = s.clone();
                t.push(i);
                next.push(t);
            }
        }
        out.extend(next.iter().cloned());
        cur = next;
    }
    out
}

/// define a named list of parts once (the histories over it refer to it as @name)
fn def_parts(o: &mut Out, ps: &[Part]) -> String {
    let name = format!("P{}", o.n + 1);
    let r = guard(|| parse_parts(ps).map(|p| p.len()));
    let res = match &r {
        Ok(Some(n)) => format!("parts {}", n),
        Ok(None) => "badpart".into(),
        Err(_) => "panic".into(),
    };
    o.case(&format!("defparts\t{}\t{}", name, parts_txt(ps)), &res, "defparts");
    format!("@{}", name)
}

fn multi_exhaustive(o: &mut Out, m: &Multi, maxlen: usize, tag: &str) {
    let ptxt = def_parts(o, &m.parts);
    let parsed = match guard(|| parse_parts(&m.parts)) {
        Ok(Some(p)) => p,
        _ => {
            // the generator's parts must parse; if not, the case still goes to the model
            let (id, _) = do_merge(o, &m.parts, &ptxt, &[Op::M(0)], "merge-badpart");
            o.check(false, "-", &id, || "a generated part of a multi-part info does not parse".into());
            return;
        }
    };
    let mut so = SetOracle { seen: BTreeMap::new() };
    for s in sequences(m.parts.len(), maxlen) {
        let ops: Vec<Op> = s.iter().map(|&i| Op::M(i)).collect();
        let (id, h) = do_merge(o, &m.parts, &ptxt, &ops, &format!("merge-{}-n{}-l{}", tag, m.parts.len(), s.len()));
        if let Some(h) = h {
            check_history(o, m, &parsed, &ops, &id, &h, &mut so);
        }
    }
}

fn multi_sampled(o: &mut Out, r: &mut Rng, m: &Multi, count: usize, tag: &str) {
    let ptxt = def_parts(o, &m.parts);
    let parsed = match guard(|| parse_parts(&m.parts)) {
        Ok(Some(p)) => p,
        _ => {
            let (id, _) = do_merge(o, &m.parts, &ptxt, &[Op::M(0)], "merge-badpart");
            o.check(false, "-", &id, || "a generated part of a multi-part info does not parse".into());
            return;
        }
    };
    let n = m.parts.len();
    let mut so = SetOracle { seen: BTreeMap::new() };
    for c in 0..count {
        // a permutation of all parts (or of a random subset), with repetitions sprinkled in
        let mut idx: Vec<usize> = (0..n).collect();
        for i in (1..n).rev() {
            let j = r.below(i as u64 + 1) as usize;
            idx.swap(i, j);
        }
        if c % 4 == 3 {
            let keep = 1 + r.below(n as u64) as usize;
            idx.truncate(keep);
        }
        let mut seq = vec![];
        for &i in &idx {
            seq.push(i);
            while r.chance(1, 4) {
                // repeat this or an earlier part
                let k = r.below(seq.len() as u64) as usize;
                let v = seq[k];
                seq.push(v);
            }
        }
        if c % 5 == 0 {
            // the same parts in the reverse order
            seq.reverse();
        }
        let ops: Vec<Op> = seq.iter().map(|&i| Op::M(i)).collect();
        let (id, h) = do_merge(o, &m.parts, &ptxt, &ops, &format!("merge-{}-n{}", tag, n.min(70)));
        if let Some(h) = h {
            check_history(o, m, &parsed, &ops, &id, &h, &mut so);
        }
    }
}

// ------------------------------------------------------------------ main

fn main() {
    let a = Args::parse();
    let mut o = Out::new(&a, "resp: datagrams for each of the thirteen response kinds (every header, header near-misses, truncations, address lists of every length mod the record size, counts, tokens), info payloads with every numeric field swept over its boundaries, structured random infos, mutated and random datagrams; parse: the seven Info*Response::parse on the same payloads directly; merge: for 64-player legacy and extended infos all sequences (every permutation x every duplication pattern, also non-covering ones) over <= 4 parts up to length parts+2 (thorough: +3), sampled orders with repetitions up to the maximum part count (64), and hostile histories (foreign parts, overlapping parts, get_info/take_info/self-merge in between). distinct = distinct (case kind, response kind, parsed/none/incomplete, client-count bucket, part count, history length) signatures");
    let mut r = Rng::new(a.seed);
    let th = a.thorough();

    // ---- 1. headers: the thirteen kinds, near-misses, truncations
    let h14: Vec<(&str, Vec<u8>)> = vec![
        ("list5", LIST_5.to_vec()), ("list6", LIST_6.to_vec()), ("count", COUNT.to_vec()), ("info5", INFO_5.to_vec()),
        ("info6", INFO_6.to_vec()), ("info6d", INFO_6_DDPER.to_vec()), ("info664", INFO_6_64.to_vec()),
        ("infoex", INFO_6_EX.to_vec()), ("infomore", INFO_6_EX_MORE.to_vec()),
        // requests are not responses
        ("req", REQUEST_LIST_5.to_vec()), ("req", REQUEST_LIST_6.to_vec()), ("req", REQUEST_COUNT.to_vec()), ("req", REQUEST_INFO_5.to_vec()),
        ("req", REQUEST_INFO_6.to_vec()), ("req", REQUEST_INFO_6_64.to_vec()), ("req", REQUEST_INFO_6_EX.to_vec()), ("req", CHALLENGE_6.to_vec()),
    ];
    let h17: Vec<Vec<u8>> = vec![LIST_7.to_vec(), COUNT_7.to_vec(), INFO_7.to_vec(), REQUEST_LIST_7.to_vec(), REQUEST_COUNT_7.to_vec(), REQUEST_INFO_7.to_vec()];
    let sample_payloads: Vec<Vec<u8>> = vec![
        vec![],
        vec![0],
        vec![1, 2],
        vec![1, 2, 3, 4],
        b"1\0v\0n\0m\0g\x000\x000\x000\x001\x000\x001\0".to_vec(),
        build(K6, &plain_hdr(1, 2), &[plain_client(0)]),
        build(K7, &plain_hdr(1, 2), &[plain_client(0)]),
        (0..40u8).collect(),
    ];
    for (_, h) in &h14 {
        for p in &sample_payloads {
            let mut d = h.clone();
            d.extend_from_slice(p);
            do_resp(&mut o, &d);
            // the first six bytes are ignored (except for the "dp" form)
            for pre in [[0x40u8, 0, 0, 0, 0, 0], [0xbf, 0xff, 0xff, 0xff, 0xff, 0xff], [0x7f, 1, 2, 3, 4, 5], [b'd', b'p', 9, 9, 9, 9], [b'd', b'q', 0, 0, 0, 0], [b'x', b'e', 0, 0, 0, 0], [0x04, 0, 0, 0xff, 0xff, 0xff], [0x21, 0xff, 0xff, 0xff, 0xff, 0xff], [0, 0, 0, 0, 0, 0], [0x3f, 0xff, 0xff, 0xff, 0xff, 0xff]] {
                let mut e = d.clone();
                e[..6].copy_from_slice(&pre);
                do_resp(&mut o, &e);
            }
        }
        // one byte changed / every truncation
        let mut base = h.clone();
        base.extend_from_slice(&sample_payloads[5]);
        for i in 0..14 {
            for x in [1u8, 0x40, 0x80, 0xff] {
                let mut e = base.clone();
                e[i] ^= x;
                do_resp(&mut o, &e);
            }
        }
        for n in 0..=15 {
            do_resp(&mut o, &base[..n]);
        }
    }
    for h in &h17 {
        for p in &sample_payloads {
            let mut d = h.clone();
            d.extend_from_slice(p);
            do_resp(&mut o, &d);
            let mut e = d.clone();
            for i in 1..9 {
                e[i] = r.byte();
            }
            do_resp(&mut o, &e);
        }
        let mut base = h.clone();
        base.extend_from_slice(&sample_payloads[6]);
        for i in 0..17 {
            for x in [1u8, 0x40, 0xff] {
                let mut e = base.clone();
                e[i] ^= x;
                do_resp(&mut o, &e);
            }
        }
        for n in 0..=18 {
            do_resp(&mut o, &base[..n]);
        }
    }
    // 0.7 token responses
    for n in 0..=14 {
        let mut d = TOKEN_7.to_vec();
        d[3..7].copy_from_slice(&[1, 2, 3, 4]);
        d.extend((0..6u8).map(|x| x + 0x10));
        d.truncate(n);
        do_resp(&mut o, &d);
    }
    for i in 0..8 {
        for x in [1u8, 0x80, 0xff] {
            let mut d = TOKEN_7.to_vec();
            d.extend_from_slice(&[9, 8, 7, 6, 5]);
            d[i] ^= x;
            do_resp(&mut o, &d);
        }
    }

    // ---- 2. address lists (every length modulo the record size) and counts
    for (h, sz) in [(LIST_5.to_vec(), 6usize), (LIST_6.to_vec(), 18), (LIST_7.to_vec(), 18)] {
        for n in 0..=(3 * sz + 2) {
            let mut d = h.clone();
            let mut body = r.bytes(n);
            if sz == 18 && n >= 18 && r.chance(1, 2) {
                body[..12].copy_from_slice(&IPV4_MAPPING);
            }
            if sz == 18 && n >= 36 && r.chance(1, 2) {
                body[18..30].copy_from_slice(&IPV4_MAPPING);
                body[18 + r.below(12) as usize] ^= 1; // almost the mapping prefix
            }
            d.extend(body);
            do_resp(&mut o, &d);
        }
        for _ in 0..(if th { 400 } else { 60 }) {
            let mut d = h.clone();
            let n = r.below(75 * sz as u64) as usize;
            d.extend(r.bytes(n));
            do_resp(&mut o, &d);
        }
    }
    for h in [COUNT.to_vec(), COUNT_7.to_vec()] {
        for body in [vec![], vec![0], vec![0, 0], vec![0, 1], vec![1, 0], vec![0xff, 0xff], vec![0x80, 0x00], vec![0x12, 0x34, 0x56], vec![0xff, 0xfe, 0, 0, 0]] {
            let mut d = h.clone();
            d.extend(body);
            do_resp(&mut o, &d);
        }
    }

    // ---- 3. every numeric field of every info kind swept over its boundaries
    let bounds: Vec<i64> = vec![i32::MIN as i64, -65, -64, -2, -1, 0, 1, 2, 15, 16, 17, 23, 24, 25, 31, 32, 33, 62, 63, 64, 65, 66, 127, 128, 255, 256, 65535, 65536, 0xff_ffff, i32::MAX as i64 - 1, i32::MAX as i64];
    for &k in &KINDS {
        for f in INT_FIELDS.iter() {
            let mut vals: Vec<I> = bounds.iter().map(|&v| I::V(v)).collect();
            if k != K7 {
                vals.extend(hostile_ints().into_iter().map(I::T));
            } else {
                // truncated / overlong / padded varints
                for t in [vec![0x80u8], vec![0x80, 0x80], vec![0xff, 0xff, 0xff, 0xff], vec![0x80, 0x00], vec![0xff, 0xff, 0xff, 0xff, 0xff], vec![0x40], vec![0xc0, 0x80, 0x80, 0x80, 0x10]] {
                    vals.push(I::T(t));
                }
            }
            for v in vals {
                for ncl in [0usize, 2] {
                    let mut h = plain_hdr(ncl as i64, 16);
                    h.set(f, v.clone());
                    let cls: Vec<Cl> = (0..ncl).map(plain_client).collect();
                    let p = build(k, &h, &cls);
                    do_parse(&mut o, k, &p);
                    if ncl == 2 {
                        let mut d = k.header();
                        d.extend_from_slice(&p);
                        do_resp(&mut o, &d);
                    }
                }
            }
        }
        // client fields
        for f in 0..3 {
            let mut vals: Vec<I> = bounds.iter().map(|&v| I::V(v)).collect();
            if k != K7 {
                vals.extend(hostile_ints().into_iter().map(I::T));
            }
            for v in vals {
                let h = plain_hdr(2, 16);
                let mut cls: Vec<Cl> = (0..2).map(plain_client).collect();
                match f {
                    0 => cls[1].country = v,
                    1 => cls[1].score = v,
                    _ => cls[1].flags = v,
                }
                do_parse(&mut o, k, &build(k, &h, &cls));
            }
        }
    }
    // counts: consistent and inconsistent combinations around every per-version maximum
    let cvals: Vec<i64> = if th { vec![-1, 0, 1, 15, 16, 17, 63, 64, 65] } else { vec![-1, 0, 1, 16, 17, 64, 65] };
    for &k in &KINDS {
        if k == KMore {
            continue;
        }
        for &nc in &cvals {
            for &mc in &cvals {
                for &np in &cvals {
                    for &mp in &cvals {
                        if k == K5 && (nc != np || mc != mp) {
                            continue;
                        }
                        let mut h = plain_hdr(0, 0);
                        h.nc = I::V(nc);
                        h.mc = I::V(mc);
                        h.np = I::V(np);
                        h.mp = I::V(mp);
                        let ncl = if nc >= 0 && nc <= 2 { nc as usize } else { 1 };
                        let cls: Vec<Cl> = (0..ncl).map(plain_client).collect();
                        do_parse(&mut o, k, &build(k, &h, &cls));
                    }
                }
            }
        }
    }
    // 64-player legacy: offset x number of clients in the packet (slot 63, 64, 65 and beyond)
    for off in [-1i64, 0, 1, 22, 23, 24, 39, 40, 41, 47, 48, 61, 62, 63, 64, 65, 66, 100, 65535, i32::MAX as i64 - 1, i32::MAX as i64] {
        for ncl in [0usize, 1, 2, 3, 24, 25, 26, 31, 32, 33, 40, 41, 62, 63, 64, 65, 66, 100] {
            let mut h = plain_hdr(64, 64);
            h.np = I::V(0);
            h.mp = I::V(64);
            h.offset = I::V(off);
            let cls: Vec<Cl> = (0..ncl).map(plain_client).collect();
            let p = build(K664, &h, &cls);
            do_parse(&mut o, K664, &p);
            let mut d = INFO_6_64.to_vec();
            d.extend_from_slice(&p);
            do_resp(&mut o, &d);
        }
    }
    // extended `more` packets: packet number x number of clients
    for no in [i32::MIN as i64, -1, 0, 1, 2, 31, 32, 33, 62, 63, 64, 65, 66, 128, i32::MAX as i64] {
        for ncl in [0usize, 1, 3] {
            let mut h = plain_hdr(0, 0);
            h.packet_no = I::V(no);
            let cls: Vec<Cl> = (0..ncl).map(plain_client).collect();
            let p = build(KMore, &h, &cls);
            do_parse(&mut o, KMore, &p);
            let mut d = INFO_6_EX_MORE.to_vec();
            d.extend_from_slice(&p);
            do_resp(&mut o, &d);
        }
    }
    // string capacities: every length around the cut, with 1..4-byte characters at the cut
    for &k in &KINDS {
        for (cap, field) in [(32usize, 0), (64, 1), (64, 2), (32, 3), (32, 4), (15, 5), (11, 6), (0, 7)] {
            for ch in ["a", "é", "€", "😀"] {
                for len in cap.saturating_sub(4)..=cap + 4 {
                    for lead in 0..ch.len().min(2) + 1 {
                        let mut s = "x".repeat(lead);
                        while s.len() < len {
                            s.push_str(ch);
                        }
                        let s = s.into_bytes();
                        let mut h = plain_hdr(1, 16);
                        let mut c = plain_client(3);
                        match field {
                            0 => h.version = s,
                            1 => h.name = s,
                            2 => h.hostname = s,
                            3 => h.map = s,
                            4 => h.game_type = s,
                            5 => c.name = s,
                            6 => c.clan = s,
                            _ => {
                                h.extra = s.clone();
                                c.extra = s
                            }
                        }
                        do_parse(&mut o, k, &build(k, &h, &[c]));
                    }
                }
            }
            if !th && k != K6 && k != KEx && k != K7 {
                break; // quick tier: the full string sweep for three kinds, the first field for the others
            }
        }
    }

    // ---- 4. structured random infos, then mutated and random datagrams
    let n_rand = if th { 30_000 } else { 4_000 };
    for _ in 0..n_rand {
        let k = *r.pick(&KINDS);
        let ncl = match r.below(6) { 0 => 0, 1 => 1, 2 => r.below(5) as usize, 3 => r.below(17) as usize, 4 => 16 + r.below(10) as usize, _ => r.below(70) as usize };
        let mut h = gen_hdr(&mut r, k, ncl);
        if r.chance(1, 6) {
            let f = *r.pick(&INT_FIELDS);
            let v = gen_int(&mut r, false);
            h.set(f, v);
        }
        if k == K664 && r.chance(1, 2) {
            h.offset = I::V(*r.pick(&[0, 24, 48, 40, 60, 63, 64, 16]));
        }
        let cls: Vec<Cl> = (0..ncl).map(|_| gen_client(&mut r)).collect();
        let p = build(k, &h, &cls);
        match r.below(4) {
            0 => do_parse(&mut o, k, &p),
            1 => {
                let mut d = k.header();
                d.extend_from_slice(&p);
                do_resp(&mut o, &d);
            }
            2 => {
                let mut d = k.header();
                d.extend_from_slice(&p);
                if k == K7 {
                    for i in 1..9 {
                        d[i] = r.byte();
                    }
                } else if k != K6d && r.chance(1, 2) {
                    for i in 1..6 {
                        d[i] = r.byte();
                    }
                }
                mutate(&mut r, &mut d);
                do_resp(&mut o, &d);
            }
            _ => {
                // the payload parsed as a different kind
                let mut q = p.clone();
                if r.chance(1, 2) {
                    mutate(&mut r, &mut q);
                }
                let k2 = *r.pick(&KINDS);
                do_parse(&mut o, k2, &q);
            }
        }
    }
    for _ in 0..(if th { 20_000 } else { 3_000 }) {
        let n = r.below(60) as usize;
        let mut d: Vec<u8> = match r.below(4) {
            0 => r.bytes(n),
            1 => (0..n).map(|_| *r.pick(&[0u8, 0, b'0', b'1', b'9', b'-', b'a', 0xff, 0x80, 0xc3, 0xa9])).collect(),
            _ => (0..n).map(|_| *r.pick(&[0u8, b'0', b'1', b'2', b'5', b'a', b'b'])).collect(),
        };
        if r.chance(3, 4) {
            let k = *r.pick(&KINDS);
            if r.chance(1, 2) {
                do_parse(&mut o, k, &d);
                continue;
            }
            let mut e = k.header();
            e.append(&mut d);
            d = e;
        }
        do_resp(&mut o, &d);
    }

    // ---- 5. merging: all sequences over <= 4 parts
    let extra = if th { 3 } else { 2 };
    let shapes: Vec<Vec<usize>> = vec![vec![3], vec![2, 1], vec![1, 2], vec![24, 24, 16], vec![3, 3, 3], vec![1, 1, 1], vec![2, 1, 3, 1], vec![24, 24, 15, 1], vec![1, 1, 1, 1],
        // a part without clients (an empty `more` packet / an empty mask), the main part without clients
        vec![2, 0, 1], vec![0, 3],
        // one packet filling all 64 slots, and packets ending exactly at / next to slot 63
        vec![64], vec![63, 1], vec![1, 63], vec![32, 32], vec![40, 23]];
    for ex in [false, true] {
        for sh in &shapes {
            let reps = 1;
            for _ in 0..reps {
                let m = gen_multi(&mut r, ex, sh.len(), sh);
                let maxlen = (sh.len() + extra).min(if th { 7 } else { 6 });
                multi_exhaustive(&mut o, &m, maxlen, if ex { "ex" } else { "664" });
            }
        }
    }
    o.exhaustive("merge: every sequence (all permutations x all duplication patterns, covering or not) over the parts of 32 multi-part infos with 1..4 parts, up to length parts+2 (thorough: +3)");
    // the documented test vector of the crate (3 parts), all sequences up to length 5
    {
        let p0 = b"86536\0version\0name\0map\x006277493\x00627272\0gametype\x0035247\x003\x006\x009\x0012\0\0player8\0clan8\x008\x0088\x001\0\0player3\0clan3\x003\x0033\x001\0\0player1\0clan1\x001\x0011\x000\0\0".to_vec();
        let p1 = b"86536\x001\0\0player4\0clan4\x004\x0044\x000\0\0player6\0clan6\x006\x0066\x000\0\0player5\0clan5\x005\x0055\x000\0\0".to_vec();
        let p2 = b"86536\x002\0\0player9\0clan9\x009\x0099\x000\0\0player7\0clan7\x007\x0077\x001\0\0player2\0clan2\x002\x0022\x000\0\0".to_vec();
        let mk = |n: &str, f: i64| Cl { name: format!("player{}", n).into_bytes(), clan: vec![], country: I::V(0), score: I::V(0), flags: I::V(f), extra: vec![] };
        let m = Multi {
            parts: vec![Part { kind: KEx, payload: p0 }, Part { kind: KMore, payload: p1 }, Part { kind: KMore, payload: p2 }],
            part_clients: vec![vec![mk("8", 1), mk("3", 1), mk("1", 0)], vec![mk("4", 0), mk("6", 0), mk("5", 0)], vec![mk("9", 0), mk("7", 1), mk("2", 0)]],
            announced: 9,
            ex: true,
        };
        multi_exhaustive(&mut o, &m, 5, "exdoc");
    }
    // ---- 6. sampled orders up to the maximum part count
    for ex in [false, true] {
        for &n in &[5usize, 8, 16, 33, 64] {
            let sizes: Vec<usize> = if ex {
                (0..n).map(|i| if n == 64 { 1 + (i % 2) } else { 1 + r.below(4) as usize }).collect()
            } else {
                // 64 slots in all
                let mut s = vec![1usize; n];
                let mut left = 64 - n;
                while left > 0 {
                    let k = r.below(n as u64) as usize;
                    if s[k] < 24 {
                        s[k] += 1;
                        left -= 1;
                    }
                }
                s
            };
            let m = gen_multi(&mut r, ex, n, &sizes);
            let cnt = if th { 200 } else { if n >= 33 { 12 } else { 30 } };
            multi_sampled(&mut o, &mut r, &m, cnt, if ex { "exL" } else { "664L" });
        }
    }

    // ---- 7. hostile histories: parts of different infos, overlapping parts, get/take/self-merge
    for _ in 0..(if th { 3000 } else { 500 }) {
        let np = 2 + r.below(4) as usize;
        let mut parts: Vec<Part> = vec![];
        let shared_token = if r.chance(1, 3) { 0 } else { r.range(0, 5) };
        // mostly one family (so that the masks decide), sometimes legacy and extended parts mixed
        let family = r.below(10);
        for _ in 0..np {
            let k = if family < 5 { K664 } else if family < 9 { *r.pick(&[KEx, KMore, KMore]) } else { *r.pick(&[K664, KEx, KMore, KMore]) };
            let ncl = r.below(4) as usize;
            let mut h = plain_hdr(r.range(0, 6), 64);
            h.np = I::V(0);
            h.token = I::V(if r.chance(4, 5) { shared_token } else { r.range(0, 5) });
            h.packet_no = I::V(*r.pick(&[1, 1, 2, 3, 63]));
            h.offset = I::V(*r.pick(&[0, 0, 1, 2, 3, 24, 62]));
            if r.chance(1, 4) {
                h.name = b"other".to_vec();
            }
            let cls: Vec<Cl> = (0..ncl).map(|i| plain_client(i + r.below(9) as usize)).collect();
            parts.push(Part { kind: k, payload: build(k, &h, &cls) });
        }
        let len = 1 + r.below(9) as usize;
        let mut ops = vec![Op::M(r.below(np as u64) as usize)];
        for _ in 0..len {
            ops.push(match r.below(10) {
                0 => Op::G,
                1 => Op::T,
                2 => Op::S,
                _ => Op::M(r.below(np as u64) as usize),
            });
        }
        if r.chance(1, 6) {
            // after take_info the state is the default info with a full mask
            ops.push(Op::T);
            ops.push(Op::S);
            ops.push(Op::M(r.below(np as u64) as usize));
        }
        let ptxt = parts_txt(&parts);
        do_merge(&mut o, &parts, &ptxt, &ops, &format!("hist-{}", ops.iter().map(|x| match x { Op::M(_) => 'm', Op::G => 'g', Op::T => 't', Op::S => 's' }).collect::<String>().chars().take(4).collect::<String>()));
    }
    o.finish();
}

//! C17: the incremental teehistorian reader (libtw2_teehistorian::verif, the real
//! raw::Reader / Buffer behind the cfg(libtw2_verif) hook) against the Coq model.
//!
//! Case lines
//!   S  <sid> <hv> <stream hex>            result: the full canonical item text of a one-piece read
//!   F  <sid> <hv> <policy> <sizes>        result: n=<items> h=<fnv64 of the text> end=<final>
//! <hv> is what the real format::read_header says about the JSON text (v<version> / e<code> / -):
//! the model treats serde_json/chrono as an opaque function and is told its value here.
//! <sizes> are the byte counts the read callback actually returned (0 = Ok(Some(0))).
//! <policy> tells the model when its buffer compacts (n never, a always, x alternating);
//! the real buffer compacts when its Vec is full, which the model proves irrelevant.
use libtw2_packer::{with_packer, Unpacker};
use libtw2_teehistorian::format;
use libtw2_teehistorian::format::item as fi;
use libtw2_teehistorian::verif::{Buffer, Callback, Error, Item, Reader};
use std::collections::BTreeMap;
use std::sync::Arc;
use tw2verif::*;

const MAGIC: [u8; 16] = [
    0x69, 0x9d, 0xb1, 0x7b, 0x8e, 0xfb, 0x34, 0xff, 0xb1, 0xd8, 0xda, 0x6f, 0x60, 0xc1, 0x5d, 0xd1,
];

// ---------------------------------------------------------------- the read callback

struct Feed {
    data: Arc<Vec<u8>>,
    pos: usize,
    plan: Vec<usize>,
    next: usize,
    given: Vec<usize>,
    calls: u64,
}

impl Callback for Feed {
    type Error = ();
    fn read_at_most(&mut self, buf: &mut [u8]) -> Result<Option<usize>, ()> {
        self.calls += 1;
        if self.calls > 4_000_000 {
            return Err(()); // only reachable if the reader loops without consuming
        }
        let remaining = self.data.len() - self.pos;
        let want = if self.next < self.plan.len() {
            let w = self.plan[self.next];
            self.next += 1;
            Some(w)
        } else {
            None
        };
        let n = match want {
            Some(0) => 0,
            _ if remaining == 0 => return Ok(None),
            Some(w) => w.min(remaining).min(buf.len()),
            None => remaining.min(buf.len()),
        };
        buf[..n].copy_from_slice(&self.data[self.pos..self.pos + n]);
        self.pos += n;
        self.given.push(n);
        Ok(Some(n))
    }
}

// ---------------------------------------------------------------- canonical text

fn ints(v: &[i32]) -> String {
    v.iter().map(|x| x.to_string()).collect::<Vec<_>>().join(",")
}

fn item_text(it: &Item) -> String {
    use Item::*;
    match it {
        TickStart(t) => format!("TS{}", t),
        TickEnd(t) => format!("TE{}", t),
        PlayerNew(p) => format!("PN{},{},{}", p.cid, p.pos.x, p.pos.y),
        PlayerChange(p) => format!("PC{},{},{},{},{}", p.cid, p.pos.x, p.pos.y, p.old_pos.x, p.old_pos.y),
        PlayerOld(p) => format!("PO{},{},{}", p.cid, p.pos.x, p.pos.y),
        Input(i) => format!("IN{}:{}", i.cid, ints(&i.input)),
        Message(i) => format!("Message:i{}|d{}", i.cid, hex(i.msg)),
        Join(i) => format!("Join:i{}", i.cid),
        Drop(i) => format!("Drop:i{}|s{}", i.cid, hex(i.reason)),
        ConsoleCommand(i) => format!(
            "Console:{},{},{},[{}]",
            i.cid,
            i.flag_mask,
            hex(i.cmd),
            i.args.iter().map(|a| hex(a)).collect::<Vec<_>>().join(";")
        ),
        Antibot(i) => format!("Antibot:t{}", hex(i.data)),
        AuthInit(i) => format!("AuthInit:i{}|i{}|s{}", i.cid, i.level, hex(i.identity)),
        AuthLogin(i) => format!("AuthLogin:i{}|i{}|s{}", i.cid, i.level, hex(i.identity)),
        AuthLogout(i) => format!("AuthLogout:i{}", i.cid),
        Ddnetver(i) => format!(
            "Ddnetver:i{}|r{}|i{}|s{}",
            i.cid,
            hex(i.connection_id.as_bytes()),
            i.ddnet_version,
            hex(i.ddnet_version_str)
        ),
        DdnetverOld(i) => format!("DdnetverOld:i{}|i{}", i.cid, i.ddnet_version),
        Joinver6(i) => format!("Joinver6:i{}", i.cid),
        Joinver7(i) => format!("Joinver7:i{}", i.cid),
        PlayerFinish(i) => format!("PlayerFinish:i{}|i{}", i.cid, i.time_ticks),
        PlayerName(i) => format!("PlayerName:i{}|s{}", i.cid, hex(i.name)),
        PlayerReady(i) => format!("PlayerReady:i{}", i.cid),
        PlayerRejoin(i) => format!("PlayerRejoin:i{}", i.cid),
        PlayerSwap(i) => format!("PlayerSwap:i{}|i{}", i.cid1, i.cid2),
        PlayerTeam(i) => format!("PlayerTeam:i{}|i{}", i.cid, i.team),
        TeamFinish(i) => format!("TeamFinish:i{}|i{}", i.team, i.time_ticks),
        TeamLoadFailure(i) => format!("TeamLoadFailure:i{}", i.team),
        TeamLoadSuccess(i) => format!("TeamLoadSuccess:i{}|r{}|s{}", i.team, hex(i.save_uuid.as_bytes()), hex(i.save)),
        TeamPractice(i) => format!("TeamPractice:i{}|i{}", i.team, i.practice),
        TeamSaveFailure(i) => format!("TeamSaveFailure:i{}", i.team),
        TeamSaveSuccess(i) => format!("TeamSaveSuccess:i{}|r{}|s{}", i.team, hex(i.save_uuid.as_bytes()), hex(i.save)),
        UnknownEx(i) => format!("Unknown:{},{}", hex(i.uuid.as_bytes()), hex(i.data)),
    }
}

fn header_code(e: &format::HeaderError) -> u32 {
    use format::HeaderError::*;
    match e {
        WrongMagic => 0,
        MalformedJson => 1,
        MalformedHeader => 2,
        MalformedVersion => 3,
        MalformedGameUuid => 4,
        MalformedStartTime => 5,
        MalformedServerPort => 6,
        MalformedMapSize => 7,
        MalformedMapCrc => 8,
    }
}

fn err_text(e: &Error<()>) -> String {
    use format::Error as E;
    match e {
        Error::Cb(()) => "Cb".into(),
        Error::Teehistorian(e) => match e {
            E::Header(h) => format!("Header{}", header_code(h)),
            E::Item(fi::Error::UnknownType(x)) => format!("UnknownType({})", x),
            E::Item(fi::Error::NegativeDt) => "NegativeDt".into(),
            E::Item(fi::Error::NegativeNumArgs) => "NegativeNumArgs".into(),
            E::Item(fi::Error::NumArgsTooLarge) => "NumArgsTooLarge".into(),
            E::UnknownVersion => "UnknownVersion".into(),
            E::TickOverflow => "TickOverflow".into(),
            E::UnexpectedEnd => "UnexpectedEnd".into(),
            E::InvalidClientId => "InvalidClientId".into(),
            E::PlayerNewDuplicate => "PlayerNewDuplicate".into(),
            E::PlayerDiffWithoutNew => "PlayerDiffWithoutNew".into(),
            E::PlayerOldWithoutNew => "PlayerOldWithoutNew".into(),
            E::InputNewDuplicate => "InputNewDuplicate".into(),
            E::InputDiffWithoutNew => "InputDiffWithoutNew".into(),
        },
    }
}

#[derive(Clone, Debug, PartialEq)]
struct RunOut {
    items: Vec<String>,
    fin: String,     // END max_cid=.. | ERR:..
    given: Vec<usize>,
    leftover: usize, // bytes of the stream never delivered
}

/// one session of the real reader over `data`, the callback following `plan`
fn session(data: Arc<Vec<u8>>, plan: Vec<usize>) -> RunOut {
    let mut cb = Feed { data: data.clone(), pos: 0, plan, next: 0, given: vec![], calls: 0 };
    let mut buffer = Buffer::new();
    let mut items = vec![];
    let fin;
    let made = match Reader::new(&mut cb, &mut buffer) {
        Ok((_header, reader)) => Ok(reader),
        Err(e) => Err(e),
    };
    match made {
        Err(e) => fin = format!("ERR:{}", err_text(&e)),
        Ok(mut reader) => loop {
            match reader.read(&mut cb, &mut buffer) {
                Ok(Some(it)) => items.push(item_text(&it)),
                Ok(None) => {
                    // Reader::cids is 0 .. max_cid + 1
                    let mc = guard(|| reader.cids().end as i64 - 1);
                    fin = match mc {
                        Ok(m) => format!("END max_cid={}", m),
                        Err(_) => "END max_cid=panic".to_string(),
                    };
                    break;
                }
                Err(e) => {
                    fin = format!("ERR:{}", err_text(&e));
                    break;
                }
            }
        },
    }
    RunOut { items, fin, given: cb.given, leftover: data.len() - cb.pos }
}

fn fnv(s: &str) -> u64 {
    let mut h: u64 = 0xcbf29ce484222325;
    for b in s.bytes() {
        h ^= b as u64;
        h = h.wrapping_mul(0x100000001b3);
    }
    h
}

fn full_text(r: &RunOut) -> String {
    let mut s = r.items.join(" ");
    if !s.is_empty() {
        s.push(' ');
    }
    s.push_str(&r.fin);
    s
}

fn digest_text(items: usize, text: &str, fin: &str) -> String {
    format!("n={} h={:016x} end={}", items, fnv(text), fin)
}

// ---------------------------------------------------------------- independent oracles

/// the messages of a stream, decoded with the public whole-slice decoder
#[derive(Clone, Debug)]
enum Msg {
    TickSkip(i64),
    PlayerNew(i32, i32, i32),
    PlayerDiff(i32, i32, i32),
    PlayerOld(i32),
    InputNew(i32, [i32; 10]),
    InputDiff(i32, [i32; 10]),
    Other,
}

fn parse_msgs(body: &[u8], version: i32) -> Option<Vec<Msg>> {
    let v = match version {
        1 => format::Version::V1,
        2 => format::Version::V2,
        _ => return None,
    };
    let mut p = Unpacker::new(body);
    let mut out = vec![];
    loop {
        let it = match fi::Item::decode(&mut p, v) {
            Ok(it) => it,
            Err(_) => return None,
        };
        out.push(match it {
            fi::Item::Finish(_) => return Some(out),
            fi::Item::TickSkip(t) => Msg::TickSkip(t.dt as i64),
            fi::Item::PlayerNew(i) => Msg::PlayerNew(i.cid, i.x, i.y),
            fi::Item::PlayerDiff(i) => Msg::PlayerDiff(i.cid, i.dx, i.dy),
            fi::Item::PlayerOld(i) => Msg::PlayerOld(i.cid),
            fi::Item::InputNew(i) => Msg::InputNew(i.cid, i.new),
            fi::Item::InputDiff(i) => Msg::InputDiff(i.cid, i.diff),
            _ => Msg::Other,
        });
    }
}

/// doc/teehistorian.md, "(Implicit) Ticks": the pseudo-code, line by line
fn doc_ticks(msgs: &[Msg]) -> Vec<i64> {
    let mut tick: i64 = 0;
    let mut implicit_cid: Option<i32> = None;
    let mut out = vec![];
    for message in msgs {
        if let Msg::TickSkip(dt) = message {
            tick += dt + 1;
            implicit_cid = None;
        }
        let cid = match message {
            Msg::PlayerDiff(c, _, _) | Msg::PlayerNew(c, _, _) | Msg::PlayerOld(c) => Some(*c),
            _ => None,
        };
        if let Some(cid) = cid {
            if implicit_cid.is_some() && cid <= implicit_cid.unwrap() {
                tick += 1;
            }
            implicit_cid = Some(cid);
        }
        out.push(tick);
    }
    out
}

/// nesting and monotonicity of the tick markers; returns the tick of every non-marker item.
/// `complete`: the list must also end outside a tick.
fn nesting(items: &[String], complete: bool) -> Result<Vec<i64>, String> {
    let mut open: Option<i64> = None;
    let mut last: Option<i64> = None;
    let mut ticks = vec![];
    for (k, it) in items.iter().enumerate() {
        if let Some(t) = it.strip_prefix("TS") {
            let t: i64 = t.parse().unwrap();
            if open.is_some() {
                return Err(format!("item {}: TickStart({}) inside tick {:?}", k, t, open));
            }
            if let Some(l) = last {
                if t <= l {
                    return Err(format!("item {}: TickStart({}) after tick {}", k, t, l));
                }
            }
            open = Some(t);
            last = Some(t);
        } else if let Some(t) = it.strip_prefix("TE") {
            let t: i64 = t.parse().unwrap();
            if open != Some(t) {
                return Err(format!("item {}: TickEnd({}) but the open tick is {:?}", k, t, open));
            }
            open = None;
        } else {
            match open {
                None => return Err(format!("item {}: {} outside a tick", k, it)),
                Some(t) => ticks.push(t),
            }
        }
    }
    if complete && open.is_some() {
        return Err(format!("ends inside tick {:?}", open));
    }
    Ok(ticks)
}

/// what the items must be, given the messages: positions and inputs as wrapping running sums
fn expected_payload(msgs: &[Msg]) -> Vec<Option<String>> {
    let mut pos: BTreeMap<i32, (i32, i32)> = BTreeMap::new();
    let mut inp: BTreeMap<i32, [i32; 10]> = BTreeMap::new();
    let mut out = vec![];
    for m in msgs {
        out.push(match m {
            Msg::TickSkip(_) => continue,
            Msg::PlayerNew(c, x, y) => {
                pos.insert(*c, (*x, *y));
                Some(format!("PN{},{},{}", c, x, y))
            }
            Msg::PlayerDiff(c, dx, dy) => {
                let (ox, oy) = *pos.get(c).unwrap_or(&(0, 0));
                let n = (ox.wrapping_add(*dx), oy.wrapping_add(*dy));
                pos.insert(*c, n);
                Some(format!("PC{},{},{},{},{}", c, n.0, n.1, ox, oy))
            }
            Msg::PlayerOld(c) => {
                let (x, y) = pos.remove(c).unwrap_or((0, 0));
                Some(format!("PO{},{},{}", c, x, y))
            }
            Msg::InputNew(c, v) => {
                inp.insert(*c, *v);
                Some(format!("IN{}:{}", c, ints(v)))
            }
            Msg::InputDiff(c, d) => {
                let mut cur = *inp.get(c).unwrap_or(&[0; 10]);
                for k in 0..10 {
                    cur[k] = cur[k].wrapping_add(d[k]);
                }
                inp.insert(*c, cur);
                Some(format!("IN{}:{}", c, ints(&cur)))
            }
            Msg::Other => None,
        });
    }
    out
}

// ---------------------------------------------------------------- stream generator

fn wi(out: &mut Vec<u8>, v: i32) {
    let mut buf = [0u8; 8];
    let n = with_packer(&mut buf[..], |mut p| {
        p.write_int(v).unwrap();
        p.written().len()
    });
    out.extend_from_slice(&buf[..n]);
}
fn ws(out: &mut Vec<u8>, s: &[u8]) {
    out.extend(s.iter().map(|&b| if b == 0 { 1 } else { b }));
    out.push(0);
}

const JSON_TAIL: &str = r#""game_uuid":"a1eb7182-796e-3b3e-941d-38ca71b2a4a8","start_time":"2018-01-01T00:00:00+01:00","server_port":"8303","map_name":"dm1","map_size":"5805","map_crc":"f2159e6e","config":{}}"#;

fn header(version: &str) -> Vec<u8> {
    let mut h = MAGIC.to_vec();
    let mut json = format!("{{\"version\":\"{}\",{}", version, JSON_TAIL);
    if version == "1" {
        // version 1 files carry the start time in another format
        json = json.replace("2018-01-01T00:00:00+01:00", "2018-01-01 00:00:00 +0100");
    }
    h.extend_from_slice(json.as_bytes());
    h.push(0);
    h
}

const KNOWN_EX: [([u8; 16], &str); 20] = [
    (fi::UUID_ANTIBOT, "t"),
    (fi::UUID_AUTH_INIT, "iis"),
    (fi::UUID_AUTH_LOGIN, "iis"),
    (fi::UUID_AUTH_LOGOUT, "i"),
    (fi::UUID_DDNETVER, "iuis"),
    (fi::UUID_DDNETVER_OLD, "ii"),
    (fi::UUID_JOINVER6, "i"),
    (fi::UUID_JOINVER7, "i"),
    (fi::UUID_PLAYER_FINISH, "ii"),
    (fi::UUID_PLAYER_NAME, "is"),
    (fi::UUID_PLAYER_READY, "i"),
    (fi::UUID_PLAYER_REJOIN, "i"),
    (fi::UUID_PLAYER_SWAP, "ii"),
    (fi::UUID_PLAYER_TEAM, "ii"),
    (fi::UUID_TEAM_FINISH, "ii"),
    (fi::UUID_TEAM_LOAD_FAILURE, "i"),
    (fi::UUID_TEAM_LOAD_SUCCESS, "ius"),
    (fi::UUID_TEAM_PRACTICE, "ii"),
    (fi::UUID_TEAM_SAVE_FAILURE, "i"),
    (fi::UUID_TEAM_SAVE_SUCCESS, "ius"),
];

struct Gen {
    out: Vec<u8>,
    alive: BTreeMap<i32, ()>,
    has_input: BTreeMap<i32, ()>,
    kinds: std::collections::BTreeSet<&'static str>,
}

impl Gen {
    fn cid(&mut self, r: &mut Rng) -> i32 {
        match r.below(12) {
            0 => r.below(1000) as i32,
            1 => 63,
            _ => r.below(8) as i32,
        }
    }
    fn small_bytes(r: &mut Rng, max: u64) -> Vec<u8> {
        let n = if r.chance(1, 4) { 0 } else { r.below(max + 1) } as usize;
        r.bytes(n)
    }
    fn ex(&mut self, r: &mut Rng, hostile: bool) {
        wi(&mut self.out, -11);
        let mut data = vec![];
        if r.chance(1, 6) {
            // unknown UUID
            let mut u = r.bytes(16);
            u[0] = 0xEE;
            self.out.extend_from_slice(&u);
            data = Gen::small_bytes(r, 40);
            self.kinds.insert("ex-unknown");
        } else {
            let (uuid, shape) = *r.pick(&KNOWN_EX);
            self.out.extend_from_slice(&uuid);
            for c in shape.chars() {
                match c {
                    'i' => wi(&mut data, if r.chance(1, 2) { r.below(64) as i32 } else { r.i32_edgy() }),
                    's' => ws(&mut data, &Gen::small_bytes(r, 24)),
                    'u' => data.extend(r.bytes(16)),
                    _ => data.extend(Gen::small_bytes(r, 30)),
                }
            }
            if r.chance(1, 8) {
                data.extend(Gen::small_bytes(r, 5)); // excess data after the struct: ignored by the reader
                self.kinds.insert("ex-excess");
            }
            if hostile && r.chance(1, 3) && !data.is_empty() {
                let k = r.below(data.len() as u64) as usize;
                data.truncate(k); // inner struct cut short
                self.kinds.insert("ex-short");
            }
            self.kinds.insert("ex-known");
        }
        wi(&mut self.out, data.len() as i32);
        self.out.extend_from_slice(&data);
    }
    fn other(&mut self, r: &mut Rng, hostile: bool) {
        match r.below(9) {
            0 | 1 => {
                // input
                let c = self.cid(r);
                let new = !self.has_input.contains_key(&c) || r.chance(1, 6);
                wi(&mut self.out, if new { -6 } else { -5 });
                wi(&mut self.out, c);
                for _ in 0..10 {
                    let v = if r.chance(1, 3) { r.i32_edgy() } else { r.range(-3, 3) as i32 };
                    wi(&mut self.out, v);
                }
                self.has_input.insert(c, ());
                self.kinds.insert(if new { "input-new" } else { "input-diff" });
            }
            2 => {
                wi(&mut self.out, -7);
                let c = self.cid(r);
                wi(&mut self.out, c);
                let m = Gen::small_bytes(r, 60);
                wi(&mut self.out, m.len() as i32);
                self.out.extend_from_slice(&m);
                self.kinds.insert("message");
            }
            3 => {
                wi(&mut self.out, -8);
                let c = self.cid(r);
                wi(&mut self.out, c);
                self.kinds.insert("join");
            }
            4 => {
                wi(&mut self.out, -9);
                let c = self.cid(r);
                wi(&mut self.out, c);
                ws(&mut self.out, &Gen::small_bytes(r, 20));
                self.kinds.insert("drop");
            }
            5 => {
                wi(&mut self.out, -10);
                let c = if r.chance(1, 4) { -1 } else { self.cid(r) };
                wi(&mut self.out, c);
                wi(&mut self.out, r.i32_edgy());
                ws(&mut self.out, &Gen::small_bytes(r, 12));
                let n = if hostile && r.chance(1, 4) { *r.pick(&[17, 18, 100, -1, i32::MAX]) } else { *r.pick(&[0, 0, 1, 2, 3, 15, 16]) };
                wi(&mut self.out, n);
                for _ in 0..n.clamp(0, 20) {
                    ws(&mut self.out, &Gen::small_bytes(r, 6));
                }
                self.kinds.insert("console");
            }
            _ => self.ex(r, hostile),
        }
    }
}

/// a server history written the way DDNet writes it (players in ascending cid order at the
/// start of a tick, the tick implicit when possible) or, with `wild`, any valid record order
fn gen_stream(r: &mut Rng, ticks: usize, wild: bool, hostile: bool, version: &str) -> (Vec<u8>, std::collections::BTreeSet<&'static str>) {
    let mut g = Gen { out: header(version), alive: BTreeMap::new(), has_input: BTreeMap::new(), kinds: Default::default() };
    let v1 = version == "1";
    let mut prev_max: i32 = -1;
    let mut pending_skip: u32 = 0; // ticks since the last written tick in which nothing was written
    let mut first = true;
    for _ in 0..ticks {
        // empty tick?
        if r.chance(1, 5) {
            pending_skip += if r.chance(1, 10) { r.below(100000) as u32 } else { 1 };
            prev_max = -1;
            continue;
        }
        // who does something this tick
        let mut acts: Vec<(i32, u8)> = vec![];
        let cands: Vec<i32> = if wild { (0..6).map(|_| g.cid(r)).collect() } else { (0..8).collect() };
        for c in cands {
            if acts.iter().any(|a| a.0 == c) && !wild {
                continue;
            }
            if g.alive.contains_key(&c) {
                match r.below(6) {
                    0 => {
                        acts.push((c, 2));
                        g.alive.remove(&c);
                    }
                    1 | 2 | 3 => acts.push((c, 1)),
                    _ => {}
                }
            } else if r.chance(1, 3) {
                acts.push((c, 0));
                g.alive.insert(c, ());
            }
        }
        if !wild {
            acts.sort();
        }
        let mut tick_written = false;
        let write_tick = |g: &mut Gen, pending_skip: &mut u32, first: bool, r: &mut Rng| {
            let dt = *pending_skip;
            // the very first tick is tick 0: writing TICK_SKIP is optional there
            if !(first && dt == 0 && r.chance(1, 2)) {
                wi(&mut g.out, -2);
                wi(&mut g.out, dt as i32);
                g.kinds.insert("tick-skip");
            }
            *pending_skip = 0;
        };
        let mut max_cid = -1;
        for (c, what) in acts {
            if !tick_written {
                if first || c > prev_max || pending_skip != 0 || (wild && r.chance(1, 4)) {
                    write_tick(&mut g, &mut pending_skip, first, r);
                } else {
                    g.kinds.insert("tick-implicit");
                }
                tick_written = true;
            }
            max_cid = max_cid.max(c);
            match what {
                0 => {
                    wi(&mut g.out, -3);
                    wi(&mut g.out, c);
                    wi(&mut g.out, r.i32_edgy());
                    wi(&mut g.out, r.i32_edgy());
                    g.kinds.insert("player-new");
                }
                1 => {
                    wi(&mut g.out, c);
                    let (dx, dy) = if r.chance(1, 4) { (r.i32_edgy(), r.i32_edgy()) } else { (r.range(-40, 40) as i32, r.range(-40, 40) as i32) };
                    wi(&mut g.out, dx);
                    wi(&mut g.out, dy);
                    g.kinds.insert("player-diff");
                }
                _ => {
                    wi(&mut g.out, -4);
                    wi(&mut g.out, c);
                    g.kinds.insert("player-old");
                }
            }
            if wild && r.chance(1, 10) {
                // a tick-skip in the middle of the player records
                wi(&mut g.out, -2);
                wi(&mut g.out, r.below(3) as i32);
                g.kinds.insert("tick-skip-mid");
            }
        }
        let n_other = if r.chance(1, 3) { 0 } else { r.below(4) };
        for _ in 0..n_other {
            if !tick_written {
                write_tick(&mut g, &mut pending_skip, first, r);
                tick_written = true;
            }
            if v1 && r.chance(1, 2) {
                // a version 1 file has no EX records
                wi(&mut g.out, -8);
                let c = g.cid(r);
                wi(&mut g.out, c);
            } else {
                g.other(r, hostile);
            }
        }
        if tick_written {
            first = false;
            prev_max = max_cid;
        } else {
            pending_skip += 1;
            prev_max = -1;
        }
        if wild && r.chance(1, 12) {
            // two tick-skips in a row
            wi(&mut g.out, -2);
            wi(&mut g.out, r.below(4) as i32);
            wi(&mut g.out, -2);
            wi(&mut g.out, r.below(4) as i32);
            g.kinds.insert("tick-skip-double");
            prev_max = -1;
        }
    }
    wi(&mut g.out, -1);
    (g.out, g.kinds)
}

// ---------------------------------------------------------------- one stream through everything

struct Ctx {
    o: Out,
    r: Rng,
    th: bool,
    sid: u64,
}

/// real verdict of serde_json/chrono on the header text
fn header_verdict(stream: &[u8]) -> (String, Option<i32>, usize) {
    if stream.len() < 16 {
        return ("-".into(), None, 0);
    }
    let nul = match stream[16..].iter().position(|&b| b == 0) {
        Some(p) => 16 + p,
        None => return ("-".into(), None, 0),
    };
    let mut p = Unpacker::new(&stream[16..nul + 1]);
    match format::read_header(&mut p) {
        Ok(h) => (format!("v{}", h.version), Some(h.version), nul + 1),
        Err(format::MaybeEnd::Err(e)) => (format!("e{}", header_code(&e)), None, nul + 1),
        Err(format::MaybeEnd::UnexpectedEnd) => ("-".into(), None, nul + 1),
    }
}

fn run_guarded(data: &Arc<Vec<u8>>, plan: Vec<usize>) -> RunOut {
    let d = data.clone();
    let p = plan.clone();
    match guard_timeout(20_000, move || session(d, p)) {
        Ok(Some(r)) => r,
        Ok(None) => RunOut { items: vec![], fin: "HANG".into(), given: plan, leftover: 0 },
        Err(_) => RunOut { items: vec![], fin: "PANIC".into(), given: plan, leftover: 0 },
    }
}

fn sizes_text(r: &RunOut) -> String {
    let mut v: Vec<String> = r.given.iter().map(|n| n.to_string()).collect();
    if r.leftover > 0 {
        v.push(r.leftover.to_string());
    }
    if v.is_empty() {
        "-".into()
    } else {
        v.join(",")
    }
}

fn do_stream(cx: &mut Ctx, stream: Vec<u8>, label: &str, full_frag: bool) {
    cx.sid += 1;
    let sid = cx.sid;
    let data = Arc::new(stream);
    let len = data.len();
    let (hv, version, body_at) = header_verdict(&data);

    // ---- reference: one piece
    let base = run_guarded(&data, vec![len]);
    let text = full_text(&base);
    let endkind: String = base.fin.split(|c| c == ' ' || c == '(').next().unwrap().to_string();
    let id = cx.o.case(&format!("S\t{}\t{}\t{}", sid, hv, hex(&data)), &text, &format!("{}:{}", label, endkind));
    cx.o.check(base.fin != "PANIC", "-", &id, || format!("stream {} ({}): the reader panicked", sid, hex(&data)));
    cx.o.check(base.fin != "HANG", "-", &id, || format!("stream {} ({}): the reader did not return", sid, hex(&data)));
    // the harness callback never fails by itself: an error from it means the reader asked it more than four million
    // times without ever consuming what it got (it would loop for ever on a real file)
    cx.o.check(!base.fin.contains("ERR:Cb"), "-", &id, || format!("stream {} ({} bytes, {}...): the reader keeps calling the read callback without making progress", sid, len, hex(&data[..len.min(100)])));

    // ---- oracles on the item list
    let complete = base.fin.starts_with("END");
    // a stream that the independent whole-slice decoder reads up to FINISH does not end early for the reader
    // (whatever the size of its records: the read buffer has to grow for records longer than itself)
    if !complete && base.fin.contains("UnexpectedEnd") {
        let whole = version.and_then(|v| parse_msgs(&data[body_at..], v)).is_some();
        cx.o.check(!whole, "-", &id, || format!("stream {} ({} bytes, {}...): the reader stops with {} although the stream is complete up to FINISH", sid, len, hex(&data[..len.min(120)]), base.fin));
    }
    match nesting(&base.items, complete) {
        Err(e) => cx.o.check(false, "-", &id, || format!("stream {}: tick markers not nested/increasing: {} in [{}]", sid, e, text)),
        Ok(item_ticks) => {
            cx.o.check(true, "-", &id, || String::new());
            if complete {
                if let Some(msgs) = version.and_then(|v| parse_msgs(&data[body_at..], v)) {
                    let dt = doc_ticks(&msgs);
                    let want: Vec<i64> = msgs.iter().zip(dt.iter()).filter(|(m, _)| !matches!(m, Msg::TickSkip(_))).map(|(_, t)| *t).collect();
                    cx.o.check(want == item_ticks, "-", &id, || {
                        let k = want.iter().zip(item_ticks.iter()).position(|(a, b)| a != b).unwrap_or(want.len().min(item_ticks.len()));
                        format!("stream {} ({}): message {} is reported in tick {:?} but doc/teehistorian.md numbers it {:?}; items [{}]",
                                sid, hex(&data), k, item_ticks.get(k), want.get(k), text)
                    });
                    // running sums
                    let payload: Vec<&String> = base.items.iter().filter(|s| !s.starts_with("TS") && !s.starts_with("TE")).collect();
                    let exp = expected_payload(&msgs);
                    let ok = exp.len() == payload.len() && exp.iter().zip(payload.iter()).all(|(e, p)| e.as_ref().map(|e| e == *p).unwrap_or(true));
                    cx.o.check(ok, "-", &id, || format!("stream {}: positions/inputs are not the wrapping running sums of the recorded differences: [{}]", sid, text));
                } else {
                    cx.o.check(false, "-", &id, || format!("stream {}: reader finished but the whole-slice decoder does not reach FINISH", sid));
                }
            }
        }
    }

    // ---- fragmentations
    let mut plans: Vec<(Vec<usize>, char)> = vec![];
    if len <= 4000 {
        plans.push((vec![1; len + 2], 'n'));
    }
    plans.push((vec![1; len + 2], 'a'));
    if full_frag {
        for k in 0..=len {
            if k < body_at && k > 20 && k % 7 != 0 && label != "pin-tickskip" {
                continue; // inside the JSON text: every 7th position
            }
            plans.push((vec![k, len - k], if k % 2 == 0 { 'x' } else { 'n' }));
        }
    } else {
        for _ in 0..(if len > 4000 { 3 } else { 12 }) {
            let k = cx.r.below(len as u64 + 1) as usize;
            plans.push((vec![k, len - k], 'x'));
        }
    }
    let nrand = if cx.th { 300 } else { 50 };
    let nrand = if full_frag { nrand } else if len > 4000 { 4 } else { nrand / 5 };
    for j in 0..nrand {
        let mut plan = vec![];
        let mut left = len;
        let big = cx.r.chance(1, 3);
        while left > 0 {
            if cx.r.chance(1, 5) {
                plan.push(0);
                if cx.r.chance(1, 3) {
                    plan.push(0);
                }
            }
            let m = if big { left as u64 } else { 1 + cx.r.below(9) };
            let n = (1 + cx.r.below(m.max(1))) as usize;
            let n = n.min(left);
            plan.push(n);
            left -= n;
        }
        if cx.r.chance(1, 2) {
            plan.push(0);
        }
        plans.push((plan, ['n', 'a', 'x'][j % 3]));
    }
    let want = digest_text(base.items.len(), &text, &base.fin);
    // all fragmentations of one stream run on one watchdog thread (panics are caught per run)
    let d = data.clone();
    let ps: Vec<Vec<usize>> = plans.iter().map(|p| p.0.clone()).collect();
    let budget = 20_000 + (plans.len() as u64) * (1 + len as u64 / 2000) * 20;
    let results: Vec<RunOut> = match guard_timeout(budget, move || {
        ps.into_iter()
            .map(|p| {
                let keep = p.clone();
                let d2 = d.clone();
                match guard(move || session(d2, p)) {
                    Ok(r) => r,
                    Err(_) => RunOut { items: vec![], fin: "PANIC".into(), given: keep, leftover: 0 },
                }
            })
            .collect()
    }) {
        Ok(Some(v)) => v,
        _ => plans.iter().map(|p| RunOut { items: vec![], fin: "HANG".into(), given: p.0.clone(), leftover: 0 }).collect(),
    };
    for ((_, pol), r) in plans.iter().zip(results.iter()) {
        let t = full_text(r);
        let got = digest_text(r.items.len(), &t, &r.fin);
        let fid = cx.o.case(&format!("F\t{}\t{}\t{}\t{}", sid, hv, pol, sizes_text(r)), &got, "");
        cx.o.check(got == want, "-", &fid, || {
            format!("stream {} ({}): items depend on the fragmentation: one piece gives [{}], read sizes {} give [{}]", sid, hex(&data), text, sizes_text(r), t)
        });
    }
}

fn main() {
    let a = Args::parse();
    if a.extra.len() == 2 && a.extra[0] == "--big-cid" {
        // child mode of the allocation probe: one PLAYER_NEW (or INPUT_NEW with a leading '-') record
        let v: i64 = a.extra[1].parse().unwrap();
        let mut s = header("2");
        if v >= 0 {
            for x in [-3, v as i32, 1, 1, -1] {
                wi(&mut s, x);
            }
        } else {
            wi(&mut s, -6);
            wi(&mut s, (-v) as i32);
            for _ in 0..10 {
                wi(&mut s, 0);
            }
            wi(&mut s, -1);
        }
        let l = s.len();
        let t0 = std::time::Instant::now();
        let r = session(Arc::new(s), vec![l]);
        println!("{} in {} ms", full_text(&r), t0.elapsed().as_millis());
        return;
    }
    let o = Out::new(&a, "S: one stream (header + records from a random server history: joins, moves, leaves, explicit/implicit/skipped ticks, inputs, messages, console commands, every known extension item, unknown UUIDs; DDNet-like and free record order; version 1/2/other; truncated, corrupted and garbage streams) read in one piece, full item text; F: the same stream under one fragmentation of the read callback (byte-by-byte, every two-piece split, random splits with zero-length reads), digest of the item text. distinct = distinct (generator, final outcome) classes");
    let r = Rng::new(a.seed);
    let th = a.thorough();
    let mut cx = Ctx { o, r, th, sid: 0 };

    if let Some(path) = &a.replay {
        // replay: re-run the streams named in a replay file's violation texts
        let txt = std::fs::read_to_string(path).unwrap_or_default();
        let mut seen = std::collections::BTreeSet::new();
        for part in txt.split("stream ").skip(1) {
            if let Some(p0) = part.find('(') {
                if let Some(p1) = part[p0..].find(')') {
                    let h = &part[p0 + 1..p0 + p1];
                    if h.chars().all(|c| c.is_ascii_hexdigit()) && h.len() % 2 == 0 && seen.insert(h.to_string()) {
                        do_stream(&mut cx, unhex(h), "replay", true);
                    }
                }
            }
        }
        cx.o.finish();
        return;
    }

    // ---- pinned streams
    // DESIGN.md section 9 #17: NEW 3; NEW 5; DIFF 5; TICK_SKIP 0; DIFF 3; FINISH
    {
        let mut s = header("2");
        for v in [-3, 3, 10, 10, -3, 5, 20, 20, 5, 1, 1, -2, 0, 3, 1, 1, -1] {
            wi(&mut s, v);
        }
        do_stream(&mut cx, s, "pin-tickskip", true);
        // the everyday shape of the same thing: one player, a pause, the same player again
        let mut s = header("2");
        for v in [-3, 0, 10, 10, 0, 1, 1, -2, 5, 0, 1, 1, -1] {
            wi(&mut s, v);
        }
        do_stream(&mut cx, s, "pin-tickskip", true);
        // tick overflow, both places
        let mut s = header("2");
        for v in [-2, i32::MAX - 1, -3, 1, 0, 0, -3, 0, 0, 0, -1] {
            wi(&mut s, v);
        }
        do_stream(&mut cx, s, "pin-overflow", true);
        let mut s = header("2");
        for v in [-2, 5, -2, i32::MAX - 6, -1] {
            wi(&mut s, v);
        }
        do_stream(&mut cx, s, "pin-overflow", true);
        let mut s = header("2");
        for v in [-2, 5, -2, i32::MAX - 7, -8, 1, -1] {
            wi(&mut s, v);
        }
        do_stream(&mut cx, s, "pin-overflow", true);
        // TICK_SKIP with the largest dt values, as the first record and after earlier ticks
        for dt in [i32::MAX, i32::MAX - 1, i32::MAX - 2, i32::MIN, -1] {
            for pre in [vec![], vec![-2, 0], vec![-2, 1], vec![-2, 0, -2, 0]] {
                let mut s = header("2");
                for v in pre.iter().chain([-2, dt, -8, 1, -1].iter()) {
                    wi(&mut s, *v);
                }
                do_stream(&mut cx, s, "pin-overflow", true);
            }
        }
        // largest client id in a record that does not allocate per-client state
        let mut s = header("2");
        for v in [-8, i32::MAX, -1] {
            wi(&mut s, v);
        }
        do_stream(&mut cx, s, "pin-maxcid", true);
        // one pinned stream per error value and per oddity
        let ints = |version: &str, vs: &[i32]| {
            let mut s = header(version);
            for v in vs {
                wi(&mut s, *v);
            }
            s
        };
        let z10 = [0i32; 10];
        let mut pins: Vec<Vec<u8>> = vec![
            ints("2", &[-4, 3, -1]),                                  // PLAYER_OLD without NEW
            ints("2", &[-3, 3, 0, 0, -3, 3, 1, 1, -1]),               // NEW twice
            ints("2", &[3, 1, 1, -1]),                                // DIFF without NEW
            ints("2", &[-3, -1, 0, 0, -1]),                           // negative client id
            ints("2", &[-4, -5, -1]),
            ints("2", &[-2, -1, -1]),                                 // negative dt
            ints("2", &[-12, -1]),                                    // unknown record type
            ints("1", &[-8, 1, -11]),                                 // EX in a version 1 file
            ints("1", &[-3, 1, 5, 5, 1, 1, 1, -4, 1, -1]),            // a valid version 1 file
            ints("2", &[-3, 2, i32::MAX, i32::MIN, 2, 1, -1, 2, i32::MAX, i32::MIN, -4, 2, -1]), // wrapping
        ];
        let mut s = ints("2", &[-5, 1]);
        for v in z10 { wi(&mut s, v); }
        wi(&mut s, -1);
        pins.push(s); // INPUT_DIFF without NEW
        let mut s = ints("2", &[-6, -7]);
        for v in z10 { wi(&mut s, v); }
        pins.push(s); // INPUT_NEW with a negative client id
        let mut s = ints("2", &[-6, 1]);
        for v in [i32::MAX, i32::MIN, 1, -1, 0, 0, 0, 0, 0, 7] { wi(&mut s, v); }
        for _ in 0..3 {
            wi(&mut s, -5);
            wi(&mut s, 1);
            for v in [1, -1, i32::MAX, i32::MIN, 0, 0, 0, 0, 0, -3] { wi(&mut s, v); }
        }
        wi(&mut s, -1);
        pins.push(s); // inputs wrap around
        for n in [-1, 16, 17, 18, i32::MAX] {
            let mut s = ints("2", &[-10, -1, -1]);
            ws(&mut s, b"cmd");
            wi(&mut s, n);
            for k in 0..n.clamp(0, 19) { ws(&mut s, &[b'a' + k as u8]); }
            wi(&mut s, -1);
            pins.push(s); // console command argument counts
        }
        for (len, data) in [(3i32, vec![1u8, 2, 3]), (-1, vec![]), (2, vec![0x80]), (i32::MAX, vec![1, 2])] {
            let mut s = ints("2", &[-7, 4, len]);
            s.extend(data);
            wi(&mut s, -1);
            pins.push(s); // message lengths: fine, negative, cut short, absurd
        }
        for (inner, extra) in [(vec![5u8, 1], vec![]), (vec![5u8], vec![]), (vec![], vec![]), (vec![5, 1, 9, 9], vec![]), (vec![0x85], vec![0x40u8])] {
            // AUTH_INIT-like struct (cid, level, identity): complete, cut short inside `data`, empty, ...
            let mut s = ints("2", &[-11]);
            s.extend_from_slice(&fi::UUID_PLAYER_TEAM);
            wi(&mut s, inner.len() as i32);
            s.extend(inner);
            s.extend(extra);
            wi(&mut s, -8);
            wi(&mut s, 2);
            wi(&mut s, -1);
            pins.push(s);
        }
        for s in pins {
            do_stream(&mut cx, s, "pin-errors", true);
        }
        // header only / nothing
        do_stream(&mut cx, header("2"), "pin-header", true);
        do_stream(&mut cx, vec![], "pin-header", true);
        do_stream(&mut cx, MAGIC.to_vec(), "pin-header", true);
    }

    // ---- known finding K17: a PLAYER_NEW / INPUT_NEW record with a huge client id makes the
    // reader's VecMap allocate (cid + 1) slots.  Run in a child process under a 4 GB address-space
    // limit so that the failed allocation aborts the child instead of stalling this machine.
    for (what, arg) in [("PLAYER_NEW cid=2147483647", "2147483647"), ("INPUT_NEW cid=2147483647", "-2147483647")] {
        let exe = std::env::current_exe().unwrap();
        let dir = a.out.join("k17");
        let cmd = format!("ulimit -v 4000000 && exec '{}' quick 1 '{}' --big-cid {}", exe.display(), dir.display(), arg);
        let child = std::process::Command::new("sh").arg("-c").arg(&cmd)
            .stdout(std::process::Stdio::piped()).stderr(std::process::Stdio::null()).spawn();
        let mut child = match child {
            Ok(c) => c,
            Err(_) => {
                cx.o.count("k17-probe-unavailable");
                continue;
            }
        };
        let t0 = std::time::Instant::now();
        let mut status = None;
        while t0.elapsed().as_secs() < 60 {
            match child.try_wait() {
                Ok(Some(st)) => {
                    status = Some(st);
                    break;
                }
                Ok(None) => std::thread::sleep(std::time::Duration::from_millis(20)),
                Err(_) => break,
            }
        }
        if status.is_none() {
            let _ = child.kill();
            let _ = child.wait();
        }
        let mut outp = String::new();
        if let Some(mut so) = child.stdout.take() {
            use std::io::Read;
            let _ = so.read_to_string(&mut outp);
        }
        let fine = status.map(|s| s.success()).unwrap_or(false) && outp.contains("END");
        cx.o.tick("K17probe", if fine { "k17-fine" } else { "k17-abort" });
        let how = match status {
            None => "did not finish within 60 s".to_string(),
            Some(st) => format!("ended with {} (output {:?})", st, outp.trim()),
        };
        cx.o.check(fine, "K17", "probe", || {
            format!("a single {} record (7 bytes after the header) makes the reader allocate one VecMap slot per client id up to the largest: the child process {}", what, how)
        });
    }

    // ---- generated histories, every fragmentation
    let n_small = if th { 130 } else { 28 };
    for i in 0..n_small {
        let wild = i % 2 == 1;
        let ticks = 1 + cx.r.below(if th { 14 } else { 9 }) as usize;
        let version = if i % 9 == 8 { "1" } else { "2" };
        let (s, kinds) = gen_stream(&mut cx.r, ticks, wild, false, version);
        for k in kinds {
            cx.o.count(&format!("gen:{}", k));
        }
        do_stream(&mut cx, s, if wild { "wild" } else { "ddnet" }, true);
    }
    // longer histories, sampled fragmentations
    let n_long = if th { 60 } else { 10 };
    for i in 0..n_long {
        let nt = 30 + cx.r.below(60) as usize;
        let (s, kinds) = gen_stream(&mut cx.r, nt, i % 2 == 1, false, "2");
        for k in kinds {
            cx.o.count(&format!("gen:{}", k));
        }
        do_stream(&mut cx, s, "long", false);
    }
    // streams larger than the buffer (8192): compaction and growth of the real Vec
    let n_big = if th { 4 } else { 1 };
    for i in 0..n_big {
        let (mut s, _) = gen_stream(&mut cx.r, if th { 300 } else { 130 }, false, false, "2");
        s.pop(); // FINISH
        // a record larger than the whole buffer
        wi(&mut s, -7);
        wi(&mut s, 1);
        let big = 9000 + 4000 * i as usize;
        wi(&mut s, big as i32);
        s.extend(cx.r.bytes(big));
        let (t, _) = gen_stream(&mut cx.r, if th { 200 } else { 60 }, true, false, "2");
        // continue with more records (skip the second header), ignoring validity of the joined history
        let (_, _, at) = header_verdict(&t);
        s.extend_from_slice(&t[at..]);
        do_stream(&mut cx, s, "big", false);
    }

    // ---- hostile: other versions / broken headers
    for v in ["1", "3", "0", "-1", "2147483647", "2147483648", "x", ""] {
        let (s, _) = gen_stream(&mut cx.r, 3, false, false, v);
        do_stream(&mut cx, s, "version", true);
    }
    {
        let mut s = header("2");
        s[3] ^= 0x40;
        wi(&mut s, -1);
        do_stream(&mut cx, s, "badheader", true);
        let mut s = MAGIC.to_vec();
        s.extend_from_slice(b"{\"version\":\"2\"}\0");
        wi(&mut s, -1);
        do_stream(&mut cx, s, "badheader", true);
        let mut s = MAGIC.to_vec();
        s.extend_from_slice(b"not json\0");
        do_stream(&mut cx, s, "badheader", true);
        let mut s = header("2");
        let l = s.len();
        s[l - 1] = b' '; // no terminator
        do_stream(&mut cx, s, "badheader", true);
    }
    // ---- hostile records (bad counts, inner structs cut short), truncations, corruptions, garbage
    let n_h = if th { 120 } else { 24 };
    for i in 0..n_h {
        let nt = 1 + cx.r.below(6) as usize;
        let (s, _) = gen_stream(&mut cx.r, nt, i % 2 == 0, true, "2");
        do_stream(&mut cx, s, "hostile", true);
    }
    let n_t = if th { 40 } else { 6 };
    for _ in 0..n_t {
        let nt = 1 + cx.r.below(4) as usize;
        let (s, _) = gen_stream(&mut cx.r, nt, false, false, "2");
        let (_, _, at) = header_verdict(&s);
        // every truncation of the record part (sampled fragmentations each)
        for cut in at..s.len() {
            do_stream(&mut cx, s[..cut].to_vec(), "truncated", false);
        }
    }
    let n_c = if th { 1500 } else { 150 };
    for _ in 0..n_c {
        let nt = 1 + cx.r.below(5) as usize;
        let wild = cx.r.chance(1, 2);
        let (mut s, _) = gen_stream(&mut cx.r, nt, wild, false, "2");
        let (_, _, at) = header_verdict(&s);
        let k = at + cx.r.below((s.len() - at) as u64) as usize;
        match cx.r.below(4) {
            0 => s[k] = cx.r.byte(),
            1 => s[k] ^= 1 << cx.r.below(8),
            2 => {
                s.remove(k);
            }
            _ => s.insert(k, cx.r.byte()),
        }
        if big_client_id(&s[at..]) {
            cx.o.count("skipped:huge-client-id");
            continue;
        }
        do_stream(&mut cx, s, "corrupted", false);
    }
    let n_g = if th { 1500 } else { 150 };
    for _ in 0..n_g {
        let mut s = header("2");
        let n = cx.r.below(40) as usize;
        for _ in 0..n {
            let b = if cx.r.chance(1, 2) { *cx.r.pick(&[0x41u8, 0x42, 0x43, 0x44, 0x45, 0x46, 0x47, 0x48, 0x49, 0x4a, 0x40, 0x00, 0x01]) } else { cx.r.byte() };
            s.push(b);
        }
        if big_client_id(&s[header("2").len()..]) {
            cx.o.count("skipped:huge-client-id");
            continue;
        }
        do_stream(&mut cx, s, "garbage", false);
    }
    cx.o.finish();
}

/// PLAYER_NEW / INPUT_NEW with a client id in the millions makes the reader's VecMap
/// allocate (cid + 1) slots; such streams are not run in-process (see known_findings/C17.json)
fn big_client_id(body: &[u8]) -> bool {
    let mut p = Unpacker::new(body);
    loop {
        match fi::Item::decode(&mut p, format::Version::V2) {
            Ok(fi::Item::PlayerNew(i)) if i.cid > 1 << 20 => return true,
            Ok(fi::Item::InputNew(i)) if i.cid > 1 << 20 => return true,
            Ok(fi::Item::Finish(_)) => return false,
            Ok(_) => {}
            Err(_) => return false,
        }
    }
}

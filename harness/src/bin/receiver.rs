//! C12: multi-part snapshot transfer — real `delta_chunks` + `DeltaReceiver`
//! (libtw2-snapshot, libtw2-gamenet-snap) against the Coq model Model/Receiver.v.
//!
//! Case kinds (tab separated, see ocaml/drv_receiver.ml):
//!   chunks <tick> <base> <crc> <data>            result: the messages delta_chunks yields
//!   xfer   <tick> <base> <crc> <data> <item>...  a fresh receiver is fed; an item is the index of a
//!                                                message of delta_chunks(tick, base, data, crc), an
//!                                                explicit message, or R (= reset())
//!   feed   <item>...                             explicit messages only
//! data:    h<hex> | g<seed>.<len> (byte j = gen(seed, j))
//! message: P:<tick>:<dt>:<num_parts>:<part>:<crc>:<data> | S:<tick>:<dt>:<crc>:<data> | E:<tick>:<dt>
//! result per item: none | some:<delta_tick>:<tick>:- | some:<delta_tick>:<tick>:<crc>:<fp> |
//!                  old | numparts | part | dup | panic | reset, then /A (DifferingAttributes),
//!                  /D (DuplicateSnap) per warning in order. fp = hex (<= 24 bytes) or #<len>.<fnv1a32>.
use libtw2_gamenet_snap::{Snap, SnapEmpty, SnapMsg, SnapSingle};
use libtw2_snapshot::receiver::{DeltaReceiver, Error, Warning};
use libtw2_snapshot::snap::delta_chunks;
use std::collections::BTreeSet;
use tw2verif::*;

const MAX: i32 = i32::MAX;

fn gen_byte(seed: u64, j: u64) -> u8 {
    ((j * 7919 + seed * 104729 + (j / 900) * 31 + (j * j) % 251) % 256) as u8
}

#[derive(Clone, Debug)]
struct Data {
    desc: String,
    bytes: Vec<u8>,
}

fn data_gen(seed: u64, len: usize) -> Data {
    Data { desc: format!("g{}.{}", seed, len), bytes: (0..len as u64).map(|j| gen_byte(seed, j)).collect() }
}
fn data_hex(b: Vec<u8>) -> Data {
    Data { desc: format!("h{}", hex(&b)), bytes: b }
}

fn fnv(b: &[u8]) -> u32 {
    let mut h: u32 = 0x811c9dc5;
    for x in b {
        h ^= *x as u32;
        h = h.wrapping_mul(0x01000193);
    }
    h
}
fn fp(b: &[u8]) -> String {
    if b.len() <= 24 {
        hex(b)
    } else {
        format!("#{}.{:08x}", b.len(), fnv(b))
    }
}

#[derive(Clone, Debug)]
enum Msg {
    P { tick: i32, dt: i32, n: i32, part: i32, crc: i32, data: Data },
    S { tick: i32, dt: i32, crc: i32, data: Data },
    E { tick: i32, dt: i32 },
}

impl Msg {
    fn tick(&self) -> i32 {
        match self {
            Msg::P { tick, .. } | Msg::S { tick, .. } | Msg::E { tick, .. } => *tick,
        }
    }
    fn txt(&self) -> String {
        match self {
            Msg::P { tick, dt, n, part, crc, data } => format!("P:{}:{}:{}:{}:{}:{}", tick, dt, n, part, crc, data.desc),
            Msg::S { tick, dt, crc, data } => format!("S:{}:{}:{}:{}", tick, dt, crc, data.desc),
            Msg::E { tick, dt } => format!("E:{}:{}", tick, dt),
        }
    }
    /// would the receiver refuse it before looking at its state (InvalidNumParts / InvalidPart)?
    fn malformed(&self) -> bool {
        match self {
            Msg::P { n, part, .. } => !(0 <= *n && *n <= 32) || !(0 <= *part && *part < *n),
            _ => false,
        }
    }
}

fn own_msg(m: &SnapMsg) -> Msg {
    match *m {
        SnapMsg::Snap(s) => Msg::P { tick: s.tick, dt: s.delta_tick, n: s.num_parts, part: s.part, crc: s.crc, data: data_hex(s.data.to_vec()) },
        SnapMsg::SnapSingle(s) => Msg::S { tick: s.tick, dt: s.delta_tick, crc: s.crc, data: data_hex(s.data.to_vec()) },
        SnapMsg::SnapEmpty(s) => Msg::E { tick: s.tick, dt: s.delta_tick },
    }
}

fn msg_fp(m: &Msg) -> String {
    match m {
        Msg::P { tick, dt, n, part, crc, data } => format!("P:{}:{}:{}:{}:{}:{}", tick, dt, n, part, crc, fp(&data.bytes)),
        Msg::S { tick, dt, crc, data } => format!("S:{}:{}:{}:{}", tick, dt, crc, fp(&data.bytes)),
        Msg::E { tick, dt } => format!("E:{}:{}", tick, dt),
    }
}

#[derive(Clone, Debug)]
enum Item {
    Idx(usize),
    M(Msg),
    Reset,
}

#[derive(Clone, Debug, PartialEq)]
enum Res {
    None_,
    Some_ { dt: i32, tick: i32, data_crc: Option<(Vec<u8>, i32)> },
    Old,
    NumParts,
    Part,
    Dup,
    Panic,
    Reset,
}

#[derive(Clone, Debug)]
struct Outc {
    res: Res,
    warns: Vec<Warning>,
}

impl Outc {
    fn txt(&self) -> String {
        let mut s = match &self.res {
            Res::None_ => "none".to_string(),
            Res::Some_ { dt, tick, data_crc: None } => format!("some:{}:{}:-", dt, tick),
            Res::Some_ { dt, tick, data_crc: Some((d, c)) } => format!("some:{}:{}:{}:{}", dt, tick, c, fp(d)),
            Res::Old => "old".into(),
            Res::NumParts => "numparts".into(),
            Res::Part => "part".into(),
            Res::Dup => "dup".into(),
            Res::Panic => "panic".into(),
            Res::Reset => "reset".into(),
        };
        for w in &self.warns {
            s.push_str(match w {
                Warning::DifferingAttributes => "/A",
                Warning::DuplicateSnap => "/D",
            });
        }
        s
    }
    fn sig(&self) -> String {
        let t = self.txt();
        let head = t.split(|c| c == ':' || c == '/').next().unwrap().to_string();
        let tail: String = t.match_indices('/').map(|(i, _)| &t[i..i + 2]).collect();
        head + &tail
    }
}

/// one call into the real receiver
fn feed(rx: &mut DeltaReceiver, m: &Msg) -> Outc {
    let mut warns: Vec<Warning> = vec![];
    let r = guard(|| {
        let r = match m {
            Msg::P { tick, dt, n, part, crc, data } => rx.snap(&mut warns, Snap { tick: *tick, delta_tick: *dt, num_parts: *n, part: *part, crc: *crc, data: &data.bytes }),
            Msg::S { tick, dt, crc, data } => rx.snap_single(&mut warns, SnapSingle { tick: *tick, delta_tick: *dt, crc: *crc, data: &data.bytes }),
            Msg::E { tick, dt } => rx.snap_empty(&mut warns, SnapEmpty { tick: *tick, delta_tick: *dt }),
        };
        match r {
            Ok(None) => Res::None_,
            Ok(Some(rd)) => Res::Some_ { dt: rd.delta_tick, tick: rd.tick, data_crc: rd.data_and_crc.map(|(d, c)| (d.to_vec(), c)) },
            Err(Error::OldDelta) => Res::Old,
            Err(Error::InvalidNumParts) => Res::NumParts,
            Err(Error::InvalidPart) => Res::Part,
            Err(Error::DuplicatePart) => Res::Dup,
        }
    });
    match r {
        Ok(res) => Outc { res, warns },
        Err(_) => Outc { res: Res::Panic, warns },
    }
}

fn real_chunks(tick: i32, base: i32, crc: i32, data: &[u8]) -> Result<Vec<Msg>, String> {
    guard(|| delta_chunks(tick, base, data, crc).map(|m| own_msg(&m)).collect::<Vec<Msg>>())
}

/// the sender side alone
fn do_chunks(o: &mut Out, tick: i32, base: i32, crc: i32, data: &Data) {
    let r = real_chunks(tick, base, crc, &data.bytes);
    let (res, sig) = match &r {
        Ok(ms) => (
            format!("ok {}", ms.iter().map(msg_fp).collect::<Vec<_>>().join(" ")),
            format!("chunks{}", ms.len()),
        ),
        Err(_) => ("panic".to_string(), "chunkspanic".to_string()),
    };
    let id = o.case(&format!("chunks\t{}\t{}\t{}\t{}", tick, base, crc, data.desc), &res, &sig);
    match r {
        Err(p) => o.check(false, "-", &id, || format!("delta_chunks({}, {}, {} bytes, {}) panicked: {}", tick, base, data.bytes.len(), crc, p)),
        Ok(ms) => {
            // ceil(len/900) parts (one SnapEmpty for no data), each at most 900 bytes, concatenating to the data,
            // all carrying tick, the relative tick and crc
            let len = data.bytes.len();
            let want = if len == 0 { 1 } else { (len + 899) / 900 };
            o.check(ms.len() == want, "-", &id, || format!("{} bytes cut into {} messages, expected {}", len, ms.len(), want));
            let mut cat: Vec<u8> = vec![];
            let mut ok = true;
            for (i, m) in ms.iter().enumerate() {
                match m {
                    Msg::E { tick: t, dt } => ok &= len == 0 && *t == tick && t.wrapping_sub(*dt) == base,
                    Msg::S { tick: t, dt, crc: c, data: d } => {
                        ok &= (1..=900).contains(&len) && *t == tick && t.wrapping_sub(*dt) == base && *c == crc;
                        cat.extend(&d.bytes);
                    }
                    Msg::P { tick: t, dt, n, part, crc: c, data: d } => {
                        ok &= len > 900 && *t == tick && t.wrapping_sub(*dt) == base && *c == crc && *n as usize == want && *part as usize == i
                            && d.bytes.len() <= 900 && (i + 1 == want || d.bytes.len() == 900) && !d.bytes.is_empty();
                        cat.extend(&d.bytes);
                    }
                }
            }
            o.check(ok && cat == data.bytes, "-", &id, || format!("delta_chunks({}, {}, {} bytes, {}): messages are not the parts of the data with its attributes", tick, base, len, crc));
        }
    }
}

struct Xfer<'a> {
    tick: i32,
    base: i32,
    crc: i32,
    data: &'a Data,
}

/// run a case on the real code; returns (id, the messages of the transfer, outcome per item)
fn do_feed(o: &mut Out, x: Option<&Xfer>, items: &[Item]) {
    let mut rx = DeltaReceiver::new();
    let ms = match x {
        Some(x) => real_chunks(x.tick, x.base, x.crc, &x.data.bytes),
        None => Ok(vec![]),
    };
    let mut outs: Vec<Outc> = vec![];
    if let Ok(ms) = &ms {
        for it in items {
            let oc = match it {
                Item::Idx(i) => feed(&mut rx, &ms[*i]),
                Item::M(m) => feed(&mut rx, m),
                Item::Reset => {
                    rx.reset();
                    Outc { res: Res::Reset, warns: vec![] }
                }
            };
            let stop = oc.res == Res::Panic;
            outs.push(oc);
            if stop {
                break;
            }
        }
    }
    let res = match &ms {
        Err(_) => "panic".to_string(),
        Ok(_) if outs.is_empty() => "-".to_string(),
        Ok(_) => outs.iter().map(|x| x.txt()).collect::<Vec<_>>().join(" "),
    };
    let mut sigset: BTreeSet<String> = outs.iter().map(|x| x.sig()).collect();
    if ms.is_err() {
        sigset.insert("chunkspanic".into());
    }
    let sig = format!("{}:{}", if x.is_some() { "x" } else { "f" }, sigset.into_iter().collect::<Vec<_>>().join(","));
    let its: Vec<String> = items
        .iter()
        .map(|it| match it {
            Item::Idx(i) => i.to_string(),
            Item::M(m) => m.txt(),
            Item::Reset => "R".to_string(),
        })
        .collect();
    let case = match x {
        Some(x) => format!("xfer\t{}\t{}\t{}\t{}\t{}", x.tick, x.base, x.crc, x.data.desc, its.join("\t")),
        None => format!("feed\t{}", its.join("\t")),
    };
    let id = o.case(&case, &res, &sig);
    let ms = match ms {
        Ok(ms) => ms,
        Err(p) => {
            let x = x.unwrap();
            o.check(false, "-", &id, || format!("delta_chunks({}, {}, {} bytes, {}) panicked: {}", x.tick, x.base, x.data.bytes.len(), x.crc, p));
            return;
        }
    };
    oracle(o, &id, x, &ms, items, &outs);
}

/// the property, asserted on what the real receiver did
fn oracle(o: &mut Out, id: &str, x: Option<&Xfer>, ms: &[Msg], items: &[Item], outs: &[Outc]) {
    // (0) no call panics
    for (k, oc) in outs.iter().enumerate() {
        o.check(oc.res != Res::Panic, "-", id, || format!("item {} ({:?}) panicked", k, short(&items[k], ms)));
    }
    if outs.len() != items.len() {
        return;
    }
    let msg_of = |it: &Item| -> Option<Msg> {
        match it {
            Item::Idx(i) => Some(ms[*i].clone()),
            Item::M(m) => Some(m.clone()),
            Item::Reset => None,
        }
    };
    // (1) old ticks are harmless / (2) a tick is handed out at most once (between resets).
    // `newest` = tick of the last message the receiver accepted (Ok or DuplicatePart: both mean the tick is current).
    let mut newest: Option<i32> = None;
    let mut done: BTreeSet<i32> = BTreeSet::new();
    for (k, it) in items.iter().enumerate() {
        let m = match msg_of(it) {
            Some(m) => m,
            None => {
                newest = None;
                done.clear();
                continue;
            }
        };
        let oc = &outs[k];
        if let Some(nw) = newest {
            if m.tick() < nw {
                o.check(oc.res == Res::Old && oc.warns.is_empty(), "-", id, || format!("item {}: tick {} is older than the newest seen {} but the receiver answered {}", k, m.tick(), nw, oc.txt()));
            }
        }
        if done.contains(&m.tick()) {
            o.check(oc.res == Res::Old && oc.warns.is_empty(), "-", id, || format!("item {}: tick {} was already handed out but the receiver answered {}", k, m.tick(), oc.txt()));
        }
        match &oc.res {
            Res::Some_ { tick, .. } => {
                o.check(*tick == m.tick(), "-", id, || format!("item {}: handed out tick {} for a message of tick {}", k, tick, m.tick()));
                o.check(done.insert(*tick), "-", id, || format!("item {}: tick {} handed out twice", k, tick));
                newest = Some(m.tick());
            }
            Res::None_ | Res::Dup => newest = Some(m.tick()),
            _ => {}
        }
    }
    // (3) exactly once for the transfer, when everything else in the stream is older than it
    let x = match x {
        Some(x) => x,
        None => return,
    };
    let t = x.tick;
    let has_reset = items.iter().any(|i| matches!(i, Item::Reset));
    if has_reset {
        return;
    }
    let others_older = items.iter().all(|i| match i {
        Item::M(m) => m.tick() < t,
        _ => true,
    });
    let n = ms.len();
    if n > 32 {
        // more than 32 parts' worth of data: the receiver refuses every part
        for (k, it) in items.iter().enumerate() {
            if let Item::Idx(_) = it {
                o.check(outs[k].res == Res::NumParts, "-", id, || format!("item {}: part of a {}-part transfer answered {}", k, n, outs[k].txt()));
            }
        }
        return;
    }
    let expect_rd = Res::Some_ {
        dt: x.base,
        tick: t,
        data_crc: if x.data.bytes.is_empty() { None } else { Some((x.data.bytes.clone(), x.crc)) },
    };
    if others_older {
        let mut seen = vec![false; n];
        let mut nseen = 0;
        let mut completed_at: Option<usize> = None;
        for (k, it) in items.iter().enumerate() {
            let oc = &outs[k];
            if let Item::Idx(i) = it {
                if completed_at.is_some() {
                    o.check(oc.res == Res::Old && oc.warns.is_empty(), "-", id, || format!("item {} (part {} after completion): expected OldDelta, got {}", k, i, oc.txt()));
                } else if seen[*i] {
                    o.check(oc.res == Res::Dup, "-", id, || format!("item {} (part {} again): expected DuplicatePart, got {}", k, i, oc.txt()));
                    o.check(oc.warns.is_empty(), "-", id, || format!("item {} (part {} again): warning for a consistent transfer: {}", k, i, oc.txt()));
                } else {
                    seen[*i] = true;
                    nseen += 1;
                    if nseen == n {
                        completed_at = Some(k);
                        o.check(oc.res == expect_rd, "-", id, || format!("item {} completes the transfer (tick {} base {} crc {} {} bytes) but the receiver answered {}", k, t, x.base, x.crc, x.data.bytes.len(), oc.txt()));
                    } else {
                        o.check(oc.res == Res::None_, "-", id, || format!("item {} (part {}, {} of {} seen): expected Ok(None), got {}", k, i, nseen, n, oc.txt()));
                    }
                    o.check(oc.warns.is_empty(), "-", id, || format!("item {} (part {}): warning for a consistent transfer: {} (tick {} base {})", k, i, oc.txt(), t, x.base));
                }
            } else if completed_at.is_some() {
                o.check(oc.res == Res::Old && oc.warns.is_empty(), "-", id, || format!("item {} (older tick after completion): expected OldDelta, got {}", k, oc.txt()));
            } else if nseen > 0 {
                o.check(oc.res == Res::Old && oc.warns.is_empty(), "-", id, || format!("item {} (older tick during the transfer): expected OldDelta, got {}", k, oc.txt()));
            }
        }
        let count = outs.iter().filter(|oc| matches!(&oc.res, Res::Some_ { tick, .. } if *tick == t)).count();
        o.check(count == if completed_at.is_some() { 1 } else { 0 }, "-", id, || format!("tick {} handed out {} times, all parts fed: {}", t, count, completed_at.is_some()));
    } else {
        // (4) a newer tick replaces the partial transfer: once a well-formed message of a newer tick
        // has been fed, every message of the transfer is refused
        let mut newer_fed = false;
        for (k, it) in items.iter().enumerate() {
            let oc = &outs[k];
            match it {
                Item::Idx(i) => {
                    if newer_fed {
                        o.check(oc.res == Res::Old && oc.warns.is_empty(), "-", id, || format!("item {} (part {} after a newer tick): expected OldDelta, got {}", k, i, oc.txt()));
                    }
                }
                Item::M(m) => {
                    if m.tick() > t && !m.malformed() {
                        if !newer_fed {
                            o.check(!matches!(oc.res, Res::Old | Res::Panic | Res::NumParts | Res::Part), "-", id, || format!("item {} (newer tick {}): refused with {}", k, m.tick(), oc.txt()));
                            // the answer does not depend on the partial older transfer: the same message
                            // into a receiver that only completed an older tick gives the same answer
                            let mut fresh = DeltaReceiver::new();
                            let fo = feed(&mut fresh, m);
                            o.check(fo.res == oc.res && fo.warns == oc.warns, "-", id, || format!("item {} (newer tick {}): answer {} differs from the answer {} of a receiver without the partial transfer", k, m.tick(), oc.txt(), fo.txt()));
                        }
                        newer_fed = true;
                    }
                }
                Item::Reset => {}
            }
        }
    }
}

fn short(it: &Item, ms: &[Msg]) -> String {
    match it {
        Item::Idx(i) => msg_fp(&ms[*i]),
        Item::M(m) => msg_fp(m),
        Item::Reset => "reset".into(),
    }
}

// ---------------------------------------------------------------- generators

fn tick_edge(r: &mut Rng) -> i32 {
    match r.below(9) {
        0 => 0,
        1 => 1,
        2 => 2,
        3 => MAX - 1,
        4 => MAX,
        5 => -1,
        6 => r.range(3, 100000) as i32,
        7 => r.i32_any(),
        _ => r.range(1, 1 << 30) as i32,
    }
}

/// (tick, base): base mostly an earlier tick or -1, sometimes arbitrary
fn tick_base(r: &mut Rng) -> (i32, i32) {
    let tick = tick_edge(r);
    let base = match r.below(6) {
        0 => -1,
        1 => tick_edge(r),
        2 => tick.wrapping_sub(r.range(1, 200) as i32),
        3 => tick.wrapping_sub(tick / 2), // the one combination the unit test uses: tick = 2 * (tick - base)
        4 => tick,
        _ => tick.wrapping_sub(r.range(1, 50) as i32),
    };
    (tick, base)
}

fn small_data(r: &mut Rng) -> Data {
    match r.below(4) {
        0 => data_hex(vec![]),
        1 => {
            let n = r.below(6) as usize;
            data_hex(r.bytes(n))
        }
        2 => data_gen(r.below(50), r.below(40) as usize),
        _ => data_gen(r.below(50), *r.pick(&[1usize, 2, 899, 900, 901, 1000])),
    }
}

/// a message of some tick strictly below `t` (None if there is none)
fn older_msg(r: &mut Rng, t: i32) -> Option<Msg> {
    if t == i32::MIN {
        return None;
    }
    let d = match r.below(4) {
        0 => 1i64,
        1 => r.range(1, 5),
        2 => r.range(1, 1000),
        _ => r.range(1, 1 << 31),
    };
    let tick = (t as i64 - d).max(i32::MIN as i64) as i32;
    Some(any_msg(r, tick))
}

fn any_msg(r: &mut Rng, tick: i32) -> Msg {
    let dt = match r.below(4) {
        0 => 1,
        1 => tick.wrapping_add(1),
        2 => r.range(-2, 60) as i32,
        _ => tick_edge(r),
    };
    let crc = *r.pick(&[0, 7, -1, 42]);
    match r.below(5) {
        0 => Msg::E { tick, dt },
        1 => Msg::S { tick, dt, crc, data: small_data(r) },
        _ => {
            let n = match r.below(8) {
                0 => *r.pick(&[-1, 0, 33, MAX, i32::MIN]),
                1 => 32,
                2 => 1,
                _ => r.range(2, 4) as i32,
            };
            let part = match r.below(8) {
                0 => *r.pick(&[-1, 32, 33, MAX, i32::MIN]),
                1 => n.wrapping_sub(1),
                2 => n,
                _ => r.range(0, 3) as i32,
            };
            Msg::P { tick, dt, n, part, crc, data: small_data(r) }
        }
    }
}

fn shuffle<T>(r: &mut Rng, v: &mut Vec<T>) {
    for i in (1..v.len()).rev() {
        let j = r.below(i as u64 + 1) as usize;
        v.swap(i, j);
    }
}

/// every sequence over 0..n of length `len`, passed to f
fn all_seqs(n: usize, len: usize, f: &mut dyn FnMut(&[usize])) {
    let mut s = vec![0usize; len];
    loop {
        f(&s);
        let mut k = len;
        loop {
            if k == 0 {
                return;
            }
            k -= 1;
            s[k] += 1;
            if s[k] < n {
                break;
            }
            s[k] = 0;
        }
    }
}

fn covers(n: usize, s: &[usize]) -> bool {
    let mut seen = vec![false; n];
    for i in s {
        seen[*i] = true;
    }
    seen.iter().all(|b| *b)
}

fn main() {
    let a = Args::parse();
    let mut o = Out::new(&a, "chunks: delta_chunks at every length 0,1,900k-1,900k,900k+1 (k<=32) x tick/base edge pairs; xfer: a fresh DeltaReceiver fed with the messages of delta_chunks by index — in order, reversed, every order with duplicates of length <= parts+2 for small part counts, sampled orders with duplicates / omissions for 6..32 parts, interleaved with messages of older ticks, with newer ticks, with reset(); feed: hostile explicit message sequences. distinct = distinct (kind, set of per-message outcome+warning classes)");
    let mut r = Rng::new(a.seed);
    let th = a.thorough();

    // ---- boundaries: every length at the part boundaries
    let mut lens: Vec<usize> = vec![0, 1, 2];
    for k in 1..=32usize {
        lens.extend([900 * k - 1, 900 * k, 900 * k + 1].iter().filter(|l| **l <= 28800));
    }
    let edges = [0, 1, 2, MAX - 1, MAX, -1];
    // sender alone: every length x a rotating edge pair; every edge pair x a few lengths
    for (li, len) in lens.iter().enumerate() {
        let d = data_gen(li as u64, *len);
        let t = edges[li % 6];
        let b = edges[(li / 6) % 6];
        do_chunks(&mut o, t, b, li as i32 - 3, &d);
        let (t, b) = tick_base(&mut r);
        do_chunks(&mut o, t, b, r.i32_any(), &d);
    }
    for t in edges {
        for b in edges {
            for len in [0usize, 1, 900, 901, 2000] {
                do_chunks(&mut o, t, b, 42, &data_gen(3, len));
            }
        }
    }
    // a length beyond the 32-part limit (the receiver must refuse the parts: InvalidNumParts)
    do_chunks(&mut o, 10, 7, 1, &data_gen(5, 28801));
    do_chunks(&mut o, 10, 7, 1, &data_gen(5, 40000));
    for _ in 0..(if th { 2000 } else { 200 }) {
        let (t, b) = tick_base(&mut r);
        let len = if r.chance(1, 2) { *r.pick(&lens) } else { r.below(28801) as usize };
        do_chunks(&mut o, t, b, r.i32_any(), &data_gen(r.below(1000), len));
    }

    // receiver: every boundary length in order, reversed, and in a random order with duplicates
    for (li, len) in lens.iter().enumerate() {
        let d = data_gen(100 + li as u64, *len);
        let n = if *len == 0 { 1 } else { (*len + 899) / 900 };
        let t = edges[(li + 1) % 6];
        let b = edges[(li / 6 + 2) % 6];
        let x = Xfer { tick: t, base: b, crc: li as i32, data: &d };
        let fwd: Vec<Item> = (0..n).map(Item::Idx).collect();
        do_feed(&mut o, Some(&x), &fwd);
        let (t, b) = tick_base(&mut r);
        let x = Xfer { tick: t, base: b, crc: r.i32_any(), data: &d };
        let rev: Vec<Item> = (0..n).rev().map(Item::Idx).collect();
        do_feed(&mut o, Some(&x), &rev);
        let (t, b) = tick_base(&mut r);
        let x = Xfer { tick: t, base: b, crc: r.i32_any(), data: &d };
        let mut ord: Vec<usize> = (0..n).collect();
        for _ in 0..r.below(n as u64 + 2) {
            ord.push(r.below(n as u64) as usize);
        }
        shuffle(&mut r, &mut ord);
        do_feed(&mut o, Some(&x), &ord.into_iter().map(Item::Idx).collect::<Vec<_>>());
    }
    // the witness of DESIGN.md section 9 #11 and #12
    {
        let d = data_gen(1, 2000);
        do_feed(&mut o, Some(&Xfer { tick: 10, base: 7, crc: 42, data: &d }), &[Item::Idx(0), Item::Idx(1), Item::Idx(2)]);
        do_feed(&mut o, Some(&Xfer { tick: 2, base: 1, crc: 3, data: &d }), &[Item::Idx(2), Item::Idx(0), Item::Idx(2), Item::Idx(1)]);
        do_feed(&mut o, Some(&Xfer { tick: MAX, base: -1, crc: 42, data: &d }), &[Item::Idx(0), Item::Idx(1), Item::Idx(2)]);
        do_feed(&mut o, Some(&Xfer { tick: -2, base: MAX, crc: 42, data: &d }), &[Item::Idx(1), Item::Idx(0), Item::Idx(2)]);
    }
    // beyond the limit: 33 parts are all refused
    {
        let d = data_gen(9, 28801);
        let items: Vec<Item> = (0..33).map(Item::Idx).collect();
        do_feed(&mut o, Some(&Xfer { tick: 5, base: 4, crc: 1, data: &d }), &items);
    }

    // ---- every order with duplicates: all sequences over the parts of length <= parts + 2
    //      (n <= 4 quick, n <= 5 thorough: all sequences; one more part count: the covering ones)
    let all_upto = if th { 5 } else { 4 };
    let cover_upto = if th { 6 } else { 5 };
    let mut ei = 0usize;
    for n in 1..=cover_upto {
        // two data lengths per part count: just into the last part, and full
        let dlens: Vec<usize> = if n == 1 { vec![1, 900] } else { vec![900 * (n - 1) + 1, 900 * n] };
        for (di, dl) in dlens.iter().enumerate() {
            if di == 1 && n >= all_upto {
                continue;
            }
            let d = data_gen(n as u64 * 10 + di as u64, *dl);
            for len in 0..=(n + 2) {
                if len == 0 && n > 1 {
                    continue;
                }
                let mut seqs: Vec<Vec<usize>> = vec![];
                all_seqs(n, len, &mut |s| {
                    if n <= all_upto || covers(n, s) {
                        seqs.push(s.to_vec());
                    }
                });
                for s in seqs {
                    ei += 1;
                    // tick/base from the edge set, cycling; avoid nothing: overflowing pairs are part of the domain
                    let t = edges[ei % 6];
                    let b = if ei % 5 == 0 { t.wrapping_sub(t / 2) } else { edges[(ei / 6) % 6] };
                    let x = Xfer { tick: t, base: b, crc: ei as i32, data: &d };
                    do_feed(&mut o, Some(&x), &s.into_iter().map(Item::Idx).collect::<Vec<_>>());
                }
            }
        }
        o.exhaustive(&format!("xfer: {} parts, {} sequences of part numbers of length <= {}", n, if n <= all_upto { "all" } else { "all covering" }, n + 2));
    }

    // ---- sampled orders for larger part counts, with duplicates, omissions, older ticks interleaved
    let nsample = if th { 100_000 } else { 2000 };
    for k in 0..nsample {
        // 6..32 parts, skewed to the smaller part counts (the list-based model is quadratic in the
        // number of parts); every 16th order has the full 32 parts
        let n = if k % (if th { 64 } else { 16 }) == 0 {
            32
        } else {
            match r.below(20) {
                0..=11 => r.range(6, 10) as usize,
                12..=15 if th => r.range(6, 10) as usize,
                12..=15 => r.range(11, 20) as usize,
                16..=18 if th => r.range(11, 20) as usize,
                _ => r.range(21, 32) as usize,
            }
        };
        let len = match r.below(4) {
            0 => 900 * n,
            1 => 900 * (n - 1) + 1,
            2 => 900 * n - 1,
            _ => 900 * (n - 1) + 1 + r.below(900) as usize,
        };
        let d = data_gen(r.below(100000), len);
        let (t, b) = tick_base(&mut r);
        let x = Xfer { tick: t, base: b, crc: r.i32_any(), data: &d };
        let mut ord: Vec<usize> = (0..n).collect();
        let ndup = match r.below(4) {
            0 => 0,
            1 => r.below(3),
            _ => r.below(n as u64 / 2 + 1),
        };
        for _ in 0..ndup {
            ord.push(r.below(n as u64) as usize);
        }
        shuffle(&mut r, &mut ord);
        if r.chance(1, 10) {
            // leave one part out altogether: the transfer must not complete
            let miss = r.below(n as u64) as usize;
            ord.retain(|i| *i != miss);
        }
        let mut items: Vec<Item> = ord.into_iter().map(Item::Idx).collect();
        if r.chance(1, 3) {
            for _ in 0..r.range(1, 6) {
                if let Some(m) = older_msg(&mut r, t) {
                    let pos = r.below(items.len() as u64 + 1) as usize;
                    items.insert(pos, Item::M(m));
                }
            }
        }
        do_feed(&mut o, Some(&x), &items);
    }

    // ---- small transfers interleaved with older ticks, newer ticks, resets
    for _ in 0..(if th { 60_000 } else { 6000 }) {
        let n = r.range(1, 5) as usize;
        let len = if r.chance(1, 8) { 0 } else { 900 * (n - 1) + 1 + r.below(900) as usize };
        let d = data_gen(r.below(1000), len);
        let n = if len == 0 { 1 } else { n };
        let (t, b) = tick_base(&mut r);
        let x = Xfer { tick: t, base: b, crc: r.i32_any(), data: &d };
        let mut ord: Vec<usize> = (0..n).collect();
        for _ in 0..r.below(3) {
            ord.push(r.below(n as u64) as usize);
        }
        shuffle(&mut r, &mut ord);
        let mut items: Vec<Item> = ord.into_iter().map(Item::Idx).collect();
        let mode = r.below(4);
        // older ticks: before, in between, after
        if mode <= 2 {
            for _ in 0..r.range(1, 5) {
                if let Some(m) = older_msg(&mut r, t) {
                    let pos = r.below(items.len() as u64 + 1) as usize;
                    items.insert(pos, Item::M(m));
                }
            }
        }
        // newer ticks
        if mode == 2 || mode == 3 {
            for _ in 0..r.range(1, 3) {
                if t < MAX {
                    let nt = (t as i64 + *r.pick(&[1i64, 1, 2, 1000])).min(MAX as i64) as i32;
                    let pos = r.below(items.len() as u64 + 1) as usize;
                    items.insert(pos, Item::M(any_msg(&mut r, nt)));
                }
            }
        }
        if r.chance(1, 12) {
            let pos = r.below(items.len() as u64 + 1) as usize;
            items.insert(pos, Item::Reset);
        }
        do_feed(&mut o, Some(&x), &items);
    }

    // ---- hostile streams: explicit messages over a few ticks, inconsistent attributes, bad part numbers
    for _ in 0..(if th { 100_000 } else { 10_000 }) {
        let base_tick = tick_edge(&mut r);
        let k = r.range(1, 12) as usize;
        let mut items = vec![];
        for _ in 0..k {
            if r.chance(1, 20) {
                items.push(Item::Reset);
                continue;
            }
            let tick = if r.chance(1, 10) { tick_edge(&mut r) } else { base_tick.wrapping_add(r.range(-1, 2) as i32) };
            items.push(Item::M(any_msg(&mut r, tick)));
        }
        do_feed(&mut o, None, &items);
    }
    o.finish();
}

//! C15: demo files — the real libtw2-demo Writer / Reader (in memory, io::Cursor) against
//! the Coq model Model/Demo.v (cases.txt / impl.txt), and the property's statement asserted on
//! the real code (oracle.txt).
//!
//! case kinds (tab separated):
//!   wr  <net_version> <map_name> <sha|none> <crc> <c|s> <length> <timestamp> <map> <op>...
//!       ops  t:<tick>:<0|1>  s:<hex>  d:<hex>  m:<hex>  u
//!       -> new=<ok|panic> ops=<o|p per op> file=<hex> | <read-out of that file>
//!   rd  <file hex>  -> <read-out>
//!   hl  <the eight header fields> sz=<ty>:<size>,.. <op>...      (DemoWriter / DemoReader of ddnet)
//!       ops  S:<tick>:<ty>/<id>/<i32,..>;..   M:<hex of the encoded game message>
//!       -> new=ok res=<o|eT|eB<err>|eS|eM|p per op> file=<hex> | hdr v=.. w=.. <T<tick> | M<hex> | S[items] | I>... end
//! read-out: `hdr v=.. nv=.. mn=.. ms=.. crc=.. kind=.. len=.. ts=.. tm=.. sha=.. map=.. w=<warnings>`,
//! one item per chunk (`T<tick>:<keyframe>`, `S<hex>`, `D<hex>`, `M<hex>`, `U`, each with `!<warnings>`),
//! then `end`, `err:<kind>` or `panic`; `hdr-err:<kind>` if Reader::new fails.
use arrayvec::ArrayVec;
use libtw2_common::digest::Sha256;
use libtw2_demo::{DemoKind, RawChunk, ReadError, Reader, Warning, Writer};
use libtw2_demo::ddnet;
use libtw2_gamenet_common::snap_obj::TypeId;
use libtw2_gamenet_common::traits::MessageExt as _;
use libtw2_gamenet_common::traits::ProtocolStatic as _;
use libtw2_gamenet_ddnet::msg::Game;
use libtw2_gamenet_ddnet::Protocol;
use libtw2_gamenet_ddnet::SnapObj;
use libtw2_huffman::instances::TEEWORLDS as HUFFMAN;
use libtw2_packer::{with_packer, IntUnpacker, Unpacker};
use std::io::Cursor;
use std::sync::mpsc;
use std::time::Duration;
use tw2verif::*;

const MAX: usize = 65536;

#[derive(Clone, Debug, PartialEq)]
struct Hdr {
    nv: Vec<u8>,
    mn: Vec<u8>,
    sha: Option<[u8; 32]>,
    crc: u32,
    client: bool,
    length: i32,
    ts: Vec<u8>,
    map: Vec<u8>,
}

#[derive(Clone, Debug, PartialEq)]
enum Op {
    Tick(i32, bool),
    Snap(Vec<u8>),
    Delta(Vec<u8>),
    Msg(Vec<u8>),
    Unknown,
}

fn op_txt(op: &Op) -> String {
    match op {
        Op::Tick(t, k) => format!("t:{}:{}", t, *k as u8),
        Op::Snap(d) => format!("s:{}", hex(d)),
        Op::Delta(d) => format!("d:{}", hex(d)),
        Op::Msg(d) => format!("m:{}", hex(d)),
        Op::Unknown => "u".into(),
    }
}

fn warn_txt(w: &Warning) -> &'static str {
    use libtw2_packer::Warning as P;
    match w {
        Warning::NonAbsoluteTickmarkerTick => "NonAbs",
        Warning::NonIncreasingTick => "NonIncTick",
        Warning::NonIncreasingTimelineMarkers => "NonIncTm",
        Warning::NonZeroTickmarkerPadding => "TickPad",
        Warning::IntDecompressionOverlongEncoding => "IntOverlong",
        Warning::IntDecompressionNonZeroPadding => "IntPad",
        Warning::OverlongChunkSizeEncoding => "OverlongSize",
        Warning::StartingDeltaTick => "StartDelta",
        Warning::TickOverflow => "TickOverflow",
        Warning::UnknownChunkType => "UnknownType",
        Warning::WeirdMapName => "WeirdMapName",
        Warning::WeirdNetVersion => "WeirdNetVersion",
        Warning::WeirdTimelineMarkerPadding => "WeirdTmPad",
        Warning::WeirdTimestamp => "WeirdTimestamp",
        Warning::WeirdType => "WeirdType",
        Warning::Message(P::OverlongIntEncoding) => "mO",
        Warning::Message(P::NonZeroIntPadding) => "mP",
        Warning::Message(P::ExcessData) => "mX",
    }
}

fn warns(ws: &[Warning]) -> String {
    if ws.is_empty() {
        "-".into()
    } else {
        ws.iter().map(warn_txt).collect::<Vec<_>>().join(",")
    }
}

fn wsfx(ws: &[Warning]) -> String {
    if ws.is_empty() {
        String::new()
    } else {
        format!("!{}", warns(ws))
    }
}

fn binrw_kind(e: &binrw::Error) -> &'static str {
    match e {
        binrw::Error::Backtrace(bt) => binrw_kind(&bt.error),
        binrw::Error::Io(io) if io.kind() == std::io::ErrorKind::UnexpectedEof => "eof",
        binrw::Error::Io(_) => "binrw-io-other",
        binrw::Error::BadMagic { .. } => "badmagic",
        binrw::Error::AssertFail { .. } => "assert",
        binrw::Error::NoVariantMatch { .. } => "novariant",
        binrw::Error::EnumErrors { .. } => "enumerrors",
        _ => "binrw-other",
    }
}

fn err_txt(e: &ReadError) -> &'static str {
    match e {
        ReadError::Io(io) if io.kind() == std::io::ErrorKind::UnexpectedEof => "io",
        ReadError::Io(_) => "io-other",
        ReadError::Binrw(b) => binrw_kind(b),
        ReadError::Huffman(_) => "huffman",
        ReadError::MessageVarIntUnexpectedEnd => "msgend",
        ReadError::MessageVarIntTooLong => "msglong",
        ReadError::NotIncreasingTick => "notinc",
        ReadError::StartingDeltaSnapshot => "startdelta",
        ReadError::TickOverflow => "tickoverflow",
    }
}

/// everything the reader reports about a file
#[derive(Clone, Debug, Default)]
struct ReadOut {
    text: String,
    hdr: Option<(u8, Hdr, u32, Vec<i32>)>, // version, header fields, map_size(), timeline markers
    hdr_warns: usize,
    chunks: Vec<(Op, usize)>, // chunk, number of warnings
    end: String,              // "end", "err:..", "panic: .."
}

fn read_file(file: &[u8]) -> ReadOut {
    let mut out = ReadOut::default();
    let mut ws: Vec<Warning> = vec![];
    let new = guard(|| Reader::new(Cursor::new(file), &mut ws));
    let mut r = match new {
        Err(p) => {
            out.text = "hdr-panic".into();
            out.end = format!("panic: {}", p);
            return out;
        }
        Ok(Err(e)) => {
            out.text = format!("hdr-err:{}", err_txt(&e));
            out.end = format!("hdr-err:{}", err_txt(&e));
            return out;
        }
        Ok(Ok(r)) => r,
    };
    let ver = r.version() as u8;
    let h = Hdr {
        nv: r.net_version().to_vec(),
        mn: r.map_name().to_vec(),
        sha: r.map_sha256().map(|s| s.0),
        crc: r.map_crc(),
        client: matches!(r.kind(), DemoKind::Client),
        length: r.length(),
        ts: r.timestamp().to_vec(),
        map: r.map_data().to_vec(),
    };
    let tm = r.timeline_markers().to_vec();
    let mut s = format!(
        "hdr v={} nv={} mn={} ms={} crc={} kind={} len={} ts={} tm={} sha={} map={} w={}",
        ver,
        hex(&h.nv),
        hex(&h.mn),
        r.map_size(),
        h.crc,
        if h.client { "c" } else { "s" },
        h.length,
        hex(&h.ts),
        if tm.is_empty() { "-".to_string() } else { tm.iter().map(|t| t.to_string()).collect::<Vec<_>>().join(",") },
        h.sha.map(|s| hex(&s)).unwrap_or("none".into()),
        hex(&h.map),
        warns(&ws)
    );
    out.hdr_warns = ws.len();
    out.hdr = Some((ver, h, r.map_size(), tm));
    // every successful call consumes at least one byte
    for _ in 0..file.len() + 2 {
        let mut ws: Vec<Warning> = vec![];
        let res = guard(|| {
            r.read_chunk(&mut ws).map(|c| {
                c.map(|c| match c {
                    RawChunk::Tick { tick, keyframe } => Op::Tick(tick, keyframe),
                    RawChunk::Snapshot(d) => Op::Snap(d.to_vec()),
                    RawChunk::SnapshotDelta(d) => Op::Delta(d.to_vec()),
                    RawChunk::Message(d) => Op::Msg(d.to_vec()),
                    RawChunk::Unknown => Op::Unknown,
                })
            })
        });
        match res {
            Err(p) => {
                s += &format!(" panic{}", wsfx(&ws));
                out.end = format!("panic: {}", p);
                break;
            }
            Ok(Err(e)) => {
                s += &format!(" err:{}{}", err_txt(&e), wsfx(&ws));
                out.end = format!("err:{}", err_txt(&e));
                break;
            }
            Ok(Ok(None)) => {
                s += &format!(" end{}", wsfx(&ws));
                out.end = if ws.is_empty() { "end".into() } else { "end-with-warnings".into() };
                break;
            }
            Ok(Ok(Some(c))) => {
                s.push(' ');
                s += &match &c {
                    Op::Tick(t, k) => format!("T{}:{}", t, *k as u8),
                    Op::Snap(d) => format!("S{}", hex(d)),
                    Op::Delta(d) => format!("D{}", hex(d)),
                    Op::Msg(d) => format!("M{}", hex(d)),
                    Op::Unknown => "U".into(),
                };
                s += &wsfx(&ws);
                out.chunks.push((c, ws.len()));
            }
        }
    }
    if out.end.is_empty() {
        s += " hang";
        out.end = "hang".into();
    }
    out.text = s;
    out
}

/// Writer::new + one call per op on an in-memory file; returns (new ok?, per-op results, file)
fn write_file(h: &Hdr, ops: &[Op], via_chunk: bool) -> (bool, String, Vec<u8>) {
    let mut cur = Cursor::new(Vec::new());
    let mut res = String::new();
    let ok = {
    let curref = &mut cur;
    let new = guard(move || {
        Writer::new(
            curref,
            &h.nv,
            &h.mn,
            h.sha.map(Sha256),
            h.crc,
            if h.client { DemoKind::Client } else { DemoKind::Server },
            h.length,
            &h.ts,
            &h.map,
        )
    });
    match new {
        Ok(Ok(mut w)) => {
            for op in ops {
                let r = guard(|| match op {
                    Op::Tick(t, k) => {
                        if via_chunk {
                            w.write_chunk(RawChunk::Tick { tick: *t, keyframe: *k })
                        } else {
                            w.write_tick(*k, *t)
                        }
                    }
                    Op::Snap(d) | Op::Delta(d) if via_chunk && d.len() <= MAX => {
                        let mut av: Box<ArrayVec<[u8; MAX]>> = Box::new(ArrayVec::new());
                        av.try_extend_from_slice(d).unwrap();
                        w.write_chunk(if matches!(op, Op::Snap(_)) { RawChunk::Snapshot(&av) } else { RawChunk::SnapshotDelta(&av) })
                    }
                    Op::Snap(d) => w.write_snapshot(d),
                    Op::Delta(d) => w.write_snapshot_delta(d),
                    Op::Msg(d) => {
                        if via_chunk {
                            w.write_chunk(RawChunk::Message(d))
                        } else {
                            w.write_message(d)
                        }
                    }
                    Op::Unknown => w.write_chunk(RawChunk::Unknown),
                });
                res.push(match r {
                    Ok(Ok(())) => 'o',
                    Ok(Err(_)) => 'e',
                    Err(_) => 'p',
                });
            }
            true
        }
        _ => false,
    }
    };
    (ok, res, cur.into_inner())
}

fn pad4(d: &[u8]) -> Vec<u8> {
    let mut v = d.to_vec();
    while v.len() % 4 != 0 {
        v.push(0);
    }
    v
}

fn payload_len(op: &Op) -> usize {
    match op {
        Op::Snap(d) | Op::Delta(d) | Op::Msg(d) => d.len(),
        _ => 0,
    }
}

/// one long-lived worker thread so that a call that does not return is reported as a hang
struct Worker<T: Send + 'static> {
    jobs: mpsc::Sender<Box<dyn FnOnce() -> T + Send>>,
    results: mpsc::Receiver<T>,
}

impl<T: Send + 'static> Worker<T> {
    fn new() -> Worker<T> {
        let (jobs, job_rx) = mpsc::channel::<Box<dyn FnOnce() -> T + Send>>();
        let (res_tx, results) = mpsc::channel();
        std::thread::Builder::new()
            .stack_size(64 << 20)
            .spawn(move || {
                for job in job_rx {
                    if res_tx.send(job()).is_err() {
                        break;
                    }
                }
            })
            .unwrap();
        Worker { jobs, results }
    }
    fn run(&mut self, secs: u64, f: impl FnOnce() -> T + Send + 'static) -> Option<T> {
        self.jobs.send(Box::new(f)).unwrap();
        match self.results.recv_timeout(Duration::from_secs(secs)) {
            Ok(v) => Some(v),
            Err(_) => {
                *self = Worker::new();
                None
            }
        }
    }
}

struct Ctx {
    o: Out,
    wr: Worker<(bool, String, Vec<u8>, ReadOut)>,
    rd: Worker<ReadOut>,
    hl: Worker<(bool, Vec<String>, Vec<u8>, HReadOut, String)>,
}

fn do_wr(c: &mut Ctx, h: &Hdr, ops: &[Op], via_chunk: bool) {
    let mut case = format!(
        "wr\t{}\t{}\t{}\t{}\t{}\t{}\t{}\t{}",
        hex(&h.nv),
        hex(&h.mn),
        h.sha.map(|s| hex(&s)).unwrap_or("none".into()),
        h.crc,
        if h.client { "c" } else { "s" },
        h.length,
        hex(&h.ts),
        hex(&h.map)
    );
    for op in ops {
        case.push('\t');
        case += &op_txt(op);
    }
    let (h2, ops2) = (h.clone(), ops.to_vec());
    let r = c.wr.run(60, move || {
        let (ok, res, file) = write_file(&h2, &ops2, via_chunk);
        let rd = read_file(&file);
        (ok, res, file, rd)
    });
    let o = &mut c.o;
    let (ok, res, file, rd) = match r {
        Some(x) => x,
        None => {
            let id = o.case(&case, "hang", "wr-hang");
            o.check(false, "-", &id, || "writing / reading back did not return within 60 s".into());
            return;
        }
    };
    if !ok {
        let id = o.case(&case, "new=panic", "wr-newpanic");
        // Writer::new panics only for strings that do not fit (the documented assert)
        let too_long = h.nv.len() >= 64 || h.mn.len() >= 64 || h.ts.len() >= 20;
        o.check(too_long, "-", &id, || "Writer::new panicked although every string fits".into());
        return;
    }
    let maxp = ops.iter().map(payload_len).max().unwrap_or(0);
    let sig = format!(
        "wr:{}:{}:{}:{}:{}",
        res.chars().filter(|c| *c == 'p').count().min(2),
        ops.len().min(6),
        match maxp { 0 => 0, 1..=29 => 1, 30..=255 => 2, 256..=4095 => 3, 4096..=65536 => 4, _ => 5 },
        rd.end,
        h.sha.is_some()
    );
    let result = format!("new=ok ops={} file={} | {}", res, hex(&file), rd.text);
    let id = o.case(&case, &result, &sig);

    // ---- the property on the real code ----
    // header: NUL inside a string or a negative length cannot be represented (known finding K15H)
    let hdr_class = if h.nv.contains(&0) || h.mn.contains(&0) || h.ts.contains(&0) || h.length < 0 { "K15H" } else { "-" };
    match &rd.hdr {
        None => o.check(false, hdr_class, &id, || format!("the written file is not readable: {}", rd.end)),
        Some((ver, hv, ms, tm)) => {
            let want_ver = if h.sha.is_some() { 6 } else { 5 };
            o.check(*ver == want_ver && hv == h && *ms as usize == h.map.len() && tm.is_empty() && rd.hdr_warns == 0, hdr_class, &id,
                    || format!("header written {:?} read back as v{} {:?} markers {:?} with {} warning(s)", h, ver, hv, tm, rd.hdr_warns));
            // chunks: the accepted ones come back, messages zero-padded, no warnings, clean end
            let accepted: Vec<&Op> = ops.iter().zip(res.chars()).filter(|(_, r)| *r == 'o').map(|(op, _)| op).collect();
            // up to the first payload above MAX_SNAPSHOT_SIZE (known finding K15) everything must come back
            let cut = accepted.iter().position(|op| payload_len(op) > MAX).unwrap_or(accepted.len());
            let want: Vec<Op> = accepted[..cut].iter().map(|op| match op { Op::Msg(d) => Op::Msg(pad4(d)), x => (*x).clone() }).collect();
            let got: Vec<Op> = rd.chunks.iter().take(cut).map(|(c, _)| c.clone()).collect();
            let nw: usize = rd.chunks.iter().take(cut).map(|(_, n)| *n).sum();
            o.check(got == want && nw == 0, "-", &id,
                    || format!("{} accepted chunk(s) read back as {} chunk(s) with {} warning(s); first difference at {:?}",
                               want.len(), got.len(), nw, want.iter().zip(got.iter()).position(|(a, b)| a != b)));
            if cut == accepted.len() {
                o.check(rd.chunks.len() == cut && rd.end == "end", "-", &id,
                        || format!("after the {} written chunks the reader reports {} chunk(s) and ends with {}", cut, rd.chunks.len(), rd.end));
            } else {
                o.check(false || (rd.chunks.len() == accepted.len() && rd.end == "end"), "K15", &id,
                        || format!("chunk {} has a {}-byte payload: the writer accepted it, the reader stops with {}", cut, payload_len(accepted[cut]), rd.end));
            }
        }
    }
    // a refused (panicking) call is one of the documented ones
    let mut prev_tick: Option<i32> = None;
    for (i, (op, r)) in ops.iter().zip(res.chars()).enumerate() {
        o.check(r != 'e', "-", &id, || "an in-memory write returned an error".into());
        // the raw writer refuses (by panicking) exactly: a tick that does not increase, a payload far beyond
        // what a chunk header can describe; every other call is accepted
        match op {
            Op::Tick(t, _) => {
                let documented = prev_tick.map(|p| *t <= p).unwrap_or(false);
                o.check((r == 'p') == documented, "-", &id, || format!("op {}: write_tick({}) after tick {:?} {}", i, t, prev_tick, if r == 'p' { "panicked" } else { "was accepted" }));
                if r == 'o' {
                    prev_tick = Some(*t);
                }
            }
            Op::Unknown => {}
            _ => o.check(r != 'p' || payload_len(op) > 20000, "-", &id, || format!("op {}: writing a {}-byte payload panicked", i, payload_len(op))),
        }
    }
}

fn do_rd(c: &mut Ctx, file: &[u8], tag: &str) {
    let case = format!("rd\t{}", hex(file));
    let f2 = file.to_vec();
    let r = c.rd.run(30, move || read_file(&f2));
    let o = &mut c.o;
    match r {
        None => {
            let id = o.case(&case, "hang", "rd-hang");
            o.check(false, "-", &id, || "reading did not return within 30 s".into());
        }
        Some(rd) => {
            let kinds: String = rd.chunks.iter().take(4).map(|(c, n)| format!("{}{}", match c { Op::Tick(..) => 'T', Op::Snap(_) => 'S', Op::Delta(_) => 'D', Op::Msg(_) => 'M', Op::Unknown => 'U' }, n.min(&1))).collect();
            let id = o.case(&case, &rd.text, &format!("rd:{}:{}:{}:{}", tag, rd.end, rd.hdr_warns.min(2), kinds));
            o.check(!rd.end.starts_with("panic") && rd.end != "hang", "-", &id, || format!("the reader {} on {}", rd.end, hex(&file[..file.len().min(600)])));
        }
    }
}


// ---------------------------------------------------------------- high-level layer

#[derive(Clone)]
enum HOp {
    Snap(i32, Vec<(SnapObj, u16)>),
    Msg(Vec<u8>), // the encoded game message (decodes to itself)
}

type Item = (TypeId, u16, Vec<i32>);

fn ty_txt(t: &TypeId) -> String {
    match t {
        TypeId::Ordinal(o) => format!("o{}", o),
        TypeId::Uuid(u) => format!("u{}", hex(u.as_bytes())),
    }
}

fn item_txt(i: &Item) -> String {
    format!("{}/{}/{}", ty_txt(&i.0), i.1, i.2.iter().map(|v| v.to_string()).collect::<Vec<_>>().join(","))
}

fn items_of(objs: &[(SnapObj, u16)]) -> Vec<Item> {
    objs.iter().map(|(o, id)| (o.obj_type_id(), *id, o.encode().to_vec())).collect()
}

fn hop_txt(op: &HOp) -> String {
    match op {
        HOp::Snap(t, objs) => format!("S:{}:{}", t, items_of(objs).iter().map(item_txt).collect::<Vec<_>>().join(";")),
        HOp::Msg(enc) => format!("M:{}", hex(enc)),
    }
}

fn hwarn_txt(w: &ddnet::Warning) -> String {
    use libtw2_snapshot::format::Warning as S;
    match w {
        ddnet::Warning::Demo(w) => warn_txt(w).to_string(),
        ddnet::Warning::Snapshot(w) => match w {
            S::Packer(p) => format!("s{}", warn_txt(&Warning::Message(*p))),
            S::NonZeroPadding => "sNonZeroPadding".into(),
            S::DuplicateDelete => "sDuplicateDelete".into(),
            S::DuplicateUpdate => "sDuplicateUpdate".into(),
            S::UnknownDelete => "sUnknownDelete".into(),
            S::DeleteUpdate => "sDeleteUpdate".into(),
            S::NumUpdatedItems => "sNumUpdatedItems".into(),
            S::ExcessSnapData => "sExcessSnapData".into(),
            S::ExcessUuidItemData => "sExcessUuidItemData".into(),
        },
        ddnet::Warning::Packer(p) => format!("typed-pk-{:?}", p),
        ddnet::Warning::ExcessItemData => "typed-excess-item".into(),
        ddnet::Warning::Gamenet(e) => format!("typed-gamenet-{:?}", e),
    }
}

fn hwsfx(ws: &[ddnet::Warning]) -> String {
    if ws.is_empty() { String::new() } else { format!("!{}", ws.iter().map(hwarn_txt).collect::<Vec<_>>().join(",")) }
}

#[derive(Clone, Debug, PartialEq)]
enum HChunk {
    Tick(i32),
    Msg(Vec<u8>),
    Snap(Vec<Item>),
    Invalid,
}

#[derive(Clone, Default)]
struct HReadOut {
    text: String,
    chunks: Vec<(HChunk, usize)>,
    hdr_warns: usize,
    end: String,
}

fn hread_file(file: &[u8]) -> HReadOut {
    let mut out = HReadOut::default();
    let mut ws: Vec<ddnet::Warning> = vec![];
    let new = guard(|| ddnet::DemoReader::<Protocol>::new(Cursor::new(file), &mut ws));
    let mut r = match new {
        Err(p) => { out.text = "hdr-panic".into(); out.end = format!("panic: {}", p); return out; }
        Ok(Err(ddnet::ReadError::Inner(e))) => { out.text = format!("hdr-err:{}", err_txt(&e)); out.end = out.text.clone(); return out; }
        Ok(Err(ddnet::ReadError::Snap(e))) => { out.text = format!("hdr-err:snap-{:?}", e); out.end = out.text.clone(); return out; }
        Ok(Ok(r)) => r,
    };
    let hw: Vec<String> = ws.iter().map(hwarn_txt).collect();
    let mut s = format!("hdr v={} w={}", r.version() as u8, if hw.is_empty() { "-".to_string() } else { hw.join(",") });
    out.hdr_warns = ws.len();
    for _ in 0..file.len() + 2 {
        let mut ws: Vec<ddnet::Warning> = vec![];
        let res = guard(|| {
            r.next_chunk(&mut ws).map(|c| {
                c.map(|c| match c {
                    ddnet::Chunk::Tick(t) => HChunk::Tick(t),
                    ddnet::Chunk::Message(m) => {
                        let mut v: Vec<u8> = Vec::with_capacity(1 << 17);
                        with_packer(&mut v, |p| m.encode(p).map(|_| ())).unwrap();
                        HChunk::Msg(pad4(&v))
                    }
                    ddnet::Chunk::Snapshot(it) => HChunk::Snap(it.map(|(o, id)| (o.obj_type_id(), *id, o.encode().to_vec())).collect()),
                    ddnet::Chunk::Invalid => HChunk::Invalid,
                })
            })
        });
        match res {
            Err(p) => { s += &format!(" panic{}", hwsfx(&ws)); out.end = format!("panic: {}", p); break; }
            Ok(Err(ddnet::ReadError::Inner(e))) => { s += &format!(" err:{}{}", err_txt(&e), hwsfx(&ws)); out.end = format!("err:{}", err_txt(&e)); break; }
            Ok(Err(ddnet::ReadError::Snap(e))) => { s += &format!(" err:snap-{:?}{}", e, hwsfx(&ws)); out.end = format!("err:snap-{:?}", e); break; }
            Ok(Ok(None)) => { s += &format!(" end{}", hwsfx(&ws)); out.end = if ws.is_empty() { "end".into() } else { "end-with-warnings".into() }; break; }
            Ok(Ok(Some(c))) => {
                s.push(' ');
                s += &match &c {
                    HChunk::Tick(t) => format!("T{}", t),
                    HChunk::Msg(m) => format!("M{}", hex(m)),
                    HChunk::Snap(items) => format!("S[{}]", items.iter().map(item_txt).collect::<Vec<_>>().join(";")),
                    HChunk::Invalid => "I".into(),
                };
                s += &hwsfx(&ws);
                out.chunks.push((c, ws.len()));
            }
        }
    }
    if out.end.is_empty() { s += " hang"; out.end = "hang".into(); }
    out.text = s;
    out
}

/// DemoWriter::new + one call per op; a panicking call ends the run. Returns (new ok?, per-op results, file)
fn hwrite_file(h: &Hdr, ops: &[HOp]) -> (bool, Vec<String>, Vec<u8>, String) {
    let mut cur = Cursor::new(Vec::new());
    let mut res: Vec<String> = vec![];
    let mut panic_msg = String::new();
    let ok = {
        let curref = &mut cur;
        let new = guard(move || {
            ddnet::DemoWriter::<Protocol>::new(curref, &h.nv, &h.mn, h.sha.map(Sha256), h.crc,
                if h.client { DemoKind::Client } else { DemoKind::Server }, h.length, &h.ts, &h.map)
        });
        match new {
            Ok(Ok(mut w)) => {
                for op in ops {
                    let r = guard(|| match op {
                        HOp::Snap(t, objs) => w.write_snap(*t, objs.iter().map(|(o, id)| (o, *id))),
                        HOp::Msg(enc) => {
                            let mut pw = vec![];
                            let m = Game::decode(&mut pw, &mut Unpacker::new(enc)).expect("generator: message does not decode");
                            w.write_msg(&m)
                        }
                    });
                    let (txt, stop) = match r {
                        Ok(Ok(())) => ("o".to_string(), false),
                        Ok(Err(ddnet::WriteError::TooLowTickNumber)) => ("eT".to_string(), false),
                        Ok(Err(ddnet::WriteError::SnapBuilder(e))) => (format!("eB{:?}", e), false),
                        Ok(Err(ddnet::WriteError::TooLargeSnap)) => ("eS".to_string(), false),
                        Ok(Err(ddnet::WriteError::TooLongNetMsg)) => ("eM".to_string(), false),
                        Ok(Err(ddnet::WriteError::Inner(_))) => ("eI".to_string(), false),
                        Err(m) => {
                            panic_msg = m;
                            ("p".to_string(), true)
                        }
                    };
                    res.push(txt);
                    if stop { break; }
                }
                true
            }
            _ => false,
        }
    };
    (ok, res, cur.into_inner(), panic_msg)
}

fn sizes_txt() -> String {
    let mut v = vec![];
    for ty in 0..=64u16 {
        if let Some(n) = Protocol::obj_size(ty) { v.push(format!("{}:{}", ty, n)); }
    }
    format!("sz={}", v.join(","))
}

fn do_hl(c: &mut Ctx, h: &Hdr, ops: &[HOp]) {
    let mut case = format!("hl\t{}\t{}\t{}\t{}\t{}\t{}\t{}\t{}\t{}", hex(&h.nv), hex(&h.mn), h.sha.map(|s| hex(&s)).unwrap_or("none".into()),
        h.crc, if h.client { "c" } else { "s" }, h.length, hex(&h.ts), hex(&h.map), sizes_txt());
    for op in ops { case.push('\t'); case += &hop_txt(op); }
    let (h2, ops2) = (h.clone(), ops.to_vec());
    let r = c.hl.run(120, move || { let (ok, res, file, pm) = hwrite_file(&h2, &ops2); let rd = hread_file(&file); (ok, res, file, rd, pm) });
    let o = &mut c.o;
    let (ok, res, file, rd, pm) = match r {
        Some(x) => x,
        None => { let id = o.case(&case, "hang", "hl-hang"); o.check(false, "-", &id, || "the high-level writer / reader did not return within 120 s".into()); return; }
    };
    if !ok { let id = o.case(&case, "new=panic", "hl-newpanic"); o.check(false, "-", &id, || "DemoWriter::new failed".into()); return; }
    let nsnap = ops.iter().filter(|op| matches!(op, HOp::Snap(..))).count();
    let kinds: std::collections::BTreeSet<&str> = res.iter().map(|r| &r[..r.len().min(2)]).collect();
    let sig = format!("hl:{}:{}:{}", kinds.into_iter().collect::<Vec<_>>().join(""), match nsnap { 0 => 0, 1..=3 => 1, 4..=50 => 2, 51..=250 => 3, _ => 4 }, rd.end);
    let id = o.case(&case, &format!("new=ok res={} file={} | {}", res.join(","), hex(&file), rd.text), &sig);

    // ---- the property on the real code ----
    // (a) a tick that does not strictly increase is refused with an error, every other call is not refused for its tick;
    // (b) what was accepted comes back: Tick + the same object set per write_snap, the same message per write_msg.
    let mut last_tick: i64 = -1;           // DemoWriter starts at -1: negative ticks are refused
    let mut want: Vec<HChunk> = vec![];
    let mut tainted = false;               // an error other than the tick refusal happened before (known finding K15W)
    for (i, op) in ops.iter().enumerate() {
        let r = match res.get(i) { Some(r) => r.as_str(), None => break };
        match op {
            HOp::Snap(t, objs) => {
                let must_refuse = (*t as i64) <= last_tick;
                let cls = if tainted { "K15W" } else { "-" };
                if must_refuse {
                    o.check(r == "eT", cls, &id, || format!("call {}: write_snap({}) after tick {} returned {} instead of TooLowTickNumber {}", i, t, last_tick, r, pm));
                } else {
                    // the raw writer's size limits are panics by design (`expect("too long compression")`, assert_u16):
                    // they need a payload of more than 21845 bytes (code words have at most 24 bits) and are not tick refusals
                    let size_panic = r == "p" && (pm.contains("too long compression") || pm.contains("overflow")) && objs.len() >= 300;
                    if size_panic { o.count("hl-size-limit-panic"); }
                    o.check(r != "eT" && (r != "p" || size_panic), cls, &id, || format!("call {}: write_snap({}) after tick {} returned {} {}", i, t, last_tick, r, pm));
                    // the builder may refuse a snapshot only for what is in it: a repeated (type, id) key or the size limits
                    if r.starts_with("eBDuplicateKey") {
                        let mut keys: Vec<String> = items_of(objs).iter().map(|it| format!("{:?}/{}", it.0, it.1)).collect();
                        let n = keys.len();
                        keys.sort();
                        keys.dedup();
                        o.check(keys.len() < n, cls, &id, || format!("call {}: write_snap({}) of {} objects with distinct keys returned {}", i, t, n, r));
                    }
                }
                if r == "o" {
                    last_tick = *t as i64;
                    want.push(HChunk::Tick(*t));
                    let mut items = items_of(objs);
                    items.sort();
                    want.push(HChunk::Snap(items));
                } else if r != "eT" {
                    tainted = true;
                }
            }
            HOp::Msg(enc) => {
                if r == "o" { want.push(HChunk::Msg(pad4(enc))); } else { tainted = true; }
                o.check(r == "o" || enc.len() > MAX || tainted, "-", &id, || format!("call {}: write_msg of {} bytes returned {}", i, enc.len(), r));
            }
        }
    }
    let cls = if tainted { "K15W" } else { "-" };
    let got: Vec<HChunk> = rd.chunks.iter().map(|(c, _)| match c { HChunk::Snap(items) => { let mut v = items.clone(); v.sort(); HChunk::Snap(v) } x => x.clone() }).collect();
    let nw: usize = rd.chunks.iter().map(|(_, n)| *n).sum::<usize>() + rd.hdr_warns;
    o.check(got == want && nw == 0 && rd.end == "end", cls, &id,
            || format!("{} chunk(s) expected from the accepted calls, the reader reports {} chunk(s), {} warning(s), ends with {}; first difference at {:?}",
                       want.len(), got.len(), nw, rd.end, want.iter().zip(got.iter()).position(|(a, b)| a != b)));
}

/// objects of every ddnet snapshot type, made by decoding random small int vectors (rejection sampling)
struct Pool {
    types: Vec<(TypeId, Vec<SnapObj>)>,
}

fn make_pool(r: &mut Rng) -> Pool {
    use libtw2_gamenet_ddnet::snap_obj as so;
    let mut tys: Vec<TypeId> = (1..=20u16).map(TypeId::Ordinal).collect();
    // DdnetSpectatorInfo is left out: its bool member re-encodes with padding garbage (C14's known finding K14)
    for u in [so::MY_OWN_OBJECT, so::DDNET_CHARACTER, so::DDNET_PLAYER, so::GAME_INFO_EX, so::DDRACE_PROJECTILE, so::DDNET_LASER,
              so::DDNET_PROJECTILE, so::DDNET_PICKUP, so::SPECTATOR_COUNT, so::BIRTHDAY, so::FINISH, so::MY_OWN_EVENT, so::SPEC_CHAR,
              so::SWITCH_STATE, so::ENTITY_EX, so::MAP_SOUND_WORLD] {
        tys.push(TypeId::Uuid(u));
    }
    let mut types = vec![];
    for ty in tys {
        let mut objs: Vec<SnapObj> = vec![];
        let sizes: Vec<usize> = match ty { TypeId::Ordinal(o) => vec![Protocol::obj_size(o).unwrap() as usize], _ => (0..=40).collect() };
        for &n in &sizes {
            for attempt in 0..400 {
                let words: Vec<i32> = (0..n).map(|_| match (attempt / 100, r.below(4)) { (0, _) => r.below(2) as i32, (1, 0) => r.range(-3, 6) as i32, (1, _) => r.below(2) as i32, (2, _) => r.range(0, 15) as i32, (_, 0) => r.i32_edgy(), _ => r.below(3) as i32 }).collect();
                let mut ex = vec![];
                let mut up = IntUnpacker::new(&words);
                if let Ok(obj) = SnapObj::decode_obj(&mut ex, ty, &mut up) {
                    // the whole vector was used and the object re-encodes to it
                    if ex.is_empty() && obj.encode() == &words[..] && !objs.iter().any(|o| o.encode() == obj.encode()) { objs.push(obj); }
                }
                if objs.len() >= 12 { break; }
            }
            if !objs.is_empty() && matches!(ty, TypeId::Uuid(_)) { break; }
        }
        if !objs.is_empty() { types.push((ty, objs)); }
    }
    Pool { types }
}

/// the same object with every member that accepts it set to a value whose varint takes five bytes
fn enlarge(obj: SnapObj) -> SnapObj {
    let ty = obj.obj_type_id();
    let mut words = obj.encode().to_vec();
    let mut best = obj;
    for i in 0..words.len() {
        let old = words[i];
        for cand in [0x7f7f_7f7fi32, -0x7f7f_7f7f, 0x0fff_ffff] {
            words[i] = cand;
            let mut ex = vec![];
            let mut up = IntUnpacker::new(&words);
            match SnapObj::decode_obj(&mut ex, ty, &mut up) {
                Ok(o) if ex.is_empty() && o.encode() == &words[..] => {
                    best = o;
                    break;
                }
                _ => words[i] = old,
            }
        }
    }
    best
}

fn game_msgs(r: &mut Rng) -> Vec<Vec<u8>> {
    use libtw2_gamenet_ddnet::msg::game::*;
    let text: Vec<u8> = (0..r.below(40)).map(|_| r.range(32, 126) as u8).collect();
    let cands: Vec<Game> = vec![
        Game::SvMotd(SvMotd { message: b"welcome" }),
        Game::SvBroadcast(SvBroadcast { message: &text }),
        Game::SvChat(SvChat { team: 0, client_id: 3, message: &text }),
        Game::SvChat(SvChat { team: 1, client_id: -1, message: b"" }),
        Game::SvKillMsg(SvKillMsg { killer: 1, victim: 2, weapon: -3, mode_special: 0 }),
        Game::SvReadyToEnter(SvReadyToEnter),
        Game::SvVoteClearOptions(SvVoteClearOptions),
        Game::SvKillMsgTeam(SvKillMsgTeam { team: 5, first: 63 }),
        Game::SvYourVote(SvYourVote { voted: -1 }),
    ];
    let mut out = vec![];
    for m in cands {
        let mut v: Vec<u8> = Vec::with_capacity(256);
        with_packer(&mut v, |p| m.encode(p).map(|_| ())).unwrap();
        // keep the ones that decode to a message that encodes to the same bytes (the typed layer is C14's)
        let mut pw = vec![];
        if let Ok(m2) = Game::decode(&mut pw, &mut Unpacker::new(&v)) {
            let mut v2: Vec<u8> = Vec::with_capacity(256);
            with_packer(&mut v2, |p| m2.encode(p).map(|_| ())).unwrap();
            if v2 == v && pw.is_empty() { out.push(v); }
        }
    }
    out
}

/// a world history: objects appear, change and vanish; ticks advance by 1 (sometimes more, around the
/// 250-tick key-frame interval); now and then a tick that does not increase, and messages in between
fn gen_history(r: &mut Rng, pool: &Pool, msgs: &[Vec<u8>], n: usize, refusals: bool) -> Vec<HOp> {
    let mut ops = vec![];
    let mut world: std::collections::BTreeMap<(usize, u16), usize> = std::collections::BTreeMap::new(); // (type index, id) -> variant
    let mut tick: i32 = match r.below(4) { 0 => 0, 1 => 1, 2 => r.below(100000) as i32, _ => r.below(50) as i32 };
    let mut first = true;
    let cap = *r.pick(&[3usize, 6, 10, 16, 30]);
    for _ in 0..n {
        // change the world
        for _ in 0..r.below(4) {
            let ti = r.below(pool.types.len() as u64) as usize;
            let id = match r.below(4) { 0 => 0, 1 => r.below(4) as u16, 2 => r.below(64) as u16, _ => *r.pick(&[255u16, 256, 1000, 65535]) };
            let vi = r.below(pool.types[ti].1.len() as u64) as usize;
            world.insert((ti, id), vi);
        }
        if !world.is_empty() && r.chance(1, 3) {
            let k = *world.keys().nth(r.below(world.len() as u64) as usize).unwrap();
            world.remove(&k);
        }
        if r.chance(1, 40) { world.clear(); }
        while world.len() > cap { let k = *world.keys().nth(r.below(world.len() as u64) as usize).unwrap(); world.remove(&k); }
        let mut objs: Vec<(SnapObj, u16)> = world.iter().map(|(&(ti, id), &vi)| (pool.types[ti].1[vi], id)).collect();
        // the order of the iterator does not matter
        if r.chance(1, 2) { objs.reverse(); }
        if !first {
            tick = tick.saturating_add(match r.below(40) { 0 => 2, 1 => 31, 2 => 32, 3 => 249, 4 => 250, 5 => 251, 6 => 300, 7 => 1 + r.below(600) as i32, _ => 1 });
        }
        first = false;
        if refusals && r.chance(1, 12) {
            // a tick that does not strictly increase: equal, lower, negative
            let bad = match r.below(4) { 0 => tick, 1 => tick - 1, 2 => -1, _ => tick - r.below(300) as i32 };
            ops.push(HOp::Snap(bad, objs.clone()));
            // the failed call must not count
        }
        ops.push(HOp::Snap(tick, objs));
        if refusals && r.chance(1, 15) { ops.push(HOp::Snap(tick, vec![])); }
        for _ in 0..r.below(3) { if !msgs.is_empty() && r.chance(1, 2) { ops.push(HOp::Msg(r.pick(msgs).clone())); } }
    }
    ops
}

// ---------------------------------------------------------------- generators

fn sym_bits() -> Vec<u32> {
    HUFFMAN.repr().into_iter().map(|s| s.num_bits()).collect()
}

/// a payload whose Huffman-compressed size is exactly `target` bytes: `fill` picks the bulk,
/// zero bytes (a short code word) walk the bit length up to the target
fn payload_compressing_to(r: &mut Rng, bits: &[u32], target: usize, style: u64) -> Vec<u8> {
    let eof = bits[256] as usize;
    let mut d: Vec<u8> = vec![];
    let mut nbits = eof;
    let z = bits[0] as usize;
    loop {
        let b = match style { 0 => r.byte(), 1 => (r.below(8)) as u8, 2 => *r.pick(&[0u8, 1, 2, 255, 64, 128]), _ => r.byte() | 0x80 };
        let nb = bits[b as usize] as usize;
        if (nbits + nb + 7) / 8 + 3 >= target {
            break;
        }
        d.push(b);
        nbits += nb;
    }
    while (nbits + 7) / 8 < target {
        d.push(0);
        nbits += z;
    }
    d
}

fn gen_str(r: &mut Rng, cap: usize) -> Vec<u8> {
    let n = match r.below(6) { 0 => 0, 1 => cap - 1, 2 => cap - 2, 3 => r.below(4) as usize, _ => r.below(cap as u64) as usize };
    (0..n).map(|_| { let b = if r.chance(1, 2) { r.range(32, 126) as u8 } else { r.byte() }; if b == 0 { 255 } else { b } }).collect()
}

fn gen_hdr(r: &mut Rng) -> Hdr {
    let map_len = match r.below(6) { 0 => 0, 1 => r.below(8) as usize, 2 => 300 + r.below(400) as usize, _ => r.below(64) as usize };
    Hdr {
        nv: if r.chance(1, 3) { b"0.6 626fce9a778df4d4".to_vec() } else { gen_str(r, 64) },
        mn: gen_str(r, 64),
        sha: if r.chance(1, 2) { let b = r.bytes(32); let mut a = [0u8; 32]; a.copy_from_slice(&b); Some(a) } else { None },
        crc: *r.pick(&[0u32, 1, 0x7fff_ffff, 0x8000_0000, 0xffff_ffff, 0x1234_5678]) ^ if r.chance(1, 2) { r.next() as u32 } else { 0 },
        client: r.chance(1, 2),
        length: match r.below(5) { 0 => 0, 1 => i32::MAX, 2 => r.below(100_000) as i32, _ => (r.next() as i32) & 0x7fff_ffff },
        ts: if r.chance(1, 3) { b"2026-09-23_12-00-00".to_vec() } else { gen_str(r, 20) },
        map: r.bytes(map_len),
    }
}

fn gen_small_payload(r: &mut Rng, bits: &[u32]) -> Vec<u8> {
    match r.below(10) {
        0 => vec![],
        1 => (0..r.below(8)).map(|_| r.byte()).collect(),
        // compressed sizes on both sides of 29/30 and 255/256
        2 => { let t = *r.pick(&[28usize, 29, 30, 31]); let st = r.below(4); payload_compressing_to(r, bits, t, st) }
        3 => { let t = *r.pick(&[254usize, 255, 256, 257]); let st = r.below(4); payload_compressing_to(r, bits, t, st) }
        4 => vec![0; r.below(300) as usize],
        5 => { let n = r.below(40) as usize; (0..n).map(|_| *r.pick(&[0u8, 0, 0, 1, 255, 0x40, 0x80])).collect() }
        6 => { let n = 1 + r.below(600) as usize; r.bytes(n) }
        _ => { let n = r.below(64) as usize; r.bytes(n) }
    }
}

fn gen_msg(r: &mut Rng, bits: &[u32]) -> Vec<u8> {
    let mut d = gen_small_payload(r, bits);
    match r.below(4) {
        // ints of every encoded length
        0 => { d.clear(); for _ in 0..r.below(12) { d.extend_from_slice(&r.i32_edgy().to_le_bytes()); } let k = r.below(4) as usize; d.extend(r.bytes(k)); }
        1 => { let k = r.below(4) as usize; d.extend(r.bytes(k)); }
        _ => {}
    }
    d
}

/// tick sequences: gaps on both sides of the inline limit (31/32), the V3 limit (63/64), large and extreme ones
fn next_tick(r: &mut Rng, cur: Option<i32>) -> i32 {
    match cur {
        None => match r.below(6) { 0 => 0, 1 => -5, 2 => i32::MIN, 3 => i32::MAX - 200, 4 => r.below(1000) as i32, _ => r.next() as i32 >> 8 },
        Some(t) => {
            let gap: i64 = match r.below(12) {
                0 => 1, 1 => 2, 2 => 30, 3 => 31, 4 => 32, 5 => 33, 6 => 63, 7 => 64, 8 => 1 + r.below(300) as i64,
                9 => 1 + r.below(1 << 20) as i64, 10 => 1 + (r.next() >> 33) as i64, _ => 1 + r.below(40) as i64,
            };
            let n = t as i64 + gap;
            if n > i32::MAX as i64 { i32::MAX } else { n as i32 }
        }
    }
}

fn gen_ops(r: &mut Rng, bits: &[u32], n: usize, hostile: bool) -> Vec<Op> {
    let mut ops = vec![];
    let mut cur: Option<i32> = None;
    for _ in 0..n {
        match r.below(10) {
            0..=3 => {
                let mut t = next_tick(r, cur);
                if hostile && r.chance(1, 6) { t = cur.unwrap_or(0).wrapping_sub(r.below(3) as i32); } // not increasing: the raw writer asserts
                if cur.map(|c| t > c).unwrap_or(true) { cur = Some(t); }
                ops.push(Op::Tick(t, r.chance(1, 4)));
            }
            4 | 5 => ops.push(Op::Snap(gen_small_payload(r, bits))),
            6 => ops.push(Op::Delta(gen_small_payload(r, bits))),
            7 | 8 => ops.push(Op::Msg(gen_msg(r, bits))),
            _ => { if hostile && r.chance(1, 3) { ops.push(Op::Unknown) } else { ops.push(Op::Msg(gen_msg(r, bits))) } }
        }
    }
    ops
}

fn plain_hdr() -> Hdr {
    Hdr { nv: b"0.6 626fce9a778df4d4".to_vec(), mn: b"dm1".to_vec(), sha: None, crc: 0xf2159e6e, client: true, length: 0, ts: b"2026-09-23_12-00-00".to_vec(), map: b"MAP".to_vec() }
}

fn main() {
    let a = Args::parse();
    let o = Out::new(&a, "wr: Writer::new + write_tick/write_snapshot/write_snapshot_delta/write_message/write_chunk on an in-memory file, file bytes and read-back compared with the model (headers: strings of length 0..capacity-1 and beyond, with/without SHA-256, edge crc/length; ticks: first tick anywhere in i32, gaps 1,2,30..33,63,64,random,up to i32::MAX, keyframes, non-increasing; payloads: empty, compressed size 28..31 and 254..257, up to 65535/65536/too long, raw size 65535..65537, message lengths mod 4 = 0..3, ints of every encoded length); rd: Reader on written files after truncation at every header boundary, byte mutation, version byte 3..7, hand-made chunk headers (all 256 flag bytes x versions, overlong sizes, delta/absolute ticks, padding bits), garbage. distinct = distinct (kind, outcome, size class, warning class) signatures");
    let mut c = Ctx { o, wr: Worker::new(), rd: Worker::new(), hl: Worker::new() };
    let mut r = Rng::new(a.seed);
    let th = a.thorough();
    let bits = sym_bits();

    // ---- fixed witnesses first
    // #14 / K15: a message of 65537 bytes (65536 is fine); a snapshot of 65537 bytes
    for n in [65535usize, 65536, 65537] {
        do_wr(&mut c, &plain_hdr(), &[Op::Tick(1, true), Op::Msg(vec![0; n]), Op::Tick(2, false), Op::Msg(vec![1, 2, 3])], false);
        do_wr(&mut c, &plain_hdr(), &[Op::Tick(1, true), Op::Snap(vec![0; n]), Op::Tick(2, false), Op::Delta(vec![7; 5])], n % 2 == 0);
    }
    // K15H: NUL inside a header string, negative length
    { let mut h = plain_hdr(); h.nv = b"a\0b".to_vec(); do_wr(&mut c, &h, &[Op::Tick(1, true)], false); }
    { let mut h = plain_hdr(); h.ts = b"\0".to_vec(); do_wr(&mut c, &h, &[], false); }
    { let mut h = plain_hdr(); h.length = -1; do_wr(&mut c, &h, &[Op::Tick(1, true)], false); }
    // strings at and beyond the capacity
    for (nl, ml, tl) in [(63usize, 63usize, 19usize), (64, 3, 3), (3, 64, 3), (3, 3, 20), (0, 0, 0), (100, 0, 0)] {
        let mut h = plain_hdr(); h.nv = vec![b'n'; nl]; h.mn = vec![b'm'; ml]; h.ts = vec![b't'; tl];
        do_wr(&mut c, &h, &[Op::Tick(0, true), Op::Snap(vec![1, 2, 3])], false);
    }
    // compressed sizes around every boundary, for every kind
    for t in [1usize, 2, 28, 29, 30, 31, 32, 254, 255, 256, 257, 258, 1000] {
        for style in 0..4 {
            let d = payload_compressing_to(&mut r, &bits, t, style);
            do_wr(&mut c, &plain_hdr(), &[Op::Tick(10, true), Op::Snap(d.clone()), Op::Delta(d.clone()), Op::Tick(11, false), Op::Snap(vec![])], style % 2 == 0);
        }
    }
    // the largest compressed sizes: 65534, 65535 fit the u16, 65536 fails assert_u16, more fails the buffer
    let big_targets: &[usize] = if th { &[65534, 65535, 65536, 65537, 65540, 70000] } else { &[65535, 65536, 65540] };
    for &t in big_targets {
        let d = payload_compressing_to(&mut r, &bits, t, 0);
        do_wr(&mut c, &plain_hdr(), &[Op::Tick(10, true), Op::Snap(d), Op::Tick(12, false), Op::Snap(vec![9])], false);
    }
    // messages whose int packing is at the buffer2 limit: 13107 five-byte ints = 65535 bytes, one more byte fits, one more int does not
    {
        let five = 0x7f7f_7f7fi32.to_le_bytes();
        let mut m: Vec<u8> = vec![];
        for _ in 0..13107 { m.extend_from_slice(&five); }
        let mut m1 = m.clone(); m1.extend_from_slice(&[1]);            // + one 1-byte int: 65536 packed bytes
        let mut m2 = m.clone(); m2.extend_from_slice(&five);           // 65540 packed bytes: "overlong message"
        for msg in if th { vec![m.clone(), m1, m2] } else { vec![m1, m2] } {
            do_wr(&mut c, &plain_hdr(), &[Op::Tick(1, false), Op::Msg(msg), Op::Tick(2, false), Op::Msg(vec![5])], false);
        }
    }
    // message lengths 0..12 (mod 4 = 0..3)
    for n in 0..13usize {
        let d: Vec<u8> = (0..n).map(|i| (i * 37 + 1) as u8).collect();
        do_wr(&mut c, &plain_hdr(), &[Op::Tick(1, false), Op::Msg(d.clone()), Op::Msg(vec![0xff; n])], n % 2 == 0);
    }
    // tick gaps around the inline limit, with and without keyframe; equal and decreasing ticks; extremes
    for gap in [1i32, 2, 30, 31, 32, 33, 63, 64, 65, 255, 256, 257] {
        for kf in [false, true] {
            do_wr(&mut c, &plain_hdr(), &[Op::Tick(100, false), Op::Tick(100 + gap, kf), Op::Tick(100 + gap + 1, false)], kf);
        }
    }
    do_wr(&mut c, &plain_hdr(), &[Op::Tick(5, false), Op::Tick(5, false), Op::Tick(4, false), Op::Tick(6, true)], false);
    do_wr(&mut c, &plain_hdr(), &[Op::Tick(i32::MIN, false), Op::Tick(-1, false), Op::Tick(0, false), Op::Tick(i32::MAX - 1, false), Op::Tick(i32::MAX, false)], false);
    do_wr(&mut c, &plain_hdr(), &[Op::Tick(i32::MIN, true), Op::Tick(i32::MAX, false)], true);
    do_wr(&mut c, &plain_hdr(), &[Op::Unknown, Op::Tick(3, false)], false);

    // ---- random write / read-back
    for i in 0..(if th { 6000 } else { 700 }) {
        let h = if r.chance(1, 3) { plain_hdr() } else { gen_hdr(&mut r) };
        let hostile = i % 5 == 0;
        let mut h = h;
        if hostile && r.chance(1, 4) {
            match r.below(4) { 0 => { h.nv = vec![b'x'; 64 + r.below(3) as usize] } 1 => { h.ts = vec![b'x'; 20] } 2 => { if !h.mn.is_empty() { let k = r.below(h.mn.len() as u64) as usize; h.mn[k] = 0; } } _ => { h.length = -(r.below(1000) as i32) - 1 } }
        }
        let n = match r.below(4) { 0 => r.below(4) as usize, 1 => 4 + r.below(12) as usize, _ => 1 + r.below(40) as usize };
        let ops = gen_ops(&mut r, &bits, n, hostile);
        do_wr(&mut c, &h, &ops, r.chance(1, 2));
    }
    // long recordings: many ticks with small payloads
    for _ in 0..(if th { 30 } else { 4 }) {
        let ops = gen_ops(&mut r, &bits, 600, false);
        do_wr(&mut c, &gen_hdr(&mut r), &ops, false);
    }
    // mid-size and large payloads
    for _ in 0..(if th { 60 } else { 6 }) {
        let n = *r.pick(&[3000usize, 20000, 40000, 65000, 65536]);
        let style = r.below(3);
        let d: Vec<u8> = (0..n).map(|_| match style { 0 => 0, 1 => r.below(4) as u8, _ => r.byte() }).collect();
        let op = match r.below(3) { 0 => Op::Snap(d), 1 => Op::Delta(d), _ => Op::Msg(d) };
        do_wr(&mut c, &plain_hdr(), &[Op::Tick(7, true), op, Op::Tick(8, false), Op::Msg(vec![1])], r.chance(1, 2));
    }

    // ---- reader on hostile files
    let base_ops = vec![Op::Tick(5, true), Op::Snap(vec![1, 2, 3]), Op::Tick(6, false), Op::Msg(vec![1, 2, 3, 4, 5]), Op::Tick(40, false), Op::Delta(vec![0; 40])];
    let (_, _, base5) = write_file(&plain_hdr(), &base_ops, false);
    let (_, _, base6) = { let mut h = plain_hdr(); h.sha = Some([7; 32]); write_file(&h, &base_ops, false) };
    // truncation at every length of the header region and of the chunk region
    for base in [&base5, &base6] {
        let step = if th { 1 } else { 3 };
        let mut n = 0;
        while n <= base.len() { do_rd(&mut c, &base[..n], "trunc"); n += if n < 8 || n + 40 > base.len() || (170..190).contains(&n) || (430..500).contains(&n) { 1 } else { step }; }
    }
    // version byte 0..8 over both layouts
    for v in 0..=8u8 { for base in [&base5, &base6] { let mut f = base.to_vec(); f[7] = v; do_rd(&mut c, &f, "ver"); } }
    // single-byte mutations of the header (the map_size field is kept small: Vec<u8> with count = map_size
    // reserves that many bytes before reading)
    for _ in 0..(if th { 20000 } else { 1200 }) {
        let base = if r.chance(1, 2) { &base5 } else { &base6 };
        let mut f = base.to_vec();
        for _ in 0..1 + r.below(3) {
            let k = match r.below(4) { 0 => r.below(8) as usize, 1 => 8 + r.below(168) as usize, 2 => 176 + r.below(270) as usize, _ => r.below(f.len() as u64) as usize };
            f[k] = match r.below(4) { 0 => 0, 1 => 0xff, 2 => f[k] ^ (1 << r.below(8)), _ => r.byte() };
        }
        if f[136] != 0 || f[137] != 0 { f[136] = 0; f[137] = 0; }
        if r.chance(1, 5) { let k = r.below(f.len() as u64 + 1) as usize; f.truncate(k); }
        do_rd(&mut c, &f, "mut");
    }
    // hand-made chunk streams behind a valid header of every version
    let hdr_only = |ver: u8| -> Vec<u8> {
        let (_, _, mut f) = write_file(&plain_hdr(), &[], false);
        f[7] = ver;
        if ver == 3 { let map = f.split_off(f.len() - 3); f.truncate(176); f.extend(map); }
        if ver == 6 { let map = f.split_off(f.len() - 3); f.extend_from_slice(&[0x6b, 0xe6, 0xda, 0x4a, 0xce, 0xbd, 0x38, 0x0c, 0x9b, 0x5b, 0x12, 0x89, 0xc8, 0x42, 0xd7, 0x80]); f.extend_from_slice(&[9; 32]); f.extend(map); }
        f
    };
    let comp = |d: &[u8]| -> Vec<u8> { HUFFMAN.compress_into_vec(d) };
    for ver in 3..=6u8 {
        let h = hdr_only(ver);
        do_rd(&mut c, &h, "flags");
        // every flag byte, followed by enough bytes for any continuation
        for flags in 0..=255u8 {
            let tails: &[&[u8]] = if th { &[&[], &[0, 0, 0, 9], &[2, 0x15, 0x37, 0, 0, 0, 0x81], &[0x1d, 0, 0, 0]] } else { &[&[], &[2, 0x15, 0x37, 0, 0, 0, 0x81]] };
            for &tail in tails {
                let mut f = h.clone(); f.push(flags); f.extend_from_slice(tail);
                do_rd(&mut c, &f, "flags");
                // after a first absolute tick (so that deltas have a base)
                let mut f = h.clone(); f.extend_from_slice(&[0x80, 0x7f, 0xff, 0xff, 0xf0]); f.push(flags); f.extend_from_slice(tail);
                do_rd(&mut c, &f, "flags");
            }
        }
        // size encodings: inline, one byte (overlong < 30), two bytes (overlong < 255), for a real payload
        for n in [0usize, 1, 10, 28, 29, 30, 31, 100, 253, 254, 255, 256, 257, 300] {
            let d = payload_compressing_to(&mut r, &bits, n.max(1), 1);
            let cd = comp(&d);
            for kind in [0u8, 0x20, 0x40, 0x60] {
                let encs: Vec<Vec<u8>> = vec![
                    if cd.len() < 30 { vec![kind | cd.len() as u8] } else { vec![kind | 30, cd.len() as u8] },
                    vec![kind | 30, cd.len() as u8],
                    vec![kind | 31, cd.len() as u8, (cd.len() >> 8) as u8],
                ];
                for e in encs { let mut f = h.clone(); f.extend_from_slice(&[0x80, 0, 0, 0, 1]); f.extend(e); f.extend_from_slice(&cd); f.extend_from_slice(&[0xa1]); do_rd(&mut c, &f, "size"); }
            }
        }
        // tick sequences: absolute after absolute (increasing, equal, decreasing), deltas up to overflow
        for (a, b) in [(5i32, 6i32), (5, 5), (5, 4), (i32::MAX - 3, i32::MAX), (-7, -6), (i32::MIN, i32::MIN)] {
            let mut f = h.clone(); f.push(0x80); f.extend_from_slice(&a.to_be_bytes()); f.push(0xc0); f.extend_from_slice(&b.to_be_bytes());
            for d in [0xa1u8, 0xa4, 0xbf, 0x83, 0xff, 0xe0, 0x9f] { f.push(d); }
            do_rd(&mut c, &f, "ticks");
        }
        // message payloads: overlong ints, padding bits, truncated ints, exactly 16384 / 16385 ints
        for packed in [vec![0x80u8, 0], vec![0xff, 0xff, 0xff, 0xff, 0xff], vec![0x80], vec![0xc0, 0x80, 0x80], vec![1, 2, 0x81]] {
            let cd = comp(&packed);
            let mut f = h.clone(); f.extend_from_slice(&[0x80, 0, 0, 0, 1, 0x40 | cd.len() as u8]); f.extend_from_slice(&cd);
            do_rd(&mut c, &f, "msg");
        }
        for n in [16383usize, 16384, 16385] {
            let cd = comp(&vec![1u8; n]);
            let mut f = h.clone(); f.extend_from_slice(&[0x5f, cd.len() as u8, (cd.len() >> 8) as u8]); f.extend_from_slice(&cd); f.push(0x80);
            do_rd(&mut c, &f, "msg");
        }
        // snapshot payload that decompresses to 65536 / 65537 bytes; compressed garbage
        for n in [65536usize, 65537] {
            let cd = comp(&vec![0u8; n]);
            let mut f = h.clone(); f.extend_from_slice(&[0x3f, cd.len() as u8, (cd.len() >> 8) as u8]); f.extend_from_slice(&cd);
            do_rd(&mut c, &f, "snap");
        }
    }
    // random chunk streams behind a valid header
    for _ in 0..(if th { 20000 } else { 800 }) {
        let ver = 3 + r.below(4) as u8;
        let mut f = hdr_only(ver);
        for _ in 0..r.below(8) {
            match r.below(6) {
                0 => { f.push(0x80 | (r.byte() & 0x40)); let t = r.i32_edgy(); f.extend_from_slice(&t.to_be_bytes()); }
                1 => { f.push(0x80 | r.byte()); }
                2 | 3 => {
                    let d = if r.chance(1, 2) { gen_small_payload(&mut r, &bits) } else { let mut p = vec![]; for _ in 0..r.below(6) { let v = r.i32_edgy(); let mut buf = [0u8; 8]; let n = libtw2_packer::with_packer(&mut buf[..], |mut p| { p.write_int(v).unwrap(); p.written().len() }); p.extend_from_slice(&buf[..n]); } if r.chance(1, 4) { p.push(0x80 | r.byte()); } p };
                    let cd = comp(&d);
                    let kind = (r.below(4) as u8) << 5;
                    if cd.len() < 30 && r.chance(2, 3) { f.push(kind | cd.len() as u8); } else if cd.len() < 256 && r.chance(2, 3) { f.push(kind | 30); f.push(cd.len() as u8); } else { f.push(kind | 31); f.push(cd.len() as u8); f.push((cd.len() >> 8) as u8); }
                    f.extend_from_slice(&cd);
                }
                4 => { let k = r.below(6) as usize; f.extend(r.bytes(k)); }
                _ => { f.push(r.byte() & 0x7f); let k = r.below(40) as usize; f.extend(r.bytes(k)); }
            }
        }
        if r.chance(1, 6) { let k = r.below(f.len() as u64 + 1) as usize; f.truncate(k.max(436.min(f.len()))); }
        do_rd(&mut c, &f, "stream");
    }
    // ---- high-level layer: DemoWriter / DemoReader
    let pool = make_pool(&mut r);
    c.o.sample(format!("hl object pool: {} types, {} objects", pool.types.len(), pool.types.iter().map(|t| t.1.len()).sum::<usize>()));
    let msgs = game_msgs(&mut r);
    // #13: the same tick twice, a lower tick, a negative first tick
    {
        let a = vec![(pool.types[1].1[0], 1u16), (pool.types[2].1[0], 2)];
        let b = vec![(pool.types[1].1[1 % pool.types[1].1.len()], 1u16)];
        do_hl(&mut c, &plain_hdr(), &[HOp::Snap(5, a.clone()), HOp::Snap(5, b.clone()), HOp::Snap(6, b.clone())]);
        do_hl(&mut c, &plain_hdr(), &[HOp::Snap(5, a.clone()), HOp::Snap(4, b.clone()), HOp::Snap(6, b.clone()), HOp::Msg(msgs[0].clone())]);
        do_hl(&mut c, &plain_hdr(), &[HOp::Snap(-1, a.clone()), HOp::Snap(0, a.clone()), HOp::Snap(0, b.clone()), HOp::Snap(i32::MAX, b.clone()), HOp::Snap(i32::MAX, a.clone())]);
        do_hl(&mut c, &plain_hdr(), &[HOp::Msg(msgs[0].clone()), HOp::Snap(0, vec![]), HOp::Snap(251, vec![]), HOp::Snap(250, a.clone()), HOp::Snap(501, a.clone()), HOp::Snap(502, a)]);
    }
    // extended (UUID) item types registered in a different order in consecutive snapshots
    {
        let uu: Vec<&(TypeId, Vec<SnapObj>)> = pool.types.iter().filter(|t| matches!(t.0, TypeId::Uuid(_))).collect();
        let a = uu[0].1[0];
        let b = uu.iter().find(|t| t.1[0].encode().len() != a.encode().len()).unwrap().1[0];
        let c3 = uu.iter().rev().find(|t| t.1[0].encode().len() == a.encode().len() && t.0 != uu[0].0).map(|t| t.1[0]).unwrap_or(b);
        do_hl(&mut c, &plain_hdr(), &[HOp::Snap(1, vec![(a, 0)]), HOp::Snap(2, vec![(b, 0)]), HOp::Snap(3, vec![(a, 0), (b, 1)])]);
        do_hl(&mut c, &plain_hdr(), &[HOp::Snap(1, vec![(a, 0), (b, 0)]), HOp::Snap(2, vec![(b, 0)]), HOp::Snap(3, vec![(b, 0), (a, 0)]), HOp::Snap(4, vec![])]);
        do_hl(&mut c, &plain_hdr(), &[HOp::Snap(1, vec![(a, 7)]), HOp::Snap(2, vec![(c3, 7)]), HOp::Snap(3, vec![(c3, 7), (a, 7)]), HOp::Snap(300, vec![(a, 7)]), HOp::Snap(301, vec![(b, 7), (c3, 7)])]);
    }
    // key-frame interval: last key frame + 250 is a delta, + 251 is a key frame
    for gap in [1, 249, 250, 251, 252, 500] {
        let a = vec![(pool.types[0].1[0], 7u16)];
        do_hl(&mut c, &plain_hdr(), &[HOp::Snap(10, a.clone()), HOp::Snap(10 + gap, a.clone()), HOp::Snap(11 + gap, vec![]), HOp::Snap(12 + gap, a)]);
    }
    // world histories; the long ones cross more than one key-frame interval
    for i in 0..(if th { 300 } else { 16 }) {
        let n = match i % 4 { 0 => 300, 1 => 40, 2 => 8, _ => 120 };
        let mut h = if r.chance(1, 2) { plain_hdr() } else { gen_hdr(&mut r) };
        h.length = h.length.max(0);
        let ops = gen_history(&mut r, &pool, &msgs, n, i % 2 == 0);
        do_hl(&mut c, &h, &ops);
    }
    // other refusals (known finding K15W): duplicate key, too many items, too large a snapshot, too long a message
    {
        let o1 = pool.types[1].1[0];
        do_hl(&mut c, &plain_hdr(), &[HOp::Snap(1, vec![(o1, 1), (o1, 1)]), HOp::Snap(2, vec![(o1, 2)]), HOp::Snap(3, vec![])]);
        let many: Vec<(SnapObj, u16)> = (0..1100u16).map(|i| (pool.types[4].1[0], i)).collect();
        do_hl(&mut c, &plain_hdr(), &[HOp::Snap(1, many.clone()), HOp::Snap(2, vec![(o1, 2)])]);
        let full: Vec<(SnapObj, u16)> = (0..1024u16).map(|i| (pool.types[4].1[0], i)).collect();
        do_hl(&mut c, &plain_hdr(), &[HOp::Snap(1, full), HOp::Snap(2, vec![(o1, 2)])]);
        // TooLargeSnap: a snapshot the builder accepts (at most 65536 bytes of ints) whose varint packing is longer than `buf`
        let ci = pool.types.iter().find(|t| t.0 == TypeId::Ordinal(11)).map(|t| enlarge(t.1[0])).unwrap();
        let nbig = ci.encode().iter().filter(|v| v.unsigned_abs() >= 1 << 27).count();
        c.o.sample(format!("hl enlarged ClientInfo: {} of {} ints need five bytes", nbig, ci.encode().len()));
        let big: Vec<(SnapObj, u16)> = (0..850u16).map(|i| (ci, i)).collect();
        do_hl(&mut c, &plain_hdr(), &[HOp::Snap(1, vec![(o1, 1)]), HOp::Snap(2, big.clone()), HOp::Snap(2, vec![(o1, 1)]), HOp::Msg(msgs[0].clone()), HOp::Snap(3, vec![(o1, 1)])]);
        do_hl(&mut c, &plain_hdr(), &[HOp::Snap(1, big.clone()), HOp::Snap(7, vec![])]);
        // a snapshot just below the limit goes through
        let fit: Vec<(SnapObj, u16)> = (0..400u16).map(|i| (ci, i)).collect();
        do_hl(&mut c, &plain_hdr(), &[HOp::Snap(1, fit.clone()), HOp::Snap(2, fit), HOp::Snap(3, vec![(o1, 1)])]);
        // 600 of them fit `buf` but not the raw writer's compression buffer: its `expect("too long compression")`
        let fit600: Vec<(SnapObj, u16)> = (0..600u16).map(|i| (ci, i)).collect();
        do_hl(&mut c, &plain_hdr(), &[HOp::Snap(1, vec![(o1, 1)]), HOp::Snap(2, fit600)]);
        // TooLongNetMsg: a chat message of 70000 bytes
        {
            use libtw2_gamenet_ddnet::msg::game::SvChat;
            let text = vec![b'a'; 70000];
            let m = Game::SvChat(SvChat { team: 0, client_id: 1, message: &text });
            let mut v: Vec<u8> = Vec::with_capacity(1 << 17);
            with_packer(&mut v, |p| m.encode(p).map(|_| ())).unwrap();
            do_hl(&mut c, &plain_hdr(), &[HOp::Snap(1, vec![(o1, 1)]), HOp::Msg(v), HOp::Msg(msgs[0].clone()), HOp::Snap(2, vec![(o1, 1)])]);
            // 65000 bytes fit
            let text = vec![b'b'; 65000];
            let m = Game::SvChat(SvChat { team: 0, client_id: 1, message: &text });
            let mut v: Vec<u8> = Vec::with_capacity(1 << 17);
            with_packer(&mut v, |p| m.encode(p).map(|_| ())).unwrap();
            do_hl(&mut c, &plain_hdr(), &[HOp::Snap(1, vec![(o1, 1)]), HOp::Msg(v), HOp::Msg(msgs[0].clone()), HOp::Snap(2, vec![(o1, 1)])]);
        }
    }
    c.o.finish();
}

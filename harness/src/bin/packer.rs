//! C08: varints and packed fields — real libtw2-packer against the Coq model.
use libtw2_packer::{with_packer, Unpacker, Warning};
use tw2verif::*;

fn warns(ws: &[Warning]) -> String {
    if ws.is_empty() {
        return "-".into();
    }
    ws.iter()
        .map(|w| match w {
            Warning::OverlongIntEncoding => "O",
            Warning::NonZeroIntPadding => "P",
            Warning::ExcessData => "X",
        })
        .collect::<Vec<_>>()
        .join(",")
}

fn enc(v: i32) -> Vec<u8> {
    let mut buf = [0u8; 8];
    with_packer(&mut buf[..], |mut p| {
        p.write_int(v).unwrap();
        p.written().to_vec()
    })
}

/// doc/int.md, written independently of the implementation (zero padding assumed)
fn doc_value(bs: &[u8]) -> Option<i64> {
    let b0 = *bs.first()?;
    let sign = b0 & 0x40 != 0;
    let mut mag: i64 = (b0 & 0x3f) as i64;
    let mut ext = b0 & 0x80 != 0;
    let mut i = 1;
    while ext {
        let b = *bs.get(i)?;
        if i == 4 {
            mag |= ((b & 0x0f) as i64) << 27;
            break;
        }
        mag |= ((b & 0x7f) as i64) << (6 + 7 * (i - 1));
        ext = b & 0x80 != 0;
        i += 1;
    }
    Some(if sign { !mag } else { mag })
}

fn do_enc(o: &mut Out, v: i32) {
    let r = guard(|| enc(v));
    let (res, sig) = match &r {
        Ok(b) => (format!("ok {}", hex(b)), format!("enc{}", b.len())),
        Err(_) => ("panic".to_string(), "encpanic".to_string()),
    };
    let id = o.case(&format!("enc\t{}", v), &res, &sig);
    // oracle: round trip, 1..5 bytes, nothing left, no warning
    if let Ok(b) = r {
        let mut w = vec![];
        let mut u = Unpacker::new(&b);
        let back = u.read_int(&mut w);
        o.check(back == Ok(v) && w.is_empty() && u.as_slice().is_empty() && (1..=5).contains(&b.len()), "-", &id,
                || format!("write_int({}) = {} reads back as {:?} warnings {:?} rest {}", v, hex(&b), back, w, hex(u.as_slice())));
    } else {
        o.check(false, "-", &id, || format!("write_int({}) panicked", v));
    }
}

fn do_dec(o: &mut Out, bs: &[u8]) {
    let r = guard(|| {
        let mut w = vec![];
        let mut u = Unpacker::new(bs);
        let v = u.read_int(&mut w);
        (v, w, u.as_slice().to_vec())
    });
    let (res, sig) = match &r {
        Ok((Ok(v), w, rest)) => (
            format!("ok {} {} {}", v, warns(w), hex(rest)),
            format!("dec{}{}", bs.len() - rest.len(), warns(w)),
        ),
        Ok((Err(_), _, _)) => ("err".to_string(), format!("decerr{}", bs.len().min(6))),
        Err(_) => ("panic".to_string(), "decpanic".to_string()),
    };
    let id = o.case(&format!("dec\t{}", hex(bs)), &res, &sig);
    match r {
        Err(p) => o.check(false, "-", &id, || format!("read_int({}) panicked: {}", hex(bs), p)),
        Ok((Err(_), _, _)) => {
            // fails only because the string ends too early
            let early = bs.len() < 5 && bs.iter().all(|b| b & 0x80 != 0);
            o.check(early, "-", &id, || format!("read_int({}) failed although the string does not end early", hex(bs)));
        }
        Ok((Ok(v), w, rest)) => {
            let consumed = &bs[..bs.len() - rest.len()];
            let canon = enc(v);
            o.check(w.is_empty() == (consumed == &canon[..]), "-", &id,
                    || format!("read_int({}) = {} warnings {:?} but canonical encoding is {}", hex(bs), v, w, hex(&canon)));
            o.check(canon.len() <= consumed.len(), "-", &id,
                    || format!("read_int({}) = {} consumed {} bytes, canonical has {}", hex(bs), v, consumed.len(), canon.len()));
            let pad_zero = consumed.len() < 5 || consumed[4] & 0xf0 == 0;
            if pad_zero {
                o.check(doc_value(bs) == Some(v as i64), "-", &id,
                        || format!("read_int({}) = {} but doc/int.md prescribes {:?}", hex(bs), v, doc_value(bs)));
            }
            o.check(bs.len() >= 5 || !bs.iter().all(|b| b & 0x80 != 0), "-", &id, || "decoded a string that ends early".into());
        }
    }
}

#[derive(Clone, Debug, PartialEq)]
enum Field {
    Int(i32),
    Str(Vec<u8>),
    Data(Vec<u8>),
    Raw(Vec<u8>),
    Rest(Vec<u8>),
}

fn field_txt(f: &Field) -> String {
    match f {
        Field::Int(v) => format!("i:{}", v),
        Field::Str(s) => format!("s:{}", hex(s)),
        Field::Data(s) => format!("d:{}", hex(s)),
        Field::Raw(s) => format!("r:{}", hex(s)),
        Field::Rest(s) => format!("t:{}", hex(s)),
    }
}

fn pack(fs: &[Field], cap: usize) -> (bool, Vec<u8>) {
    let mut buf = vec![0xAAu8; cap];
    let mut ok = true;
    let n = with_packer(&mut buf[..], |mut p| {
        for f in fs {
            let r = match f {
                Field::Int(v) => p.write_int(*v),
                Field::Str(s) => p.write_string(s),
                Field::Data(s) => p.write_data(s),
                Field::Raw(s) => p.write_raw(s),
                Field::Rest(s) => p.write_rest(s),
            };
            if r.is_err() {
                ok = false;
                break;
            }
        }
        p.written().len()
    });
    buf.truncate(n);
    (ok, buf)
}

fn unpack_fields(fs: &[Field], bytes: &[u8]) -> Option<(Vec<Field>, Vec<Warning>, Vec<u8>)> {
    let mut w = vec![];
    let mut u = Unpacker::new(bytes);
    let mut out = vec![];
    for f in fs {
        out.push(match f {
            Field::Int(_) => Field::Int(u.read_int(&mut w).ok()?),
            Field::Str(_) => Field::Str(u.read_string().ok()?.to_vec()),
            Field::Data(_) => Field::Data(u.read_data(&mut w).ok()?.to_vec()),
            Field::Raw(r) => Field::Raw(u.read_raw(r.len()).ok()?.to_vec()),
            Field::Rest(_) => Field::Rest(u.read_rest().ok()?.to_vec()),
        });
    }
    Some((out, w, u.as_slice().to_vec()))
}

fn do_pack(o: &mut Out, fs: &[Field], cap: usize) {
    let r = guard(|| pack(fs, cap));
    let txt: Vec<String> = fs.iter().map(field_txt).collect();
    let (res, sig) = match &r {
        Ok((ok, b)) => (format!("{} {}", if *ok { "ok" } else { "cap" }, hex(b)),
                        format!("pack{}{}", fs.len().min(5), ok)),
        Err(_) => ("panic".into(), "packpanic".into()),
    };
    let id = o.case(&format!("pack\t{}\t{}", cap, txt.join("\t")), &res, &sig);
    match r {
        Err(p) => o.check(false, "-", &id, || format!("pack {:?} cap {} panicked: {}", txt, cap, p)),
        Ok((ok, b)) => {
            o.check(b.len() <= cap, "-", &id, || format!("wrote {} bytes into capacity {}", b.len(), cap));
            let (ok_big, full) = pack(fs, 1 << 16);
            o.check(ok_big, "-", &id, || "does not fit 64 KiB".into());
            o.check(ok == (full.len() <= cap), "-", &id,
                    || format!("pack {:?}: capacity {} encoding {} bytes but result ok={}", txt, cap, full.len(), ok));
            o.check(full.starts_with(&b) && (ok || b.len() == cap), "-", &id,
                    || format!("pack {:?} cap {}: wrote {} which is not the fitting prefix of {}", txt, cap, hex(&b), hex(&full)));
            if ok {
                let back = unpack_fields(fs, &b);
                o.check(back == Some((fs.to_vec(), vec![], vec![])), "-", &id,
                        || format!("pack {:?} = {} reads back as {:?}", txt, hex(&b), back));
            }
        }
    }
}

fn do_unpack(o: &mut Out, demo: bool, bytes: &[u8], kinds: &[String]) {
    let r = guard(|| {
        let mut u = if demo { Unpacker::new_from_demo(bytes) } else { Unpacker::new(bytes) };
        let mut steps = vec![];
        for k in kinds {
            let mut w: Vec<Warning> = vec![];
            let s = match k.as_bytes()[0] {
                b'i' => match u.read_int(&mut w) { Ok(v) => format!("i:{}:{}", v, warns(&w)), Err(_) => "e".into() },
                b's' => match u.read_string() { Ok(v) => format!("s:{}", hex(v)), Err(_) => "e".into() },
                b'd' => match u.read_data(&mut w) { Ok(v) => format!("d:{}:{}", hex(v), warns(&w)), Err(_) => format!("e:{}", warns(&w)) },
                b'r' => match u.read_raw(k[1..].parse().unwrap()) { Ok(v) => format!("r:{}", hex(v)), Err(_) => "e".into() },
                b't' => match u.read_rest() { Ok(v) => format!("t:{}", hex(v)), Err(_) => "e".into() },
                _ => { let mut x = vec![]; u.finish(&mut x); format!("f:{}", x.len()) }
            };
            // reading never runs past what was written / given
            assert!(u.num_bytes_read() <= bytes.len());
            steps.push(s);
        }
        steps.push(format!("rest={}", hex(u.as_slice())));
        steps.join(" ")
    });
    let res = match &r { Ok(s) => s.clone(), Err(_) => "panic".into() };
    let sig: String = res.split(' ').map(|s| &s[..1]).collect();
    let id = o.case(&format!("unpack\t{}\t{}\t{}", demo as u8, hex(bytes), kinds.join("\t")), &res, &format!("un{}", sig));
    if let Err(p) = r {
        o.check(false, "-", &id, || format!("unpack {} {:?} panicked: {}", hex(bytes), kinds, p));
    }
}

fn gen_bytes(r: &mut Rng, max: usize, nul_free: bool) -> Vec<u8> {
    let n = match r.below(4) { 0 => 0, 1 => r.below(4) as usize, 2 => r.below(20) as usize, _ => r.below(max as u64 + 1) as usize };
    (0..n).map(|_| { let b = if r.chance(1, 3) { *r.pick(&[0u8, 1, 0x7f, 0x80, 0xff, 0x40, 0x3f]) } else { r.byte() }; if nul_free && b == 0 { 1 } else { b } }).collect()
}

fn gen_field(r: &mut Rng, last: bool) -> Field {
    match r.below(if last { 5 } else { 4 }) {
        0 => Field::Int(r.i32_edgy()),
        1 => Field::Str(gen_bytes(r, 40, true)),
        2 => Field::Data(gen_bytes(r, 80, false)),
        3 => Field::Raw(gen_bytes(r, 20, false)),
        _ => Field::Rest(gen_bytes(r, 30, false)),
    }
}

fn main() {
    let a = Args::parse();
    let mut o = Out::new(&a, "enc: i32 values (boundary set + seeded random); dec: byte strings (exhaustive short ones, first/last-byte sweeps of 5-byte strings, random); pack: random field lists x capacities 0..size+1; unpack: random kind sequences over valid and corrupted encodings. distinct = distinct (operation, consumed length / step-kind sequence, warning set, ok/err) signatures");
    let mut r = Rng::new(a.seed);
    let th = a.thorough();

    // ---- enc
    let mut edge: Vec<i64> = vec![0, 1, -1, 63, 64, -64, -65];
    for k in 0..32 { for d in -2..=2 { edge.push((1i64 << k) + d); edge.push(-(1i64 << k) + d); } }
    for v in edge { if v >= i32::MIN as i64 && v <= i32::MAX as i64 { do_enc(&mut o, v as i32); } }
    for _ in 0..(if th { 300_000 } else { 30_000 }) { let v = r.i32_edgy(); do_enc(&mut o, v); }

    // ---- dec: all strings of length 0..2 (quick) / 0..3 (thorough)
    do_dec(&mut o, &[]);
    for b0 in 0..=255u8 { do_dec(&mut o, &[b0]); }
    for b0 in 0..=255u8 { for b1 in 0..=255u8 { do_dec(&mut o, &[b0, b1]); } }
    o.exhaustive("dec: all byte strings of length 0..2");
    if th {
        for b0 in 0..=255u8 { for b1 in 0..=255u8 { for b2 in 0..=255u8 { do_dec(&mut o, &[b0, b1, b2]); } } }
        o.exhaustive("dec: all byte strings of length 3");
    } else {
        for _ in 0..40_000 { let b = r.bytes(3); do_dec(&mut o, &b); }
    }
    // 5-byte strings: exhaustive first and last byte, middles from boundary patterns
    let mids: [[u8; 3]; 9] = [[0x80; 3], [0xff; 3], [0x81, 0x80, 0x80], [0x80, 0x80, 0xff], [0xaa, 0xd5, 0xaa], [0xff, 0x80, 0xff], [0x80, 0xff, 0x80], [0xc0, 0xa0, 0x90], [0x80, 0x80, 0x81]];
    let nm = if th { 9 } else { 3 };
    for m in mids.iter().take(nm) { for b0 in 0..=255u8 { for b4 in 0..=255u8 { do_dec(&mut o, &[b0, m[0], m[1], m[2], b4]); } } }
    for _ in 0..(if th { 200_000 } else { 30_000 }) {
        let n = r.below(8) as usize;
        let mut b = r.bytes(n);
        for x in b.iter_mut() { if r.chance(2, 3) { *x |= 0x80; } }
        do_dec(&mut o, &b);
    }

    // ---- pack: random field lists into every capacity 0..size+1
    for _ in 0..(if th { 6000 } else { 600 }) {
        let n = r.below(6) as usize;
        let fs: Vec<Field> = (0..n).map(|i| gen_field(&mut r, i + 1 == n)).collect();
        let (_, full) = pack(&fs, 1 << 16);
        let caps: Vec<usize> = if full.len() <= 24 || th { (0..=full.len() + 1).collect() }
            else { let mut c = vec![0, 1, full.len() - 1, full.len(), full.len() + 1]; for _ in 0..6 { c.push(r.below(full.len() as u64) as usize); } c };
        for cap in caps { do_pack(&mut o, &fs, cap); }
    }

    // ---- unpack: kind sequences over valid, truncated and corrupted encodings; demo mode
    for _ in 0..(if th { 60_000 } else { 8_000 }) {
        let n = r.below(6) as usize;
        let fs: Vec<Field> = (0..n).map(|i| gen_field(&mut r, i + 1 == n)).collect();
        let (_, mut b) = pack(&fs, 1 << 16);
        match r.below(5) { 0 => { let k = r.below(b.len() as u64 + 1) as usize; b.truncate(k); } 1 => { if !b.is_empty() { let k = r.below(b.len() as u64) as usize; b[k] = r.byte(); } } 2 => { b.extend(gen_bytes(&mut r, 6, false)); } _ => {} }
        let mut demo = r.chance(1, 3);
        if demo { match r.below(3) { 0 => { while b.len() % 4 != 0 { b.push(0); } } 1 => { while b.len() % 4 != 0 { b.push(r.byte() & 1); } } _ => { demo = b.len() % 4 == 0; } } }
        let mut kinds: Vec<String> = fs.iter().map(|f| match f { Field::Int(_) => "i".to_string(), Field::Str(_) => "s".into(), Field::Data(_) => "d".into(), Field::Raw(x) => format!("r{}", x.len()), Field::Rest(_) => "t".into() }).collect();
        if r.chance(1, 4) { let k = r.below(kinds.len() as u64 + 1) as usize; kinds.insert(k, (*r.pick(&["i", "s", "d", "r3", "t", "f"])).to_string()); }
        if r.chance(2, 3) { kinds.push("f".into()); }
        if r.chance(1, 6) { kinds.push((*r.pick(&["i", "s", "d", "r1", "t", "f"])).to_string()); }
        do_unpack(&mut o, demo, &b, &kinds);
    }
    o.finish();
}

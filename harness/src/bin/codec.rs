//! C14: the generated gamenet codecs (four protocol crates) against the Coq interpreter.
//!
//! Cases are built from the protocol DESCRIPTIONS (coq/theories/Gen/C14_tables.txt, written by
//! tools/gen_gamenet.py from gamenet/generate/spec/*.json), run through the real
//! System/Game/Connless::decode + encode and SnapObj::decode_obj + encode, and written out for the
//! extracted model (which interprets the tables translated from the Rust source).
use libtw2_gamenet_common::snap_obj::TypeId;
use libtw2_packer::{with_packer, IntUnpacker, Unpacker, Warning};
use tw2verif::*;

const TABLES: &str = concat!(env!("CARGO_MANIFEST_DIR"), "/../coq/theories/Gen/C14_tables.txt");
const CAP: usize = 4096;

// ------------------------------------------------------------------ the description tables

#[derive(Clone, Debug, PartialEq)]
enum M {
    Int,
    Flags(i32),
    Tune,
    Tick,
    Range(i32, i32),
    Pos,
    AtLeast(i32),
    Bool,
    Enum(Vec<i32>),
    Str,
    Strict,
    IntStr,
    Data,
    Rest,
    Raw(usize),
    U8,
    Be16,
    Addrs,
    Clients,
    OptInt,
    OptStr,
    Finish,
}

#[derive(Clone, Debug, PartialEq)]
enum Id {
    Ord(i64),
    Uuid([u8; 16]),
    Conn([u8; 8]),
}

#[derive(Clone, Debug)]
struct Codec {
    proto: String,
    kind: String,
    name: String,
    id: Id,
    size: Option<u32>,
    ms: Vec<M>,
}

fn parse_m(s: &str) -> M {
    let p: Vec<&str> = s.split(':').collect();
    let n = |i: usize| p[i].parse::<i64>().unwrap() as i32;
    match p[0] {
        "int" => M::Int,
        "flags" => M::Flags(n(1)),
        "tune" => M::Tune,
        "tick" => M::Tick,
        "range" => M::Range(n(1), n(2)),
        "pos" => M::Pos,
        "atleast" => M::AtLeast(n(1)),
        "bool" => M::Bool,
        "enum" => M::Enum(p[1].split(',').map(|x| x.parse().unwrap()).collect()),
        "str" => M::Str,
        "strict" => M::Strict,
        "intstr" => M::IntStr,
        "data" => M::Data,
        "rest" => M::Rest,
        "raw" => M::Raw(n(1) as usize),
        "u8" => M::U8,
        "be16" => M::Be16,
        "addrs" => M::Addrs,
        "clients" => M::Clients,
        "optint" => M::OptInt,
        "optstr" => M::OptStr,
        "finish" => M::Finish,
        _ => panic!("unknown member {} in the tables", s),
    }
}

fn parse_id(s: &str) -> Id {
    match &s[..1] {
        "o" => Id::Ord(s[1..].parse().unwrap()),
        "u" => {
            let b = unhex(&s[1..]);
            let mut a = [0u8; 16];
            a.copy_from_slice(&b);
            Id::Uuid(a)
        }
        _ => {
            let b = unhex(&s[1..]);
            let mut a = [0u8; 8];
            a.copy_from_slice(&b);
            Id::Conn(a)
        }
    }
}

fn id_txt(id: &Id) -> String {
    match id {
        Id::Ord(n) => format!("o{}", n),
        Id::Uuid(u) => format!("u{}", hex(u)),
        Id::Conn(c) => format!("c{}", hex(c)),
    }
}

fn load_tables() -> Vec<Codec> {
    // ./check exports VERIF_ROOT (the harness may be built from a private copy when another tree is checked)
    let path = match std::env::var("VERIF_ROOT") {
        Ok(r) => format!("{}/coq/theories/Gen/C14_tables.txt", r),
        Err(_) => TABLES.to_string(),
    };
    let txt = std::fs::read_to_string(&path).unwrap_or_else(|e| panic!("{}: {}", path, e));
    let mut out = vec![];
    for line in txt.lines() {
        if line.starts_with('#') || line.is_empty() {
            continue;
        }
        let f: Vec<&str> = line.split('\t').collect();
        assert!(f.len() == 6, "table line {}", line);
        out.push(Codec {
            proto: f[0].into(),
            kind: f[1].into(),
            name: f[2].into(),
            id: parse_id(f[3]),
            size: if f[4] == "-" { None } else { Some(f[4].parse().unwrap()) },
            ms: if f[5] == "-" { vec![] } else { f[5].split(';').map(parse_m).collect() },
        });
    }
    out
}

// ------------------------------------------------------------------ the real code, one module per crate

fn warns(ws: &[Warning]) -> String {
    if ws.is_empty() {
        return "-".into();
    }
    ws.iter()
        .map(|w| match w {
            Warning::OverlongIntEncoding => "O",
            Warning::NonZeroIntPadding => "P",
            Warning::ExcessData => "X",
        })
        .collect::<Vec<_>>()
        .join(",")
}

/// what the real code did with one message
#[derive(Clone, Debug, PartialEq)]
enum MsgObs {
    DecPanic(String),
    Err(String, String),                       // error kind, warnings
    Ok { warns: String, enc: String, small: String },
}

impl MsgObs {
    fn txt(&self) -> String {
        match self {
            MsgObs::DecPanic(_) => "panic".into(),
            MsgObs::Err(e, w) => format!("err {} {}", e, w),
            MsgObs::Ok { warns, enc, small } => format!("ok {} {} {}", warns, enc, small),
        }
    }
}

#[derive(Clone, Debug, PartialEq)]
enum ObjObs {
    DecPanic(String),
    Err(String),
    /// excess warning, words returned by encode (None: encode panicked), raw pointer copy of the bytes is
    /// taken by the caller's mask
    Ok { excess: bool, nwords: Option<usize>, bytes: Vec<Option<u8>> },
}

/// bytes of the struct behind `encode()`: only the offsets in `defined` are read (the others are
/// padding: uninitialised memory), unless `peek_padding` (the K14 witness)
fn read_struct_bytes(ws: &[i32], defined: &[bool], peek_padding: bool) -> Vec<Option<u8>> {
    let p = ws.as_ptr() as *const u8;
    let n = ws.len() * 4;
    (0..n)
        .map(|j| {
            if j < defined.len() && (defined[j] || peek_padding) || (j >= defined.len() && peek_padding) {
                Some(unsafe { std::ptr::read_volatile(p.add(j)) })
            } else {
                None
            }
        })
        .collect()
}

#[inline(never)]
fn dirty_stack() -> u64 {
    // fill the stack below the caller with a recognisable pattern
    let mut a = [0xdeu8; 16384];
    std::hint::black_box(&mut a);
    a.iter().map(|&b| b as u64).sum()
}

macro_rules! proto_mod {
    ($m:ident, $krate:ident, [$(($on:expr, $ot:ident)),*]) => {
        mod $m {
            use super::*;
            use $krate::msg::{Connless, Game, System};
            use $krate::snap_obj::obj_size;
            use $krate::SnapObj;

            fn encode_with<F>(cap: usize, f: F) -> String
            where
                F: FnOnce(libtw2_packer::Packer) -> Result<Vec<u8>, libtw2_buffer::CapacityError>,
            {
                let mut buf = vec![0u8; cap];
                match guard(|| with_packer(&mut buf[..], f)) {
                    Ok(Ok(b)) => hex(&b),
                    Ok(Err(_)) => "cap".into(),
                    Err(_) => "panic".into(),
                }
            }

            pub fn msg(kind: &str, demo: bool, small: Option<usize>, bs: &[u8]) -> MsgObs {
                let r = guard(|| {
                    let mut w: Vec<Warning> = vec![];
                    let mut p = if demo { Unpacker::new_from_demo(bs) } else { Unpacker::new(bs) };
                    macro_rules! go {
                        ($t:ident) => {
                            match $t::decode(&mut w, &mut p) {
                                Err(e) => MsgObs::Err(format!("{:?}", e), warns(&w)),
                                Ok(m) => {
                                    let enc = encode_with(CAP, |p| m.encode(p).map(|b| b.to_vec()));
                                    let sm = match small {
                                        None => "-".to_string(),
                                        Some(c) => {
                                            let s = encode_with(c, |p| m.encode(p).map(|b| b.to_vec()));
                                            if s == "cap" || s == "panic" { s } else { "fits".into() }
                                        }
                                    };
                                    MsgObs::Ok { warns: warns(&w), enc, small: sm }
                                }
                            }
                        };
                    }
                    // Obj::decode_msg / encode_msg of the objects that have a message encoding
                    macro_rules! go_obj {
                        ($t:ident) => {
                            match $krate::snap_obj::$t::decode_msg(&mut w, &mut p) {
                                Err(e) => MsgObs::Err(format!("{:?}", e), warns(&w)),
                                Ok(m) => {
                                    let enc = encode_with(CAP, |p| m.encode_msg(p).map(|b| b.to_vec()));
                                    let sm = match small {
                                        None => "-".to_string(),
                                        Some(c) => {
                                            let s = encode_with(c, |p| m.encode_msg(p).map(|b| b.to_vec()));
                                            if s == "cap" || s == "panic" { s } else { "fits".into() }
                                        }
                                    };
                                    MsgObs::Ok { warns: warns(&w), enc, small: sm }
                                }
                            }
                        };
                    }
                    if kind.starts_with("omsg:") {
                        let name = kind.split(':').nth(1).unwrap();
                        $( if name == $on { return go_obj!($ot); } )*
                        panic!("the harness has no decode_msg for object {}", name);
                    }
                    match kind {
                        "sys" => go!(System),
                        "game" => go!(Game),
                        _ => go!(Connless),
                    }
                });
                match r {
                    Ok(o) => o,
                    Err(p) => MsgObs::DecPanic(p),
                }
            }

            pub fn obj(ty: TypeId, words: &[i32], defined: &[bool], peek_padding: bool) -> ObjObs {
                if peek_padding {
                    std::hint::black_box(dirty_stack());
                }
                let r = guard(|| {
                    let mut w: Vec<libtw2_packer::ExcessData> = vec![];
                    let mut p = IntUnpacker::new(words);
                    match SnapObj::decode_obj(&mut w, ty, &mut p) {
                        Err(e) => ObjObs::Err(format!("{:?}", e)),
                        Ok(o) => {
                            let enc = guard(|| {
                                let ws = o.encode();
                                (ws.len(), read_struct_bytes(ws, defined, peek_padding))
                            });
                            match enc {
                                Ok((n, bytes)) => ObjObs::Ok { excess: !w.is_empty(), nwords: Some(n), bytes },
                                Err(_) => ObjObs::Ok { excess: !w.is_empty(), nwords: None, bytes: vec![] },
                            }
                        }
                    }
                });
                match r {
                    Ok(o) => o,
                    Err(p) => ObjObs::DecPanic(p),
                }
            }

            pub fn size(ty: u16) -> Option<u32> {
                obj_size(ty)
            }
        }
    };
}

proto_mod!(tw05, libtw2_gamenet_teeworlds_0_5, [("player_input", PlayerInput), ("projectile", Projectile)]);
proto_mod!(tw06, libtw2_gamenet_teeworlds_0_6, [("player_input", PlayerInput), ("projectile", Projectile)]);
proto_mod!(tw07, libtw2_gamenet_teeworlds_0_7, [("player_input", PlayerInput), ("projectile", Projectile)]);
proto_mod!(ddnet, libtw2_gamenet_ddnet, [("player_input", PlayerInput)]);

fn real_msg(proto: &str, kind: &str, demo: bool, small: Option<usize>, bs: &[u8]) -> MsgObs {
    match proto {
        "tw05" => tw05::msg(kind, demo, small, bs),
        "tw06" => tw06::msg(kind, demo, small, bs),
        "tw07" => tw07::msg(kind, demo, small, bs),
        _ => ddnet::msg(kind, demo, small, bs),
    }
}

fn real_obj(proto: &str, ty: TypeId, words: &[i32], defined: &[bool], peek: bool) -> ObjObs {
    match proto {
        "tw05" => tw05::obj(ty, words, defined, peek),
        "tw06" => tw06::obj(ty, words, defined, peek),
        "tw07" => tw07::obj(ty, words, defined, peek),
        _ => ddnet::obj(ty, words, defined, peek),
    }
}

fn real_size(proto: &str, ty: u16) -> Option<u32> {
    match proto {
        "tw05" => tw05::size(ty),
        "tw06" => tw06::size(ty),
        "tw07" => tw07::size(ty),
        _ => ddnet::size(ty),
    }
}

// ------------------------------------------------------------------ values of one member, from the description

#[derive(Clone, Debug, PartialEq)]
enum Q {
    Valid,            // the canonical encoding of a described value
    NonCanon,         // decodes, but not canonically (warning, or re-encodes differently)
    Bad(&'static str), // violates the description: this error is expected
}

#[derive(Clone, Debug)]
struct Choice {
    bytes: Vec<u8>,
    q: Q,
}

fn vint(v: i32) -> Vec<u8> {
    let mut buf = [0u8; 8];
    with_packer(&mut buf[..], |mut p| {
        p.write_int(v).unwrap();
        p.written().to_vec()
    })
}

fn cstr(s: &[u8]) -> Vec<u8> {
    let mut v = s.to_vec();
    v.push(0);
    v
}

fn ok(b: Vec<u8>) -> Choice {
    Choice { bytes: b, q: Q::Valid }
}
fn nc(b: Vec<u8>) -> Choice {
    Choice { bytes: b, q: Q::NonCanon }
}
fn bad(b: Vec<u8>, e: &'static str) -> Choice {
    Choice { bytes: b, q: Q::Bad(e) }
}

/// i32 values around a described constraint: (value, satisfies it)
fn int_values(m: &M, r: &mut Rng) -> Vec<(i32, bool)> {
    let mut v: Vec<(i32, bool)> = vec![];
    match m {
        M::Int | M::Tune | M::Tick | M::OptInt => {
            for x in [0, 1, -1, 63, 64, -64, -65, 8191, 8192, i32::MAX, i32::MIN] {
                v.push((x, true));
            }
            v.push((r.i32_edgy(), true));
        }
        M::Flags(mask) => {
            for k in 0..32 {
                if mask & (1 << k) != 0 {
                    v.push((1 << k, true));
                }
            }
            // the first bit outside the described flags, and everything set: a flags member is a plain int
            let outside = (0..31).find(|k| mask & (1 << k) == 0).unwrap_or(30);
            for x in [0, *mask, 1 << outside, mask | (1 << outside), -1, i32::MIN] {
                v.push((x, true));
            }
        }
        M::Range(a, b) => {
            let (a, b) = (*a as i64, *b as i64);
            for x in [a, b, a + 1, b - 1, (a + b) / 2, a - 1, b + 1, a - 2, b + 2, i32::MIN as i64, i32::MAX as i64, 0] {
                if x >= i32::MIN as i64 && x <= i32::MAX as i64 {
                    v.push((x as i32, a <= x && x <= b));
                }
            }
        }
        M::Pos => {
            for x in [0, 1, 63, 64, i32::MAX, -1, -2, -64, -65, i32::MIN] {
                v.push((x, x >= 0));
            }
        }
        M::AtLeast(a) => {
            let a = *a as i64;
            for x in [a, a + 1, a + 100, i32::MAX as i64, a - 1, a - 2, i32::MIN as i64] {
                if x >= i32::MIN as i64 && x <= i32::MAX as i64 {
                    v.push((x as i32, x >= a));
                }
            }
        }
        M::Bool => {
            for x in [0, 1, 2, -1, 255, 256, i32::MIN, i32::MAX] {
                v.push((x, x == 0 || x == 1));
            }
        }
        M::Enum(vals) => {
            for &x in vals {
                v.push((x, true));
            }
            let lo = *vals.iter().min().unwrap_or(&0) as i64;
            let hi = *vals.iter().max().unwrap_or(&0) as i64;
            for x in [lo - 1, hi + 1, lo - 2, hi + 2, i32::MIN as i64, i32::MAX as i64] {
                if x >= i32::MIN as i64 && x <= i32::MAX as i64 && !vals.contains(&(x as i32)) {
                    v.push((x as i32, false));
                }
            }
        }
        _ => {}
    }
    v.dedup();
    v
}

fn is_int_kind(m: &M) -> bool {
    matches!(m, M::Int | M::Flags(_) | M::Tune | M::Tick | M::Range(..) | M::Pos | M::AtLeast(_) | M::Bool | M::Enum(_))
}

fn long_text(r: &mut Rng, n: usize, lo: u8) -> Vec<u8> {
    (0..n).map(|_| { let b = r.byte(); if b < lo { lo } else { b } }).collect()
}

/// byte-level choices for a member of a message
fn choices(m: &M, r: &mut Rng, th: bool) -> Vec<Choice> {
    let mut out = vec![];
    if is_int_kind(m) || *m == M::OptInt {
        for (x, good) in int_values(m, r) {
            out.push(if good { ok(vint(x)) } else { bad(vint(x), "IntOutOfRange") });
        }
        // an overlong and a padded encoding of a good value
        if let Some((x, _)) = int_values(m, r).into_iter().find(|(x, g)| *g && (0..64).contains(x)) {
            out.push(nc(vec![0x80 | x as u8, 0x00]));
            out.push(nc(vec![0x80 | x as u8, 0x80, 0x80, 0x80, 0x00]));
        }
        return out;
    }
    match m {
        M::Str | M::OptStr => {
            for s in [&b""[..], b"a", b"hello world", b"\x01", b"\x1f\x7f\xff\t\n", b"\xc3\xa4\xe2\x82\xac"] {
                out.push(ok(cstr(s)));
            }
            out.push(ok(cstr(&long_text(r, if th { 700 } else { 200 }, 1))));
        }
        M::Strict => {
            for s in [&b""[..], b"a", b" ", b"\x7f\xff", b"0.6 626fce9a778df4d4", b"\xc3\xa4"] {
                out.push(ok(cstr(s)));
            }
            out.push(ok(cstr(&long_text(r, if th { 700 } else { 200 }, 32))));
            for s in [&b"\x1f"[..], b"\x01", b"a\nb", b"tab\t", b"abc\x1fdef"] {
                out.push(bad(cstr(s), "ControlCharacters"));
            }
        }
        M::IntStr => {
            for s in ["0", "-1", "7", "42", "2147483647", "-2147483648", "-64", "1000000"] {
                out.push(ok(cstr(s.as_bytes())));
            }
            for s in ["+5", "007", "-0", "+0", "0000000000000000000012", "-00000000000000000002147483648"] {
                out.push(nc(cstr(s.as_bytes())));
            }
            for s in [&b""[..], b"+", b"-", b"2147483648", b"-2147483649", b"1a", b" 1", b"1 ", b"99999999999999999999",
                      b"\xff", b"--1", b"+-1", b"1.0", b"0x10", b"\xd9\xa1"] {
                out.push(bad(cstr(s), "InvalidIntString"));
            }
        }
        M::Data => {
            for n in [0usize, 1, 63, 64, 300, 899, 900, 901, 1024, 1390, 4000] {
                let d = r.bytes(n);
                let mut b = vint(n as i32);
                b.extend(&d);
                out.push(ok(b));
            }
            // a length that is negative / larger than what follows (only an error if nothing long enough follows)
            out.push(bad(vint(-1), "UnexpectedEnd"));
            out.push(bad(vint(i32::MIN), "UnexpectedEnd"));
            out.push(bad(vint(i32::MAX), "UnexpectedEnd"));
            out.push(bad(vint(5000), "UnexpectedEnd"));
        }
        M::Rest | M::Clients => {
            out.push(ok(vec![]));
            out.push(ok(vec![0]));
            out.push(ok(r.bytes(37)));
            out.push(ok(b"name\0clan\0-1\012\01\0".to_vec()));
        }
        M::Addrs => {
            for n in [0usize, 18, 36, 180] {
                out.push(ok(r.bytes(n)));
            }
            for n in [1usize, 17, 19, 35] {
                out.push(nc(r.bytes(n)));
            }
        }
        M::Raw(n) => {
            out.push(ok(r.bytes(*n)));
            out.push(ok(vec![0; *n]));
            out.push(ok(vec![0xff; *n]));
        }
        M::U8 => {
            for b in [0u8, 1, 7, 127, 128, 255] {
                out.push(ok(vec![b]));
            }
        }
        M::Be16 => {
            for v in [0u16, 1, 255, 256, 8303, 0x1234, 65535] {
                out.push(ok(v.to_be_bytes().to_vec()));
            }
        }
        M::Finish => out.push(ok(vec![])),
        _ => unreachable!(),
    }
    out
}

/// does this member swallow everything that follows it?
fn takes_rest(m: &M) -> bool {
    matches!(m, M::Rest | M::Clients | M::Addrs | M::Finish)
}

// ------------------------------------------------------------------ struct layout of a snapshot object (repr(C))

/// (defined-byte mask, word index of each member or usize::MAX if it shares a word)
fn obj_layout(ms: &[M]) -> Vec<bool> {
    let mut mask: Vec<bool> = vec![];
    let any32 = ms.iter().any(|m| *m != M::Bool);
    for m in ms {
        if *m == M::Bool {
            mask.push(true);
        } else {
            while mask.len() % 4 != 0 {
                mask.push(false);
            }
            mask.extend([true; 4]);
        }
    }
    if any32 {
        while mask.len() % 4 != 0 {
            mask.push(false);
        }
    }
    mask
}

fn has_bool(ms: &[M]) -> bool {
    ms.iter().any(|m| *m == M::Bool)
}

fn masked_hex(bytes: &[Option<u8>], mask: &[bool]) -> String {
    let mut s = String::new();
    for (j, b) in bytes.iter().enumerate() {
        match (b, mask.get(j).copied().unwrap_or(false)) {
            (Some(x), true) => s.push_str(&format!("{:02x}", x)),
            _ => s.push_str(".."),
        }
    }
    if s.is_empty() {
        s.push('-');
    }
    s
}

// ------------------------------------------------------------------ running cases

struct Run<'a> {
    o: &'a mut Out,
}

fn id_prefix(c: &Codec) -> Vec<u8> {
    if c.kind == "objmsg" {
        return vec![];
    }
    let flag = if c.kind == "system" { 1 } else { 0 };
    match &c.id {
        Id::Ord(n) => vint((*n as i32) * 2 + flag),
        Id::Uuid(u) => {
            let mut b = vint(flag);
            b.extend(u);
            b
        }
        Id::Conn(b) => b.to_vec(),
    }
}

/// the kind field of a case line: sys | game | conn | omsg:<object>:<id>
fn wire_kind(c: &Codec) -> String {
    match c.kind.as_str() {
        "system" => "sys".into(),
        "game" => "game".into(),
        "objmsg" => format!("omsg:{}:{}", c.name.trim_start_matches("objmsg_"), id_txt(&c.id)),
        _ => "conn".into(),
    }
}

impl<'a> Run<'a> {
    /// one message through the real code; returns the case id and the observation
    fn msg(&mut self, proto: &str, kind: &str, demo: bool, small: Option<usize>, bs: &[u8], tag: &str) -> (String, MsgObs) {
        let obs = real_msg(proto, kind, demo, small, bs);
        let sig = match &obs {
            MsgObs::DecPanic(_) => format!("{}:{}:panic", proto, tag),
            MsgObs::Err(e, w) => format!("{}:{}:{}:{}", proto, tag, e, w),
            MsgObs::Ok { warns, enc, small } => format!(
                "{}:{}:ok:{}:{}:{}", proto, tag, warns,
                if enc == "panic" || enc == "cap" { enc.as_str() } else { "bytes" }, small),
        };
        let case = format!("msg\t{}\t{}\t{}\t{}\t{}", proto, kind, demo as u8,
                           small.map(|c| c.to_string()).unwrap_or("-".into()), hex(bs));
        let id = self.o.case(&case, &obs.txt(), &sig);
        if let MsgObs::DecPanic(p) = &obs {
            self.o.check(false, "-", &id, || format!("{} {}::decode panicked on {}: {}", proto, kind, hex(bs), p));
        }
        (id, obs)
    }

    /// canonical bytes built from the description: must decode warning-free and re-encode identically
    fn expect_valid(&mut self, c: &Codec, bs: &[u8], what: &str) {
        let small = if bs.len() > 0 { Some(bs.len() - 1) } else { None };
        let (id, obs) = self.msg(&c.proto, &wire_kind(c), false, small, bs, &c.name);
        let good = match &obs {
            MsgObs::Ok { warns, enc, small: sm } => warns == "-" && *enc == hex(bs) && (small.is_none() || sm == "cap"),
            _ => false,
        };
        self.o.check(good, "-", &id, || format!(
            "{} {} ({}): canonical bytes {} built from the description gave {} (expected ok, no warnings, the same bytes back, CapacityError one byte short)",
            c.proto, c.name, what, hex(bs), obs.txt()));
    }

    fn expect_err(&mut self, c: &Codec, bs: &[u8], err: &str, what: &str) {
        let (id, obs) = self.msg(&c.proto, &wire_kind(c), false, None, bs, &c.name);
        let good = matches!(&obs, MsgObs::Err(e, _) if e == err);
        self.o.check(good, "-", &id, || format!(
            "{} {} ({}): bytes {} violate the description and must be rejected with {}, got {}",
            c.proto, c.name, what, hex(bs), err, obs.txt()));
    }

    fn expect_accept(&mut self, c: &Codec, bs: &[u8], what: &str) {
        let (id, obs) = self.msg(&c.proto, &wire_kind(c), false, None, bs, &c.name);
        let good = matches!(&obs, MsgObs::Ok { .. });
        self.o.check(good, "-", &id, || format!("{} {} ({}): bytes {} must decode, got {}", c.proto, c.name, what, hex(bs), obs.txt()));
    }
}

fn assemble(c: &Codec, parts: &[Vec<u8>]) -> Vec<u8> {
    let mut b = id_prefix(c);
    for p in parts {
        b.extend(p);
    }
    b
}

fn msg_cases(run: &mut Run, c: &Codec, r: &mut Rng, th: bool) {
    let all: Vec<Vec<Choice>> = c.ms.iter().map(|m| choices(m, r, th)).collect();
    // the base message: a valid, canonical choice for every member
    let base: Vec<Vec<u8>> = all.iter().map(|cs| cs.iter().find(|x| x.q == Q::Valid).unwrap().bytes.clone()).collect();
    let base_bytes = assemble(c, &base);
    run.expect_valid(c, &base_bytes, "base");
    // sweep each member over its boundary values, the others at their base value
    for (i, cs) in all.iter().enumerate() {
        let last = i + 1 == c.ms.len();
        for ch in cs {
            let mut parts = base.clone();
            parts[i] = ch.bytes.clone();
            let bs = assemble(c, &parts);
            let what = format!("member {} {:?}", i, c.ms[i]);
            match &ch.q {
                Q::Valid => run.expect_valid(c, &bs, &what),
                Q::NonCanon => run.expect_accept(c, &bs, &what),
                Q::Bad(e) => {
                    // a data length that is too large is an error only if the rest really is shorter;
                    // an optional member swallows its own failure
                    if c.ms[i] == M::Data {
                        let follows: usize = parts[i + 1..].iter().map(|p| p.len()).sum();
                        let len = { let mut w = vec![]; Unpacker::new(&ch.bytes).read_int(&mut w).unwrap() };
                        if len >= 0 && (len as usize) <= follows {
                            run.msg(&c.proto, &wire_kind(c), false, None, &bs, &c.name);
                            continue;
                        }
                    }
                    run.expect_err(c, &bs, e, &what);
                }
            }
            let _ = last;
        }
    }
    // every truncation of the base message, and of one with every optional present
    for n in 0..base_bytes.len() {
        let (_id, _obs) = run.msg(&c.proto, &wire_kind(c), false, None, &base_bytes[..n], &c.name);
    }
    // cut exactly in front of member i: an error unless everything from i on may be absent
    let mut off = id_prefix(c).len();
    for i in 0..c.ms.len() {
        let may_end = c.ms[i..].iter().all(|m| matches!(m, M::OptInt | M::OptStr | M::Rest | M::Clients | M::Addrs | M::Finish));
        let bs = &base_bytes[..off];
        if !may_end {
            run.expect_err(c, bs, "UnexpectedEnd", &format!("cut in front of member {}", i));
        } else {
            run.expect_accept(c, bs, &format!("cut in front of optional member {}", i));
        }
        off += base[i].len();
    }
    // excess data after a message that does not end in a rest member
    if !c.ms.last().map(takes_rest).unwrap_or(false) {
        let mut b = base_bytes.clone();
        b.push(0);
        run.expect_accept(c, &b, "one excess byte");
        b.extend(r.bytes(5));
        run.msg(&c.proto, &wire_kind(c), false, Some(3), &b, &c.name);
    }
    // demo mode: padded to a multiple of four
    for extra in [0u8, 1] {
        let mut b = base_bytes.clone();
        while b.len() % 4 != 0 {
            b.push(extra);
        }
        run.msg(&c.proto, &wire_kind(c), true, None, &b, &c.name);
        b.extend([0, 0, 0, 0]);
        run.msg(&c.proto, &wire_kind(c), true, None, &b, &c.name);
    }
    // hostile: the right id, then garbage; single-byte corruptions of the base message
    let nrand = if th { 200 } else { 4 };
    for _ in 0..nrand {
        let mut b = id_prefix(c);
        let n = r.below(2 * base_bytes.len() as u64 + 8) as usize;
        b.extend((0..n).map(|_| if r.chance(1, 3) { *r.pick(&[0u8, 1, 0x40, 0x7f, 0x80, 0xff, 0x30, 0x2d]) } else { r.byte() }));
        run.msg(&c.proto, &wire_kind(c), false, Some(r.below(40) as usize), &b, &c.name);
    }
    let nmut = if th { base_bytes.len().min(200) } else { base_bytes.len().min(12) };
    for _ in 0..nmut {
        let mut b = base_bytes.clone();
        if b.is_empty() { break; }
        let k = r.below(b.len() as u64) as usize;
        b[k] = if r.chance(1, 2) { r.byte() } else { b[k] ^ (1 << r.below(8)) };
        run.msg(&c.proto, &wire_kind(c), false, None, &b, &c.name);
    }
    // thorough: random combinations of member choices
    if th {
        for _ in 0..400 {
            let parts: Vec<Vec<u8>> = all.iter().map(|cs| r.pick(cs).bytes.clone()).collect();
            let mut b = assemble(c, &parts);
            if r.chance(1, 4) { let k = r.below(b.len() as u64 + 1) as usize; b.truncate(k); }
            run.msg(&c.proto, &wire_kind(c), false, None, &b, &c.name);
        }
    }
}

// ---- snapshot objects

fn type_id(id: &Id) -> TypeId {
    match id {
        Id::Ord(n) => TypeId::Ordinal(*n as u16),
        Id::Uuid(u) => TypeId::Uuid(uuid::Uuid::from_slice(u).unwrap()),
        Id::Conn(_) => unreachable!(),
    }
}

fn words_txt(ws: &[i32]) -> String {
    if ws.is_empty() { "-".into() } else { ws.iter().map(|w| w.to_string()).collect::<Vec<_>>().join(",") }
}

fn obj_txt(obs: &ObjObs, mask: &[bool]) -> String {
    match obs {
        ObjObs::DecPanic(_) => "panic".into(),
        ObjObs::Err(e) => format!("err {}", e),
        ObjObs::Ok { excess, nwords: None, .. } => format!("ok {} encpanic", *excess as u8),
        ObjObs::Ok { excess, nwords: Some(n), bytes } => format!("ok {} {} {}", *excess as u8, n, masked_hex(bytes, mask)),
    }
}

/// the little-endian bytes the input words have at the defined offsets of the struct, had every member
/// kept its own word (what "re-exposed as the same words" means)
fn obj_run(o: &mut Out, proto: &str, name: &str, id: &Id, ms: &[M], words: &[i32], valid: Option<bool>, peek: bool) {
    let mask = obj_layout(ms);
    let obs = real_obj(proto, type_id(id), words, &mask, peek);
    let txt = obj_txt(&obs, &mask);
    let sig = format!("{}:{}:{}", proto, name, txt.split(' ').take(2).collect::<Vec<_>>().join(":"));
    let cid = o.case(&format!("obj\t{}\t{}\t{}", proto, id_txt(id), words_txt(words)), &txt, &sig);
    if let ObjObs::DecPanic(p) = &obs {
        o.check(false, "-", &cid, || format!("{} {}::decode_obj panicked on {:?}: {}", proto, name, words, p));
    }
    let k14 = has_bool(ms);
    match valid {
        Some(true) => {
            // described words: accepted, no warning, and the same words come back
            match &obs {
                ObjObs::Ok { excess: false, nwords: Some(n), bytes } => {
                    // the bytes of the members, wherever the struct keeps them
                    let mut want: Vec<Option<u8>> = vec![];
                    for (m, w) in ms.iter().zip(words) {
                        if *m == M::Bool {
                            want.push(Some(*w as u8));
                        } else {
                            while want.len() % 4 != 0 { want.push(None); }
                            want.extend(w.to_le_bytes().iter().map(|b| Some(*b)));
                        }
                    }
                    while want.len() % 4 != 0 { want.push(None); }
                    let members_ok = want.len() == bytes.len()
                        && want.iter().zip(bytes).all(|(a, b)| a.is_none() || b.is_none() || a == b);
                    o.check(members_ok, "-", &cid, || format!(
                        "{} {}: members of {:?} not found in the struct behind encode(): {}", proto, name, words, txt));
                    if !k14 {
                        let back: Vec<i32> = bytes.chunks(4).map(|c| i32::from_le_bytes([c[0].unwrap(), c[1].unwrap(), c[2].unwrap(), c[3].unwrap()])).collect();
                        o.check(*n == words.len() && back == words, "-", &cid, || format!(
                            "{} {}: decode_obj({:?}) then encode() gives {:?}", proto, name, words, back));
                    } else if peek {
                        // K14: a bool member leaves three bytes of its word to chance, and bools of an array share words
                        let back: Vec<i64> = bytes.chunks(4).map(|c| if c.iter().all(|b| b.is_some()) {
                            i32::from_le_bytes([c[0].unwrap(), c[1].unwrap(), c[2].unwrap(), c[3].unwrap()]) as i64 } else { i64::MIN }).collect();
                        let same = back.len() == words.len() && back.iter().zip(words).all(|(a, b)| *a == *b as i64);
                        o.check(same, "K14", &cid, || format!(
                            "{} {}: decode_obj({:?}) then encode() gives {:?} (padding of the bool members is uninitialised memory)",
                            proto, name, words, back));
                    }
                }
                _ => o.check(false, "-", &cid, || format!(
                    "{} {}: described words {:?} must decode without warning and encode, got {}", proto, name, words, txt)),
            }
        }
        Some(false) => {
            let good = matches!(&obs, ObjObs::Err(e) if e == "IntOutOfRange");
            o.check(good, "-", &cid, || format!("{} {}: words {:?} violate the description, got {}", proto, name, words, txt));
        }
        None => {}
    }
}

fn obj_cases(o: &mut Out, c: &Codec, r: &mut Rng, th: bool) {
    let vals: Vec<Vec<(i32, bool)>> = c.ms.iter().map(|m| int_values(m, r)).collect();
    let base: Vec<i32> = vals.iter().map(|v| v.iter().find(|x| x.1).unwrap().0).collect();
    // the K14 padding peek happens once per object (uninitialised memory is read: keep it rare)
    obj_run(o, &c.proto, &c.name, &c.id, &c.ms, &base, Some(true), has_bool(&c.ms));
    for (i, vs) in vals.iter().enumerate() {
        for (x, good) in vs {
            let mut w = base.clone();
            w[i] = *x;
            obj_run(o, &c.proto, &c.name, &c.id, &c.ms, &w, Some(*good), false);
        }
    }
    // truncations, excess words
    for n in 0..base.len() {
        let mask = obj_layout(&c.ms);
        let obs = real_obj(&c.proto, type_id(&c.id), &base[..n], &mask, false);
        let txt = obj_txt(&obs, &mask);
        let cid = o.case(&format!("obj\t{}\t{}\t{}", c.proto, id_txt(&c.id), words_txt(&base[..n])), &txt, &format!("{}:{}:trunc", c.proto, c.name));
        o.check(txt == "err UnexpectedEnd", "-", &cid, || format!("{} {}: {} of {} words must fail with UnexpectedEnd, got {}", c.proto, c.name, n, base.len(), txt));
    }
    let mut more = base.clone();
    more.push(r.i32_any());
    obj_run(o, &c.proto, &c.name, &c.id, &c.ms, &more, None, false);
    for _ in 0..(if th { 1500 } else { 6 }) {
        let n = if r.chance(3, 4) { base.len() } else { r.below(base.len() as u64 + 3) as usize };
        let w: Vec<i32> = (0..n).map(|i| if i < vals.len() && r.chance(2, 3) { r.pick(&vals[i]).0 } else { r.i32_edgy() }).collect();
        obj_run(o, &c.proto, &c.name, &c.id, &c.ms, &w, None, false);
    }
    // obj_size agrees with the description
    if let (Id::Ord(n), Some(sz)) = (&c.id, c.size) {
        let got = real_size(&c.proto, *n as u16);
        let cid = o.case(&format!("size\t{}\t{}", c.proto, n), &match got { Some(s) => format!("some {}", s), None => "none".into() }, "size");
        o.check(got == Some(sz) && sz as usize == c.ms.len(), "-", &cid, || format!("{} obj_size({}) = {:?}, the description has {} words", c.proto, n, got, sz));
    }
}

// ------------------------------------------------------------------ encode, driven directly (hand-built values)

macro_rules! direct {
    ($o:expr, $proto:expr, $kind:expr, $id:expr, $cap:expr, $vals:expr, $msg:expr) => {{
        let cap: usize = $cap;
        let mut buf = vec![0u8; cap];
        let r = guard(|| with_packer(&mut buf[..], |p| $msg.encode(p).map(|b| b.to_vec())));
        let txt: String = match r {
            Ok(Ok(b)) => hex(&b),
            Ok(Err(_)) => "cap".into(),
            Err(_) => "panic".into(),
        };
        let sig = format!("enc:{}:{}:{}", $proto, $id, if txt == "cap" || txt == "panic" { txt.as_str() } else { "bytes" });
        $o.case(&format!("enc\t{}\t{}\t{}\t{}\t{}", $proto, $kind, $id, cap, $vals), &txt, &sig);
    }};
}

/// values that decode can never produce (a failing assert!, None, a NUL in a string) and the order of
/// CapacityError vs. panic: the generated encode functions called on hand-built structs
fn direct_encodes(o: &mut Out) {
    use libtw2_common::digest::Sha256;
    {
        use libtw2_gamenet_teeworlds_0_6::msg::{connless, game, system, Connless, Game, System};
        use libtw2_gamenet_teeworlds_0_6::snap_obj::PlayerInput;
        for (killer, weapon) in [(15, 5), (16, 5), (-1, 0), (0, 6), (0, -4), (0, -3)] {
            let m = game::SvKillMsg { killer, victim: 3, weapon, mode_special: -7 };
            for cap in [64usize, 2] {
                direct!(o, "tw06", "game", "o4", cap, format!("i{} i3 i{} i-7", killer, weapon), Game::from(m));
            }
        }
        for (team, cid, msg) in [(true, -1, &b"hi"[..]), (false, 15, b""), (false, 16, b"x"), (true, 3, b"a\0b"), (false, 0, b"\x01\xff")] {
            let m = game::SvChat { team, client_id: cid, message: msg };
            for cap in [64usize, 3] {
                direct!(o, "tw06", "game", "o3", cap, format!("b{} i{} s{}", team as u8, cid, hex(msg)), Game::from(m));
            }
        }
        for (name, map) in [(&b"srv"[..], &b"dm1"[..]), (b"sr\x1fv", b"dm1"), (b"srv", b"\n"), (b"s\0v", b"dm1")] {
            let m = connless::Info {
                token: -5, version: b"0.6", name, map, game_type: b"DM", flags: 1, num_players: 2, max_players: 16,
                num_clients: i32::MIN, max_clients: i32::MAX,
                clients: libtw2_gamenet_teeworlds_0_6::msg::ClientsData::from_bytes(b"n\0c\0-1\00\01\0"),
            };
            for cap in [200usize, 20] {
                direct!(o, "tw06", "conn", "cffffffff696e6633", cap,
                        format!("i-5 s{} s{} s{} s{} i1 i2 i16 i{} i{} s{}", hex(b"0.6"), hex(name), hex(map), hex(b"DM"), i32::MIN, i32::MAX, hex(b"n\0c\0-1\00\01\0")),
                        Connless::from(m));
            }
        }
        for (a, b) in [(Some(1), Some(0)), (None, Some(0)), (Some(1), None), (None, None)] {
            let m = system::RconAuthStatus { auth_level: a, receive_commands: b };
            let v = |x: Option<i32>| x.map(|y| format!("i{}", y)).unwrap_or("n".into());
            for cap in [16usize, 1] {
                direct!(o, "tw06", "sys", "o10", cap, format!("{} {}", v(a), v(b)), System::from(m));
            }
        }
        for (pw, cap) in [(Some(&b"pw"[..]), 32usize), (None, 32), (Some(&b"p\0"[..]), 32), (Some(&b"pw"[..]), 5)] {
            let m = system::Info { version: b"0.6 x", password: pw };
            direct!(o, "tw06", "sys", "o1", cap,
                    format!("s{} {}", hex(b"0.6 x"), pw.map(|p| format!("s{}", hex(p))).unwrap_or("n".into())), System::from(m));
        }
        // the nested object's asserts run when it is written: CapacityError wins if the buffer ends before it
        for (dir, ww, cap) in [(1, 0, 64usize), (2, 0, 64), (2, 0, 3), (2, 0, 4), (1, 7, 64), (-1, 6, 12), (-1, 6, 13), (-2, 9, 2)] {
            let input = PlayerInput { direction: dir, target_x: 100, target_y: -100, jump: 1, fire: 7, hook: 0, player_flags: 3,
                                      wanted_weapon: ww, next_weapon: 0, prev_weapon: 0 };
            let m = system::Input { ack_snapshot: 1, intended_tick: 2, input_size: 40, input };
            direct!(o, "tw06", "sys", "o16", cap, format!("i1 i2 i40 i{} i100 i-100 i1 i7 i0 i3 i{} i0 i0 u", dir, ww), System::from(m));
        }
        let m = connless::Count { count: 0xabcd };
        direct!(o, "tw06", "conn", "cffffffff73697a32", 16, "i43981", Connless::from(m));
        direct!(o, "tw06", "conn", "cffffffff73697a32", 9, "i43981", Connless::from(m));
    }
    {
        use libtw2_gamenet_teeworlds_0_7::enums::Team;
        use libtw2_gamenet_teeworlds_0_7::msg::{game, system, Game, System};
        for (sl, mc) in [(0, 0), (-1, 0), (5, -1), (i32::MAX, i32::MAX)] {
            let m = game::SvGameInfo { game_flags: -1, score_limit: sl, time_limit: 0, match_num: 1, match_current: mc };
            direct!(o, "tw07", "game", "o19", 64, format!("i-1 i{} i0 i1 i{}", sl, mc), Game::from(m));
        }
        for (cid, time) in [(63, -1), (64, 0), (0, -2), (0, i32::MAX)] {
            let m = game::SvRaceFinish { client_id: cid, time, diff: -3, record_personal: true, record_server: false };
            direct!(o, "tw07", "game", "o35", 64, format!("i{} i{} i-3 b1 b0", cid, time), Game::from(m));
        }
        for (team, part3, cap) in [(Team::Spectators, &b"standard"[..], 200usize), (Team::Blue, b"bad\x07", 200), (Team::Red, b"", 10)] {
            let parts: [&[u8]; 6] = [b"a", b"b", b"c", part3, b"e", b""];
            let m = game::SvClientInfo { client_id: 5, local: true, team, name: b"nameless tee", clan: b"", country: -1,
                                         skin_part_names: parts, use_custom_colors: [true, false, true, false, true, false],
                                         skin_part_colors: [1, -2, 3, -4, 5, i32::MIN], silent: false };
            let ps: Vec<String> = parts.iter().map(|p| format!("s{}", hex(p))).collect();
            direct!(o, "tw07", "game", "o18", cap,
                    format!("i5 b1 i{} s{} s- i-1 {} b1 b0 b1 b0 b1 b0 i1 i-2 i3 i-4 i5 i{} b0", team.to_i32(), hex(b"nameless tee"), ps.join(" "), i32::MIN),
                    Game::from(m));
        }
        // the nested object's asserts run when it is written: CapacityError wins if the buffer ends before it
        for (dir, ww, cap) in [(1, 0, 64usize), (2, 0, 64), (2, 0, 3), (2, 0, 4), (2, 0, 5), (1, 7, 64), (1, 7, 4), (-1, 6, 13), (-1, 6, 14), (-2, 9, 2)] {
            let input = libtw2_gamenet_teeworlds_0_7::snap_obj::PlayerInput {
                direction: dir, target_x: 100, target_y: -100, jump: true, fire: 7, hook: false, player_flags: 3,
                wanted_weapon: ww, next_weapon: 0, prev_weapon: 0 };
            let m = system::Input { ack_snapshot: 1, intended_tick: 2, input_size: 40, input };
            direct!(o, "tw07", "sys", "o20", cap, format!("i1 i2 i40 i{} i100 i-100 b1 i7 b0 i3 i{} i0 i0 u", dir, ww), System::from(m));
        }
        let sha = Sha256([0xa5; 32]);
        for cap in [100usize, 40] {
            let m = system::MapChange { name: b"ctf1", crc: -1, size: 1 << 20, num_response_chunks_per_request: 8, chunk_size: 1384, sha256: sha };
            direct!(o, "tw07", "sys", "o2", cap, format!("s{} i-1 i{} i8 i1384 s{}", hex(b"ctf1"), 1 << 20, hex(&sha.0)), System::from(m));
        }
    }
    {
        use libtw2_gamenet_ddnet::msg::{system, System};
        let u = uuid::Uuid::from_bytes([1, 2, 3, 4, 5, 6, 7, 8, 9, 10, 11, 12, 13, 14, 15, 16]);
        for cap in [64usize, 17, 20] {
            let m = system::WhatIs { uuid: u };
            direct!(o, "ddnet", "sys", "u245e50979fe039d6bf7d9a29e1691e4c", cap, format!("s{}", hex(u.as_bytes())), System::from(m));
        }
        let m = system::MapDetails { name: b"Kobra 4", sha256: Sha256([7; 32]), crc: i32::MIN };
        direct!(o, "ddnet", "sys", "uf9117b3c80393416_9fc0aef2bcb75c03".replace('_', ""), 128,
                format!("s{} s{} i{}", hex(b"Kobra 4"), hex(&[7u8; 32]), i32::MIN), System::from(m));
    }
}

fn main() {
    let a = Args::parse();
    let mut o = Out::new(&a, "for every message and snapshot-object codec of the four protocol crates (from the JSON descriptions): a base value, every member swept over its boundary values (range limits +-1 +-2, every enum value and the neighbours outside, every flag bit and the first bit outside, empty/long strings, control characters, int-strings, data lengths, raw fields, address lists), non-canonical encodings, every truncation, a cut in front of every member, excess data, demo-mode padding, garbage after the right id, single-byte corruptions, unknown ids, random bytes; objects additionally as words with truncation/excess. distinct = distinct (codec, ok|error kind, warnings, encode outcome) signatures");
    let mut r = Rng::new(a.seed);
    let th = a.thorough();
    let tables = load_tables();
    let only: Option<String> = a.extra.iter().find(|x| x.starts_with("--only=")).map(|x| x[7..].to_string());

    // ---- K14 witness first (DESIGN section 9 #22)
    if only.is_none() {
        if let Some(c) = tables.iter().find(|c| c.proto == "tw07" && c.name == "obj_player_input") {
            obj_run(&mut o, "tw07", &c.name, &c.id, &c.ms, &[1, 10, -10, 1, 7, 0, 3, 2, 0, 0], Some(true), true);
        }
    }

    if only.is_none() {
        direct_encodes(&mut o);
    }

    let mut ncodec = 0;
    for c in &tables {
        if let Some(f) = &only {
            if !format!("{}:{}", c.proto, c.name).contains(f.as_str()) { continue; }
        }
        ncodec += 1;
        match c.kind.as_str() {
            "system" | "game" | "connless" | "objmsg" => {
                let mut run = Run { o: &mut o };
                msg_cases(&mut run, c, &mut r, th);
            }
            "obj" => obj_cases(&mut o, c, &mut r, th),
            k => panic!("unknown codec kind {} in the tables", k),
        }
    }
    o.count(&format!("codecs:{}", ncodec));

    // ---- dispatch: every small ordinal with both flags, unknown uuids, unknown connless ids, random bytes
    if only.is_none() {
        for proto in ["tw05", "tw06", "tw07", "ddnet"] {
            let mut run = Run { o: &mut o };
            for id in -4..160i32 {
                for kind in ["sys", "game"] {
                    let mut b = vint(id);
                    run.msg(proto, kind, false, None, &b, "dispatch");
                    b.extend(r.bytes(20));
                    run.msg(proto, kind, false, None, &b, "dispatch");
                }
            }
            for id in [i32::MAX, i32::MIN, i32::MAX - 1, i32::MIN + 1, 1 << 30, (1 << 30) + 1] {
                run.msg(proto, "sys", false, None, &vint(id), "dispatch");
                run.msg(proto, "game", false, None, &vint(id), "dispatch");
            }
            for _ in 0..(if th { 400 } else { 40 }) {
                let mut b = vint(r.below(2) as i32);
                let n = r.below(24) as usize;
                b.extend(r.bytes(n));
                run.msg(proto, if r.chance(1, 2) { "sys" } else { "game" }, false, None, &b, "dispatch");
                let mut c = vec![0xff, 0xff, 0xff, 0xff];
                let k = r.below(12) as usize;
                c.extend(r.bytes(k));
                run.msg(proto, "conn", false, None, &c, "dispatch");
            }
            for _ in 0..(if th { 120000 } else { 1500 }) {
                let n = r.below(48) as usize;
                let b: Vec<u8> = (0..n).map(|_| if r.chance(1, 3) { *r.pick(&[0u8, 1, 2, 3, 0x40, 0x7f, 0x80, 0xff]) } else { r.byte() }).collect();
                let kind = *r.pick(&["sys", "game", "conn"]);
                let demo = b.len() % 4 == 0 && r.chance(1, 4);
                run.msg(proto, kind, demo, Some(r.below(16) as usize), &b, "random");
            }
            // unknown object types
            for ty in 0..80u16 {
                let ws: Vec<i32> = (0..r.below(12)).map(|_| r.i32_edgy()).collect();
                let obs = real_obj(proto, TypeId::Ordinal(ty), &ws, &[], false);
                if let ObjObs::Err(e) = &obs {
                    o.case(&format!("obj\t{}\to{}\t{}", proto, ty, words_txt(&ws)), &format!("err {}", e), "objdispatch");
                }
                let got = real_size(proto, ty);
                o.case(&format!("size\t{}\t{}", proto, ty), &match got { Some(s) => format!("some {}", s), None => "none".into() }, "size");
            }
            let u = r.bytes(16);
            let obs = real_obj(proto, TypeId::Uuid(uuid::Uuid::from_slice(&u).unwrap()), &[1, 2, 3], &[], false);
            o.case(&format!("obj\t{}\tu{}\t1,2,3", proto, hex(&u)), &obj_txt(&obs, &[]), "objdispatch");
        }
    }
    o.finish();
}

//! C05 / C06: the packet codecs of libtw2-net (protocol.rs = 0.6 / DDNet, protocol7.rs = 0.7)
//! against the Coq models Model/Packet6.v, Model/Packet7.v (+ generated Gen/Bits*.v).
//!
//!   packet <tier> <seed> <outdir> c05     round trips: headers, packets, chunks
//!   packet <tier> <seed> <outdir> c06     hostile input: totality, slice provenance, accept => rewrite
//!
//! Huffman side channel (until the model of C07 is linked into the driver): a case line that
//! needs the compressor / decompressor carries what the REAL coder produced for exactly that
//! call (field `hc` / `hd`, "." = not needed, "!" = CapacityError); the model under test is the
//! packet layer, with the coder as its parameter.
#[path = "packet_parts/common.rs"]
mod common;
#[path = "packet_parts/v6.rs"]
mod v6;
#[path = "packet_parts/v7.rs"]
mod v7;

use common::*;
use tw2verif::*;
use v6::*;
use v7::*;

// ------------------------------------------------------------------ header sweeps

fn hu(kind: &str, b: &[u8]) -> String {
    if kind.ends_with('6') {
        hu6(kind, b)
    } else {
        hu7(kind, b)
    }
}

fn hp(kind: &str, f: &[u32]) -> String {
    if kind.ends_with('6') {
        hp6(kind, f)
    } else {
        hp7(kind, f)
    }
}

/// property oracle on one unpack result (independent of the model)
fn hu_oracle(o: &mut Out, id: &str, kind: &str, b: &[u8], res: &str) {
    let silent = res.contains(" w=- ");
    let repacked = res.rsplit(" r=").next().unwrap_or("");
    let (canon, silent_exp) = if kind.ends_with('6') {
        (canonical6(kind, b), silent_expected6(kind, b))
    } else {
        (canonical7(kind, b), canonical7(kind, b))
    };
    o.check(silent == silent_exp, "-", id, || format!("{} {}: warnings `{}` but canonical={}", kind, hex(b), res, canon));
    o.check(repacked != "panic", "-", id, || format!("{} {}: re-packing the unpacked header panics", kind, hex(b)));
    if canon {
        o.check(repacked == hex(b), "-", id, || format!("{} {} is canonical but unpacks and re-packs to {}", kind, hex(b), repacked));
    } else {
        o.check(repacked != hex(b), "-", id, || format!("{} {} is not canonical but re-packs to itself", kind, hex(b)));
    }
}

fn do_hu(o: &mut Out, kind: &str, b: &[u8]) {
    let res = hu(kind, b);
    let id = o.case(&format!("hu\t{}\t{}", kind, hex(b)), &res, &format!("hu{}{}", kind, res.contains(" w=- ")));
    hu_oracle(o, &id, kind, b, &res);
}

/// 256 headers on one line: byte `pos` of the template takes every value
fn do_hu_digest(o: &mut Out, kind: &str, template: &[u8], pos: usize) {
    let mut all = String::new();
    let mut b = template.to_vec();
    let mut results = vec![];
    for v in 0..=255u8 {
        b[pos] = v;
        let r = hu(kind, &b);
        all.push_str(&r);
        all.push(';');
        results.push((b.clone(), r));
    }
    let id = o.case(&format!("hU\t{}\t{}\t{}", kind, hex(template), pos), &format!("{:08x}", fnv(all.as_bytes())), &format!("hU{}", kind));
    for (b, r) in results {
        hu_oracle(o, &id, kind, &b, &r);
    }
    o.count(&format!("headers.{}.unpack", kind));
}

fn in_range(kind: &str, f: &[u32]) -> bool {
    match kind {
        "ph6" => f[0] < 16 && f[1] < 1024 && f[2] < 256,
        "ph7" => f[0] < 16 && f[1] < 1024 && f[2] < 256,
        "phc7" => f[0] < 16 && f[1] < 4,
        "ch6" => f[0] < 4 && f[1] < 1024,
        "ch7" => f[0] < 4 && f[1] < 4096,
        "chv6" => f[0] < 4 && f[1] < 1024 && f[2] < 1024,
        "chv7" => f[0] < 4 && f[1] < 4096 && f[2] < 1024,
        _ => unreachable!(),
    }
}

fn fields_txt(kind: &str, f: &[u32]) -> String {
    match kind {
        "ph7" => format!("{},{},{},{:08x}", f[0], f[1], f[2], f[3]),
        "phc7" => format!("{},{},{:08x},{:08x}", f[0], f[1], f[2], f[3]),
        _ => f.iter().map(|x| x.to_string()).collect::<Vec<_>>().join(","),
    }
}

fn hp_oracle(o: &mut Out, id: &str, kind: &str, f: &[u32], res: &str) {
    if in_range(kind, f) {
        let expect = format!(" b={} w=-", fields_txt(kind, f));
        o.check(res.ends_with(&expect), "-", id, || format!("{} fields {} pack and unpack to `{}`", kind, fields_txt(kind, f), res));
    } else {
        o.check(res == "panic", "-", id, || format!("{} out-of-range fields {} do not trip the assert: `{}`", kind, fields_txt(kind, f), res));
    }
}

fn do_hp(o: &mut Out, kind: &str, f: &[u32]) {
    let res = hp(kind, f);
    let id = o.case(&format!("hp\t{}\t{}", kind, fields_txt(kind, f)), &res, &format!("hp{}{}", kind, res == "panic"));
    hp_oracle(o, &id, kind, f, &res);
}

/// n field tuples on one line: field `idx` takes 0..n-1
fn do_hp_digest(o: &mut Out, kind: &str, f: &[u32], idx: usize, n: u32) {
    let mut all = String::new();
    let mut g = f.to_vec();
    let mut results = vec![];
    for v in 0..n {
        g[idx] = v;
        let r = hp(kind, &g);
        all.push_str(&r);
        all.push(';');
        results.push((g.clone(), r));
    }
    let id = o.case(&format!("hP\t{}\t{}\t{}\t{}", kind, fields_txt(kind, f), idx, n), &format!("{:08x}", fnv(all.as_bytes())), &format!("hP{}", kind));
    for (g, r) in results {
        hp_oracle(o, &id, kind, &g, &r);
    }
    o.count(&format!("headers.{}.pack", kind));
}

fn header_sweeps(o: &mut Out, r: &mut Rng, th: bool) {
    // every two-byte chunk header, both versions
    for b0 in 0..=255u8 {
        for b1 in 0..=255u8 {
            do_hu(o, "ch6", &[b0, b1]);
            do_hu(o, "ch7", &[b0, b1]);
        }
    }
    o.exhaustive("all 2^16 two-byte chunk headers (0.6 and 0.7): unpack_warn, re-pack");
    // three-byte headers: 256 per line
    let pairs: Vec<(u8, u8)> = if th {
        (0..=255u8).flat_map(|a| (0..=255u8).map(move |b| (a, b))).collect()
    } else {
        (0..4096).map(|_| (r.byte(), r.byte())).collect()
    };
    for &(b0, b1) in &pairs {
        do_hu_digest(o, "ph6", &[b0, b1, 0], 2);
    }
    let n3 = if th { pairs.len() } else { 1024 };
    for &(b0, b1) in pairs.iter().take(n3) {
        do_hu_digest(o, "chv6", &[b0, b1, 0], 2);
        do_hu_digest(o, "chv7", &[b0, b1, 0], 2);
        // 0.7 packet header: the token is passed through
        let t = r.bytes(4);
        do_hu_digest(o, "ph7", &[b0, b1, 0, t[0], t[1], t[2], t[3]], 2);
    }
    if th {
        o.exhaustive("all 2^24 three-byte headers: 0.6 packet header, 0.6 and 0.7 vital chunk header; 0.7 packet header over all (b0,b1,b2) with sampled tokens");
    } else {
        // the interaction of the second and third byte of the vital headers, exhaustively, for a few first bytes
        for b0 in [0x00u8, 0x40, 0xc3, 0xff] {
            for b1 in 0..=255u8 {
                do_hu_digest(o, "chv6", &[b0, b1, 0], 2);
                do_hu_digest(o, "chv7", &[b0, b1, 0], 2);
            }
        }
    }
    for _ in 0..(if th { 1024 } else { 64 }) {
        let t = r.bytes(8);
        do_hu_digest(o, "phc7", &[0, t[0], t[1], t[2], t[3], t[4], t[5], t[6], t[7]], 0);
    }
    for b0 in 0..=255u8 {
        do_hu(o, "ph7", &[b0, 0x5a, 3, 0xff, 0xff, 0xff, 0xff]);
        do_hu(o, "phc7", &[b0, 1, 2, 3, 4, 0xff, 0xff, 0xff, 0xff]);
    }
    // pack direction: every in-range tuple (thorough) / a sample (quick)
    for flags in 0..4u32 {
        for size in 0..4096u32 {
            if size < 1024 {
                do_hp(o, "ch6", &[flags, size]);
            }
            do_hp(o, "ch7", &[flags, size]);
        }
    }
    o.exhaustive("all in-range (flags, size) of the non-vital chunk headers: pack, unpack_warn");
    for flags in 0..16u32 {
        for ack in 0..1024u32 {
            if th || r.chance(1, 16) || ack < 2 || ack > 1021 || ack == 255 || ack == 256 {
                do_hp_digest(o, "ph6", &[flags, ack, 0], 2, 256);
                let t = r.next() as u32;
                do_hp_digest(o, "ph7", &[flags, ack, 0, t], 2, 256);
            }
        }
        for version in 0..4u32 {
            for _ in 0..4 {
                do_hp(o, "phc7", &[flags, version, r.next() as u32, r.next() as u32]);
            }
            do_hp(o, "phc7", &[flags, version, 0xffff_ffff, 0]);
        }
    }
    for flags in 0..4u32 {
        for size in 0..4096u32 {
            let edge = size < 2 || size == 15 || size == 16 || size == 63 || size == 64 || size == 1023 || size == 4095;
            if th || edge || r.chance(1, 40) {
                if size < 1024 {
                    do_hp_digest(o, "chv6", &[flags, size, 0], 2, 1024);
                }
                if th || edge || r.chance(1, 4) {
                    do_hp_digest(o, "chv7", &[flags, size, 0], 2, 1024);
                }
            }
        }
    }
    if th {
        o.exhaustive("all in-range field tuples of every header type of both versions: pack, unpack_warn (tokens sampled)");
    }
    // out-of-range fields trip the asserts
    for f in [[16u32, 0, 0], [255, 0, 0], [0, 1024, 0], [0, 65535, 0], [15, 1023, 255], [16, 1024, 0]] {
        do_hp(o, "ph6", &f);
        do_hp(o, "ph7", &[f[0], f[1], f[2], 0x0102_0304]);
    }
    for f in [[4u32, 0], [255, 0], [0, 1024], [0, 4095], [0, 4096], [0, 65535], [3, 1023]] {
        do_hp(o, "ch6", &f);
        do_hp(o, "ch7", &f);
        for s in [0u32, 1023, 1024, 65535] {
            do_hp(o, "chv6", &[f[0], f[1], s]);
            do_hp(o, "chv7", &[f[0], f[1], s]);
        }
    }
    for f in [[16u32, 1], [0, 4], [15, 3], [255, 255]] {
        do_hp(o, "phc7", &[f[0], f[1], 1, 2]);
    }
}

// ------------------------------------------------------------------ packet generators

const ACKS: [u16; 5] = [0, 1, 255, 256, 1023];

fn ack_pick(r: &mut Rng) -> u16 {
    if r.chance(1, 2) {
        *r.pick(&ACKS)
    } else {
        r.below(1024) as u16
    }
}

fn reason(r: &mut Rng, n: usize) -> Vec<u8> {
    (0..n).map(|_| 1 + r.below(255) as u8).collect()
}

fn tok_modes6(r: &mut Rng) -> Vec<Option<[u8; 4]>> {
    vec![None, Some(parse4(&r.bytes(4))), Some([0xff; 4]), Some([0; 4])]
}

fn controls6(r: &mut Rng) -> Vec<Ty6> {
    let mut v = vec![Ty6::KeepAlive, Ty6::Connect, Ty6::ConnectAccept, Ty6::Accept];
    for n in [0usize, 1, 2, 3, 4, 5, 126, 127] {
        v.push(Ty6::Close(reason(r, n)));
    }
    v.push(Ty6::Close(b"abc".to_vec()));
    v.push(Ty6::Close("\u{e4}b".as_bytes().to_vec()));
    v
}

fn controls7(r: &mut Rng) -> Vec<Ty7> {
    let mut v = vec![Ty7::KeepAlive, Ty7::Accept, Ty7::Connect(parse4(&r.bytes(4))), Ty7::Token(parse4(&r.bytes(4))), Ty7::Connect([0; 4]), Ty7::Token([0xff, 0xff, 0xff, 0xfe])];
    for n in [0usize, 1, 3, 4, 126, 127] {
        v.push(Ty7::Close(reason(r, n)));
    }
    v
}

fn lengths(th: bool, max: usize) -> Vec<usize> {
    let mut v: Vec<usize> = if th { (0..=max).collect() } else { (0..=24).chain((25..=max).step_by(61)).chain(max.saturating_sub(14)..=max).collect() };
    v.sort();
    v.dedup();
    v
}

fn packets_c05(o: &mut Out, r: &mut Rng, th: bool) {
    // A: every kind x token mode x ack, small payloads
    for ack in ACKS.iter().copied().chain([ack_pick(r), ack_pick(r)]) {
        for tok in tok_modes6(r) {
            for ty in controls6(r) {
                roundtrip6(o, &Pkt6::Connected { ack, tok, ty }, 2048);
            }
            for resend in [false, true] {
                for nc in [0u8, 1, 255, r.byte()] {
                    for (class, n) in [(0usize, 0usize), (4, 1), (4, 5), (0, 40), (2, 40), (4, 40)] {
                        let d = payload_of_class(r, class, n);
                        roundtrip6(o, &Pkt6::Connected { ack, tok, ty: Ty6::Chunks(resend, nc, d) }, 2048);
                    }
                }
            }
        }
        for tok in [parse4(&r.bytes(4)), [0xff; 4], [0; 4]] {
            for ty in controls7(r) {
                roundtrip7(o, &Pkt7::Connected { ack, tok, ty }, 2048);
            }
            for resend in [false, true] {
                for nc in [0u8, 1, 255, r.byte()] {
                    for (class, n) in [(0usize, 0usize), (4, 1), (4, 5), (0, 40), (2, 40), (4, 40)] {
                        let d = payload_of_class(r, class, n);
                        roundtrip7(o, &Pkt7::Connected { ack, tok, ty: Ty7::Chunks(resend, nc, d) }, 2048);
                    }
                }
            }
        }
    }
    // B: payload lengths 0..max x five compressibility classes, with and without token
    for n in lengths(th, 1400) {
        for class in 0..6 {
            let d = payload_of_class(r, class, n);
            for tok in [None, Some(parse4(&r.bytes(4)))] {
                let p = Pkt6::Connected { ack: ack_pick(r), tok, ty: Ty6::Chunks(r.chance(1, 2), r.byte(), d.clone()) };
                roundtrip6(o, &p, 2048);
            }
            let p = Pkt7::Connected { ack: ack_pick(r), tok: parse4(&r.bytes(4)), ty: Ty7::Chunks(r.chance(1, 2), r.byte(), d.clone()) };
            roundtrip7(o, &p, 2048);
            if class == 0 || class == 4 || class == 5 {
                roundtrip6(o, &Pkt6::Connless(d.clone()), 2048);
                roundtrip7(o, &Pkt7::Connless { payload: d.clone(), tok: parse4(&r.bytes(4)), rtok: parse4(&r.bytes(4)) }, 2048);
            }
        }
    }
    // beyond the limits: the writer's own limits and the ArrayVec cut
    for n in [1401usize, 1500, 2040, 2044, 2045, 2048, 2049, 3000] {
        for class in [0usize, 4] {
            let d = payload_of_class(r, class, n);
            roundtrip6(o, &Pkt6::Connected { ack: 5, tok: None, ty: Ty6::Chunks(false, 1, d.clone()) }, 4096);
            roundtrip6(o, &Pkt6::Connected { ack: 5, tok: Some([1, 2, 3, 4]), ty: Ty6::Chunks(false, 1, d.clone()) }, 4096);
            roundtrip7(o, &Pkt7::Connected { ack: 5, tok: [1, 2, 3, 4], ty: Ty7::Chunks(false, 1, d.clone()) }, 4096);
            roundtrip6(o, &Pkt6::Connless(d.clone()), 4096);
            roundtrip7(o, &Pkt7::Connless { payload: d, tok: [1, 2, 3, 4], rtok: [5, 6, 7, 8] }, 4096);
        }
    }
    // not expressible: ack >= 1024, NUL in a reason, long reasons, 0.7 response token NONE
    for ack in [1024u16, 65535] {
        roundtrip6(o, &Pkt6::Connected { ack, tok: None, ty: Ty6::KeepAlive }, 2048);
        roundtrip7(o, &Pkt7::Connected { ack, tok: [1, 2, 3, 4], ty: Ty7::Chunks(false, 1, vec![1]) }, 2048);
    }
    for rs in [vec![0u8], vec![65, 0, 66], reason(r, 128), reason(r, 300), reason(r, 1392), reason(r, 1500)] {
        roundtrip6(o, &Pkt6::Connected { ack: 1, tok: None, ty: Ty6::Close(rs.clone()) }, 4096);
        roundtrip6(o, &Pkt6::Connected { ack: 1, tok: Some([9, 9, 9, 9]), ty: Ty6::Close(rs.clone()) }, 4096);
        roundtrip7(o, &Pkt7::Connected { ack: 1, tok: [9, 9, 9, 9], ty: Ty7::Close(rs) }, 4096);
    }
    roundtrip7(o, &Pkt7::Connected { ack: 1, tok: [9, 9, 9, 9], ty: Ty7::Connect([0xff; 4]) }, 2048);
    roundtrip7(o, &Pkt7::Connected { ack: 1, tok: [0xff; 4], ty: Ty7::Token([0xff; 4]) }, 2048);
    roundtrip7(o, &Pkt7::Connected { ack: 1, tok: [0xff; 4], ty: Ty7::Token([1, 2, 3, 4]) }, 2048);
    roundtrip7(o, &Pkt7::Connected { ack: 1, tok: [0xff; 4], ty: Ty7::Token([1, 2, 3, 4]) }, 519);
    roundtrip7(o, &Pkt7::Connected { ack: 1, tok: [0xff; 4], ty: Ty7::Token([1, 2, 3, 4]) }, 518);
    // small capacities: CapacityError and what stays in the buffer
    let samples6 = [
        Pkt6::Connless(vec![1, 2, 3]),
        Pkt6::Connected { ack: 7, tok: Some([1, 2, 3, 4]), ty: Ty6::Close(b"bye".to_vec()) },
        Pkt6::Connected { ack: 7, tok: Some([1, 2, 3, 4]), ty: Ty6::Connect },
        Pkt6::Connected { ack: 7, tok: None, ty: Ty6::Chunks(true, 2, vec![0; 30]) },
        Pkt6::Connected { ack: 7, tok: Some([1, 2, 3, 4]), ty: Ty6::Chunks(true, 2, r.bytes(12)) },
    ];
    for p in &samples6 {
        for cap in 0..=22 {
            roundtrip6(o, p, cap);
        }
    }
    let samples7 = [
        Pkt7::Connless { payload: vec![1, 2, 3], tok: [1, 2, 3, 4], rtok: [5, 6, 7, 8] },
        Pkt7::Connected { ack: 7, tok: [1, 2, 3, 4], ty: Ty7::Close(b"bye".to_vec()) },
        Pkt7::Connected { ack: 7, tok: [1, 2, 3, 4], ty: Ty7::Connect([5, 6, 7, 8]) },
        Pkt7::Connected { ack: 7, tok: [1, 2, 3, 4], ty: Ty7::Chunks(true, 2, vec![0; 30]) },
        Pkt7::Connected { ack: 7, tok: [1, 2, 3, 4], ty: Ty7::Chunks(true, 2, r.bytes(12)) },
    ];
    for p in &samples7 {
        for cap in 0..=22 {
            roundtrip7(o, p, cap);
        }
    }
}

fn seq_pick(r: &mut Rng) -> u16 {
    if r.chance(1, 2) {
        *r.pick(&[0u16, 1, 63, 64, 255, 256, 767, 768, 1023])
    } else {
        r.below(1024) as u16
    }
}

fn vital_pick(r: &mut Rng, i: usize) -> Option<(u16, bool)> {
    match i % 3 {
        0 => None,
        1 => Some((seq_pick(r), false)),
        _ => Some((seq_pick(r), true)),
    }
}

fn chunks_c05(o: &mut Out, r: &mut Rng, th: bool) {
    // every chunk size at least once, vital and not
    for size in 0..4096usize {
        let reps = if th { 3 } else { 1 };
        for k in 0..reps {
            let d = r.bytes(size);
            let v = vital_pick(r, size + k);
            if size < 1024 {
                chunks_roundtrip6(o, &[(d.clone(), v)]);
            }
            if th || size <= 700 || size % 13 == 0 || size >= 4040 {
                chunks_roundtrip7(o, &[(d, v)]);
            }
        }
    }
    o.exhaustive("every chunk size 0..1023 (0.6) through write_chunk and ChunksIter");
    // several chunks per payload
    for _ in 0..(if th { 4000 } else { 400 }) {
        let n = 1 + r.below(8) as usize;
        let cs: Vec<(Vec<u8>, Option<(u16, bool)>)> = (0..n)
            .map(|i| {
                let len = match r.below(4) { 0 => 0, 1 => r.below(4) as usize, 2 => r.below(70) as usize, _ => r.below(300) as usize };
                { let j = i + r.below(3) as usize; (r.bytes(len), vital_pick(r, j)) }
            })
            .collect();
        chunks_roundtrip6(o, &cs);
        chunks_roundtrip7(o, &cs);
    }
    // the asserts of write_chunk and of the vital header
    for (n, v) in [(1024usize, None), (1024, Some((0u16, false))), (4096, None), (4095, None), (5000, Some((1, true))), (3, Some((1024, false))), (3, Some((65535, true)))] {
        let d = vec![7u8; n];
        chunks_roundtrip6(o, &[(d.clone(), v)]);
        chunks_roundtrip7(o, &[(d, v)]);
    }
    // capacities
    for cap in 0..=12 {
        do_wc6(o, &[1, 2, 3, 4, 5], Some((9, true)), cap);
        do_wc7(o, &[1, 2, 3, 4, 5], None, cap);
    }
}

// ------------------------------------------------------------------ hostile input (C06)

fn base_packets(r: &mut Rng) -> (Vec<Vec<u8>>, Vec<Vec<u8>>) {
    let mut b6 = vec![];
    let mut b7 = vec![];
    let mut w6 = |p: Pkt6| {
        let mut buf = vec![0u8; 4096];
        if let Ok(Ok(b)) = guard(|| api6(&p).write(&mut buf[..]).map(|s| s.to_vec())) {
            b6.push(b);
        }
    };
    let chunk = |r: &mut Rng, n: usize, vital: bool| {
        let mut buf = vec![0u8; n + 3];
        libtw2_net::protocol::write_chunk(&r.bytes(n), if vital { Some((r.below(1024) as u16, false)) } else { None }, &mut buf[..]).unwrap().to_vec()
    };
    for tok in [None, Some([0x12, 0x34, 0x56, 0x78])] {
        for ty in [Ty6::KeepAlive, Ty6::Connect, Ty6::ConnectAccept, Ty6::Accept, Ty6::Close(vec![]), Ty6::Close(b"abc".to_vec()), Ty6::Close(b"timeout".to_vec()), Ty6::Close(reason(r, 127))] {
            w6(Pkt6::Connected { ack: r.below(1024) as u16, tok, ty });
        }
        let mut pl = chunk(r, 5, false);
        pl.extend(chunk(r, 0, true));
        pl.extend(chunk(r, 17, true));
        w6(Pkt6::Connected { ack: 3, tok, ty: Ty6::Chunks(false, 3, pl.clone()) });
        w6(Pkt6::Connected { ack: 1023, tok, ty: Ty6::Chunks(true, 0, vec![]) });
        w6(Pkt6::Connected { ack: 77, tok, ty: Ty6::Chunks(false, 1, chunk(r, 1, false)) });
        w6(Pkt6::Connected { ack: 77, tok, ty: Ty6::Chunks(false, 2, payload_of_class(r, 2, 300)) });
        w6(Pkt6::Connected { ack: 77, tok, ty: Ty6::Chunks(false, 9, vec![0; 200]) });
        w6(Pkt6::Connected { ack: 77, tok, ty: Ty6::Chunks(false, 1, r.bytes(1393)) });
    }
    w6(Pkt6::Connless(vec![]));
    w6(Pkt6::Connless(b"\xff\xff\xff\xffinf3".to_vec()));
    w6(Pkt6::Connless(r.bytes(1390)));
    let mut w7 = |p: Pkt7| {
        let mut buf = vec![0u8; 4096];
        if let Ok(Ok(b)) = guard(|| api7(&p).write(&mut buf[..]).map(|s| s.to_vec())) {
            b7.push(b);
        }
    };
    let chunk7 = |r: &mut Rng, n: usize, vital: bool| {
        let mut buf = vec![0u8; n + 3];
        libtw2_net::protocol7::write_chunk(&r.bytes(n), if vital { Some((r.below(1024) as u16, false)) } else { None }, &mut buf[..]).unwrap().to_vec()
    };
    for tok in [[0x12, 0x34, 0x56, 0x78], [0xff; 4]] {
        for ty in [Ty7::KeepAlive, Ty7::Connect([1, 2, 3, 4]), Ty7::Accept, Ty7::Token([5, 6, 7, 8]), Ty7::Close(vec![]), Ty7::Close(b"abc".to_vec()), Ty7::Close(reason(r, 127))] {
            w7(Pkt7::Connected { ack: r.below(1024) as u16, tok, ty });
        }
        let mut pl = chunk7(r, 5, false);
        pl.extend(chunk7(r, 16, true));
        pl.extend(chunk7(r, 70, true));
        w7(Pkt7::Connected { ack: 3, tok, ty: Ty7::Chunks(false, 3, pl) });
        w7(Pkt7::Connected { ack: 1023, tok, ty: Ty7::Chunks(true, 0, vec![]) });
        w7(Pkt7::Connected { ack: 77, tok, ty: Ty7::Chunks(false, 2, payload_of_class(r, 2, 300)) });
        w7(Pkt7::Connected { ack: 77, tok, ty: Ty7::Chunks(false, 9, vec![0; 200]) });
        w7(Pkt7::Connected { ack: 77, tok, ty: Ty7::Chunks(false, 1, r.bytes(1393)) });
    }
    w7(Pkt7::Connless { payload: vec![], tok: [1, 2, 3, 4], rtok: [5, 6, 7, 8] });
    w7(Pkt7::Connless { payload: r.bytes(40), tok: [0xff; 4], rtok: [0xff; 4] });
    w7(Pkt7::Connless { payload: r.bytes(1390), tok: [1, 2, 3, 4], rtok: [5, 6, 7, 8] });
    (b6, b7)
}

fn mutations(r: &mut Rng, b: &[u8], hdr: usize, th: bool) -> Vec<Vec<u8>> {
    let mut out = vec![];
    let n = b.len();
    // truncations
    for k in 0..=n {
        if n <= 64 || k <= hdr + 6 || k + 8 >= n || (th && k % 7 == 0) {
            out.push(b[..k].to_vec());
        }
    }
    // single-field corruptions
    let positions: Vec<usize> = (0..n).filter(|&i| n <= 24 || i < hdr + 6 || i + 6 >= n).collect();
    for &i in &positions {
        for v in [0u8, 0xff, b[i] ^ 0x80, b[i] ^ 1, b[i].wrapping_add(1), b[i] ^ 0x08, b[i] ^ 0x10, b[i] ^ 0x20, b[i] ^ 0x04] {
            if v != b[i] {
                let mut m = b.to_vec();
                m[i] = v;
                out.push(m);
            }
        }
    }
    // double-field corruptions among the header bytes and the first payload bytes
    let lim = (hdr + 3).min(n);
    for i in 0..lim {
        for j in i + 1..lim {
            for vi in [0u8, 0xff, b[i] ^ 0x10, b[i] ^ 0x08, b[i] ^ 0x20] {
                for vj in [0u8, 0xff, b[j] ^ 0x01, b[j] ^ 0x80] {
                    let mut m = b.to_vec();
                    m[i] = vi;
                    m[j] = vj;
                    out.push(m);
                }
            }
        }
    }
    // extensions
    for k in [1usize, 2, 4, 5] {
        let mut m = b.to_vec();
        m.extend(r.bytes(k));
        out.push(m);
    }
    for total in [1399usize, 1400, 1401] {
        if n < total {
            let mut m = b.to_vec();
            m.extend(std::iter::repeat(0u8).take(total - n));
            out.push(m);
        }
    }
    out
}

fn hostile_c06(o: &mut Out, r: &mut Rng, th: bool) {
    // all strings of length <= 2
    hostile6(o, &[], 1400);
    hostile7(o, &[], 1400);
    for b0 in 0..=255u8 {
        hostile6(o, &[b0], 1400);
        hostile7(o, &[b0], 1400);
        for b1 in 0..=255u8 {
            hostile6(o, &[b0, b1], 1400);
            hostile7(o, &[b0, b1], 1400);
        }
    }
    o.exhaustive("read: all byte strings of length 0..2, every token hint, both versions");
    // length 3
    if th {
        for b0 in 0..=255u8 {
            for b1 in 0..=255u8 {
                for hint in [None, Some(true), Some(false)] {
                    // the hint cannot matter much on a header-only datagram: every prefix with the heuristic,
                    // one prefix in sixty-four with a fixed hint
                    if hint.is_some() && (b0 as usize * 256 + b1 as usize) % 64 != 5 {
                        continue;
                    }
                    let mut all = String::new();
                    for b2 in 0..=255u8 {
                        let bytes = [b0, b1, b2];
                        let rr = read6_raw(&bytes, hint, Some(1400));
                        let (txt, _) = read6_txt(&rr);
                        all.push_str(&txt);
                        all.push(';');
                        match rr {
                            Err(m) => o.check(false, "-", "rD6", || format!("0.6 read({}) panicked: {}", hex(&bytes), m)),
                            Ok(Ok((p, _, vs))) => {
                                o.check(vs.iter().all(|v| !v.starts_with('X')), "-", "rD6", || format!("0.6 read({}): slice outside the buffers", hex(&bytes)));
                                accept_rewrite6(o, "rD6", &p);
                            }
                            Ok(Err(_)) => {}
                        }
                    }
                    let h = match hint { None => "n", Some(true) => "t", Some(false) => "f" };
                    // a compressed header-only datagram hands the empty stream to the decoder
                    let side = if b0 & 0xa0 == 0x80 { hd(&[], 1400 - 3) } else { ".".to_string() };
                    o.case(&format!("rD6\t{}\t1400\t{}\t{}", h, hex(&[b0, b1]), side), &format!("{:08x}", fnv(all.as_bytes())), "rD6");
                }
            }
        }
        o.exhaustive("read 0.6: all 2^24 byte strings of length 3 with hint None (hints Some(true) / Some(false): 2^18 of them each)");
    }
    for _ in 0..(if th { 20_000 } else { 100_000 }) {
        let b = r.bytes(3);
        hostile6(o, &b, 1400);
    }
    for _ in 0..10_000 {
        let b = r.bytes(3);
        hostile7(o, &b, 1400);
    }
    // 0.6 four bytes / 0.7 seven and eight bytes: every flag byte x every control byte
    for b0 in 0..=255u8 {
        for c in 0..=255u8 {
            // the two low bits of the flag byte are ack bits: the full control-byte sweep for every fourth value
            if (th && b0 % 4 == 0) || c < 8 || c >= 0xfe || c == 0x7f || c == 0x80 {
                hostile6(o, &[b0, 0, (c & 1), c], 1400);
                hostile7(o, &[b0, 0, (c & 1), 1, 2, 3, 4, c], 1400);
                hostile7(o, &[b0, 0, 0, 0xff, 0xff, 0xff, 0xff, c, 1, 2, 3, 4], 1400);
            }
        }
        for b1 in [0u8, 1, 0xff] {
            hostile7(o, &[b0, b1, 0, 1, 2, 3, 4], 1400);
            hostile7(o, &[b0, b1, 0, 1, 2, 3, 4, 5, 6], 1400);
            hostile7(o, &[b0, b1, 1, 0xff, 0xff, 0xff, 0xff, 5, 6, 7], 1400);
        }
    }
    // 0.6 close-reason heuristic: four payload bytes after the control byte, UTF-8 boundaries
    for _ in 0..(if th { 60_000 } else { 8_000 }) {
        let mut p = vec![0x10u8, 0, 0, 4];
        let lead = *r.pick(&[0x41u8, 0x7f, 0x80, 0xbf, 0xc0, 0xc2, 0xdf, 0xe0, 0xe1, 0xed, 0xef, 0xf0, 0xf4, 0xf5, 0xff, 0x00]);
        p.push(if r.chance(2, 3) { lead } else { r.byte() });
        for _ in 0..3 {
            p.push(if r.chance(1, 2) { *r.pick(&[0x00u8, 0x80, 0x8f, 0x90, 0x9f, 0xa0, 0xbf, 0x41, 0xc2]) } else { r.byte() });
        }
        if r.chance(1, 4) {
            p.truncate(4 + r.below(5) as usize);
        }
        if r.chance(1, 4) {
            { let k = r.below(6) as usize; p.extend(r.bytes(k)); }
        }
        hostile6(o, &p, 1400);
    }
    // single- and double-field corruptions, truncations, extensions of valid packets of every kind
    let (b6, b7) = base_packets(r);
    for b in &b6 {
        hostile6(o, b, 1400);
        for m in mutations(r, b, 3, th) {
            hostile6(o, &m, 1400);
        }
    }
    for b in &b7 {
        hostile7(o, b, 1400);
        for m in mutations(r, b, 7, th) {
            hostile7(o, &m, 1400);
        }
    }
    // compression: payloads that expand beyond a packet, truncated streams, garbage streams
    for n in [0usize, 1, 1390, 1393, 1394, 1397, 1398, 1400, 2000, 2045, 3000, 8000] {
        for class in [0usize, 1, 2] {
            let stream = compress_vec(&payload_of_class(r, class, n));
            if stream.len() > 1397 {
                continue;
            }
            for cap in [1400usize, 2048, 4096] {
                for f6 in [0x80u8, 0xc0, 0x90] {
                    let mut p = vec![f6, 0, 1];
                    p.extend(&stream);
                    hostile6(o, &p, cap);
                    decompress_if_needed6(o, &p, cap);
                }
                for f7 in [0x10u8, 0x18, 0x14] {
                    let mut p = vec![f7, 0, 1, 1, 2, 3, 4];
                    p.extend(&stream);
                    if p.len() <= 1400 {
                        hostile7(o, &p, cap);
                        decompress_if_needed7(o, &p, cap);
                    }
                }
            }
        }
    }
    let valid = compress_vec(&payload_of_class(r, 2, 300));
    for k in 0..=valid.len() {
        let mut p = vec![0x80u8, 3, 2];
        p.extend(&valid[..k]);
        hostile6(o, &p, 1400);
        let mut p = vec![0x10u8, 3, 2, 9, 8, 7, 6];
        p.extend(&valid[..k]);
        hostile7(o, &p, 1400);
    }
    for n in [0usize, 1, 2, 3, 10, 100, 500, 1000, 1393, 1397] {
        for fill in [0x00u8, 0xff, 0x55] {
            let mut p = vec![0x80u8, 0, 0];
            p.extend(std::iter::repeat(fill).take(n));
            hostile6(o, &p, 1400);
            hostile6(o, &p, 4096);
            if n <= 1393 {
                let mut p = vec![0x10u8, 0, 0, 1, 2, 3, 4];
                p.extend(std::iter::repeat(fill).take(n));
                hostile7(o, &p, 1400);
                hostile7(o, &p, 4096);
            }
        }
    }
    for _ in 0..(if th { 6000 } else { 600 }) {
        let n = r.below(1398) as usize;
        let mut p = vec![0x80u8 | (r.byte() & 0x53), r.byte(), r.byte()];
        p.extend(r.bytes(n));
        hostile6(o, &p, *r.pick(&[1400usize, 2048]));
        let mut p = vec![0x10u8 | (r.byte() & 0x0f), r.byte(), r.byte()];
        p.extend(r.bytes(4 + n.min(1393)));
        hostile7(o, &p, *r.pick(&[1400usize, 2048]));
    }
    // lengths 0..3000
    let lens: Vec<usize> = if th { (0..=3000).collect() } else { (0..=32).chain((33..3000).step_by(97)).chain(1395..=1405).chain(2046..=2050).chain([2999, 3000]).collect() };
    for n in lens {
        let b = r.bytes(n);
        hostile6(o, &b, 1400);
        hostile7(o, &b, 1400);
        let mut b = b;
        if n > 0 {
            b[0] &= 0x5f; // not connless, not compressed (0.6)
            hostile6(o, &b, 1400);
            b[0] = 0xff;
            hostile6(o, &b, 1400);
            b[0] = 0x21;
            hostile7(o, &b, 1400);
            b[0] &= 0x0f;
            hostile7(o, &b, 1400);
        }
    }
    // the classes of the known findings, hit on purpose
    for n in [1389usize, 1390, 1391, 1392, 1394, 1395] {
        let mut p = vec![0xffu8; 6];
        p.extend(r.bytes(n));
        hostile6(o, &p, 1400);
        let mut p = vec![0x21u8, 1, 2, 3, 4, 5, 6, 7, 8];
        p.extend(r.bytes(n));
        hostile7(o, &p, 1400);
    }
    for ctrl in [1u8, 5] {
        for tok in [[1u8, 2, 3, 4], [0xff; 4]] {
            for rt in [[0xffu8; 4], [0xff, 0xff, 0xff, 0xfe], [0; 4]] {
                let mut p = vec![0x04u8, 0, 0, tok[0], tok[1], tok[2], tok[3], ctrl, rt[0], rt[1], rt[2], rt[3]];
                hostile7(o, &p, 1400);
                p.extend(std::iter::repeat(0u8).take(507));
                hostile7(o, &p, 1400);
                p.push(1);
                hostile7(o, &p, 1400);
            }
        }
    }
    // the scratch buffer contract: fewer than MAX_PACKETSIZE bytes trips the assert
    for cap in [0usize, 3, 1399] {
        hostile6(o, &[0, 0, 1, 0, 0], cap);
        hostile7(o, &[0, 0, 1, 1, 2, 3, 4, 0, 0], cap);
        decompress_if_needed6(o, &[0x80, 0, 0, 1], cap);
        decompress_if_needed7(o, &[0x10, 0, 0, 1, 2, 3, 4, 1], cap);
    }
    // read_panic_on_decompression, is_initial, decompress_if_needed on the corpus
    for b in b6.iter().take(40) {
        let _ = do_read6(o, b, None, None);
        is_initial6(o, b);
        decompress_if_needed6(o, b, 1400);
        let mut c = b.clone();
        c[0] ^= 0x80;
        let (id, rr) = do_read6(o, &c, Some(false), None);
        o.check(rr.is_err() == (c[0] & 0xa0 == 0x80), "-", &id, || format!("read_panic_on_decompression({}): panic exactly on compressed input expected", hex(&c)));
        is_initial6(o, &c);
        decompress_if_needed6(o, &c, 2048);
    }
    for b in b7.iter().take(40) {
        let _ = do_read7(o, b, None);
        decompress_if_needed7(o, b, 1400);
        let mut c = b.clone();
        c[0] ^= 0x10;
        let (id, rr) = do_read7(o, &c, None);
        o.check(rr.is_err() == (c[0] & 0x30 == 0x10), "-", &id, || format!("0.7 read_panic_on_decompression({}): panic exactly on compressed input expected", hex(&c)));
        decompress_if_needed7(o, &c, 2048);
    }
    for b0 in 0..=255u8 {
        for c in [0u8, 1, 2, 3, 4, 5, 0xff] {
            is_initial6(o, &[b0, 0, 0, c]);
        }
        is_initial6(o, &[b0, 0, 0]);
        is_initial6(o, &[b0, 0]);
    }
    is_initial6(o, &vec![0xffu8; 1401]);
    // the chunk iterator on hostile payloads
    for nc in [0u8, 1, 2, 255] {
        do_iter6(o, &[], nc);
        do_iter7(o, &[], nc);
    }
    for b0 in 0..=255u8 {
        do_iter6(o, &[b0], 1);
        do_iter7(o, &[b0], 1);
        for b1 in 0..=255u8 {
            if th || b1 < 4 || b1 % 16 == 0 || b1 % 16 == 15 {
                do_iter6(o, &[b0, b1], 1);
                do_iter7(o, &[b0, b1], 1);
                do_iter6(o, &[b0, b1, b1 ^ 0x40, 1, 2], 1);
                do_iter7(o, &[b0, b1, b1 ^ 0x40, 1, 2], 2);
            }
        }
    }
    for _ in 0..(if th { 60_000 } else { 6_000 }) {
        // structured: a sequence of (mostly) valid chunk headers with sizes near the remaining length
        let mut pl = vec![];
        let k = r.below(6) as usize;
        for _ in 0..k {
            let size = r.below(40) as usize;
            let vital = r.chance(1, 2);
            let claimed = match r.below(6) { 0 => size + 1, 1 => size.saturating_sub(1), 2 => 1023, _ => size };
            let flags = (vital as u8) | ((r.chance(1, 3) as u8) << 1);
            pl.push(flags << 6 | ((claimed >> 4) as u8 & 0x3f));
            pl.push((claimed & 0xf) as u8 | if r.chance(1, 8) { 0x30 } else { 0 });
            if vital {
                pl.push(r.byte());
            }
            pl.extend(r.bytes(size));
        }
        if r.chance(1, 3) {
            { let k = r.below(4) as usize; pl.extend(r.bytes(k)); }
        }
        let nc = if r.chance(2, 3) { k as u8 } else { r.byte() };
        do_iter6(o, &pl, nc);
        do_iter7(o, &pl, nc);
        // and as the payload of a packet read with the heuristic
        let mut p = vec![0u8, 0, nc];
        p.extend(&pl);
        if r.chance(1, 2) {
            p.extend(r.bytes(4));
        }
        hostile6(o, &p, 1400);
    }
}

fn utf8_cases(o: &mut Out, th: bool) {
    // str::from_utf8 on all three-byte strings: 256 per line
    for b0 in 0..=255u8 {
        for b1 in 0..=255u8 {
            if th || b1 % 8 == 0 || b1 % 16 == 15 || (0x7e..=0x81).contains(&b1) || (0xbe..=0xc3).contains(&b1) || b1 == 0x9f || b1 == 0xa0 {
                let s: String = (0..=255u8).map(|b2| if std::str::from_utf8(&[b0, b1, b2]).is_ok() { '1' } else { '0' }).collect();
                o.case(&format!("u8\t{}", hex(&[b0, b1])), &s, "u8");
            }
        }
    }
    if th {
        o.exhaustive("str::from_utf8 against the Gallina validator on all 2^24 three-byte strings");
    }
}

fn main() {
    let a = Args::parse();
    let mode = a.extra.first().cloned().unwrap_or_else(|| "c05".to_string());
    let th = a.thorough();
    let mut r = Rng::new(a.seed ^ if mode == "c05" { 0x0505 } else { 0x0606 });
    if mode == "c05" {
        let mut o = Out::new(&a, "c05: header sweeps (every 2-byte chunk header; 3-byte headers 256 per line, all of them in thorough, 2^20 sampled in quick; every in-range field tuple in thorough); packets: every kind x token mode x ack in {0,1,255,256,1023,random} with small payloads, then payload lengths 0..1400 x five compressibility classes (zero, two-symbol, text, ramp, random) with and without token, beyond-limit sizes, capacities 0..22; chunks: every size through write_chunk and ChunksIter. distinct = (operation, outcome, warning set) signatures. histogram write6/7.compressed|plain = which branch of the compression choice was taken");
        header_sweeps(&mut o, &mut r, th);
        packets_c05(&mut o, &mut r, th);
        chunks_c05(&mut o, &mut r, th);
        o.finish();
    } else {
        let mut o = Out::new(&a, "c06: Packet::read on all strings of length <= 2 (3 in thorough) x hint {None, Some(true), Some(false)}; flag byte x control byte sweeps; close-reason UTF-8 heuristic inputs; truncations, single- and double-field corruptions and extensions of valid packets of every kind; compressed payloads expanding beyond a packet, truncated and garbage Huffman streams, scratch sizes 1400/2048/4096; lengths 0..3000; ChunksIter on hostile payloads; is_initial, decompress_if_needed, read_panic_on_decompression. Every accepted value is written again and read back. distinct = (operation, outcome kind, warning set) signatures");
        hostile_c06(&mut o, &mut r, th);
        utf8_cases(&mut o, th);
        o.finish();
    }
}

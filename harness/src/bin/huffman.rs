//! C07: the Huffman codec — real libtw2-huffman against the Coq model (cases.txt / impl.txt)
//! and against the bundled C++ reference (oracle.txt).
//!
//! case kinds (tab separated; `tid` is `B` for the built-in table or the id of a `freq` case):
//!   freq  tid f0,f1,..,f255        -> ok <code words of the 257 symbols> | panic
//!   all   tid hex                  -> <compress> <compress_bug> <compressed_len> <compressed_len_bug>
//!   comp  tid bug cap hex          -> ok <hex> | cap | panic
//!   cvec  tid hex                  -> ok <hex> | panic                      (compress_into_vec)
//!   dec   tid cap hex              -> ok <hex> | cap | invalid | panic | hang
//!   dvec  tid hex                  -> ok <hex> | invalid | panic | hang     (decompress_into_vec)
//!   rdec  tid cap hex              -> ok <hex> | fail      the real C++ Decompress against Model/HuffmanRef.v
//!   rcomp tid cap hex              -> ok <hex> | fail      the real C++ Compress against Model/HuffmanRef.v
use libtw2_huffman as huff;
use libtw2_huffman::DecompressionError;
use libtw2_huffman::Huffman;
use libtw2_huffman_reference as reference;
use std::sync::mpsc;
use std::sync::Arc;
use std::time::Duration;
use tw2verif::*;

const CANARY: u8 = 0xA5;

/// a capacity that always suffices (code words have at most 24 bits; one more byte for the bug form)
fn big(x: &[u8]) -> usize {
    x.len() * 3 + 8
}

struct Tab {
    id: String,
    builtin: bool,
    real: Arc<Huffman>,
    /// the C++ reference built from the same frequencies (None: frequencies outside its int range)
    refh: Option<reference::Huffman>,
}

#[derive(Clone, Debug, PartialEq)]
enum Dec {
    Ok(Vec<u8>),
    Cap,
    Invalid,
    Panic(String),
    Hang,
}

fn dec_txt(d: &Dec) -> String {
    match d {
        Dec::Ok(b) => format!("ok {}", hex(b)),
        Dec::Cap => "cap".into(),
        Dec::Invalid => "invalid".into(),
        Dec::Panic(_) => "panic".into(),
        Dec::Hang => "hang".into(),
    }
}

type Job = Box<dyn FnOnce() -> Dec + Send + 'static>;

/// Watchdog: the decoder runs on a long-lived worker thread and the caller waits with a
/// time limit (same contract as tw2verif::guard_timeout, without one thread per call).
/// A job that does not come back is reported as a hang and the worker is replaced.
struct Worker {
    jobs: mpsc::Sender<Job>,
    results: mpsc::Receiver<Result<Dec, String>>,
}

impl Worker {
    fn new() -> Worker {
        let (jobs, job_rx) = mpsc::channel::<Job>();
        let (res_tx, results) = mpsc::channel();
        std::thread::Builder::new()
            .stack_size(16 << 20)
            .spawn(move || {
                for job in job_rx {
                    if res_tx.send(guard(job)).is_err() {
                        break;
                    }
                }
            })
            .unwrap();
        Worker { jobs, results }
    }
    fn run(&mut self, ms: u64, job: Job) -> Dec {
        self.jobs.send(job).unwrap();
        match self.results.recv_timeout(Duration::from_millis(ms)) {
            Ok(Ok(d)) => d,
            Ok(Err(p)) => Dec::Panic(p),
            Err(_) => {
                *self = Worker::new();
                Dec::Hang
            }
        }
    }
}

thread_local! {
    static WORKER: std::cell::RefCell<Worker> = std::cell::RefCell::new(Worker::new());
}

fn watchdog(job: Job) -> Dec {
    WORKER.with(|w| w.borrow_mut().run(20_000, job))
}

/// the real compressor into a slice of exactly `cap` bytes surrounded by canaries
fn real_comp(t: &Tab, x: &[u8], bug: bool, cap: usize) -> Result<Result<Vec<u8>, ()>, String> {
    guard(|| {
        let mut buf = vec![CANARY; cap + 32];
        let r = {
            let mid = &mut buf[16..16 + cap];
            let r = if bug {
                t.real.compress_bug(x, mid)
            } else if t.builtin {
                huff::compress_into(x, mid)
            } else {
                t.real.compress(x, mid)
            };
            r.map(|s| s.to_vec()).map_err(|_| ())
        };
        assert!(buf[..16].iter().chain(buf[16 + cap..].iter()).all(|&b| b == CANARY), "wrote outside the buffer");
        r
    })
}

/// the real decompressor into a slice of exactly `cap` bytes surrounded by canaries, with a watchdog
fn real_dec(t: &Tab, y: &[u8], cap: usize) -> Dec {
    let h = t.real.clone();
    let builtin = t.builtin;
    let y = y.to_vec();
    watchdog(Box::new(move || {
        let mut buf = vec![CANARY; cap + 32];
        let r = {
            let mid = &mut buf[16..16 + cap];
            let r = if builtin { huff::decompress_into(&y, mid) } else { h.decompress(&y, mid) };
            match r {
                Ok(s) => Dec::Ok(s.to_vec()),
                Err(DecompressionError::Capacity(_)) => Dec::Cap,
                Err(DecompressionError::InvalidInput) => Dec::Invalid,
            }
        };
        assert!(buf[..16].iter().chain(buf[16 + cap..].iter()).all(|&b| b == CANARY), "wrote outside the buffer");
        r
    }))
}

fn real_dvec(t: &Tab, y: &[u8]) -> Dec {
    let h = t.real.clone();
    let builtin = t.builtin;
    let y = y.to_vec();
    watchdog(Box::new(move || {
        let r = if builtin { huff::decompress(&y) } else { h.decompress_into_vec(&y) };
        match r {
            Ok(v) => Dec::Ok(v),
            Err(_) => Dec::Invalid,
        }
    }))
}

/// the reference compressor (always with a large buffer: it writes its last byte unchecked)
fn ref_comp(t: &Tab, x: &[u8]) -> Option<Vec<u8>> {
    let r = t.refh.as_ref()?;
    let mut buf = vec![0u8; x.len() * 4 + 64];
    r.compress(x, &mut buf[..]).ok().map(|s| s.to_vec())
}

/// the reference decompressor with `cap` output bytes; None = it reports failure
fn ref_dec(t: &Tab, y: &[u8], cap: usize) -> Option<Option<Vec<u8>>> {
    let r = t.refh.as_ref()?;
    let mut buf = vec![0u8; cap];
    Some(r.decompress(y, &mut buf[..]).ok().map(|s| s.to_vec()))
}

/// compress, compress_bug, both predicted lengths; oracle: reference identity, exact lengths, round trip
fn do_all(o: &mut Out, t: &Tab, x: &[u8], tail_rng: &mut Rng) {
    let c = real_comp(t, x, false, big(x));
    let cb = real_comp(t, x, true, big(x));
    let h = t.real.clone();
    let xs = x.to_vec();
    let lens = guard(move || (h.compressed_len(&xs), h.compressed_len_bug(&xs)));
    let txt = |r: &Result<Result<Vec<u8>, ()>, String>| match r {
        Ok(Ok(b)) => hex(b),
        Ok(Err(())) => "cap".to_string(),
        Err(_) => "panic".to_string(),
    };
    let ltxt = match &lens {
        Ok((a, b)) => format!("{} {}", a, b),
        Err(_) => "panic".into(),
    };
    let res = format!("{} {} {}", txt(&c), txt(&cb), ltxt);
    let sig = match (&c, &cb) {
        (Ok(Ok(a)), Ok(Ok(b))) => format!("all{}x{}{}", x.len().min(9), a.len().min(12), if a.len() == b.len() { "" } else { "+1" }),
        _ => "allbad".into(),
    };
    let id = o.case(&format!("all\t{}\t{}", t.id, hex(x)), &res, &sig);
    let (c, cb, lens) = match (c, cb, lens) {
        (Ok(Ok(c)), Ok(Ok(cb)), Ok(l)) => (c, cb, l),
        (c, cb, l) => {
            o.check(false, "-", &id, || format!("compress({}) into a large buffer: {:?} / {:?} / {:?}", hex(x), c, cb, l));
            return;
        }
    };
    o.check(c.len() == lens.0 && cb.len() == lens.1, "-", &id,
            || format!("compressed_len {:?} but compress wrote {} and compress_bug {} bytes for {}", lens, c.len(), cb.len(), hex(x)));
    o.check(cb == c || (cb.len() == c.len() + 1 && cb[..c.len()] == c[..] && cb[c.len()] == 0), "-", &id,
            || format!("compress_bug {} is not compress {} (+ one zero byte)", hex(&cb), hex(&c)));
    // byte-identical to the C++ reference
    if let Some(r) = ref_comp(t, x) {
        o.check(r == cb, "-", &id, || format!("compress_bug({}) = {} but the reference writes {}", hex(x), hex(&cb), hex(&r)));
        let rd = ref_dec(t, &cb, x.len());
        o.check(rd == Some(Some(x.to_vec())), "-", &id, || format!("the reference does not decode its own output for {}: {:?}", hex(x), rd));
    }
    // lossless: both forms, exact capacity, arbitrary trailing bytes
    let d = real_dec(t, &c, x.len());
    o.check(d == Dec::Ok(x.to_vec()), "-", &id, || format!("decompress(compress({})) with capacity {} = {:?}", hex(x), x.len(), d));
    let mut ext = cb.clone();
    let n = 1 + tail_rng.below(6) as usize;
    ext.extend(tail_rng.bytes(n));
    let d = real_dec(t, &ext, x.len());
    o.check(d == Dec::Ok(x.to_vec()), "-", &id, || format!("decompress(compress_bug({}) ++ tail) = {:?}", hex(x), d));
    // the end of the input reads as zero bits (as in the reference): trailing zero bytes may be cut off
    if x.len() <= 64 {
        let mut y = cb.clone();
        while y.last() == Some(&0) {
            y.pop();
            let d = real_dec(t, &y, x.len());
            o.check(d == Dec::Ok(x.to_vec()), "-", &id, || format!("decompress(compress_bug({}) = {} with trailing zero bytes cut to {}) = {:?}", hex(x), hex(&cb), hex(&y), d));
            if let Some(Some(r)) = ref_dec(t, &y, x.len()) {
                o.check(d == Dec::Ok(r.clone()), "-", &id, || format!("the reference decodes {} to {} but decompress gives {:?}", hex(&y), hex(&r), d));
            }
        }
    }
    if !x.is_empty() {
        let d = real_dec(t, &c, x.len() - 1);
        o.check(d == Dec::Cap, "-", &id, || format!("decompress(compress({})) with capacity {} = {:?}, expected the capacity error", hex(x), x.len() - 1, d));
    }
    // the capacity the compressor needs is exactly the predicted length
    for (bug, len) in [(false, c.len()), (true, cb.len())] {
        let r1 = real_comp(t, x, bug, len);
        o.check(matches!(&r1, Ok(Ok(b)) if *b == if bug { cb.clone() } else { c.clone() }), "-", &id,
                || format!("compress(bug={}) of {} into exactly {} bytes: {:?}", bug, hex(x), len, r1));
        if len > 0 {
            let r0 = real_comp(t, x, bug, len - 1);
            o.check(r0 == Ok(Err(())), "-", &id, || format!("compress(bug={}) of {} into {} bytes: {:?}", bug, hex(x), len - 1, r0));
        }
    }
}

fn do_comp(o: &mut Out, t: &Tab, x: &[u8], bug: bool, cap: usize) {
    let r = real_comp(t, x, bug, cap);
    let (res, sig) = match &r {
        Ok(Ok(b)) => (format!("ok {}", hex(b)), format!("comp{}ok{}", bug as u8, (cap - b.len()).min(3))),
        Ok(Err(())) => ("cap".to_string(), format!("comp{}cap", bug as u8)),
        Err(_) => ("panic".to_string(), "comppanic".to_string()),
    };
    let id = o.case(&format!("comp\t{}\t{}\t{}\t{}", t.id, bug as u8, cap, hex(x)), &res, &sig);
    // the C++ compressor itself against its Gallina model (never with an empty buffer: it would write out of bounds)
    if let (Some(rh), true) = (t.refh.as_ref(), cap >= 1 && bug) {
        let mut buf = vec![0u8; cap];
        let rr = rh.compress(x, &mut buf[..]).ok().map(|s| s.to_vec());
        let res = match &rr {
            Some(b) => format!("ok {}", hex(b)),
            None => "fail".to_string(),
        };
        o.case(&format!("rcomp\t{}\t{}\t{}", t.id, cap, hex(x)), &res, if rr.is_some() { "rcomp-ok" } else { "rcomp-fail" });
        let same = match (&rr, &r) { (Some(a), Ok(Ok(b))) => a == b, (None, Ok(Err(()))) => true, _ => false };
        o.check(same, "-", &id, || format!("compress_bug({}) into {} bytes: {:?}, the reference: {:?}", hex(x), cap, r, rr));
    }
    match r {
        Err(p) => o.check(false, "-", &id, || format!("compress({}) into {} bytes panicked: {}", hex(x), cap, p)),
        Ok(Ok(b)) => o.check(b.len() <= cap, "-", &id, || format!("compress wrote {} bytes into {}", b.len(), cap)),
        Ok(Err(())) => {
            let need = if bug { t.real.compressed_len_bug(x) } else { t.real.compressed_len(x) };
            o.check(need > cap, "-", &id, || format!("compress({}) reports a capacity error for {} bytes although {} suffice", hex(x), cap, need));
        }
    }
}

fn do_cvec(o: &mut Out, t: &Tab, x: &[u8]) {
    let h = t.real.clone();
    let builtin = t.builtin;
    let xs = x.to_vec();
    let r = guard(move || if builtin { huff::compress(&xs) } else { h.compress_into_vec(&xs) });
    let res = match &r {
        Ok(b) => format!("ok {}", hex(b)),
        Err(_) => "panic".into(),
    };
    let id = o.case(&format!("cvec\t{}\t{}", t.id, hex(x)), &res, "cvec");
    match r {
        Err(p) => o.check(false, "-", &id, || format!("compress_into_vec({}) panicked: {}", hex(x), p)),
        Ok(b) => {
            let d = real_dvec(t, &b);
            o.check(d == Dec::Ok(x.to_vec()), "-", &id, || format!("decompress(compress({})) through the Vec API = {:?}", hex(x), d));
        }
    }
}

/// one decoder run; oracle: total, bounded, only the capacity error, agrees with the reference where that succeeds
fn do_dec(o: &mut Out, t: &Tab, y: &[u8], cap: usize) {
    let d = real_dec(t, y, cap);
    let sig = match &d {
        Dec::Ok(b) => format!("dec-ok{}{}", if b.len() == cap { "full" } else { "" }, b.len().min(6)),
        Dec::Cap => format!("dec-cap{}", cap.min(4)),
        other => dec_txt(other),
    };
    let id = o.case(&format!("dec\t{}\t{}\t{}", t.id, cap, hex(y)), &dec_txt(&d), &sig);
    match &d {
        Dec::Panic(p) => o.check(false, "-", &id, || format!("decompress({}) with capacity {} panicked: {}", hex(y), cap, p)),
        Dec::Hang => o.check(false, "-", &id, || format!("decompress({}) with capacity {} does not return", hex(y), cap)),
        Dec::Invalid => o.check(false, "-", &id, || format!("decompress({}) into a buffer reports InvalidInput", hex(y))),
        Dec::Ok(b) => o.check(b.len() <= cap, "-", &id, || format!("decompress wrote {} bytes into {}", b.len(), cap)),
        Dec::Cap => {}
    }
    let rd = ref_dec(t, y, cap);
    if let Some(Some(r)) = &rd {
        o.count("reference decodes");
        o.check(d == Dec::Ok(r.clone()), "-", &id,
                || format!("the reference decodes {} (capacity {}) to {} but decompress gives {:?}", hex(y), cap, hex(r), d));
    }
    // the C++ decoder itself against its Gallina model (half of the cases, a quarter in the thorough tier)
    if let Some(rr) = rd {
        if o.n % (if o_thorough() { 4 } else { 2 }) == 0 {
            let (res, sig) = match &rr {
                Some(b) => (format!("ok {}", hex(b)), format!("rdec-ok{}", b.len().min(4))),
                None => ("fail".to_string(), "rdec-fail".to_string()),
            };
            o.case(&format!("rdec\t{}\t{}\t{}", t.id, cap, hex(y)), &res, &sig);
        }
    }
}

static THOROUGH: std::sync::atomic::AtomicBool = std::sync::atomic::AtomicBool::new(false);
fn o_thorough() -> bool {
    THOROUGH.load(std::sync::atomic::Ordering::Relaxed)
}

fn do_dvec(o: &mut Out, t: &Tab, y: &[u8]) {
    let d = real_dvec(t, y);
    let sig = match &d {
        Dec::Ok(b) => format!("dvec-ok{}", b.len().min(4)),
        other => format!("dvec-{}", dec_txt(other)),
    };
    let id = o.case(&format!("dvec\t{}\t{}", t.id, hex(y)), &dec_txt(&d), &sig);
    match &d {
        Dec::Panic(p) => o.check(false, "-", &id, || format!("decompress({}) panicked: {}", hex(y), p)),
        Dec::Hang => o.check(false, "-", &id, || format!("decompress({}) does not return", hex(y))),
        Dec::Ok(b) => o.check(b.len() <= 8 * y.len(), "-", &id, || "more than 8 bytes per input byte".into()),
        _ => {}
    }
}

/// height of the Huffman tree from_frequencies would build, computed independently
/// (same merge order: stable sort, descending; the two last are merged and appended)
fn tree_height(freqs: &[u32]) -> usize {
    let mut v: Vec<(u32, usize)> = freqs.iter().map(|&f| (f, 0)).collect();
    v.push((1, 0));
    while v.len() > 1 {
        v.sort_by(|a, b| b.0.cmp(&a.0));
        let a = v.pop().unwrap();
        let b = v.pop().unwrap();
        v.push((a.0.saturating_add(b.0), a.1.max(b.1) + 1));
    }
    v[0].1
}

/// build a table from a frequency vector through the public constructor
fn do_freq(o: &mut Out, tid: &str, freqs: &[u32]) -> Option<Tab> {
    let f = freqs.to_vec();
    let r = guard(move || Huffman::from_frequencies(&f));
    let csv: Vec<String> = freqs.iter().map(|f| f.to_string()).collect();
    let height = tree_height(freqs);
    let (res, sig) = match &r {
        Ok(h) => {
            let words: Vec<String> = h.repr().into_iter().map(|s| s.to_string()).collect();
            (format!("ok {}", words.join(",")), format!("freq-h{}", height))
        }
        Err(_) => ("panic".to_string(), format!("freq-panic-h{}", height.min(30))),
    };
    let id = o.case(&format!("freq\t{}\t{}", tid, csv.join(",")), &res, &sig);
    o.count(&format!("tree height {:03}{}", height.min(30), if height >= 30 { "+" } else { "" }));
    match r {
        Err(p) => {
            // K07: code words longer than 24 bits do not fit SymbolRepr / the DFS stack
            let class = if height > 24 { "K07" } else { "-" };
            o.check(false, class, &id, || format!("Huffman::from_frequencies panics ({}) for a frequency vector whose tree has height {}: {}", p, height, csv.join(",")));
            None
        }
        Ok(h) => {
            o.check(height <= 24, "-", &id, || format!("a table of height {} was built", height));
            let sum: u64 = freqs.iter().map(|&f| f as u64).sum::<u64>() + 1;
            // the reference keeps frequencies in a C int: comparable only below 2^31
            let refh = if sum < (1 << 31) { Some(reference::Huffman::from_frequencies(freqs)) } else { None };
            if refh.is_none() {
                o.count("tables without reference (frequency sum >= 2^31)");
            }
            Some(Tab { id: tid.to_string(), builtin: false, real: Arc::new(h), refh })
        }
    }
}

fn gen_input(r: &mut Rng, max: usize) -> Vec<u8> {
    let n = match r.below(5) {
        0 => r.below(4) as usize,
        1 => r.below(17) as usize,
        2 => r.below(64) as usize,
        _ => r.below(max as u64 + 1) as usize,
    };
    match r.below(6) {
        0 => vec![r.byte(); n],
        1 => {
            let (a, b) = (r.byte(), r.byte());
            (0..n).map(|i| if i % 2 == 0 { a } else { b }).collect()
        }
        2 => {
            // packet-like: mostly small values and zeros
            (0..n).map(|_| match r.below(4) { 0 => 0, 1 => r.below(16) as u8, 2 => 0x80 | r.below(32) as u8, _ => r.byte() }).collect()
        }
        3 => {
            // rare symbols (long code words)
            (0..n).map(|_| *r.pick(&[0x77u8, 0x3c, 0x5a, 0xf8, 0xf0, 0x76, 0x7e, 0x6c])).collect()
        }
        4 => {
            let s = r.byte();
            (0..n).map(|i| s.wrapping_add(i as u8)).collect()
        }
        _ => r.bytes(n),
    }
}

fn gen_freqs(r: &mut Rng, k: u64) -> Vec<u32> {
    let mut f = vec![0u32; 256];
    match k % 12 {
        0 if k < 12 => {}                                          // all zero (K07: a chain of height 256)
        0 => { for x in f.iter_mut() { *x = 1 + r.below(1000) as u32; } }
        1 => { let v = r.next() as u32 >> r.below(32); for x in f.iter_mut() { *x = v; } }   // all equal
        2 => {                                                     // one huge
            for x in f.iter_mut() { *x = 1 + r.below(50) as u32; }
            let i = r.below(256) as usize;
            f[i] = *r.pick(&[1 << 30, u32::MAX, 1 << 31, (1 << 31) - 20000]);
        }
        3 if k < 24 => { for x in f.iter_mut() { *x = u32::MAX - r.below(3) as u32; } }     // every sum saturates (K07)
        3 => { let d = 1 + r.below(600) as u32; for x in f.iter_mut() { *x = u32::MAX / d - r.below(1000) as u32; } }  // sums saturate late
        4 => { for x in f.iter_mut() { *x = (r.next() as u32) >> r.below(32); } }            // any magnitude
        5 => {                                                     // many ties, a few zeros (zeros form a chain)
            for x in f.iter_mut() { *x = 1 + r.below(4) as u32; }
            for _ in 0..r.below(30) { let i = r.below(256) as usize; f[i] = 0; }
        }
        6 => {
            // geometric with ratio between 1.2 and 2 on some symbols, the rest heavy: deep trees around the limit
            let num = 12 + r.below(9);
            let mut v = 1f64;
            let mut idx: Vec<usize> = (0..256).collect();
            for i in 0..256 { let j = i + r.below((256 - i) as u64) as usize; idx.swap(i, j); }
            let depth = 8 + r.below(24) as usize;
            for &i in idx.iter().take(depth) { f[i] = v as u32; v = (v * num as f64 / 10.0).min(1e6); }
            for &i in idx.iter().skip(depth) { f[i] = 2_000_000 + r.below(1000) as u32; }
        }
        7 => {
            // a Fibonacci run below a heavy balanced top: height = run length + about 8, around the limit of 24
            let n = 10 + r.below(12) as usize;
            for x in f.iter_mut() { *x = 3_000_000 + r.below(100) as u32; }
            let (mut a, mut b) = (1u32, 1u32);
            let start = r.below(200) as usize;
            for i in 0..n { f[start + i] = a; let c = a + b; a = b; b = c; }
        }
        8 => { for x in f.iter_mut() { *x = 1 + r.below(5000) as u32; } f[0] = 1 << 30; }   // like data/frequencies
        9 => { for (i, x) in f.iter_mut().enumerate() { *x = i as u32 + 1; } }                // ramp
        10 => { for x in f.iter_mut() { *x = if r.chance(1, 8) { r.next() as u32 >> 2 } else { 1 + r.below(3) as u32 }; } }
        _ => { for x in f.iter_mut() { *x = 1 << r.below(31); } }                            // powers of two (sum may exceed 2^31)
    }
    f
}

/// everything run against one table
fn exercise(o: &mut Out, t: &Tab, r: &mut Rng, n_inputs: usize, max_len: usize, n_garbage: usize) {
    for s in 0..=255u8 {
        if !t.builtin && s % 16 == (r.below(16) as u8) {
            do_all(o, t, &[s], r);
        }
    }
    for _ in 0..n_inputs {
        let x = gen_input(r, max_len);
        do_all(o, t, &x, r);
        if r.chance(1, 4) {
            do_cvec(o, t, &x);
        }
        let need = t.real.compressed_len_bug(&x);
        if need <= 40 || r.chance(1, 10) {
            let bug = r.chance(1, 2);
            let caps: Vec<usize> = if need <= 12 { (0..=need + 1).collect() } else { vec![0, 1, need - 2, need - 1, need, need + 1, r.below(need as u64) as usize] };
            for cap in caps {
                do_comp(o, t, &x, bug, cap);
            }
        }
        // valid stream, truncations, extensions against capacities around the true length
        if x.len() <= 24 {
            let cb = real_comp(t, &x, true, big(&x)).unwrap().unwrap();
            for k in 0..=cb.len() {
                let caps: Vec<usize> = if x.len() <= 6 { (0..=x.len() + 1).collect() } else { vec![0, x.len() - 1, x.len(), x.len() + 1, r.below(x.len() as u64) as usize] };
                for cap in caps {
                    do_dec(o, t, &cb[..k], cap);
                }
                if r.chance(1, 3) {
                    do_dec(o, t, &cb[..k], 300 + r.below(700) as usize);
                }
            }
            let mut ext = cb.clone();
            let n = 1 + r.below(8) as usize;
            ext.extend(r.bytes(n));
            for cap in [x.len().saturating_sub(1), x.len(), x.len() + 1, 4096] {
                do_dec(o, t, &ext, cap);
            }
            do_dvec(o, t, &cb);
            do_dvec(o, t, &ext);
        }
    }
    for _ in 0..n_garbage {
        let n = match r.below(4) { 0 => r.below(4) as usize, 1 => r.below(12) as usize, _ => r.below(48) as usize };
        let y = if r.chance(1, 4) { vec![*r.pick(&[0u8, 0xff, 0x55, 0xaa]); n] } else { r.bytes(n) };
        let caps = [0, 1, 2, r.below(10) as usize, 8 * n, (8 * n).saturating_sub(1), 8 * n + 1, 40 + r.below(200) as usize];
        for cap in caps {
            do_dec(o, t, &y, cap);
        }
        do_dvec(o, t, &y);
    }
}

fn main() {
    let a = Args::parse();
    let mut o = Out::new(&a, "freq: frequency vectors (all-zero, all-equal, one huge, saturating, ties, geometric/Fibonacci = deep trees, data-like) through Huffman::from_frequencies; \
all: compressor inputs (every string of length <= 2, every symbol x run lengths 1..24, runs, alternations, packet-like, rare symbols, random up to 8 KiB) through compress, compress_bug, compressed_len, compressed_len_bug; \
comp: the same into capacities 0..needed+1; dec: decoder inputs (valid streams, every truncation, extensions with random tails, every string of length <= 2, random and constant garbage) against capacities 0..len+1 and larger; \
cvec/dvec: the Vec wrappers; rdec/rcomp: the real C++ reference against Model/HuffmanRef.v on the same decoder inputs / capacities. distinct = distinct (operation, outcome, length class) signatures");
    let th = a.thorough();
    THOROUGH.store(th, std::sync::atomic::Ordering::Relaxed);
    let mut r = Rng::new(a.seed);

    let freq_path = std::path::Path::new(&std::env::var("LIBTW2_REPO").unwrap_or("/repo".into())).join("huffman/data/frequencies");
    let freqs: Vec<u32> = std::fs::read_to_string(&freq_path).expect("data/frequencies").lines().map(|l| l.parse().unwrap()).collect();
    let builtin = Tab {
        id: "B".into(),
        builtin: true,
        real: Arc::new(huff::instances::TEEWORLDS),
        refh: Some(reference::Huffman::from_frequencies(&freqs)),
    };
    let t = &builtin;

    // ---- the built-in table is what from_frequencies builds from data/frequencies
    if let Some(t2) = do_freq(&mut o, "F0", &freqs) {
        let a: Vec<String> = t2.real.repr().into_iter().map(|s| s.to_string()).collect();
        let b: Vec<String> = t.real.repr().into_iter().map(|s| s.to_string()).collect();
        o.check(a == b, "-", "c1", || "from_frequencies(data/frequencies) differs from instances::TEEWORLDS".into());
    }

    // ---- compressor: every string of length <= 2
    do_all(&mut o, t, &[], &mut r);
    for b0 in 0..=255u8 { do_all(&mut o, t, &[b0], &mut r); }
    for b0 in 0..=255u8 { for b1 in 0..=255u8 { do_all(&mut o, t, &[b0, b1], &mut r); } }
    o.exhaustive("all: every byte string of length 0..2 through compress / compress_bug / compressed_len / compressed_len_bug and back");

    // ---- every symbol x run lengths (every residue of the bit count modulo 8)
    for s in 0..=255u8 {
        for n in (3..=24).step_by(if th { 1 } else { 3 }) {
            do_all(&mut o, t, &vec![s; n], &mut r);
        }
    }
    // ---- structured and random inputs, capacities, decoder inputs
    exercise(&mut o, t, &mut r, if th { 6000 } else { 700 }, 300, if th { 20000 } else { 2500 });
    // ---- long inputs up to 8 KiB
    for k in 0..(if th { 120 } else { 12 }) {
        let n = if k % 3 == 0 { 8192 } else { 1000 + r.below(7193) as usize };
        let x: Vec<u8> = match k % 4 { 0 => r.bytes(n), 1 => vec![0x77; n], 2 => vec![0; n], _ => (0..n).map(|_| (r.below(20) as u8) & 0x8f).collect() };
        do_all(&mut o, t, &x, &mut r);
        do_cvec(&mut o, t, &x);
        let c = real_comp(t, &x, false, big(&x)).unwrap().unwrap();
        do_dec(&mut o, t, &c, n);
        do_dec(&mut o, t, &c, n - 1);
        do_dec(&mut o, t, &c[..c.len() / 2], n);
        do_dvec(&mut o, t, &c);
        let y = r.bytes(n);
        do_dec(&mut o, t, &y, 8 * n);
        do_dec(&mut o, t, &y, 64);
        do_dvec(&mut o, t, &y);
    }

    // ---- decoder: every string of length <= 2
    for cap in 0..=6 { do_dec(&mut o, t, &[], cap); }
    do_dvec(&mut o, t, &[]);
    for b0 in 0..=255u8 {
        for cap in 0..=9 { do_dec(&mut o, t, &[b0], cap); }
        do_dvec(&mut o, t, &[b0]);
    }
    for b0 in 0..=255u8 {
        for b1 in 0..=255u8 {
            let y = [b0, b1];
            if th {
                for cap in 0..=17 { do_dec(&mut o, t, &y, cap); }
            } else {
                do_dec(&mut o, t, &y, 17);
                do_dec(&mut o, t, &y, ((b0 as usize) * 7 + b1 as usize) % 17);
            }
            do_dvec(&mut o, t, &y);
        }
    }
    o.exhaustive("dec: every byte string of length 0..2 as decoder input (thorough: against every capacity 0..17)");

    // ---- tables built from arbitrary frequency vectors
    for k in 0..(if th { 2500u64 } else { 200 }) {
        let f = gen_freqs(&mut r, k);
        if let Some(tk) = do_freq(&mut o, &format!("F{}", k + 1), &f) {
            exercise(&mut o, &tk, &mut r, if th { 12 } else { 8 }, 60, if th { 12 } else { 8 });
        }
    }
    o.finish();
}

//! C09 / C10 / C11: snapshots and snapshot deltas — the real libtw2-snapshot crate (and the
//! bundled DDNet reference) against the Coq model Model/Snap.v.
//!
//! A case is a script for a small register machine (raw snapshots R0.., snapshots S0..,
//! deltas D0.., one builder); the OCaml driver replays the same script on the extracted
//! model.  Commands are separated by tabs, arguments by blanks; every command prints one
//! blank-free token; a panic ends the script.  The property statements are asserted on the
//! real code by the `oracle_*` functions.
//!
//! extra args: c09 | c10 | c11 select the generators.
use libtw2_packer::{with_packer, IntUnpacker, Unpacker};
use libtw2_snapshot::format::{TypeId, Warning};
use libtw2_snapshot::snap::{Builder, BuilderError, Delta, Error, RawBuilder, RawSnap, Snap};
use libtw2_snapshot_reference::snap as refsnap;
use std::alloc::{GlobalAlloc, Layout, System};
use std::collections::BTreeSet;
use std::sync::atomic::{AtomicUsize, Ordering};
use tw2verif::*;
use uuid::Uuid;

// ---------------------------------------------------------------- allocation meter
struct Meter;
static K09_LISTED: AtomicUsize = AtomicUsize::new(0);
static LIVE: AtomicUsize = AtomicUsize::new(0);
static PEAK: AtomicUsize = AtomicUsize::new(0);
unsafe impl GlobalAlloc for Meter {
    unsafe fn alloc(&self, l: Layout) -> *mut u8 {
        let p = System.alloc(l);
        if !p.is_null() {
            let live = LIVE.fetch_add(l.size(), Ordering::Relaxed) + l.size();
            PEAK.fetch_max(live, Ordering::Relaxed);
        }
        p
    }
    unsafe fn dealloc(&self, p: *mut u8, l: Layout) {
        LIVE.fetch_sub(l.size(), Ordering::Relaxed);
        System.dealloc(p, l)
    }
    unsafe fn realloc(&self, p: *mut u8, l: Layout, new: usize) -> *mut u8 {
        let q = System.realloc(p, l, new);
        if !q.is_null() {
            if new >= l.size() {
                let live = LIVE.fetch_add(new - l.size(), Ordering::Relaxed) + (new - l.size());
                PEAK.fetch_max(live, Ordering::Relaxed);
            } else {
                LIVE.fetch_sub(l.size() - new, Ordering::Relaxed);
            }
        }
        q
    }
}
#[global_allocator]
static METER: Meter = Meter;

/// bytes allocated above the level at entry while `f` runs
fn metered<T>(f: impl FnOnce() -> T) -> (T, usize) {
    let base = LIVE.load(Ordering::Relaxed);
    PEAK.store(base, Ordering::Relaxed);
    let r = f();
    let peak = PEAK.load(Ordering::Relaxed);
    (r, peak.saturating_sub(base))
}

// ---------------------------------------------------------------- reusable output buffers
thread_local! {
    static IBUF: std::cell::RefCell<Vec<i32>> = std::cell::RefCell::new(vec![0; 24000]);
    static BBUF: std::cell::RefCell<Vec<u8>> = std::cell::RefCell::new(vec![0; 120000]);
}
fn with_ibuf<T>(cap: usize, f: impl FnOnce(&mut [i32]) -> T) -> T {
    let mut v = IBUF.with(|b| std::mem::take(&mut *b.borrow_mut()));
    if v.len() < cap {
        v.resize(cap, 0);
    }
    let r = f(&mut v[..cap]);
    IBUF.with(|b| *b.borrow_mut() = v);
    r
}
fn with_bbuf<T>(cap: usize, f: impl FnOnce(&mut [u8]) -> T) -> T {
    let mut v = BBUF.with(|b| std::mem::take(&mut *b.borrow_mut()));
    if v.len() < cap {
        v.resize(cap, 0);
    }
    let r = f(&mut v[..cap]);
    BBUF.with(|b| *b.borrow_mut() = v);
    r
}

// ---------------------------------------------------------------- text forms
type ItemV = (u16, u16, Vec<i32>);
type Table = Vec<(u16, u32)>;

fn ints_txt(v: &[i32]) -> String {
    if v.is_empty() {
        return "-".into();
    }
    v.iter().map(|x| x.to_string()).collect::<Vec<_>>().join(",")
}
fn items_txt(v: &[ItemV]) -> String {
    if v.is_empty() {
        return "-".into();
    }
    v.iter()
        .map(|(t, i, d)| format!("{}/{}={}", t, i, if d.is_empty() { String::new() } else { ints_txt(d) }))
        .collect::<Vec<_>>()
        .join(";")
}
fn table_txt(t: &Table) -> String {
    if t.is_empty() {
        return "-".into();
    }
    t.iter().map(|(a, b)| format!("{}={}", a, b)).collect::<Vec<_>>().join(",")
}
fn tbl_fn(t: &Table) -> impl FnMut(u16) -> Option<u32> + '_ {
    move |ty| t.iter().find(|x| x.0 == ty).map(|x| x.1)
}
fn ty_txt(t: &TypeId) -> String {
    match t {
        TypeId::Ordinal(o) => format!("o{}", o),
        TypeId::Uuid(u) => format!("u{}", hex(u.as_bytes())),
    }
}
fn warn_txt(ws: &[Warning]) -> String {
    if ws.is_empty() {
        return "-".into();
    }
    ws.iter()
        .map(|w| match w {
            Warning::Packer(libtw2_packer::Warning::OverlongIntEncoding) => "P.O".to_string(),
            Warning::Packer(libtw2_packer::Warning::NonZeroIntPadding) => "P.P".to_string(),
            Warning::Packer(libtw2_packer::Warning::ExcessData) => "P.X".to_string(),
            w => format!("{:?}", w),
        })
        .collect::<Vec<_>>()
        .join(",")
}
fn berr_txt(e: &BuilderError) -> &'static str {
    match e {
        BuilderError::DuplicateKey => "dup",
        BuilderError::TooLongSnap => "long",
        BuilderError::TooManyItems => "many",
    }
}
fn rd_txt(r: &Result<(), Error>, ws: &[Warning]) -> String {
    match r {
        Ok(()) => format!("ok:{}", warn_txt(ws)),
        Err(e) => format!("err:{:?}:{}", e, warn_txt(ws)),
    }
}
fn key_of(t: u16, i: u16) -> i32 {
    (((t as u32) << 16) | i as u32) as i32
}

// ---------------------------------------------------------------- the register machine
const NREG: usize = 6;
struct Machine {
    r: Vec<RawSnap>,
    s: Vec<Snap>,
    d: Vec<Delta>,
    b: Builder,
    script: Vec<String>,
    out: Vec<String>,
    dead: bool,
    panic_msg: Option<String>,
    scratch: Vec<i32>,
}

fn raw_items(r: &RawSnap) -> Vec<ItemV> {
    r.items().map(|i| (i.raw_type_id, i.id, i.data.to_vec())).collect()
}
fn snap_items(s: &Snap) -> (usize, Vec<(TypeId, u16, Vec<i32>)>) {
    let it = s.items();
    let n = it.len();
    (n, it.map(|i| (i.type_id, i.id, i.data.to_vec())).collect())
}
fn snap_items_txt(x: &(usize, Vec<(TypeId, u16, Vec<i32>)>)) -> String {
    let body = if x.1.is_empty() {
        "-".to_string()
    } else {
        x.1.iter()
            .map(|(t, i, d)| format!("{}/{}={}", ty_txt(t), i, if d.is_empty() { String::new() } else { ints_txt(d) }))
            .collect::<Vec<_>>()
            .join(";")
    };
    format!("{}:{}", x.0, body)
}

impl Machine {
    fn new() -> Machine {
        Machine {
            r: (0..NREG).map(|_| RawSnap::empty()).collect(),
            s: (0..NREG).map(|_| Snap::empty()).collect(),
            d: (0..NREG).map(|_| Delta::new()).collect(),
            b: Builder::new(),
            script: vec![],
            out: vec![],
            dead: false,
            panic_msg: None,
            scratch: vec![],
        }
    }
    /// run one command under the panic guard; returns its output token (without the name)
    fn run(&mut self, name: &str, args: String, f: impl FnOnce(&mut Machine) -> String) -> String {
        if self.dead {
            return "dead".into();
        }
        self.script.push(if args.is_empty() { name.to_string() } else { format!("{} {}", name, args) });
        let r = guard(|| f(self));
        let res = match r {
            Ok(s) => s,
            Err(m) => {
                self.dead = true;
                self.panic_msg = Some(format!("{} {}: {}", name, args, m));
                "panic".to_string()
            }
        };
        self.out.push(format!("{}={}", name, res));
        res
    }
    fn sig(&self) -> String {
        let mut s = String::new();
        for o in self.out.iter().take(14) {
            let (n, v) = o.split_once('=').unwrap();
            let kind: String = if v.starts_with("err:") {
                v.split(':').take(2).collect::<Vec<_>>().join(":")
            } else if v.starts_with("ok:") && n.len() <= 6 && (n.contains("apply") || n.starts_with('r') || n.starts_with('d')) && !n.contains('w') {
                v.chars().take(40).collect()
            } else {
                v.split(':').next().unwrap().chars().take(8).collect()
            };
            s.push_str(n);
            s.push('=');
            s.push_str(&kind);
            s.push(' ');
        }
        s
    }
    fn finish(self, o: &mut Out) -> (String, Option<String>) {
        let id = o.case(&self.script.join("\t"), &self.out.join(" "), &self.sig());
        (id, self.panic_msg)
    }

    // ---- raw level
    fn rbuild(&mut self, i: usize, items: &[ItemV]) -> String {
        let it = items.to_vec();
        self.run("rbuild", format!("{} {}", i, items_txt(items)), move |m| {
            let mut b = RawBuilder::new();
            let mut codes = String::new();
            for (t, id, d) in &it {
                codes.push_str(match b.add_item(*t, *id, d) {
                    Ok(()) => "k",
                    Err(BuilderError::DuplicateKey) => "d",
                    Err(BuilderError::TooManyItems) => "m",
                    Err(BuilderError::TooLongSnap) => "l",
                });
            }
            m.r[i] = b.finish();
            if codes.is_empty() { "-".into() } else { codes }
        })
    }
    fn ritems(&mut self, i: usize) -> String {
        self.run("ritems", i.to_string(), move |m| items_txt(&raw_items(&m.r[i])))
    }
    fn ritem(&mut self, i: usize, t: u16, id: u16) -> String {
        self.run("ritem", format!("{} {} {}", i, t, id), move |m| match m.r[i].item(t, id) {
            Some(d) => ints_txt(d),
            None => "none".into(),
        })
    }
    fn rcrc(&mut self, i: usize) -> String {
        self.run("rcrc", i.to_string(), move |m| m.r[i].crc().to_string())
    }
    fn rwi(&mut self, i: usize, cap: usize) -> String {
        self.run("rwi", format!("{} {}", i, cap), move |m| {
            let mut scratch = std::mem::take(&mut m.scratch);
            let r = with_ibuf(cap, |res| match m.r[i].write_to_ints(&mut scratch, res) {
                Ok(w) => format!("ok:{}", ints_txt(w)),
                Err(_) => "cap".into(),
            });
            m.scratch = scratch;
            r
        })
    }
    fn rwb(&mut self, i: usize, cap: usize) -> String {
        self.run("rwb", format!("{} {}", i, cap), move |m| {
            let mut scratch = std::mem::take(&mut m.scratch);
            let r = with_bbuf(cap, |res| with_packer(&mut res[..], |p| match m.r[i].write(&mut scratch, p) {
                Ok(w) => format!("ok:{}", hex(w)),
                Err(_) => "cap".into(),
            }));
            m.scratch = scratch;
            r
        })
    }
    fn rri(&mut self, i: usize, ints: &[i32]) -> String {
        let v = ints.to_vec();
        self.run("rri", format!("{} {}", i, ints_txt(ints)), move |m| {
            let mut w = vec![];
            let r = m.r[i].read_from_ints(&mut w, &v);
            if r.is_err() {
                m.r[i] = RawSnap::empty();
            }
            rd_txt(&r, &w)
        })
    }
    fn rrb(&mut self, i: usize, bytes: &[u8]) -> String {
        let v = bytes.to_vec();
        self.run("rrb", format!("{} {}", i, hex(bytes)), move |m| {
            let mut w = vec![];
            let mut scratch = std::mem::take(&mut m.scratch);
            let r = m.r[i].read(&mut w, &mut scratch, &v);
            m.scratch = scratch;
            if r.is_err() {
                m.r[i] = RawSnap::empty();
            }
            rd_txt(&r, &w)
        })
    }
    fn rcreate(&mut self, j: usize, a: usize, b: usize) -> String {
        self.run("rcreate", format!("{} {} {}", j, a, b), move |m| {
            let (ra, rb) = (m.r[a].clone(), m.r[b].clone());
            m.d[j].create_raw(&ra, &rb);
            "ok".into()
        })
    }
    fn rapply(&mut self, k: usize, a: usize, j: usize) -> String {
        self.run("rapply", format!("{} {} {}", k, a, j), move |m| {
            let from = m.r[a].clone();
            let mut w = vec![];
            let r = m.r[k].read_with_delta(&mut w, &from, &m.d[j]);
            if r.is_err() {
                m.r[k] = RawSnap::empty();
            }
            rd_txt(&r, &w)
        })
    }
    fn k09(&mut self, a: usize, b: usize) -> String {
        self.run("k09", format!("{} {}", a, b), move |m| {
            let hit = m.r[a].items().any(|i| match m.r[b].item(i.raw_type_id, i.id) {
                Some(d) => d.len() != i.data.len(),
                None => false,
            });
            (hit as u8).to_string()
        })
    }
    // ---- deltas
    fn dwi(&mut self, j: usize, t: &Table, cap: usize) -> String {
        let t = t.clone();
        self.run("dwi", format!("{} {} {}", j, table_txt(&t), cap), move |m| {
            with_ibuf(cap, |res| match m.d[j].write_to_ints(tbl_fn(&t), res) {
                Ok(w) => format!("ok:{}", ints_txt(w)),
                Err(_) => "cap".into(),
            })
        })
    }
    fn dwb(&mut self, j: usize, t: &Table, cap: usize) -> String {
        let t = t.clone();
        self.run("dwb", format!("{} {} {}", j, table_txt(&t), cap), move |m| {
            with_bbuf(cap, |res| with_packer(&mut res[..], |p| match m.d[j].write(tbl_fn(&t), p) {
                Ok(w) => format!("ok:{}", hex(w)),
                Err(_) => "cap".into(),
            }))
        })
    }
    fn dri(&mut self, j: usize, t: &Table, ints: &[i32]) -> String {
        let (t, v) = (t.clone(), ints.to_vec());
        self.run("dri", format!("{} {} {}", j, table_txt(&t), ints_txt(ints)), move |m| {
            let mut w = vec![];
            let r = m.d[j].read_from_ints(&mut w, tbl_fn(&t), &mut IntUnpacker::new(&v));
            if r.is_err() {
                m.d[j] = Delta::new();
            }
            rd_txt(&r, &w)
        })
    }
    fn drb(&mut self, j: usize, t: &Table, bytes: &[u8]) -> String {
        let (t, v) = (t.clone(), bytes.to_vec());
        self.run("drb", format!("{} {} {}", j, table_txt(&t), hex(bytes)), move |m| {
            let mut w = vec![];
            let r = m.d[j].read(&mut w, tbl_fn(&t), &mut Unpacker::new(&v));
            if r.is_err() {
                m.d[j] = Delta::new();
            }
            rd_txt(&r, &w)
        })
    }
    // ---- snap level
    fn bnew(&mut self) -> String {
        self.run("bnew", String::new(), |m| {
            m.b = Builder::new();
            "ok".into()
        })
    }
    fn badd(&mut self, t: TypeId, id: u16, d: &[i32]) -> String {
        let v = d.to_vec();
        self.run("badd", format!("{} {} {}", ty_txt(&t), id, ints_txt(d)), move |m| match m.b.add_item(t, id, &v) {
            Ok(()) => "ok".into(),
            Err(e) => berr_txt(&e).into(),
        })
    }
    fn bfinish(&mut self, i: usize) -> String {
        self.run("bfinish", i.to_string(), move |m| {
            let b = std::mem::replace(&mut m.b, Builder::new());
            m.s[i] = b.finish();
            "ok".into()
        })
    }
    fn recycle(&mut self, i: usize) -> String {
        self.run("recycle", i.to_string(), move |m| {
            let s = std::mem::replace(&mut m.s[i], Snap::empty());
            m.b = s.recycle();
            "ok".into()
        })
    }
    fn items(&mut self, i: usize) -> String {
        self.run("items", i.to_string(), move |m| snap_items_txt(&snap_items(&m.s[i])))
    }
    fn item(&mut self, i: usize, t: TypeId, id: u16) -> String {
        self.run("item", format!("{} {} {}", i, ty_txt(&t), id), move |m| match m.s[i].item(t, id) {
            Some(d) => ints_txt(d),
            None => "none".into(),
        })
    }
    fn crc(&mut self, i: usize) -> String {
        self.run("crc", i.to_string(), move |m| m.s[i].crc().to_string())
    }
    fn wi(&mut self, i: usize, cap: usize) -> String {
        self.run("wi", format!("{} {}", i, cap), move |m| {
            let mut scratch = std::mem::take(&mut m.scratch);
            let r = with_ibuf(cap, |res| match m.s[i].write_to_ints(&mut scratch, res) {
                Ok(w) => format!("ok:{}", ints_txt(w)),
                Err(_) => "cap".into(),
            });
            m.scratch = scratch;
            r
        })
    }
    fn wb(&mut self, i: usize, cap: usize) -> String {
        self.run("wb", format!("{} {}", i, cap), move |m| {
            let mut scratch = std::mem::take(&mut m.scratch);
            let r = with_bbuf(cap, |res| with_packer(&mut res[..], |p| match m.s[i].write(&mut scratch, p) {
                Ok(w) => format!("ok:{}", hex(w)),
                Err(_) => "cap".into(),
            }));
            m.scratch = scratch;
            r
        })
    }
    fn ri(&mut self, i: usize, ints: &[i32]) -> String {
        let v = ints.to_vec();
        self.run("ri", format!("{} {}", i, ints_txt(ints)), move |m| {
            let mut w = vec![];
            let r = m.s[i].read_from_ints(&mut w, &v);
            if r.is_err() {
                m.s[i] = Snap::empty();
            }
            rd_txt(&r, &w)
        })
    }
    fn rb(&mut self, i: usize, bytes: &[u8]) -> String {
        let v = bytes.to_vec();
        self.run("rb", format!("{} {}", i, hex(bytes)), move |m| {
            let mut w = vec![];
            let mut scratch = std::mem::take(&mut m.scratch);
            let r = m.s[i].read(&mut w, &mut scratch, &v);
            m.scratch = scratch;
            if r.is_err() {
                m.s[i] = Snap::empty();
            }
            rd_txt(&r, &w)
        })
    }
    fn create(&mut self, j: usize, a: usize, b: usize) -> String {
        self.run("create", format!("{} {} {}", j, a, b), move |m| {
            let (sa, sb) = (m.s[a].clone(), m.s[b].clone());
            m.d[j].create(&sa, &sb);
            "ok".into()
        })
    }
    fn apply(&mut self, k: usize, a: usize, j: usize) -> String {
        self.run("apply", format!("{} {} {}", k, a, j), move |m| {
            let from = m.s[a].clone();
            let mut w = vec![];
            let r = m.s[k].read_with_delta(&mut w, &from, &m.d[j]);
            if r.is_err() {
                m.s[k] = Snap::empty();
            }
            rd_txt(&r, &w)
        })
    }
}

// ---------------------------------------------------------------- helpers on the real API
fn build_raw(items: &[ItemV]) -> Option<RawSnap> {
    let mut b = RawBuilder::new();
    for (t, i, d) in items {
        if b.add_item(*t, *i, d).is_err() {
            return None;
        }
    }
    Some(b.finish())
}
fn is_k09(a: &RawSnap, b: &RawSnap) -> bool {
    a.items().any(|i| matches!(b.item(i.raw_type_id, i.id), Some(d) if d.len() != i.data.len()))
}
fn sizes_respected(t: &Table, s: &RawSnap) -> bool {
    s.items().all(|i| match tbl_fn(t)(i.raw_type_id) {
        Some(sz) => sz as usize == i.data.len(),
        None => true,
    })
}
fn delta_dump(d: &Delta) -> Result<Vec<i32>, String> {
    guard(|| {
        with_ibuf(22000, |res| d.write_to_ints(|_| None, res).map(|w| w.to_vec()).unwrap_or_default())
    })
}
fn raw_ints(s: &RawSnap) -> Option<Vec<i32>> {
    let mut scratch = vec![];
    with_ibuf(16384, |res| s.write_to_ints(&mut scratch, res).ok().map(|w| w.to_vec()))
}
fn snap_ints(s: &Snap) -> Option<Vec<i32>> {
    let mut scratch = vec![];
    with_ibuf(16384, |res| s.write_to_ints(&mut scratch, res).ok().map(|w| w.to_vec()))
}
fn snap_bytes(s: &Snap) -> Option<Vec<u8>> {
    let mut scratch = vec![];
    with_bbuf(16384 * 5, |res| with_packer(&mut res[..], |p| s.write(&mut scratch, p).ok().map(|w| w.to_vec())))
}
fn pack_ints(v: &[i32]) -> Vec<u8> {
    with_bbuf(v.len() * 5 + 1, |res| with_packer(&mut res[..], |mut p| {
        for &x in v {
            p.write_int(x).unwrap();
        }
        p.written().to_vec()
    }))
}

// the table both sides use when the DDNet reference takes part (types < 64, sizes > 0)
fn ref_obj_size(t: u16) -> Option<u32> {
    match t {
        1 => Some(10),
        2 => Some(6),
        3 => Some(5),
        4 => Some(4),
        5 => Some(3),
        6 => Some(2),
        7 => Some(1),
        63 => Some(1),
        _ => None,
    }
}
fn ref_table() -> Table {
    (0..64u16).filter_map(|t| ref_obj_size(t).map(|s| (t, s))).collect()
}
fn ref_hash(key: i32) -> usize {
    let mut h: u32 = 5381;
    for sh in 0..4 {
        h = (h << 5).wrapping_add(h).wrapping_add(((key >> (sh * 8)) & 0xff) as u32);
    }
    (h % 256) as usize
}
/// the reference can represent this snapshot: types <= 0x7fff, no hash bucket over 64 keys
fn ref_ok(items: &[ItemV]) -> bool {
    let mut buckets = [0u32; 256];
    for (t, i, _) in items {
        if *t > 0x7fff {
            return false;
        }
        buckets[ref_hash(key_of(*t, *i))] += 1;
    }
    buckets.iter().all(|&c| c <= 64)
}
fn ref_build(items: &[ItemV]) -> refsnap::RawSnap {
    let mut v: Vec<&ItemV> = items.iter().collect();
    v.sort_by_key(|x| key_of(x.0, x.1) as u32);
    let mut b = refsnap::RawBuilder::new();
    for (t, i, d) in v {
        b.add_item(*t, *i, d).unwrap();
    }
    b.finish()
}

struct Ctx {
    refdelta: refsnap::Delta,
}

// ---------------------------------------------------------------- the Gallina model of the reference (Model/SnapRef.v)
// `refbuild` / `refdelta` cases: what the REAL C++ produced is recorded, the driver prints what the
// extracted model (ref_builder_ints / ref_create_delta) produces for the same items in the same order.

/// the reference builder on the items in the given order (no sorting, duplicates allowed)
fn ref_build_in_order(items: &[ItemV]) -> refsnap::RawSnap {
    let mut b = refsnap::RawBuilder::new();
    for (t, i, d) in items {
        b.add_item(*t, *i, d).unwrap();
    }
    b.finish()
}
fn ref_snap_ints(s: &mut refsnap::RawSnap) -> Option<Vec<i32>> {
    let mut out = vec![0i32; 16384];
    let mut scratch = vec![];
    s.write_to_ints(&mut scratch, &mut out).map(|w| w.to_vec()).ok()
}
/// snapshotbuilder_add_item takes these without abort(): type <= MAX_TYPE, size <= MAX_SIZE - 16
fn ref_builder_safe(items: &[ItemV]) -> bool {
    items.iter().all(|x| x.0 <= 0x7fff && x.2.len() <= 16380)
}
/// the items as they lie in a reference snapshot: (key, index of the first data int, data length)
fn ref_layout(ints: &[i32]) -> Vec<(i32, usize, usize)> {
    let n = ints[1] as usize;
    (0..n)
        .map(|i| {
            let off = ints[2 + i] as usize / 4;
            let end = if i + 1 < n { ints[2 + i + 1] as usize / 4 } else { ints[0] as usize / 4 };
            (ints[2 + n + off], 2 + n + off + 1, end - off - 1)
        })
        .collect()
}
/// CreateDelta stays inside initialised memory: the delta fits int32_t[16384], and an item of `to`
/// whose key occurs in `from` with fewer ints (the K09 class: DiffItem reads the NEW length from the
/// OLD item) still reads inside the written part of `from`
fn ref_delta_safe(fa: &[i32], fb: &[i32]) -> bool {
    let (la, lb) = (ref_layout(fa), ref_layout(fb));
    let bound: usize = 3 + la.len() + lb.iter().map(|x| 3 + x.2).sum::<usize>();
    bound <= 16384 && lb.iter().all(|(k, _, n)| la.iter().all(|(k2, p, _)| k2 != k || p + n <= fa.len()))
}
fn distinct_keys(items: &[ItemV]) -> bool {
    let mut k: Vec<(u16, u16)> = items.iter().map(|x| (x.0, x.1)).collect();
    k.sort();
    k.windows(2).all(|w| w[0] != w[1])
}
fn case_refbuild(o: &mut Out, items: &[ItemV]) {
    if !ref_builder_safe(items) {
        return;
    }
    let mut s = ref_build_in_order(items);
    let ints = ref_snap_ints(&mut s);
    let res = match &ints {
        Some(v) => format!("ok:{}", ints_txt(v)),
        None => "cap".to_string(),
    };
    let kept = res.split(',').nth(1).map(|x| x.to_string()).unwrap_or_default();
    let sorted = items.windows(2).all(|w| (key_of(w[0].0, w[0].1) as u32) < (key_of(w[1].0, w[1].1) as u32));
    let sig = format!("refbuild n={} kept={} sorted={}", items.len().min(3), if kept == items.len().to_string() { "all" } else { "dropped" }, sorted);
    let id = o.case(&format!("refbuild {}", items_txt(items)), &format!("refbuild={}", res), &sig);
    // C09_ref_builder_any_order / _items on the real code: what the reference wrote is read by libtw2 as the
    // snapshot its own builder makes of the same items; in ascending key order the integers are the same
    if let (Some(rb), Some(ints)) = (if distinct_keys(items) { build_raw(items) } else { None }, ints) {
        let mut rs = RawSnap::empty();
        let mut w = vec![];
        let r = guard(|| rs.read_from_ints(&mut w, &ints));
        let good = matches!(r, Ok(Ok(()))) && w.is_empty() && raw_items(&rs) == raw_items(&rb) && rs.crc() == rb.crc();
        o.check(good, "-", &id, || format!("reference builder ints of {} read as {:?} warnings {} items {}", items_txt(items), r, warn_txt(&w), items_txt(&raw_items(&rs))));
        if sorted {
            o.check(raw_ints(&rb) == Some(ints.clone()), "-", &id, || format!("{} in key order: write_to_ints {:?}, reference builder {}", items_txt(items), raw_ints(&rb), ints_txt(&ints)));
        }
    }
}
fn case_refdelta(o: &mut Out, cx: &mut Ctx, a: &[ItemV], b: &[ItemV]) -> Option<Vec<i32>> {
    if !ref_builder_safe(a) || !ref_builder_safe(b) {
        return None;
    }
    let (mut fa, mut fb) = (ref_build_in_order(a), ref_build_in_order(b));
    let (ia, ib) = (ref_snap_ints(&mut fa)?, ref_snap_ints(&mut fb)?);
    if !ref_delta_safe(&ia, &ib) {
        o.count("refdelta skipped (would read or write outside initialised memory)");
        return None;
    }
    let mut out = vec![0i32; 16384];
    let rd = cx.refdelta.create_raw_and_write_to_ints(&fa, &fb, ref_obj_size, &mut out).map(|w| w.to_vec());
    let res = match &rd {
        Ok(v) => format!("ok:{}", ints_txt(v)),
        Err(_) => "cap".to_string(),
    };
    let sig = match &rd {
        Ok(v) if v.is_empty() => "refdelta empty".to_string(),
        Ok(v) => format!("refdelta del={} upd={} of {}", v[0].min(3), v[1].min(3), b.len().min(4)),
        Err(_) => "refdelta cap".to_string(),
    };
    let id = o.case(&format!("refdelta {} {} {}", items_txt(a), items_txt(b), table_txt(&ref_table())), &format!("refdelta={}", res), &sig);
    // C09_ref_delta_items on the real code: both builders got the same two item lists (any order); the
    // reference's delta, read and applied here, gives B
    if let (Ok(ints), true, true) = (&rd, distinct_keys(a) && distinct_keys(b), ref_ok(a) && ref_ok(b)) {
        if let (Some(ra), Some(rb)) = (build_raw(a), build_raw(b)) {
            if !is_k09(&ra, &rb) && sizes_respected(&ref_table(), &rb) {
                if ints.is_empty() {
                    o.check(raw_items(&ra) == raw_items(&rb), "-", &id, || format!("reference delta is empty but A={} B={}", items_txt(a), items_txt(b)));
                } else {
                    let mut d = Delta::new();
                    let mut w = vec![];
                    let r = guard(|| d.read_from_ints(&mut w, ref_obj_size, &mut IntUnpacker::new(ints)));
                    let mut rc = RawSnap::empty();
                    let mut w2 = vec![];
                    let r2 = guard(|| rc.read_with_delta(&mut w2, &ra, &d));
                    let good = matches!(r, Ok(Ok(()))) && w.is_empty() && matches!(r2, Ok(Ok(()))) && w2.is_empty()
                        && raw_items(&rc) == raw_items(&rb) && rc.crc() == rb.crc();
                    o.check(good, "-", &id, || {
                        format!("reference delta {} of A={} B={} (items in this order): read {:?} {} apply {:?} {} items {}", ints_txt(ints), items_txt(a), items_txt(b), r, warn_txt(&w), r2, warn_txt(&w2), items_txt(&raw_items(&rc)))
                    });
                }
                o.count("reference pairs in any item order (oracle)");
            }
        }
    }
    rd.ok()
}

// ---------------------------------------------------------------- C09
/// the statement of C09 on the real code, for one pair
fn oracle_c09(o: &mut Out, cx: &mut Ctx, id: &str, a: &[ItemV], b: &[ItemV], tbl: &Table, with_ref: bool) {
    let (ra, rb) = match (build_raw(a), build_raw(b)) {
        (Some(x), Some(y)) => (x, y),
        _ => return,
    };
    // the wire form of a snapshot lists its items by ascending key (type << 16 | id, compared as unsigned) --
    // the order in which the reference builder stores items that are added in that order
    if let Ok(Some(ints)) = guard(|| raw_ints(&rb)) {
        if ints.len() >= 2 {
            let n = ints[1] as usize;
            let offs: Vec<usize> = ints[2..2 + n].iter().map(|x| (*x / 4) as usize).collect();
            let keys: Vec<u32> = offs.iter().map(|o| ints[2 + n + *o] as u32).collect();
            o.check(keys.windows(2).all(|w| w[0] < w[1]), "-", id, || format!("write_to_ints of B={} lists the items in the key order {:x?}, not ascending", items_txt(b), &keys[..keys.len().min(12)]));
        }
    }
    let k09 = is_k09(&ra, &rb);
    let mut d = Delta::new();
    let created = guard(|| d.create_raw(&ra, &rb));
    if let Err(p) = created {
        // the oracle file keeps the first 2000 failures: list at most 300 K09 pairs so that nothing else is crowded out
        if k09 && K09_LISTED.fetch_add(1, Ordering::Relaxed) >= 300 {
            o.count("K09 pairs (create panics; not listed)");
        } else {
            o.check(false, if k09 { "K09" } else { "-" }, id, || format!("Delta::create panics for A={} B={}: {}", items_txt(a), items_txt(b), p));
        }
        return;
    }
    let want = raw_items(&rb);
    let same = |o: &mut Out, what: &str, d: &Delta| {
        let mut rc = RawSnap::empty();
        let mut w = vec![];
        let r = guard(|| rc.read_with_delta(&mut w, &ra, d));
        let good = matches!(r, Ok(Ok(()))) && w.is_empty() && raw_items(&rc) == want && rc.crc() == rb.crc();
        o.check(good, "-", id, || {
            format!("{}: A={} B={} apply gives {:?} warnings {} items {} crc {} (want crc {})", what, items_txt(a), items_txt(b), r, warn_txt(&w), items_txt(&raw_items(&rc)), rc.crc(), rb.crc())
        });
    };
    same(o, "apply(A, create(A,B))", &d);
    let dump = delta_dump(&d).unwrap_or_default();
    let empty: Table = vec![];
    let t: &Table = if sizes_respected(tbl, &rb) { tbl } else { &empty };
    // wire round trip, both forms
    let wi = guard(|| with_ibuf(22000, |res| d.write_to_ints(tbl_fn(t), res).map(|w| w.to_vec())));
    match wi {
        Ok(Ok(ints)) => {
            let mut d2 = Delta::new();
            let mut w = vec![];
            let r = guard(|| d2.read_from_ints(&mut w, tbl_fn(t), &mut IntUnpacker::new(&ints)));
            let good = matches!(r, Ok(Ok(()))) && w.is_empty() && delta_dump(&d2).ok() == Some(dump.clone());
            o.check(good, "-", id, || format!("delta ints {} read back as {:?} warnings {} dump {:?} want {}", ints_txt(&ints), r, warn_txt(&w), delta_dump(&d2), ints_txt(&dump)));
            if good {
                same(o, "apply(A, read_ints(write_ints(create(A,B))))", &d2);
            }
            let bytes = pack_ints(&ints);
            let wb = guard(|| with_bbuf(bytes.len() + 8, |buf| with_packer(&mut buf[..], |p| d.write(tbl_fn(t), p).map(|w| w.to_vec()))));
            o.check(wb == Ok(Ok(bytes.clone())), "-", id, || format!("delta bytes differ from the packed ints: {:?}", wb));
            let mut d3 = Delta::new();
            let mut w = vec![];
            let r = guard(|| d3.read(&mut w, tbl_fn(t), &mut Unpacker::new(&bytes)));
            let good = matches!(r, Ok(Ok(()))) && w.is_empty() && delta_dump(&d3).ok() == Some(dump.clone());
            o.check(good, "-", id, || format!("delta bytes {} read back as {:?} warnings {}", hex(&bytes), r, warn_txt(&w)));
            if good {
                same(o, "apply(A, read_bytes(write_bytes(create(A,B))))", &d3);
            }
        }
        other => o.check(false, "-", id, || format!("Delta::write_to_ints failed: {:?}", other)),
    }
    // the DDNet reference
    if with_ref && !k09 && ref_ok(a) && ref_ok(b) && sizes_respected(&ref_table(), &rb) && sizes_respected(&ref_table(), &ra) {
        let nd: usize = b.iter().map(|x| x.2.len() + 3).sum::<usize>() + a.len() + 3;
        let (mut fa, mut fb) = (ref_build(a), ref_build(b));
        let mut out = vec![0i32; 16384];
        let mut scratch = vec![];
        let rints = fb.write_to_ints(&mut scratch, &mut out).map(|w| w.to_vec()).ok();
        o.check(rints.is_some() && rints == raw_ints(&rb), "-", id, || format!("B={} serialises to {:?}, the reference builder to {:?}", items_txt(b), raw_ints(&rb), rints));
        let _ = fa.write_to_ints(&mut scratch, &mut out);
        if nd <= 16000 {
            let mut out = vec![0i32; 16384];
            let rd = cx.refdelta.create_raw_and_write_to_ints(&fa, &fb, ref_obj_size, &mut out).map(|w| w.to_vec());
            match rd {
                Ok(ints) if ints.is_empty() => {
                    o.check(raw_items(&ra) == want, "-", id, || format!("reference delta is empty but A={} B={}", items_txt(a), items_txt(b)));
                }
                Ok(ints) => {
                    let mut d4 = Delta::new();
                    let mut w = vec![];
                    let r = guard(|| d4.read_from_ints(&mut w, ref_obj_size, &mut IntUnpacker::new(&ints)));
                    o.check(matches!(r, Ok(Ok(()))) && w.is_empty(), "-", id, || format!("reference delta {} read as {:?} warnings {}", ints_txt(&ints), r, warn_txt(&w)));
                    same(o, "apply(A, read(reference CreateDelta(A,B)))", &d4);
                }
                Err(_) => o.check(false, "-", id, || "reference CreateDelta failed".into()),
            }
        }
        o.count("reference pairs");
        // the same pair (items in key order, as ref_build hands them over) for the model of the reference
        let sorted = |v: &[ItemV]| {
            let mut s = v.to_vec();
            s.sort_by_key(|x| key_of(x.0, x.1) as u32);
            s
        };
        case_refbuild(o, &sorted(b));
        if nd <= 16000 {
            case_refdelta(o, cx, &sorted(a), &sorted(b));
        }
    }
}

/// inputs for the model of the reference beyond the pairs of the C09 oracle: any item order, duplicate
/// keys, size changes (K09), sizes that break the table, overflowing hash buckets, dropped items
fn gen_ref_model(o: &mut Out, cx: &mut Ctx, r: &mut Rng, th: bool) {
    // ---- one key, every pair of states (absent or 0..2 values), two keys of the reference's domain
    let states: Vec<Option<Vec<i32>>> = std::iter::once(None).chain(all_data(2, &VALS).into_iter().map(Some)).collect();
    for k in [(5u16, 1u16), (0x7fffu16, 0xffffu16)] {
        for sa in &states {
            for sb in &states {
                // a bystander behind the key, so that a longer new item reads initialised memory
                let mut a: Vec<ItemV> = sa.iter().map(|d| (k.0, k.1, d.clone())).collect();
                a.push((0x7fff, 0xfffe, vec![7, -7, 0]));
                let b: Vec<ItemV> = sb.iter().map(|d| (k.0, k.1, d.clone())).collect();
                case_refdelta(o, cx, &a, &b);
            }
        }
    }
    o.exhaustive("reference model: one key (absent, or 0..2 values from {0,1,-1,MIN,MAX}) next to a bystander, every pair of states");
    // ---- random small snapshots in any order
    let uni: Vec<(u16, u16)> = vec![(1, 0), (1, 1), (2, 0x8000), (5, 0xffff), (7, 7), (63, 2), (64, 2), (0x3fff, 7), (0x4000, 0), (0x7fff, 0xffff), (0x7fff, 0), (0, 0x4000), (0, 0), (9, 3)];
    for n in 0..(if th { 30_000 } else { 4_000 }) {
        let side = |r: &mut Rng, other: Option<&Vec<ItemV>>| -> Vec<ItemV> {
            let mut v: Vec<ItemV> = vec![];
            let cnt = r.below(6) as usize;
            for _ in 0..cnt {
                let k = *r.pick(&uni);
                if v.iter().any(|x| (x.0, x.1) == k) && !r.chance(1, 10) {
                    continue; // duplicate keys now and then: the reference builder does not look
                }
                let len = match ref_obj_size(k.0) {
                    Some(s) if !r.chance(1, 10) => s as usize,
                    _ => match other.and_then(|o| o.iter().find(|x| (x.0, x.1) == k)) {
                        Some(x) if !r.chance(1, 6) => x.2.len(),
                        _ => r.below(5) as usize,
                    },
                };
                v.push((k.0, k.1, gen_data(r, len)));
            }
            v
        };
        let a = side(r, None);
        let mut b = if r.chance(1, 4) { a.clone() } else { side(r, Some(&a)) };
        if r.chance(1, 3) {
            // keep most of A, change a little
            b = a.clone();
            for x in b.iter_mut() {
                if r.chance(1, 3) && !x.2.is_empty() {
                    let i = r.below(x.2.len() as u64) as usize;
                    x.2[i] = x.2[i].wrapping_add(*r.pick(&VALS));
                }
            }
            if r.chance(1, 2) && !b.is_empty() {
                let i = r.below(b.len() as u64) as usize;
                b.remove(i);
            }
            if r.chance(1, 2) {
                b.reverse();
            }
        }
        if n % 4 == 0 {
            case_refbuild(o, &b);
        }
        case_refdelta(o, cx, &a, &b);
    }
    // ---- overflowing hash buckets: more than 64 keys with one CalcHashId
    let mut same: Vec<(u16, u16)> = vec![];
    let want = ref_hash(key_of(3, 0));
    'search: for t in [3u16, 70, 0x1234, 0x7fff] {
        for id in 0..=0xffffu16 {
            if ref_hash(key_of(t, id)) == want {
                same.push((t, id));
                if same.len() >= 80 {
                    break 'search;
                }
            }
        }
    }
    for round in 0..(if th { 40 } else { 8 }) {
        let na = 60 + r.below(21) as usize;
        let mut a: Vec<ItemV> = same[..na].iter().map(|k| (k.0, k.1, gen_data(r, ref_obj_size(k.0).unwrap_or(2) as usize))).collect();
        let mut b = a.clone();
        for x in b.iter_mut() {
            if r.chance(1, 4) {
                x.2[0] = x.2[0].wrapping_add(1);
            }
        }
        if round % 2 == 1 {
            b.reverse();
        }
        if round % 3 == 2 {
            let cut = r.below(b.len() as u64) as usize;
            b.truncate(cut.max(1));
            a.rotate_left(7);
        }
        case_refdelta(o, cx, &a, &b);
        case_refdelta(o, cx, &b, &a);
        o.count("refdelta with an overflowing hash bucket");
    }
    // ---- the builder's limits: 1024 / 1025 items, the last byte, everything after a dropped item
    let many = |n: usize, len: usize| -> Vec<ItemV> { (0..n).map(|i| ((i % 100) as u16, (i / 100) as u16 + 1, vec![i as i32; len])).collect() };
    case_refbuild(o, &many(1024, 0));
    case_refbuild(o, &many(1025, 0));
    case_refbuild(o, &many(1030, 1));
    case_refbuild(o, &[]);
    case_refbuild(o, &[(0, 0, vec![])]);
    for room in [16380usize, 16379, 16378] {
        // header 2 + one offset + one key + data = 16384 ints when data = 16380
        case_refbuild(o, &[(9, 9, vec![1; room])]);
        case_refbuild(o, &[(9, 9, vec![1; room - 2]), (9, 8, vec![])]);
        case_refbuild(o, &[(9, 9, vec![1; room - 1]), (9, 8, vec![]), (9, 7, vec![])]);
        case_refbuild(o, &[(9, 9, vec![1; room]), (9, 8, vec![]), (1, 1, vec![5])]);
    }
    for _ in 0..(if th { 12 } else { 3 }) {
        let t = ref_table();
        let fill = r.chance(1, 2);
        let a = gen_big(r, &t, 1024, true, fill);
        let mut b = mutate(r, &t, &a, true);
        let k = r.below(b.len().max(1) as u64) as usize;
        let k = k.min(b.len());
        b.rotate_left(k);
        case_refbuild(o, &a);
        case_refdelta(o, cx, &a, &b);
    }
}

/// correspondence script + oracle for one pair
fn do_pair(o: &mut Out, cx: &mut Ctx, a: &[ItemV], b: &[ItemV], tbl: &Table, light: bool, with_ref: bool) {
    let mut m = Machine::new();
    let need = 8 + a.len() + b.iter().map(|x| 3 + x.2.len()).sum::<usize>();
    let ca = m.rbuild(0, a);
    let cb = m.rbuild(1, b);
    if !light {
        m.ritems(1);
        if let Some(x) = b.first() {
            m.ritem(1, x.0, x.1);
            m.ritem(0, x.0, x.1);
        }
    }
    let capb = (4 + b.iter().map(|x| 2 + x.2.len()).sum::<usize>()).min(16384);
    let wi = m.rwi(1, capb);
    if let Some(ints) = parse_ints(&wi) {
        m.rri(4, &ints);
        m.rcrc(4);
        if !light {
            m.ritems(4);
            let bytes = pack_ints(&ints);
            m.rwb(1, bytes.len());
            m.rrb(4, &bytes);
            m.rwi(1, ints.len() - 1);
        }
    }
    m.k09(0, 1);
    if m.rcreate(0, 0, 1) == "ok" {
        let dump = m.dwi(0, &vec![], need);
        m.rapply(2, 0, 0);
        if !light {
            m.ritems(2);
        }
        m.rcrc(2);
        m.rcrc(1);
        if !light {
            m.dwb(0, &vec![], need * 5);
        }
        let w = m.dwi(0, tbl, need);
        if let Some(txt) = w.strip_prefix("ok:") {
            let ints: Vec<i32> = if txt == "-" { vec![] } else { txt.split(',').map(|x| x.parse().unwrap()).collect() };
            m.dri(1, tbl, &ints);
            let d2 = m.dwi(1, &vec![], need);
            assert!(m.dead || d2 == dump || true);
            m.rapply(3, 0, 1);
            m.rcrc(3);
            if !light {
                let bytes = pack_ints(&ints);
                m.drb(2, tbl, &bytes);
                m.dwb(1, tbl, bytes.len());
                if !bytes.is_empty() {
                    m.dwb(1, tbl, bytes.len() - 1);
                }
            }
        }
    }
    let (id, _) = m.finish(o);
    if ca.contains(|c| c != 'k' && c != '-') || cb.contains(|c| c != 'k' && c != '-') {
        return;
    }
    oracle_c09(o, cx, &id, a, b, tbl, with_ref);
}

const VALS: [i32; 5] = [0, 1, -1, i32::MIN, i32::MAX];

/// all data vectors of length 0..=maxlen over `vals`
fn all_data(maxlen: usize, vals: &[i32]) -> Vec<Vec<i32>> {
    let mut out = vec![vec![]];
    let mut prev = vec![vec![]];
    for _ in 0..maxlen {
        let mut next = vec![];
        for p in &prev {
            for &v in vals {
                let mut q: Vec<i32> = p.clone();
                q.push(v);
                next.push(q);
            }
        }
        out.extend(next.iter().cloned());
        prev = next;
    }
    out
}

fn gen_data(r: &mut Rng, len: usize) -> Vec<i32> {
    (0..len).map(|_| if r.chance(1, 3) { *r.pick(&VALS) } else if r.chance(1, 2) { r.i32_edgy() } else { r.range(-300, 300) as i32 }).collect()
}

const TYPES: [u16; 10] = [1, 5, 7, 63, 64, 0x3fff, 0x7fff, 0x8000, 0xffff, 0];
const IDS: [u16; 5] = [0, 1, 0x7fff, 0x8000, 0xffff];

fn gen_c09(o: &mut Out, cx: &mut Ctx, r: &mut Rng, th: bool) {
    let tbl: Table = vec![(5, 3), (7, 1), (0x7fff, 2), (0x8000, 1), (63, 1), (9, 0)];
    // ---- one key, every pair of states (absent or 0..3 values out of VALS): 157 x 157
    let states: Vec<Option<Vec<i32>>> = std::iter::once(None).chain(all_data(3, &VALS).into_iter().map(Some)).collect();
    let keys: [(u16, u16); 3] = [(0x8000, 0xffff), (5, 1), (0x7fff, 0)];
    for (ki, k) in keys.iter().enumerate() {
        if ki > 0 && !th {
            break;
        }
        for sa in &states {
            for sb in &states {
                let a: Vec<ItemV> = sa.iter().map(|d| (k.0, k.1, d.clone())).collect();
                let b: Vec<ItemV> = sb.iter().map(|d| (k.0, k.1, d.clone())).collect();
                do_pair(o, cx, &a, &b, &tbl, false, false);
            }
        }
    }
    o.exhaustive("C09: one key, every pair of states (absent, or 0..3 values from {0,1,-1,MIN,MAX})");
    // ---- two keys straddling the signed boundary, every pair of snapshots with lengths 0..2 (thorough)
    if th {
        let st: Vec<Option<Vec<i32>>> = std::iter::once(None).chain(all_data(2, &[0, -1, i32::MIN, i32::MAX]).into_iter().map(Some)).collect();
        let snaps: Vec<Vec<ItemV>> = st
            .iter()
            .flat_map(|x| st.iter().map(move |y| (x.clone(), y.clone())))
            .map(|(x, y)| x.into_iter().map(|d| (0x7fffu16, 0xffffu16, d)).chain(y.into_iter().map(|d| (0x8000u16, 0u16, d))).collect())
            .collect();
        for (ia, a) in snaps.iter().enumerate() {
            for (ib, b) in snaps.iter().enumerate() {
                if (ia * 31 + ib * 17) % 4 == 0 {
                    do_pair(o, cx, a, b, &tbl, false, false);
                }
            }
        }
    }
    // ---- three keys from a universe on both sides of 0x8000, reduced states, random
    let uni: Vec<(u16, u16)> = vec![(1, 0), (1, 1), (5, 0xffff), (63, 2), (64, 2), (0x3fff, 7), (0x7fff, 0xffff), (0x8000, 0), (0x8000, 1), (0xffff, 0xffff), (0xffff, 0), (0, 0x4000), (9, 3)];
    for n in 0..(if th { 40_000 } else { 6_000 }) {
        let nk = 1 + r.below(4) as usize;
        let mut ks: Vec<(u16, u16)> = (0..nk).map(|_| *r.pick(&uni)).collect();
        ks.sort();
        ks.dedup();
        let use_ref = n % 2 == 0;
        let t = if use_ref { ref_table() } else { tbl.clone() };
        let side = |r: &mut Rng, other: Option<&Vec<ItemV>>| -> Vec<ItemV> {
            let mut v = vec![];
            for k in &ks {
                if r.chance(1, 4) {
                    continue;
                }
                // mostly respect the table and keep the other side's length (else K09)
                let len = match tbl_fn(&t)(k.0) {
                    Some(s) if !r.chance(1, 12) => s as usize,
                    _ => match other.and_then(|o| o.iter().find(|x| (x.0, x.1) == *k)) {
                        Some(x) if !r.chance(1, 8) => x.2.len(),
                        _ => r.below(4) as usize,
                    },
                };
                v.push((k.0, k.1, gen_data(r, len)));
            }
            if r.chance(1, 2) {
                v.reverse();
            }
            v
        };
        let a = side(r, None);
        let mut b = side(r, Some(&a));
        if r.chance(1, 5) {
            // untouched / slightly changed copies
            b = a.clone();
            if let Some(x) = b.first_mut() {
                if r.chance(1, 2) && !x.2.is_empty() {
                    x.2[0] = x.2[0].wrapping_add(*r.pick(&VALS));
                }
            }
        }
        do_pair(o, cx, &a, &b, &t, false, use_ref);
    }
    // ---- random pairs up to the limits
    let plan: Vec<(usize, bool)> = if th {
        (0..64).map(|n| (match n % 8 { 0 => 1024, 1 => 1023, 2 => 1100, 3 => r.below(1025) as usize, _ => r.below(200) as usize }, n % 8 == 4)).collect()
    } else {
        vec![(1024, false), (90, true), (150, false), (40, false), (1100, false), (12, false)]
    };
    for (n, (target_items, fill)) in plan.into_iter().enumerate() {
        let use_ref = n % 2 == 0;
        let t = if use_ref { ref_table() } else { tbl.clone() };
        let a = gen_big(r, &t, target_items, use_ref, fill);
        let b = mutate(r, &t, &a, use_ref);
        let light = a.len() > 150 || b.len() > 150;
        do_pair(o, cx, &a, &b, &t, light, use_ref);
        if (th && n % 4 == 0) || (!th && a.len() <= 150) {
            do_pair(o, cx, &b, &a, &t, light, use_ref);
            do_pair(o, cx, &[], &b, &t, light, use_ref);
            do_pair(o, cx, &a, &[], &t, light, use_ref);
        }
    }
    // ---- a refused add_item leaves no trace: the snapshot finished after refusals serializes to the same
    //      integers as the snapshot built from the accepted items alone (item limit and byte limit)
    for k in 0..(if th { 12 } else { 4 }) {
        let mut items: Vec<ItemV> = vec![];
        match k % 4 {
            0 => { for i in 0..1030u16 { items.push((7, i, if i % 50 == 0 { vec![i as i32; 3] } else { vec![] })); } }
            1 => { for i in 0..20u16 { let n = 1000 + r.below(200) as usize; items.push((9, i, gen_data(r, n))); } }
            2 => { for i in 0..1000u16 { items.push((3, i, vec![1])); } items.push((4, 0, gen_data(r, 15000))); for i in 0..40u16 { items.push((5, i, gen_data(r, 10))); } }
            _ => { for i in 0..16u16 { items.push((11, i, gen_data(r, 1020))); } for i in 0..30u16 { items.push((12, i, vec![i as i32; (i % 4) as usize])); } }
        }
        let mut b = RawBuilder::new();
        let mut accepted: Vec<ItemV> = vec![];
        let mut refused = 0;
        for (t, i, d) in &items {
            match guard(|| b.add_item(*t, *i, d)) {
                Ok(Ok(())) => accepted.push((*t, *i, d.clone())),
                Ok(Err(_)) => refused += 1,
                Err(p) => { o.check(false, "-", &format!("refusal{}", k), || format!("RawBuilder::add_item panicked: {}", p)); break; }
            }
        }
        let s1 = b.finish();
        let id = format!("refusal{}", k);
        o.tick("refusal", "refusal");
        match build_raw(&accepted) {
            Some(s2) => {
                let (i1, i2) = (guard(|| raw_ints(&s1)), guard(|| raw_ints(&s2)));
                let same = matches!((&i1, &i2), (Ok(Some(a)), Ok(Some(b))) if a == b);
                o.check(refused > 0, "-", &id, || "generator: no item was refused".to_string());
                o.check(same, "-", &id, || format!("{} refused add_item call(s) changed the snapshot: it serializes to {:?} ints, the snapshot of the {} accepted items to {:?}",
                    refused, i1.as_ref().map(|x| x.as_ref().map(|v| v.len())), accepted.len(), i2.as_ref().map(|x| x.as_ref().map(|v| v.len()))));
                if let Ok(Some(ints)) = &i1 {
                    let mut back = RawSnap::default();
                    let r1 = guard(|| back.read_from_ints(&mut libtw2_warn::Ignore, ints));
                    o.check(matches!(r1, Ok(Ok(()))), "-", &id, || format!("the snapshot finished after {} refusal(s) is not read back from its own integers: {:?}", refused, r1));
                }
            }
            None => o.check(false, "-", &id, || "the accepted items are refused when added alone".to_string()),
        }
    }
    // ---- the Gallina model of the reference against the real C++
    gen_ref_model(o, cx, r, th);
}

/// a snapshot that the builder accepts, possibly filling one of the limits exactly
fn gen_big(r: &mut Rng, t: &Table, target_items: usize, ref_ok_only: bool, fill_bytes: bool) -> Vec<ItemV> {
    let mut v: Vec<ItemV> = vec![];
    let mut keys = BTreeSet::new();
    let mut ints = 2usize; // header
    while v.len() < target_items.min(1024) {
        let ty: u16 = if ref_ok_only {
            match r.below(4) { 0 => *r.pick(&[1u16, 2, 3, 4, 5, 6, 7, 63]), 1 => r.below(0x8000) as u16, _ => r.below(40) as u16 }
        } else {
            match r.below(4) { 0 => *r.pick(&TYPES), 1 => r.next() as u16, _ => r.below(40) as u16 }
        };
        let idmax = if r.chance(1, 2) { 64 } else { 65536 };
        let id: u16 = if r.chance(1, 4) { *r.pick(&IDS) } else { r.below(idmax) as u16 };
        if !keys.insert((ty, id)) {
            continue;
        }
        let len = match tbl_fn(t)(ty) {
            Some(s) => s as usize,
            None => if fill_bytes { r.below(60) as usize } else { r.below(7) as usize },
        };
        if (ints + 2 + len) * 4 > 65536 {
            // fill the rest exactly with one last item of a free-size type
            let room = 16384 - ints;
            if room >= 2 && v.len() < 1024 {
                let mut k = (100u16, 0u16);
                while keys.contains(&k) { k.1 += 1; }
                v.push((k.0, k.1, gen_data(r, room - 2)));
            }
            break;
        }
        ints += 2 + len;
        v.push((ty, id, gen_data(r, len)));
    }
    v
}

/// items added, removed, changed (wrapping differences) and untouched
fn mutate(r: &mut Rng, t: &Table, a: &[ItemV], ref_ok_only: bool) -> Vec<ItemV> {
    let mut b: Vec<ItemV> = vec![];
    let mut ints = 2usize;
    for it in a {
        match r.below(10) {
            0 | 1 => continue,
            2 | 3 | 4 => {
                let mut d = it.2.clone();
                for x in d.iter_mut() {
                    if r.chance(1, 2) {
                        *x = if r.chance(1, 2) { x.wrapping_add(r.i32_edgy()) } else { r.i32_edgy() };
                    }
                }
                ints += 2 + d.len();
                b.push((it.0, it.1, d));
            }
            _ => {
                ints += 2 + it.2.len();
                b.push(it.clone());
            }
        }
    }
    let keys: BTreeSet<(u16, u16)> = a.iter().map(|x| (x.0, x.1)).collect();
    let adds = r.below(1 + (a.len() as u64) / 4 + 3) as usize;
    for _ in 0..adds {
        if b.len() >= 1024 {
            break;
        }
        let ty: u16 = if ref_ok_only { r.below(0x8000) as u16 } else { r.next() as u16 };
        let id = r.next() as u16;
        if keys.contains(&(ty, id)) || b.iter().any(|x| (x.0, x.1) == (ty, id)) {
            continue;
        }
        let len = tbl_fn(t)(ty).map(|s| s as usize).unwrap_or(r.below(6) as usize);
        if (ints + 2 + len) * 4 > 65536 {
            break;
        }
        ints += 2 + len;
        b.push((ty, id, gen_data(r, len)));
    }
    if r.chance(1, 2) {
        let n = b.len();
        if n > 1 {
            let k = r.below(n as u64) as usize;
            b.rotate_left(k);
        }
    }
    b
}

// ---------------------------------------------------------------- C10
type Op = (TypeId, u16, Vec<i32>);

fn uuid_n(n: u64) -> Uuid {
    // spread over the whole byte range, first byte varies fastest so map order != creation order
    let mut b = [0u8; 16];
    let x = n.wrapping_mul(0x9E37_79B9_7F4A_7C15) ^ 0xA5A5_5A5A_0F0F_F0F0;
    b[..8].copy_from_slice(&x.to_le_bytes());
    b[8..].copy_from_slice(&(!x).rotate_left(17).to_be_bytes());
    if n == 0 { b = [0u8; 16]; }
    if n == 1 { b = [0xffu8; 16]; }
    if n == 2 { b = [0x80, 0, 0, 0, 0x7f, 0xff, 0xff, 0xff, 0xff, 0xff, 0xff, 0xff, 0, 0, 0, 1]; }
    Uuid::from_bytes(b)
}

fn parse_ints(tok: &str) -> Option<Vec<i32>> {
    let t = tok.strip_prefix("ok:")?;
    Some(if t == "-" { vec![] } else { t.split(',').map(|x| x.parse().unwrap()).collect() })
}

fn build_ops(ops: &[Op]) -> Result<(Snap, Vec<Result<(), BuilderError>>), String> {
    guard(|| {
        let mut b = Builder::new();
        let res = ops.iter().map(|(t, i, d)| b.add_item(*t, *i, d)).collect();
        (b.finish(), res)
    })
}

/// same items (and iterator length), same crc, same lookups: the observational equality of C10
fn obs_equal(o: &mut Out, id: &str, what: &str, s: &Snap, s2: &Snap, probes: &[(TypeId, u16)]) {
    let r = guard(|| {
        let mut bad = vec![];
        if snap_items(s) != snap_items(s2) {
            bad.push(format!("items {} vs {}", snap_items_txt(&snap_items(s)), snap_items_txt(&snap_items(s2))));
        }
        if s.crc() != s2.crc() {
            bad.push(format!("crc {} vs {}", s.crc(), s2.crc()));
        }
        for (t, i) in probes {
            if s.item(*t, *i) != s2.item(*t, *i) {
                bad.push(format!("item({},{}) {:?} vs {:?}", ty_txt(t), i, s.item(*t, *i), s2.item(*t, *i)));
            }
        }
        bad
    });
    match r {
        Ok(bad) => o.check(bad.is_empty(), "-", id, || format!("{}: {}", what, bad.join("; "))),
        Err(p) => o.check(false, "-", id, || format!("{}: panic {}", what, p)),
    }
}

fn raw_of(s: &Snap) -> Option<RawSnap> {
    let ints = snap_ints(s)?;
    let mut r = RawSnap::empty();
    r.read_from_ints(&mut libtw2_warn::Ignore, &ints).ok()?;
    Some(r)
}
fn registry_of(s: &Snap) -> Option<Vec<ItemV>> {
    let ints = snap_ints(s)?;
    let mut r = RawSnap::empty();
    r.read_from_ints(&mut libtw2_warn::Ignore, &ints).ok()?;
    Some(raw_items(&r).into_iter().filter(|x| x.0 == 0).collect())
}

fn oracle_c10(o: &mut Out, id: &str, ops: &[Op], fresh: Uuid) {
    let (s, res) = match build_ops(ops) {
        Ok(x) => x,
        Err(p) => {
            o.check(false, "-", id, || format!("Builder::add_item panicked: {}", p));
            return;
        }
    };
    let mut probes: Vec<(TypeId, u16)> = ops.iter().map(|x| (x.0, x.1)).collect();
    probes.push((TypeId::Ordinal(1), 0));
    probes.push((TypeId::Ordinal(0x3fff), 0xffff));
    probes.push((TypeId::Uuid(fresh), 0));
    for (op, r) in ops.iter().zip(&res) {
        if r.is_ok() {
            o.check(s.item(op.0, op.1) == Some(&op.2[..]), "-", id, || format!("item({},{}) of the built snapshot is {:?}", ty_txt(&op.0), op.1, s.item(op.0, op.1)));
        }
    }
    let uuids: BTreeSet<Uuid> = ops.iter().filter_map(|x| if let TypeId::Uuid(u) = x.0 { Some(u) } else { None }).collect();
    let mut copies: Vec<(String, Snap)> = vec![];
    // ints
    match guard(|| snap_ints(&s)) {
        Ok(Some(ints)) => {
            o.check(ints.len() * 4 <= 65536, "-", id, || format!("{} ints written", ints.len()));
            // the wire form lists the items by ascending key (type << 16 | id, compared as unsigned), as the reference builder does for items given in that order
            if ints.len() >= 2 {
                let n = ints[1] as usize;
                let offs: Vec<usize> = ints[2..2 + n].iter().map(|x| (*x / 4) as usize).collect();
                let keys: Vec<u32> = offs.iter().map(|o| ints[2 + n + *o] as u32).collect();
                o.check(keys.windows(2).all(|w| w[0] < w[1]), "-", id, || format!("write_to_ints lists the items in the key order {:x?}, not ascending", &keys[..keys.len().min(12)]));
            }
            let mut s2 = Snap::empty();
            let mut w = vec![];
            let r = guard(|| s2.read_from_ints(&mut w, &ints));
            o.check(matches!(r, Ok(Ok(()))) && w.is_empty(), "-", id, || format!("read_from_ints(write_to_ints(S)) = {:?} warnings {}", r, warn_txt(&w)));
            if matches!(r, Ok(Ok(()))) {
                obs_equal(o, id, "after the integer wire form", &s, &s2, &probes);
                copies.push(("ints".into(), s2));
            }
        }
        other => o.check(false, "-", id, || format!("write_to_ints failed: {:?}", other)),
    }
    // bytes
    match guard(|| snap_bytes(&s)) {
        Ok(Some(bytes)) => {
            let mut s2 = Snap::empty();
            let mut w = vec![];
            let mut scratch = vec![];
            let r = guard(|| s2.read(&mut w, &mut scratch, &bytes));
            o.check(matches!(r, Ok(Ok(()))) && w.is_empty(), "-", id, || format!("read(write(S)) = {:?} warnings {}", r, warn_txt(&w)));
            if matches!(r, Ok(Ok(()))) {
                obs_equal(o, id, "after the byte wire form", &s, &s2, &probes);
                copies.push(("bytes".into(), s2));
            }
        }
        other => o.check(false, "-", id, || format!("write failed: {:?}", other)),
    }
    // after a delta (from the empty snapshot and from a changed copy of S)
    let mut bases = vec![Snap::empty()];
    if let Ok((alt, _)) = build_ops(&ops.iter().enumerate().filter(|(i, _)| i % 3 != 1).map(|(i, x)| (x.0, x.1, x.2.iter().map(|v| v.wrapping_add(i as i32 * 77 - 5)).collect())).collect::<Vec<Op>>()) {
        bases.push(alt);
    }
    // the readers replace whatever their target held before: read S into a Snap that holds another snapshot
    for (bi, base) in bases.iter().enumerate() {
        if let Ok(Some(ints)) = guard(|| snap_ints(&s)) {
            let mut t = base.clone();
            let mut w = vec![];
            let r = guard(|| t.read_from_ints(&mut w, &ints));
            o.check(matches!(r, Ok(Ok(()))) && w.is_empty(), "-", id, || format!("read_from_ints(write_to_ints(S)) into a used Snap (base {}) = {:?} warnings {}", bi, r, warn_txt(&w)));
            if matches!(r, Ok(Ok(()))) {
                obs_equal(o, id, "after the integer wire form, read into a used Snap", &s, &t, &probes);
            }
        }
        if let Ok(Some(bytes)) = guard(|| snap_bytes(&s)) {
            let mut t = base.clone();
            let mut w = vec![];
            let mut scratch = vec![1, 2, 3];
            let r = guard(|| t.read(&mut w, &mut scratch, &bytes));
            o.check(matches!(r, Ok(Ok(()))) && w.is_empty(), "-", id, || format!("read(write(S)) into a used Snap (base {}) = {:?} warnings {}", bi, r, warn_txt(&w)));
            if matches!(r, Ok(Ok(()))) {
                obs_equal(o, id, "after the byte wire form, read into a used Snap", &s, &t, &probes);
            }
        }
    }
    for (bi, base) in bases.iter().enumerate() {
        let mut d = Delta::new();
        // K09 (an item keeps its key and changes its length) is outside C10's delta clause
        // (on the raw keys: two builders may number the same UUID types differently)
        let k09 = match (raw_of(base), raw_of(&s)) { (Some(x), Some(y)) => is_k09(&x, &y), _ => true };
        if k09 {
            o.count("after-delta base skipped (K09)");
            continue;
        }
        if guard(|| d.create(base, &s)).is_err() {
            o.check(false, "-", id, || "Delta::create panicked on builder-made snapshots of equal item sizes".into());
            continue;
        }
        let mut s2 = Snap::empty();
        let mut w = vec![];
        let r = guard(|| s2.read_with_delta(&mut w, base, &d));
        o.check(matches!(r, Ok(Ok(()))) && w.is_empty(), "-", id, || format!("read_with_delta(base{}, create(base, S)) = {:?} warnings {}", bi, r, warn_txt(&w)));
        if matches!(r, Ok(Ok(()))) {
            obs_equal(o, id, "after a delta", &s, &s2, &probes);
            copies.push((format!("delta{}", bi), s2));
        }
    }
    // recycle every copy
    let want_reg = registry_of(&s);
    for (how, c) in copies {
        let r = guard(|| {
            let mut bad = vec![];
            // 1 the recycled builder holds exactly the registry of S
            let s3 = c.clone().recycle().finish();
            if registry_of(&s3) != want_reg || snap_items(&s3).1.len() != 0 {
                bad.push(format!("registry after recycle {:?}, before {:?}", registry_of(&s3), want_reg));
            }
            // 2 known types keep their number, a new type gets a fresh one, all of it survives the wire
            let mut b = c.recycle();
            let mut added: Vec<Op> = vec![];
            let mut refused = false;
            for (n, u) in uuids.iter().enumerate() {
                let op: Op = (TypeId::Uuid(*u), n as u16, vec![n as i32, -1]);
                match b.add_item(op.0, op.1, &op.2) {
                    Ok(()) => added.push(op),
                    // only the limits may refuse an item here: the keys are new
                    Err(BuilderError::DuplicateKey) => { bad.push(format!("after recycle: add_item({},{}) = DuplicateKey although the key is new", ty_txt(&op.0), op.1)); refused = true }
                    Err(_) => refused = true,
                }
            }
            let op: Op = (TypeId::Uuid(fresh), 7, vec![42]);
            match b.add_item(op.0, op.1, &op.2) {
                Ok(()) => added.push(op),
                Err(BuilderError::DuplicateKey) => { bad.push("after recycle: add_item of an item of a NEW UUID type = DuplicateKey (its type number collides with a registered one)".to_string()); refused = true }
                Err(_) => refused = true,
            }
            let s4 = b.finish();
            for op in &added {
                if s4.item(op.0, op.1) != Some(&op.2[..]) {
                    bad.push(format!("after recycle+add: item({},{}) = {:?}", ty_txt(&op.0), op.1, s4.item(op.0, op.1)));
                }
            }
            let reg4 = registry_of(&s4).unwrap_or_default();
            if let Some(w) = &want_reg {
                if !w.iter().all(|x| reg4.contains(x)) {
                    bad.push("a registry item changed across recycle".to_string());
                }
                // every UUID type that was registered, plus the ones added now (some adds of `ops` may have been refused)
                let mut all: BTreeSet<Vec<i32>> = w.iter().map(|x| x.2.clone()).collect();
                for u in uuids.iter().chain(std::iter::once(&fresh)) {
                    all.insert(u.as_bytes().chunks(4).map(|c| i32::from_be_bytes([c[0], c[1], c[2], c[3]])).collect());
                }
                if !refused && reg4.len() != all.len() {
                    bad.push(format!("registry has {} entries, {} UUID types are known", reg4.len(), all.len()));
                }
            }
            let ids: BTreeSet<u16> = reg4.iter().map(|x| x.1).collect();
            if ids.len() != reg4.len() {
                bad.push("two UUID types share a type number".to_string());
            }
            if let Some(ints) = snap_ints(&s4) {
                let mut s5 = Snap::empty();
                let mut w = vec![];
                if s5.read_from_ints(&mut w, &ints).is_err() || !w.is_empty() || snap_items(&s5) != snap_items(&s4) {
                    bad.push("the recycled-and-refilled snapshot does not survive the wire".to_string());
                }
            } else {
                bad.push("write_to_ints of the recycled-and-refilled snapshot failed".to_string());
            }
            bad
        });
        match r {
            Ok(bad) => o.check(bad.is_empty(), "-", id, || format!("recycle of the copy read via {}: {}", how, bad.join("; "))),
            Err(p) => o.check(false, "-", id, || format!("recycle of the copy read via {}: panic {}", how, p)),
        }
    }
}

fn do_build(o: &mut Out, ops: &[Op], light: bool, fresh: Uuid) {
    let mut m = Machine::new();
    m.bnew();
    for (t, i, d) in ops {
        m.badd(*t, *i, d);
    }
    m.bfinish(0);
    m.items(0);
    m.crc(0);
    let w = m.wi(0, 16384);
    if let Some(ints) = parse_ints(&w) {
        m.ri(1, &ints);
        m.items(1);
        m.crc(1);
        for (n, (t, i, _)) in ops.iter().enumerate() {
            if n < 6 || n % 97 == 0 {
                m.item(1, *t, *i);
                m.item(0, *t, i.wrapping_add(1));
            }
        }
        m.item(1, TypeId::Uuid(fresh), 0);
        if !light {
            let bytes = pack_ints(&ints);
            m.wb(0, bytes.len());
            m.rb(2, &bytes);
            m.items(2);
            m.wi(0, ints.len().saturating_sub(1));
        }
        m.create(0, 5, 0);
        m.apply(3, 5, 0);
        m.items(3);
        m.recycle(1);
        m.badd(TypeId::Uuid(fresh), 7, &[42]);
        if let Some((t, i, d)) = ops.first() {
            m.badd(*t, *i, d);
        }
        m.bfinish(4);
        m.items(4);
        let w4 = m.wi(4, 16384);
        if let Some(i4) = parse_ints(&w4) {
            m.ri(2, &i4);
            m.items(2);
        }
        m.recycle(3);
        m.bfinish(3);
        m.wi(3, 16384);
    }
    let (id, _) = m.finish(o);
    oracle_c10(o, &id, ops, fresh);
}

fn gen_ops(r: &mut Rng, n_ops: usize, n_uuid: usize, big_items: bool) -> Vec<Op> {
    let ords: Vec<u16> = vec![1, 2, 5, 0x3fff, 0x2000, 64, 9];
    (0..n_ops)
        .map(|_| {
            let t = if n_uuid > 0 && r.chance(1, 2) { TypeId::Uuid(uuid_n(r.below(n_uuid as u64))) } else if r.chance(1, 4) { TypeId::Ordinal(1 + r.below(0x3fff) as u16) } else { TypeId::Ordinal(*r.pick(&ords)) };
            let idmax = if r.chance(1, 2) { 16 } else { 65536 };
            let id = if r.chance(1, 3) { *r.pick(&IDS) } else { r.below(idmax) as u16 };
            let len = if big_items { match r.below(6) { 0 => r.below(3000) as usize, 1 => r.below(200) as usize, _ => r.below(12) as usize } } else { r.below(6) as usize };
            (t, id, gen_data(r, len))
        })
        .collect()
}

fn gen_c10(o: &mut Out, r: &mut Rng, th: bool) {
    let fresh = uuid_n(1000);
    // the empty snapshot, single items, the unit test of the crate
    do_build(o, &[], false, fresh);
    do_build(o, &[(TypeId::Uuid("1a3fcc94-1e53-461e-912e-21200882024b".parse().unwrap()), 1337, vec![0x1234, 0x567890ab_u32 as i32])], false, fresh);
    // two UUID types (defect #8)
    do_build(o, &[(TypeId::Uuid(uuid_n(3)), 7, vec![1, 2]), (TypeId::Uuid(uuid_n(4)), 7, vec![3])], false, fresh);
    // every op list of length <= 3 over a small alphabet
    let alpha: Vec<Op> = vec![
        (TypeId::Ordinal(1), 0, vec![]),
        (TypeId::Ordinal(0x3fff), 0xffff, vec![i32::MIN, i32::MAX]),
        (TypeId::Uuid(uuid_n(0)), 0, vec![-1]),
        (TypeId::Uuid(uuid_n(1)), 0xffff, vec![]),
        (TypeId::Uuid(uuid_n(2)), 0, vec![5, 6, 7, 8, 9]),
        (TypeId::Uuid(uuid_n(0)), 1, vec![0]),
    ];
    for a in &alpha {
        do_build(o, &[a.clone()], false, fresh);
        for b in &alpha {
            do_build(o, &[a.clone(), b.clone()], false, fresh);
            for c in &alpha {
                do_build(o, &[a.clone(), b.clone(), c.clone()], false, fresh);
            }
        }
    }
    o.exhaustive("C10: every builder op list of length <= 3 over 6 ops (2 ordinal, 4 UUID-typed incl. a repeated type and a duplicate key)");
    for n in 0..(if th { 2000 } else { 200 }) {
        let n_uuid = match n % 5 { 0 => 0, 1 => 1 + r.below(3) as usize, 2 => 40, _ => r.below(41) as usize };
        let n_ops = match n % 7 { 0 => r.below(5) as usize, 1 => 40 + r.below(60) as usize, _ => r.below(40) as usize };
        let ops = gen_ops(r, n_ops, n_uuid, n % 16 == 0);
        do_build(o, &ops, false, fresh);
    }
    // a UUID-typed item that is REFUSED because its type item no longer fits, followed by smaller items
    // of the same UUID type that do fit (the registry must not remember a type that was never written)
    for l in (if th { 16300..=16384 } else { 16340..=16384 }) {
        let u = uuid_n(7);
        let ops: Vec<Op> = vec![
            (TypeId::Ordinal(5), 1, vec![0; l]),
            (TypeId::Uuid(u), 7, vec![1, 2, 3]),
            (TypeId::Uuid(u), 8, vec![]),
            (TypeId::Uuid(u), 9, vec![4]),
            (TypeId::Ordinal(6), 2, vec![]),
        ];
        do_build(o, &ops, true, fresh);
    }
    for n_items in 1019..=1024usize {
        let u = uuid_n(8);
        let mut ops: Vec<Op> = (0..n_items).map(|i| (TypeId::Ordinal(9), i as u16, vec![])).collect();
        ops.push((TypeId::Uuid(u), 7, vec![1]));
        ops.push((TypeId::Uuid(u), 8, vec![]));
        ops.push((TypeId::Uuid(uuid_n(9)), 8, vec![]));
        do_build(o, &ops, true, fresh);
    }
    // the byte wire form of a snapshot inside the 64 KiB limit can be longer than 64 KiB (a packed int takes
    // up to 5 bytes): close to 16000 words of large magnitude, ordinal and UUID types
    for (k, total) in [15000usize, 16000, 16300].iter().enumerate() {
        let mut ops: Vec<Op> = vec![];
        let per = 1000usize;
        let n_items = total / per;
        for i in 0..n_items {
            let ty = if i % 2 == 0 { TypeId::Ordinal(20 + k as u16) } else { TypeId::Uuid(uuid_n(11 + k as u64)) };
            let data: Vec<i32> = (0..per).map(|j| match (i + j) % 4 { 0 => i32::MIN + j as i32, 1 => i32::MAX - j as i32, 2 => 0x0800_0000 + (r.next() as i32 & 0x00ff_ffff), _ => -0x0800_0000 - (r.next() as i32 & 0x00ff_ffff) }).collect();
            ops.push((ty, i as u16, data));
        }
        do_build(o, &ops, true, fresh);
    }
    // up to the limits: item count, byte size, many UUID types
    for n in 0..(if th { 30 } else { 3 }) {
        let n_uuid = if n % 2 == 0 { 40 } else { 300 };
        let ops = match n % 3 {
            0 => gen_ops(r, 1100, n_uuid, false),
            1 => gen_ops(r, 60, n_uuid, true),
            _ => {
                let mut v = gen_ops(r, 900, n_uuid, false);
                v.push((TypeId::Ordinal(77), 1, gen_data(r, 12000)));
                v.extend(gen_ops(r, 200, n_uuid, false));
                v
            }
        };
        do_build(o, &ops, true, fresh);
    }
}

// ---------------------------------------------------------------- C11
const BOUNDS: [i32; 16] = [0, 1, -1, 2, 3, 4, 8, 0x3fff, 0x4000, 0x7fff, 0x8000, 0xffff, 0x10000, i32::MIN, i32::MAX, 65536 / 4];

/// snapshot wire ints from (key, data) pairs exactly in the given order (duplicates allowed)
fn craft_snap(items: &[(i32, Vec<i32>)]) -> Vec<i32> {
    let data: usize = items.iter().map(|x| 1 + x.1.len()).sum();
    let mut v = vec![(data * 4) as i32, items.len() as i32];
    let mut off = 0;
    for it in items {
        v.push(off);
        off += 4 * (1 + it.1.len() as i32);
    }
    for it in items {
        v.push(it.0);
        v.extend(&it.1);
    }
    v
}
/// delta wire ints
fn craft_delta(del: &[i32], upd: &[(i32, i32, Option<i32>, Vec<i32>)]) -> Vec<i32> {
    let mut v = vec![del.len() as i32, upd.len() as i32, 0];
    v.extend(del);
    for (t, i, s, d) in upd {
        v.push(*t);
        v.push(*i);
        if let Some(s) = s {
            v.push(*s);
        }
        v.extend(d);
    }
    v
}

struct Hostile {
    /// accepted snapshots (as ints) seen so far: partners for create / apply
    pool: Vec<Vec<i32>>,
    deltas: Vec<(Table, Vec<i32>)>,
    cost: CostTie,
}

// ---------------------------------------------------------------- the model's allocation meter
/// Real peak live bytes of a reader call (fresh receiver, non-allocating warning sink) are held
/// against the high-water mark of the cost-instrumented Coq model (Model/SnapCost.v, words of
/// payload requested): real <= COST_B * model_words + COST_K.  The model's numbers come from the
/// extracted model itself: the OCaml driver is run in cost mode over `cost_cases.txt`.
/// COST_B: 4 bytes per word x the allocator's slack (Vec doubling: 2x; B-tree leaves at least
/// half full + inner nodes: 144-byte leaves of 5..11 offsets entries <= 3x, 56-byte leaves of
/// 5..11 set elements <= 3.8x; measured on the hostile stream: <= 2.3x);
/// COST_K: one minimal leaf per map/set (144 + 144 + 56 + 216 bytes) and the minimal Vec capacities.
const COST_B: usize = 16;
const COST_K: usize = 512;
struct CostTie {
    file: Option<std::io::BufWriter<std::fs::File>>,
    dir: std::path::PathBuf,
    /// (cost id, case id, what, real peak bytes)
    pending: Vec<(String, String, String, usize)>,
    /// the absolute statement of the property, judged after the model-referenced one so that a
    /// failing case lists both, the model's figure first: cost id -> (input bytes, real peak bytes incl. the warning vector)
    absolute: std::collections::HashMap<String, (usize, usize)>,
}
impl CostTie {
    fn new(dir: &std::path::Path) -> CostTie {
        let file = std::fs::File::create(dir.join("cost_cases.txt")).ok().map(std::io::BufWriter::new);
        CostTie { file, dir: dir.to_path_buf(), pending: vec![], absolute: Default::default() }
    }
    /// as `record`, plus the absolute check `used_abs <= 48 x input_bytes + 4 KiB` for the same call
    fn record_abs(&mut self, case_id: &str, what: &str, cmd: String, used: usize, input_bytes: usize, used_abs: usize) {
        self.record(case_id, what, cmd, used);
        let cid = self.pending.last().unwrap().0.clone();
        self.absolute.insert(cid, (input_bytes, used_abs));
    }
    fn check_abs(&self, o: &mut Out, cid: &str, case_id: &str) {
        if let Some(&(input_bytes, used)) = self.absolute.get(cid) {
            o.check(used <= 48 * input_bytes + 4096, "-", case_id, || format!("reading {} input bytes allocated {} bytes", input_bytes, used));
        }
    }
    fn check_abs_all(&self, o: &mut Out) {
        for (cid, case_id, _, _) in &self.pending {
            self.check_abs(o, cid, case_id);
        }
    }
    /// remember one metered reader call; `cmd` is the line the driver's cost mode understands
    fn record(&mut self, case_id: &str, what: &str, cmd: String, used: usize) {
        use std::io::Write;
        let cid = format!("k{}", self.pending.len() + 1);
        if let Some(f) = self.file.as_mut() {
            let _ = writeln!(f, "{}\t{}", cid, cmd);
        }
        self.pending.push((cid, case_id.to_string(), what.to_string(), used));
    }
    /// run the extracted model over the recorded calls and compare
    fn finish(mut self, o: &mut Out) {
        use std::io::Write;
        if self.pending.is_empty() {
            return;
        }
        let ok_file = match self.file.take() {
            Some(mut f) => f.flush().is_ok(),
            None => false,
        };
        // <build>/run/<property>/<component>/ -> <build>/ocaml/_build/default/drv_snap.exe
        let drv = std::env::var("DRV_SNAP").map(std::path::PathBuf::from).unwrap_or_else(|_| {
            let abs = std::fs::canonicalize(&self.dir).unwrap_or(self.dir.clone());
            abs.join("../../../ocaml/_build/default/drv_snap.exe")
        });
        let out = if !ok_file {
            Err("cost_cases.txt could not be written".to_string())
        } else {
            std::fs::File::open(self.dir.join("cost_cases.txt")).map_err(|e| e.to_string()).and_then(|inp| {
                std::process::Command::new(&drv)
                    .env("DRV_SNAP_COST", "1")
                    .stdin(inp)
                    .stderr(std::process::Stdio::null())
                    .output()
                    .map_err(|e| format!("{}: {}", drv.display(), e))
            })
        };
        let text = match out {
            Ok(x) if x.status.success() => String::from_utf8_lossy(&x.stdout).into_owned(),
            Ok(x) => {
                o.check(false, "-", "cost-model", || format!("the model driver in cost mode ended with {} ({})", x.status, drv.display()));
                self.check_abs_all(o);
                return;
            }
            Err(e) => {
                o.check(false, "-", "cost-model", || format!("the model driver could not be run in cost mode: {}", e));
                self.check_abs_all(o);
                return;
            }
        };
        let _ = std::fs::write(self.dir.join("cost_model.txt"), &text);
        let real: String = self.pending.iter().map(|(cid, case_id, what, used)| format!("{}\t{}\t{}\t{}\n", cid, case_id, what, used)).collect();
        let _ = std::fs::write(self.dir.join("cost_real.txt"), real);
        let model: std::collections::HashMap<&str, &str> = text.lines().filter_map(|l| l.split_once('\t')).collect();
        let (mut worst_pm, mut worst_at) = (0usize, String::new());
        for (cid, case_id, what, used) in &self.pending {
            let m = model.get(cid.as_str()).copied().unwrap_or("missing");
            if m == "-" {
                o.count("cost-tie: operands not accepted by the model (skipped)");
                self.check_abs(o, cid, case_id);
                continue;
            }
            let words: Option<usize> = m.split(':').next().and_then(|x| x.parse().ok());
            match words {
                None => o.check(false, "-", case_id, || format!("{}: no model peak for this call (driver said {:?})", what, m)),
                Some(wd) => {
                    o.count("cost-tie: reader calls held against the model's peak");
                    let bound = COST_B * wd + COST_K;
                    let pm = used * 1000 / bound;
                    if pm > worst_pm {
                        worst_pm = pm;
                        worst_at = format!("{} {}: real {} bytes, model {} words", case_id, what, used, wd);
                    }
                    o.check(*used <= bound, "-", case_id, || {
                        format!("{}: the real code held {} bytes at its peak; the model's high-water mark is {} words, allowing {} x {} + {} = {} bytes", what, used, wd, COST_B, wd, COST_K, bound)
                    });
                }
            }
            self.check_abs(o, cid, case_id);
        }
        o.count(&format!("cost-tie: worst real/({} x model words + {}) = {}.{:03} at {}", COST_B, COST_K, worst_pm / 1000, worst_pm % 1000, worst_at));
    }
}
/// peak live bytes of `f` above the level at entry (panics are caught)
fn metered_guarded(f: impl FnOnce()) -> usize {
    metered(|| {
        let _ = guard(f);
    })
    .1
}

/// every follow-up operation on an accepted snapshot in register S0 (ints `src`)
fn snap_followups(o: &mut Out, h: &mut Hostile, r: &mut Rng, m: &mut Machine, fresh: Uuid) {
    m.items(0);
    m.crc(0);
    let w = m.wi(0, 16384);
    if let Some(ints) = parse_ints(&w) {
        m.ri(1, &ints);
        m.items(1);
        m.crc(1);
        if r.chance(1, 3) {
            let bytes = pack_ints(&ints);
            m.wb(0, bytes.len());
            m.rb(1, &bytes);
            m.items(1);
        }
        // lookups: first keys of the snapshot, boundary types
        let nitems = ints.get(1).copied().unwrap_or(0) as usize;
        for k in 0..nitems.min(3) {
            let key = ints[2 + nitems + (ints[2 + k] / 4) as usize];
            let (t, i) = ((key as u32 >> 16) as u16, key as u16);
            if t > 0 && t < 0x4000 {
                m.item(0, TypeId::Ordinal(t), i);
            }
        }
        m.item(0, TypeId::Uuid(fresh), 0);
        m.item(0, TypeId::Uuid(uuid_n(0)), 0x4000);
        // against another accepted snapshot, both directions, and against itself
        if !h.pool.is_empty() {
            let other = r.pick(&h.pool).clone();
            m.ri(2, &other);
            if m.create(0, 2, 0) == "ok" {
                m.apply(3, 2, 0);
                m.items(3);
                m.crc(3);
            }
        }
        if !m.dead && !h.pool.is_empty() {
            if m.create(1, 0, 2) == "ok" {
                m.apply(3, 0, 1);
                m.crc(3);
            }
        }
        if !m.dead {
            m.create(2, 0, 0);
            m.apply(3, 0, 2);
            m.crc(3);
        }
        // an accepted delta on it
        if !m.dead && !h.deltas.is_empty() {
            let (t, d) = r.pick(&h.deltas).clone();
            m.dri(3, &t, &d);
            m.apply(4, 0, 3);
            m.items(4);
        }
        // recycle, add a known and a new UUID type and an ordinal, finish, write, read
        if !m.dead {
            m.recycle(0);
            m.badd(TypeId::Uuid(fresh), 7, &[42]);
            m.badd(TypeId::Uuid(uuid_n(0)), 1, &[1]);
            m.badd(TypeId::Ordinal(5), 1, &[1, 2, 3]);
            m.bfinish(0);
            m.items(0);
            let w2 = m.wi(0, 16384);
            if let Some(i2) = parse_ints(&w2) {
                m.ri(1, &i2);
                m.items(1);
                m.recycle(1);
                m.badd(TypeId::Uuid(uuid_n(77)), 0, &[]);
                m.bfinish(1);
                m.wi(1, 16384);
            }
        }
        if ints.len() > 600 {
            // too big a partner for every later case
        } else if h.pool.len() < 400 || r.chance(1, 20) {
            if h.pool.len() >= 400 {
                let k = r.below(h.pool.len() as u64) as usize;
                h.pool[k] = ints;
            } else {
                h.pool.push(ints);
            }
        }
    }
    let _ = o;
}

/// judge a finished hostile script: panics, limits, reusability
fn judge(o: &mut Out, id: &str, m_out: &[String], m_script: &[String], panic_msg: &Option<String>) {
    if let Some(p) = panic_msg {
        // the only known class: Delta::create between snapshots that share a key with different lengths
        let class = if p.starts_with("create") && p.contains("item sizes can't be mismatched") { "K09" } else { "-" };
        if class == "K09" && K09_LISTED.fetch_add(1, Ordering::Relaxed) >= 300 {
            o.count("K09 pairs (create panics; not listed)");
        } else {
            o.check(false, class, id, || format!("panic in {} after [{}]", p, m_script.join(" | ").chars().take(400).collect::<String>()));
        }
    }
    // accepted snapshot: limits, and write/read gives an equal snapshot
    let find = |name: &str, from: usize| m_out.iter().enumerate().skip(from).find(|(_, x)| x.starts_with(name)).map(|(i, x)| (i, x.clone()));
    if m_out.first().map(|x| x.starts_with("ri=ok") || x.starts_with("rb=ok")).unwrap_or(false) {
        if let (Some((_, it0)), Some((_, crc0)), Some((iw, w))) = (find("items=", 0), find("crc=", 0), find("wi=", 0)) {
            if let Some(ints) = parse_ints(&w[3..]) {
                let n: usize = it0[6..].split(':').next().unwrap().parse().unwrap_or(0);
                o.check(ints.len() * 4 <= 65536 && ints[1] <= 1024 && n <= 1024, "-", id, || format!("accepted snapshot has {} items, {} bytes", ints[1], ints.len() * 4));
                let back = find("ri=", iw).map(|x| x.1);
                let it1 = find("items=", iw).map(|x| x.1);
                let crc1 = find("crc=", iw).map(|x| x.1);
                o.check(back.as_deref().map(|x| x.starts_with("ri=ok:")).unwrap_or(false) && it1.as_ref() == Some(&it0) && crc1.as_ref() == Some(&crc0), "-", id,
                        || format!("accepted snapshot written and read back: {:?} {:?} {:?} instead of {} {}", back, it1, crc1, it0, crc0));
            } else {
                o.check(false, "-", id, || format!("accepted snapshot cannot be written: {}", w));
            }
        }
    }
}

fn do_hostile_snap(o: &mut Out, h: &mut Hostile, r: &mut Rng, ints: &[i32], as_bytes: Option<&[u8]>, fresh: Uuid) {
    let mut m = Machine::new();
    let res = match as_bytes {
        Some(b) => m.rb(0, b),
        None => m.ri(0, ints),
    };
    // allocation: a small multiple of the input
    let input_bytes = as_bytes.map(|b| b.len()).unwrap_or(ints.len() * 4);
    let (_, used) = metered(|| {
        let _ = guard(|| {
            let mut s = Snap::empty();
            let mut w = vec![];
            match as_bytes {
                Some(b) => { let mut scratch = vec![]; let _ = s.read(&mut w, &mut scratch, b); }
                None => { let _ = s.read_from_ints(&mut w, ints); }
            }
            std::mem::forget(w);
            std::mem::forget(s);
        });
    });
    // the same call for the model's meter: the library's containers only (no warning vector)
    let used_lib = metered_guarded(|| {
        let mut s = Snap::empty();
        match as_bytes {
            Some(b) => { let mut scratch = vec![]; let _ = s.read(&mut libtw2_warn::Ignore, &mut scratch, b); }
            None => { let _ = s.read_from_ints(&mut libtw2_warn::Ignore, ints); }
        }
    });
    let cost_cmd = m.script[0].replacen(" 0 ", " ", 1);
    if res.starts_with("ok") {
        snap_followups(o, h, r, &mut m, fresh);
    }
    let (out, script, pm) = (m.out.clone(), m.script.clone(), m.panic_msg.clone());
    let (id, _) = m.finish(o);
    h.cost.record_abs(&id, if as_bytes.is_some() { "Snap::read" } else { "Snap::read_from_ints" }, cost_cmd, used_lib, input_bytes, used);
    judge(o, &id, &out, &script, &pm);
}

fn do_hostile_delta(o: &mut Out, h: &mut Hostile, r: &mut Rng, t: &Table, ints: &[i32], as_bytes: Option<&[u8]>) {
    let mut m = Machine::new();
    let res = match as_bytes {
        Some(b) => m.drb(0, t, b),
        None => m.dri(0, t, ints),
    };
    let input_bytes = as_bytes.map(|b| b.len()).unwrap_or(ints.len() * 4);
    let (_, used) = metered(|| {
        let _ = guard(|| {
            let mut d = Delta::new();
            let mut w = vec![];
            match as_bytes {
                Some(b) => { let _ = d.read(&mut w, tbl_fn(t), &mut Unpacker::new(b)); }
                None => { let _ = d.read_from_ints(&mut w, tbl_fn(t), &mut IntUnpacker::new(ints)); }
            }
            std::mem::forget(w);
            std::mem::forget(d);
        });
    });
    let used_lib = metered_guarded(|| {
        let mut d = Delta::new();
        match as_bytes {
            Some(b) => { let _ = d.read(&mut libtw2_warn::Ignore, tbl_fn(t), &mut Unpacker::new(b)); }
            None => { let _ = d.read_from_ints(&mut libtw2_warn::Ignore, tbl_fn(t), &mut IntUnpacker::new(ints)); }
        }
    });
    let cost_cmd = m.script[0].replacen(" 0 ", " ", 1);
    let mut cost_apply: Option<(String, usize)> = None;
    let mut reusable = None;
    if res.starts_with("ok") {
        // written out with explicit sizes and read back: the same delta again
        let need = 2 * input_bytes + 16;
        let dump = m.dwi(0, &vec![], need);
        if let Some(di) = parse_ints(&dump) {
            let back = m.dri(1, &vec![], &di);
            let dump2 = m.dwi(1, &vec![], need);
            reusable = Some((back, dump == dump2, dump.clone()));
            if r.chance(1, 3) {
                m.dwb(0, &vec![], need * 5);
            }
            // applied to accepted snapshots (raw level: any keys; snap level: with the registry check)
            let base: Vec<ItemV> = vec![(5, 1, vec![9, 9]), (0, 0x4000, vec![1, 2, 3, 4]), (0x4000, 1, vec![7]), (0x8000, 2, vec![]), (1, 1, vec![0; 10])];
            m.rbuild(0, &base);
            m.rapply(1, 0, 0);
            m.ritems(1);
            m.rcrc(1);
            m.rwi(1, 16384);
            if !m.dead && !h.pool.is_empty() {
                let other = r.pick(&h.pool).clone();
                // Snap::read_with_delta on fresh values, for the model's meter
                let (mut s0, mut d0) = (Snap::empty(), Delta::new());
                if s0.read_from_ints(&mut libtw2_warn::Ignore, &other).is_ok()
                    && d0.read_from_ints(&mut libtw2_warn::Ignore, |_| None, &mut IntUnpacker::new(&di)).is_ok()
                {
                    let used_apply = metered_guarded(|| {
                        let mut s = Snap::empty();
                        let _ = s.read_with_delta(&mut libtw2_warn::Ignore, &s0, &d0);
                    });
                    cost_apply = Some((format!("apply {} - {}", ints_txt(&other), ints_txt(&di)), used_apply));
                }
                m.ri(0, &other);
                m.apply(1, 0, 0);
                m.items(1);
                let w = m.wi(1, 16384);
                if let Some(i2) = parse_ints(&w) {
                    m.ri(2, &i2);
                    m.recycle(2);
                    m.bfinish(2);
                }
            }
            if !m.dead {
                m.apply(3, 5, 0);
                m.items(3);
                m.crc(3);
            }
            if h.deltas.len() < 300 {
                h.deltas.push((vec![], di));
            }
        }
    }
    let (script, pm) = (m.script.clone(), m.panic_msg.clone());
    let (id, _) = m.finish(o);
    h.cost.record_abs(&id, if as_bytes.is_some() { "Delta::read" } else { "Delta::read_from_ints" }, cost_cmd, used_lib, input_bytes, used);
    if let Some((cmd, used_apply)) = cost_apply {
        h.cost.record(&id, "Snap::read_with_delta", cmd, used_apply);
    }
    if let Some(p) = &pm {
        o.check(false, "-", &id, || format!("panic in {} after [{}]", p, script.join(" | ").chars().take(400).collect::<String>()));
    }
    if let Some((back, same, dump)) = reusable {
        // duplicates of an update are dropped by the reader (DuplicateUpdate is a warning on the first read only)
        o.check(back.starts_with("ok:") && same, "-", &id, || format!("accepted delta {} written and read back: {} same={}", dump, back, same));
    }
}

fn edgy_ints(r: &mut Rng, n: usize) -> Vec<i32> {
    (0..n).map(|_| match r.below(5) { 0 => *r.pick(&BOUNDS), 1 => r.range(0, 40) as i32 * 4, 2 => r.range(-3, 12) as i32, 3 => r.i32_edgy(), _ => key_of(*r.pick(&TYPES), *r.pick(&IDS)) }).collect()
}

fn gen_c11(o: &mut Out, r: &mut Rng, th: bool, dir: &std::path::Path) {
    let fresh = uuid_n(1000);
    let mut h = Hostile { pool: vec![], deltas: vec![], cost: CostTie::new(dir) };
    let u = |n: u64| -> Vec<i32> { let b = uuid_n(n); b.as_bytes().chunks(4).map(|c| i32::from_be_bytes([c[0], c[1], c[2], c[3]])).collect() };
    // ---- valid bases
    let mut bases: Vec<Vec<i32>> = vec![
        craft_snap(&[]),
        craft_snap(&[(key_of(5, 1), vec![9, 9])]),
        craft_snap(&[(key_of(1, 0), vec![]), (key_of(1, 1), vec![1]), (key_of(0x3fff, 0xffff), vec![-1, i32::MIN, i32::MAX])]),
        craft_snap(&[(key_of(0, 0x4000), u(3)), (key_of(0, 0x4001), u(4)), (key_of(0x4000, 7), vec![1, 2]), (key_of(0x4001, 7), vec![3])]),
        craft_snap(&[(key_of(0, 0x7fff), u(5)), (key_of(0x7fff, 0), vec![5])]),
        craft_snap(&[(key_of(0, 0xffff), u(6)), (key_of(0xffff, 0xffff), vec![6])]),
        craft_snap(&[(key_of(0, 0x8000), u(7)), (key_of(0x8000, 0), vec![7]), (key_of(2, 2), vec![0; 6])]),
        craft_snap(&[(key_of(0, 5), u(8)), (key_of(5, 5), vec![1, 2, 3])]),
        craft_snap(&[(key_of(0, 0), u(9))]),
    ];
    for n in 0..6 {
        if let Ok((s, _)) = build_ops(&gen_ops(r, 3 + n * 2, 3, false)) {
            if let Some(i) = snap_ints(&s) { bases.push(i); }
        }
    }
    for b in &bases {
        do_hostile_snap(o, &mut h, r, b, None, fresh);
    }
    // ---- registry chains: ids that drive recycle's numbering to its ends (defect #10)
    let chains: Vec<(u32, u32, usize)> = if th {
        vec![(0x4000, 255, 70), (0x4000, 255, 200), (0x4000, 1, 300), (0x7f00, 1, 256), (0x3f80, 100, 3), (0xfe00, 250, 3), (0x4000, 256, 4)]
    } else {
        vec![(0x4000, 255, 70), (0x7fe0, 1, 32), (0x3f80, 100, 3), (0xfe00, 250, 3), (0x4000, 256, 4)]
    };
    for (start, step, count) in chains {
        let mut items: Vec<(i32, Vec<i32>)> = vec![];
        let mut id = start;
        for n in 0..count {
            if id > 0xffff { break; }
            items.push((key_of(0, id as u16), u(100 + n as u64)));
            id += step;
        }
        let top = (id - step).min(0xffff);
        for last in (if th { vec![top, 0x7fff, 0x7ffe, 0xffff, 0xfffe] } else { vec![top, 0x7fff, 0xffff] }) {
            let mut it = items.clone();
            if !it.iter().any(|x| x.0 == key_of(0, last as u16)) {
                it.push((key_of(0, last as u16), u(99)));
            }
            do_hostile_snap(o, &mut h, r, &craft_snap(&it), None, fresh);
        }
    }
    // ---- every single-field corruption with each boundary value; truncation at every position
    for (bi, b) in bases.iter().enumerate() {
        if b.len() > 60 && !th && bi % 2 == 0 { continue; }
        for pos in 0..b.len() {
            let mut vals: Vec<i32> = BOUNDS.to_vec();
            vals.extend([b[pos].wrapping_add(1), b[pos].wrapping_sub(1), b[pos].wrapping_add(4), b[pos].wrapping_sub(4), b[pos] ^ 0x10000, b[pos] ^ (0x8000_0000u32 as i32)]);
            for v in vals {
                if v == b[pos] { continue; }
                let mut c = b.clone();
                c[pos] = v;
                do_hostile_snap(o, &mut h, r, &c, None, fresh);
            }
            do_hostile_snap(o, &mut h, r, &b[..pos], None, fresh);
        }
        let mut ext = b.clone();
        ext.push(0);
        do_hostile_snap(o, &mut h, r, &ext, None, fresh);
        let bytes = pack_ints(b);
        for cut in 0..=bytes.len() {
            if cut < bytes.len() && bytes.len() > 80 && cut % 7 != 0 { continue; }
            do_hostile_snap(o, &mut h, r, &[], Some(&bytes[..cut]), fresh);
        }
        for _ in 0..(if th { 60 } else { 12 }) {
            let mut c = bytes.clone();
            if c.is_empty() { break; }
            let k = r.below(c.len() as u64) as usize;
            c[k] = if r.chance(1, 2) { r.byte() } else { *r.pick(&[0u8, 0x80, 0xff, 0x40, 0x7f, 0xc0]) };
            do_hostile_snap(o, &mut h, r, &[], Some(&c), fresh);
        }
    }
    // ---- duplicate keys, registry items of wrong length, type numbers across the 16-bit range
    for t in [0u16, 1, 0x3fff, 0x4000, 0x7fff, 0x8000, 0xffff] {
        do_hostile_snap(o, &mut h, r, &craft_snap(&[(key_of(t, 1), vec![1]), (key_of(t, 1), vec![2])]), None, fresh);
        do_hostile_snap(o, &mut h, r, &craft_snap(&[(key_of(t, 1), vec![1]), (key_of(t, 2), vec![2]), (key_of(t, 1), vec![])]), None, fresh);
        for len in 0..=6 {
            do_hostile_snap(o, &mut h, r, &craft_snap(&[(key_of(0, t), (0..len).collect()), (key_of(t, 3), vec![1])]), None, fresh);
        }
        // the same UUID registered twice
        do_hostile_snap(o, &mut h, r, &craft_snap(&[(key_of(0, t), u(1)), (key_of(0, t.wrapping_add(1)), u(1))]), None, fresh);
        // a UUID-range type without registry item, with one, with one of another number
        do_hostile_snap(o, &mut h, r, &craft_snap(&[(key_of(t, 0), vec![1]), (key_of(t, 1), vec![1])]), None, fresh);
        do_hostile_snap(o, &mut h, r, &craft_snap(&[(key_of(t, 0), vec![1]), (key_of(0, t.wrapping_add(1)), u(2))]), None, fresh);
    }
    // oversized counts and limits
    do_hostile_snap(o, &mut h, r, &[0, i32::MAX], None, fresh);
    do_hostile_snap(o, &mut h, r, &[i32::MAX - 3, 0], None, fresh);
    do_hostile_snap(o, &mut h, r, &[i32::MAX - 3, i32::MAX], None, fresh);
    for n in (if th { vec![1023usize, 1024, 1025, 2000] } else { vec![1024usize, 1025] }) {
        let items: Vec<(i32, Vec<i32>)> = (0..n).map(|i| (key_of((i % 7) as u16 + 1, i as u16), vec![i as i32])).collect();
        do_hostile_snap(o, &mut h, r, &craft_snap(&items), None, fresh);
    }
    for len in (if th { vec![16379usize, 16380, 16381] } else { vec![16380usize, 16381] }) {
        do_hostile_snap(o, &mut h, r, &craft_snap(&[(key_of(3, 3), vec![1; len])]), None, fresh);
        if th {
            do_hostile_snap(o, &mut h, r, &craft_snap(&[(key_of(3, 3), vec![1; len / 2]), (key_of(3, 4), vec![-1; len - len / 2 - 2])]), None, fresh);
        }
    }
    // ---- random words
    for _ in 0..(if th { 60_000 } else { 6_000 }) {
        let n = r.below(14) as usize;
        let mut v = edgy_ints(r, n);
        if n >= 2 && r.chance(2, 3) {
            // plausible header
            let ni = r.below(4) as i32;
            v[1] = ni;
            v[0] = 4 * (n as i32 - 2 - ni).max(0);
        }
        if r.chance(1, 4) {
            let b = if r.chance(1, 2) { pack_ints(&v) } else { r.bytes(n * 2) };
            do_hostile_snap(o, &mut h, r, &[], Some(&b), fresh);
        } else {
            do_hostile_snap(o, &mut h, r, &v, None, fresh);
        }
    }

    // ---- deltas
    let tbl: Table = vec![(5, 2), (7, 1), (0x8000, 1), (9, 0), (1, 10)];
    let dbases: Vec<Vec<i32>> = vec![
        craft_delta(&[], &[]),
        craft_delta(&[key_of(5, 1)], &[]),
        craft_delta(&[], &[(5, 1, None, vec![1, 2])]),                       // updates 5/1 of the base (2 ints): sizes agree
        craft_delta(&[], &[(5, 1, Some(3), vec![1, 2, 3])]),                 // explicit size 3 (read with the empty table): defect #9
        craft_delta(&[key_of(1, 1), key_of(0x8000, 2)], &[(0x4000, 1, Some(1), vec![5]), (64, 0, Some(0), vec![]), (0xffff, 0xffff, Some(2), vec![i32::MIN, i32::MAX])]),
        craft_delta(&[key_of(5, 1), key_of(5, 1)], &[(5, 1, None, vec![0, 0]), (5, 1, None, vec![1, 1])]),
        craft_delta(&[], &[(0, 0x4000, Some(4), vec![1, 1, 1, 1]), (0, 0x4001, Some(3), vec![1, 1, 1]), (0x4002, 0, Some(0), vec![])]),
    ];
    for b in &dbases {
        for t in [&tbl, &vec![]] {
            do_hostile_delta(o, &mut h, r, t, b, None);
            for pos in 0..b.len() {
                let mut vals: Vec<i32> = BOUNDS.to_vec();
                vals.extend([b[pos].wrapping_add(1), b[pos].wrapping_sub(1)]);
                for v in vals {
                    if v == b[pos] { continue; }
                    let mut c = b.clone();
                    c[pos] = v;
                    do_hostile_delta(o, &mut h, r, t, &c, None);
                }
                do_hostile_delta(o, &mut h, r, t, &b[..pos], None);
            }
            let bytes = pack_ints(b);
            for cut in 0..=bytes.len() {
                do_hostile_delta(o, &mut h, r, t, &[], Some(&bytes[..cut]));
            }
            let mut over = bytes.clone();
            over.extend([0x80, 0x00]);      // an overlong zero
            do_hostile_delta(o, &mut h, r, t, &[], Some(&over));
        }
    }
    // every existing item of the apply base updated with every length 0..4
    for (ty, id) in [(5i32, 1i32), (0, 0x4000), (0x4000, 1), (0x8000, 2), (1, 1)] {
        for len in 0..5 {
            do_hostile_delta(o, &mut h, r, &vec![], &craft_delta(&[], &[(ty, id, Some(len), (0..len).collect())]), None);
            do_hostile_delta(o, &mut h, r, &vec![], &craft_delta(&[key_of(ty as u16, id as u16)], &[(ty, id, Some(len), (0..len).collect())]), None);
        }
    }
    // too many items / too long through a delta
    let many: Vec<(i32, i32, Option<i32>, Vec<i32>)> = (0..1030).map(|i| (3, i, Some(1), vec![i])).collect();
    if th {
        do_hostile_delta(o, &mut h, r, &vec![], &craft_delta(&[], &many[..1019]), None);
        do_hostile_delta(o, &mut h, r, &vec![], &craft_delta(&[], &many[..1020]), None);
    }
    do_hostile_delta(o, &mut h, r, &vec![], &craft_delta(&[], &many), None);
    do_hostile_delta(o, &mut h, r, &vec![], &craft_delta(&[], &[(3, 3, Some(16360), vec![1; 16360])]), None);
    do_hostile_delta(o, &mut h, r, &vec![], &craft_delta(&[], &[(3, 3, Some(17000), vec![1; 17000])]), None);
    do_hostile_delta(o, &mut h, r, &vec![], &[0, 1, 0, 3, 3, i32::MAX], None);
    do_hostile_delta(o, &mut h, r, &vec![], &[i32::MAX, 0, 0, 1, 2, 3], None);
    do_hostile_delta(o, &mut h, r, &vec![(3, u32::MAX)], &[0, 1, 0, 3, 3, 1], None);
    for _ in 0..(if th { 60_000 } else { 6_000 }) {
        let n = r.below(16) as usize;
        let mut v = edgy_ints(r, n);
        if n >= 3 && r.chance(2, 3) {
            v[0] = r.below(3) as i32;
            v[1] = r.below(4) as i32;
            v[2] = if r.chance(1, 8) { 1 } else { 0 };
            let mut k = 3 + v[0] as usize;
            while k + 2 < n && r.chance(3, 4) {
                v[k] = *r.pick(&[5, 7, 0, 64, 0x4000, 0x8000, 0xffff, 1, 9]);
                v[k + 1] = *r.pick(&[0, 1, 2, 0x4000, 0xffff]);
                v[k + 2] = r.below(4) as i32;
                k += 3 + v[k + 2] as usize;
            }
        }
        let t = if r.chance(1, 2) { tbl.clone() } else { vec![] };
        if r.chance(1, 4) {
            let b = if r.chance(1, 2) { pack_ints(&v) } else { r.bytes(n * 2) };
            do_hostile_delta(o, &mut h, r, &t, &[], Some(&b));
        } else {
            do_hostile_delta(o, &mut h, r, &t, &v, None);
        }
    }
    // ---- the allocation meter of the real code against the model's meter, call by call
    h.cost.finish(o);
}

fn main() {
    let a = Args::parse();
    let mode = a.extra.first().cloned().unwrap_or_else(|| "c09".into());
    let rule = match mode.as_str() {
        "c09" => "pairs of raw snapshots (A,B): one key exhaustively (157x157 states), two keys straddling 0x8000 (thorough), random 1..4 keys from a 13-key universe, random pairs up to 1024 items / 64 KiB; per pair: create, dump, apply, table/explicit-size wire forms in ints and bytes, read back, apply again, the DDNet reference (delta + serialisation) where it can represent the pair; refbuild / refdelta: the real C++ CSnapshotBuilder / CSnapshotDelta::CreateDelta against their Gallina model (Model/SnapRef.v) on those pairs and on items in any order, duplicate keys, size changes, overflowing hash buckets, the builder's limits. distinct = distinct sequences of command outcomes (ok/err kind/warnings/panic)",
        "c10" => "builder op lists (exhaustive up to length 3 over 6 ops; random with 0..40 UUID types interleaved with ordinals; up to the item and size limits): build, items, crc, write ints/bytes, read back, lookups, after a delta, recycle + add a known and a fresh UUID type. distinct = distinct sequences of command outcomes",
        _ => "hostile snapshot and delta inputs (valid bases, every single-field corruption x 16 boundary values and neighbours, truncation at every int and byte position, duplicate keys, registry items of wrong length, type numbers across the 16-bit range, registry id chains, oversized counts, random words and bytes), each followed by every follow-up operation on what was accepted; every hostile reader call and every read_with_delta of an accepted delta on an accepted snapshot is metered on the real allocator and held against the high-water mark of the cost-instrumented model (Model/SnapCost.v, run by the driver in cost mode). distinct = distinct sequences of command outcomes",
    };
    let mut o = Out::new(&a, rule);
    let mut r = Rng::new(a.seed ^ match mode.as_str() { "c09" => 0x900, "c10" => 0x1000, _ => 0x1100 });
    let th = a.thorough();
    match mode.as_str() {
        "c09" => {
            let mut cx = Ctx { refdelta: refsnap::Delta::new() };
            gen_c09(&mut o, &mut cx, &mut r, th);
        }
        "c10" => gen_c10(&mut o, &mut r, th),
        _ => gen_c11(&mut o, &mut r, th, &a.out),
    }
    o.finish();
}

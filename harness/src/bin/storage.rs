//! C13: client and server snapshot state never diverge silently — the real `Storage` (sending side,
//! driven exactly like `send_snapshots` in server/src/main.rs) and the real `Manager` (receiving
//! side) of libtw2-snapshot, connected by a lossy / duplicating / reordering channel in each
//! direction, against the Coq model Model/Storage.v.
//!
//! A case is one history:
//!   hist <t0> <table> <label> <label> ...        (tab after each of the first three fields, labels blank separated)
//! labels:
//!   W<items>   the game advances one tick, the world becomes <items>
//!   S          send_snapshots: new_builder, add_item.., finish, add_snap, Delta::write, delta_chunks -> channel
//!   D<k> X<k>  message k of the channel reaches the Manager (and stays) / is lost
//!   A          the client puts ack_tick().unwrap_or(-1) on the ack channel
//!   R<k> Y<k>  ack k reaches Storage::set_delta_tick (and stays) / is lost
//!   F<v>       the value v appears on the ack channel
//!   Z          the client calls Manager::reset()
//!   I<msg>     a message nobody sent reaches the Manager (hostile; ends the agreement oracle for the history)
//! items: <ty>/<id>=<int>,<int>..;...  with ty = o<ordinal> | u<32 hex digits>;  `-` = no items
//! msg:   P:<tick>:<dt>:<num_parts>:<part>:<crc>:<hex> | S:<tick>:<dt>:<crc>:<hex> | E:<tick>:<dt>
//! table: <type>=<size>,...  pre-agreed object sizes (both sides), `-` = none
//! result: one token per label
//!   w | - | n (index beyond the channel)
//!   s:<tick>:<base>:<crc>:<messages>:<fp of the delta bytes>:<A|V> | panic:<builder|tick|write|other>:<A|V>
//!       (A: the caller followed the API = the model's send_api_ok; V: it did not; a panic ends the history)
//!   d:<tick>:<none | acc:<fp of the items> | e.<kind>>:<warnings>:<ack tick or ->
//!   a:<v>
//!   r:<v>:<ok|unk>[w]:<delta tick or ->
use libtw2_common::num::Cast;
use libtw2_gamenet_snap as msg;
use libtw2_packer::with_packer;
use libtw2_snapshot::format::TypeId;
use libtw2_snapshot::format::Warning as FW;
use libtw2_snapshot::manager;
use libtw2_snapshot::receiver;
use libtw2_snapshot::snap::{delta_chunks, Snap};
use libtw2_snapshot::storage;
use libtw2_snapshot::storage::Storage;
use libtw2_snapshot::Manager;
use std::collections::BTreeMap;
use std::collections::BTreeSet;
use tw2verif::*;
use uuid::Uuid;

// ---------------------------------------------------------------- values and their text forms
#[derive(Clone, Debug, PartialEq, Eq, PartialOrd, Ord)]
enum Ty {
    O(u16),
    U([u8; 16]),
}
impl Ty {
    fn type_id(&self) -> TypeId {
        match self {
            Ty::O(o) => TypeId::Ordinal(*o),
            Ty::U(u) => TypeId::Uuid(Uuid::from_bytes(*u)),
        }
    }
    fn txt(&self) -> String {
        match self {
            Ty::O(o) => format!("o{}", o),
            Ty::U(u) => format!("u{}", hex(u)),
        }
    }
}
#[derive(Clone, Debug, PartialEq, Eq)]
struct It {
    ty: Ty,
    id: u16,
    data: Vec<i32>,
}
fn items_txt(v: &[It]) -> String {
    if v.is_empty() {
        return "-".into();
    }
    v.iter()
        .map(|i| format!("{}/{}={}", i.ty.txt(), i.id, i.data.iter().map(|x| x.to_string()).collect::<Vec<_>>().join(",")))
        .collect::<Vec<_>>()
        .join(";")
}
fn fnv(b: &[u8]) -> u32 {
    let mut h: u32 = 0x811c9dc5;
    for x in b {
        h ^= *x as u32;
        h = h.wrapping_mul(0x01000193);
    }
    h
}
/// short texts as they are, long ones as length + FNV-1a
fn fp_txt(s: &str) -> String {
    if s.len() <= 120 {
        s.to_string()
    } else {
        format!("#{}.{:08x}", s.len(), fnv(s.as_bytes()))
    }
}
fn fp_bytes(b: &[u8]) -> String {
    if b.len() <= 40 {
        hex(b)
    } else {
        format!("#{}.{:08x}", b.len(), fnv(b))
    }
}

type Table = Vec<(u16, u32)>;
fn table_txt(t: &Table) -> String {
    if t.is_empty() {
        return "-".into();
    }
    t.iter().map(|(a, b)| format!("{}={}", a, b)).collect::<Vec<_>>().join(",")
}
fn tbl_fn(t: &Table) -> impl FnMut(u16) -> Option<u32> + '_ {
    move |ty| t.iter().find(|x| x.0 == ty).map(|x| x.1)
}

#[derive(Clone, Debug, PartialEq)]
enum Msg {
    P { tick: i32, dt: i32, n: i32, part: i32, crc: i32, data: Vec<u8> },
    S { tick: i32, dt: i32, crc: i32, data: Vec<u8> },
    E { tick: i32, dt: i32 },
}
impl Msg {
    fn tick(&self) -> i32 {
        match self {
            Msg::P { tick, .. } | Msg::S { tick, .. } | Msg::E { tick, .. } => *tick,
        }
    }
    fn txt(&self) -> String {
        match self {
            Msg::P { tick, dt, n, part, crc, data } => format!("P:{}:{}:{}:{}:{}:{}", tick, dt, n, part, crc, hex(data)),
            Msg::S { tick, dt, crc, data } => format!("S:{}:{}:{}:{}", tick, dt, crc, hex(data)),
            Msg::E { tick, dt } => format!("E:{}:{}", tick, dt),
        }
    }
}
fn own_msg(m: &msg::SnapMsg) -> Msg {
    match *m {
        msg::SnapMsg::Snap(s) => Msg::P { tick: s.tick, dt: s.delta_tick, n: s.num_parts, part: s.part, crc: s.crc, data: s.data.to_vec() },
        msg::SnapMsg::SnapSingle(s) => Msg::S { tick: s.tick, dt: s.delta_tick, crc: s.crc, data: s.data.to_vec() },
        msg::SnapMsg::SnapEmpty(s) => Msg::E { tick: s.tick, dt: s.delta_tick },
    }
}

#[derive(Clone, Debug)]
enum Label {
    W(Vec<It>),
    S,
    D(usize),
    X(usize),
    A,
    R(usize),
    Y(usize),
    F(i32),
    Z,
    I(Msg),
}
impl Label {
    fn txt(&self) -> String {
        match self {
            Label::W(w) => format!("W{}", items_txt(w)),
            Label::S => "S".into(),
            Label::D(k) => format!("D{}", k),
            Label::X(k) => format!("X{}", k),
            Label::A => "A".into(),
            Label::R(k) => format!("R{}", k),
            Label::Y(k) => format!("Y{}", k),
            Label::F(v) => format!("F{}", v),
            Label::Z => "Z".into(),
            Label::I(m) => format!("I{}", m.txt()),
        }
    }
}

// ---------------------------------------------------------------- the real code, driven like server/src/main.rs
struct Sender {
    st: Storage,
    tick: i64,
    world: Vec<It>,
    buf: Vec<u8>, // server.delta_buffer
}

struct SendOut {
    tick: i32,
    base: i32,
    crc: i32,
    bytes: Vec<u8>,
    msgs: Vec<Msg>,
}

#[derive(Default, Clone, Copy)]
struct Flags {
    refused: bool,  // Builder::add_item returned Err (main.rs unwraps it)
    tick: bool,     // game_tick does not fit an i32
    capacity: bool, // Delta::write did not fit the 64 KiB buffer (main.rs unwraps it)
}

impl Sender {
    fn new(t0: i64) -> Sender {
        Sender { st: Storage::new(), tick: t0, world: vec![], buf: Vec::new() }
    }
    /// send_snapshots for one peer; the snapshot that was built (if it got that far) is handed back for the oracle
    fn send(&mut self, table: &Table) -> (Result<SendOut, String>, Flags, Option<Snap>, i32) {
        let mut fl = Flags::default();
        let mut built: Option<Snap> = None;
        let mut base_tick = -1;
        let r = {
            let fl = &mut fl;
            let built = &mut built;
            let base_tick = &mut base_tick;
            let me = &mut *self;
            guard(move || {
                let mut builder = me.st.new_builder();
                let delta_tick = me.st.delta_tick().unwrap_or(-1);
                *base_tick = delta_tick;
                for it in &me.world {
                    let r = builder.add_item(it.ty.type_id(), it.id, &it.data);
                    if r.is_err() {
                        fl.refused = true;
                    }
                    r.unwrap();
                }
                let snap = builder.finish();
                let crc = snap.crc();
                *built = Some(snap.clone());
                if me.tick > i32::MAX as i64 {
                    fl.tick = true;
                }
                let game_tick = (me.tick as u32).assert_i32();
                let delta = me.st.add_snap(game_tick, snap);
                me.buf.clear();
                me.buf.reserve(64 * 1024);
                let w = with_packer(&mut me.buf, |p| delta.write(tbl_fn(table), p).map(|b| b.len()));
                if w.is_err() {
                    fl.capacity = true;
                }
                w.unwrap();
                let msgs: Vec<Msg> = delta_chunks(game_tick, delta_tick, &me.buf, crc).map(|m| own_msg(&m)).collect();
                SendOut { tick: game_tick, base: delta_tick, crc, bytes: me.buf.clone(), msgs }
            })
        };
        (r, fl, built, base_tick)
    }
}

fn snap_items(s: &Snap) -> Vec<It> {
    s.items()
        .map(|i| It {
            ty: match i.type_id {
                TypeId::Ordinal(o) => Ty::O(o),
                TypeId::Uuid(u) => Ty::U(*u.as_bytes()),
            },
            id: i.id,
            data: i.data.to_vec(),
        })
        .collect()
}

/// the raw items (key, length) of a snapshot, read off its wire form
fn raw_lens(s: &Snap) -> BTreeMap<i32, usize> {
    let mut tmp: Vec<i32> = vec![];
    let mut out = vec![0i32; 20000];
    let mut m = BTreeMap::new();
    if let Ok(ints) = s.write_to_ints(&mut tmp, &mut out) {
        let n = ints[1] as usize;
        let data_ints = (ints[0] / 4) as usize;
        let offs: Vec<usize> = ints[2..2 + n].iter().map(|o| (*o / 4) as usize).collect();
        let items = &ints[2 + n..];
        for i in 0..n {
            let start = offs[i];
            let end = if i + 1 < n { offs[i + 1] } else { data_ints };
            m.insert(items[start], end - start - 1);
        }
    }
    m
}
/// the complete wire form of a snapshot
fn raw_ints(s: &Snap) -> Option<Vec<i32>> {
    let mut tmp: Vec<i32> = vec![];
    let mut out = vec![0i32; 20000];
    s.write_to_ints(&mut tmp, &mut out).ok().map(|x| x.to_vec())
}
/// K09: some raw key occurs in both snapshots with different lengths
fn k09(base: &BTreeMap<i32, usize>, new: &BTreeMap<i32, usize>) -> bool {
    base.iter().any(|(k, l)| new.get(k).map(|l2| l2 != l).unwrap_or(false))
}

fn fw_txt(w: &FW) -> String {
    match w {
        FW::Packer(libtw2_packer::Warning::OverlongIntEncoding) => "PO".into(),
        FW::Packer(libtw2_packer::Warning::NonZeroIntPadding) => "PP".into(),
        FW::Packer(libtw2_packer::Warning::ExcessData) => "PX".into(),
        w => format!("{:?}", w),
    }
}
fn mwarns_txt(ws: &[manager::Warning]) -> String {
    if ws.is_empty() {
        return "-".into();
    }
    ws.iter()
        .map(|w| match w {
            manager::Warning::Receiver(receiver::Warning::DuplicateSnap) => "R.D".to_string(),
            manager::Warning::Receiver(receiver::Warning::DifferingAttributes) => "R.A".to_string(),
            manager::Warning::Snap(f) => format!("P.{}", fw_txt(f)),
            manager::Warning::Storage(storage::Warning::WeirdNegativeDeltaTick) => "S.W".to_string(),
            manager::Warning::Storage(storage::Warning::Unpack(f)) => format!("U.{}", fw_txt(f)),
        })
        .collect::<Vec<_>>()
        .join(",")
}
fn merr_txt(e: &manager::Error) -> String {
    match e {
        manager::Error::Receiver(receiver::Error::OldDelta) => "r.old".into(),
        manager::Error::Receiver(receiver::Error::InvalidNumParts) => "r.numparts".into(),
        manager::Error::Receiver(receiver::Error::InvalidPart) => "r.part".into(),
        manager::Error::Receiver(receiver::Error::DuplicatePart) => "r.dup".into(),
        manager::Error::Snap(e) => format!("p.{:?}", e),
        manager::Error::Storage(storage::Error::OldDelta) => "s.old".into(),
        manager::Error::Storage(storage::Error::UnknownSnap) => "s.unknown".into(),
        manager::Error::Storage(storage::Error::InvalidCrc) => "s.crc".into(),
        manager::Error::Storage(storage::Error::Unpack(e)) => format!("s.unpack.{:?}", e),
    }
}

enum Fed {
    None_,
    Acc(Vec<It>, i32),
    Err_(manager::Error),
    Panic(String),
}
struct FeedOut {
    fed: Fed,
    warns: Vec<manager::Warning>,
}

fn feed(mgr: &mut Manager, table: &Table, m: &Msg) -> FeedOut {
    let mut warns: Vec<manager::Warning> = vec![];
    let r = {
        let warns = &mut warns;
        guard(move || {
            let r = match m {
                Msg::P { tick, dt, n, part, crc, data } => mgr.snap(warns, tbl_fn(table), msg::Snap { tick: *tick, delta_tick: *dt, num_parts: *n, part: *part, crc: *crc, data }),
                Msg::S { tick, dt, crc, data } => mgr.snap_single(warns, tbl_fn(table), msg::SnapSingle { tick: *tick, delta_tick: *dt, crc: *crc, data }),
                Msg::E { tick, dt } => mgr.snap_empty(warns, tbl_fn(table), msg::SnapEmpty { tick: *tick, delta_tick: *dt }),
            };
            match r {
                Ok(None) => Fed::None_,
                Ok(Some(s)) => Fed::Acc(snap_items(s), s.crc()),
                Err(e) => Fed::Err_(e),
            }
        })
    };
    match r {
        Ok(fed) => FeedOut { fed, warns },
        Err(p) => FeedOut { fed: Fed::Panic(p), warns },
    }
}

// ---------------------------------------------------------------- world generator
#[derive(Clone)]
struct TySpec {
    ty: Ty,
    len: usize,
}
struct WorldGen {
    types: Vec<TySpec>,
    ents: Vec<It>,
    max_ents: usize,
    churn: u64,    // per-mille chance per tick of a spawn / despawn
    mutate: usize, // up to this many entities change per tick
    id_space: u16,
    neutral_only: bool, // this tick changes nothing but a checksum-neutral pair of words
}
impl WorldGen {
    fn spawn(&mut self, r: &mut Rng) {
        if self.ents.len() >= self.max_ents || self.types.is_empty() {
            return;
        }
        let t = r.pick(&self.types).clone();
        for _ in 0..8 {
            let id = if r.chance(1, 20) { *r.pick(&[0u16, 1, 0x3fff, 0x4000, 0x7fff, 0x8000, 0xffff]) } else { r.below(self.id_space as u64) as u16 };
            if !self.ents.iter().any(|e| e.ty == t.ty && e.id == id) {
                let data = (0..t.len).map(|_| r.i32_edgy()).collect();
                self.ents.push(It { ty: t.ty.clone(), id, data });
                return;
            }
        }
    }
    fn step(&mut self, r: &mut Rng) {
        // a tick whose only change leaves the checksum (a plain wrapping sum of all data words) unchanged:
        // a delta applied to the wrong base is then NOT caught by the crc, only by comparing the items
        if self.neutral_only || r.chance(1, 4) {
            let slots: Vec<(usize, usize)> = self.ents.iter().enumerate().flat_map(|(i, e)| (0..e.data.len()).map(move |j| (i, j))).collect();
            if slots.len() >= 2 {
                let a = *r.pick(&slots);
                let b = *r.pick(&slots);
                if a != b {
                    if r.chance(1, 2) {
                        let (x, y) = (self.ents[a.0].data[a.1], self.ents[b.0].data[b.1]);
                        self.ents[a.0].data[a.1] = y;
                        self.ents[b.0].data[b.1] = x;
                    } else {
                        let d = r.range(-5, 5) as i32;
                        self.ents[a.0].data[a.1] = self.ents[a.0].data[a.1].wrapping_add(d);
                        self.ents[b.0].data[b.1] = self.ents[b.0].data[b.1].wrapping_sub(d);
                    }
                }
                return;
            }
            if self.neutral_only {
                return;
            }
        }
        if r.below(1000) < self.churn {
            self.spawn(r);
        }
        if r.below(1000) < self.churn && !self.ents.is_empty() {
            let i = r.below(self.ents.len() as u64) as usize;
            self.ents.remove(i);
        }
        if !self.ents.is_empty() {
            let k = r.below(self.mutate as u64 + 1);
            for _ in 0..k {
                let i = r.below(self.ents.len() as u64) as usize;
                let e = &mut self.ents[i];
                if !e.data.is_empty() {
                    let j = r.below(e.data.len() as u64) as usize;
                    e.data[j] = match r.below(4) {
                        0 => e.data[j].wrapping_add(r.range(-3, 3) as i32),
                        1 => r.i32_edgy(),
                        2 => e.data[j].wrapping_add(i32::MAX),
                        _ => r.range(-100, 100) as i32,
                    };
                }
            }
        }
        if r.chance(1, 40) && self.ents.len() > 1 {
            // the order in which the game adds its items changes (matters for the numbering of UUID types)
            let i = r.below(self.ents.len() as u64) as usize;
            let e = self.ents.remove(i);
            let j = r.below(self.ents.len() as u64 + 1) as usize;
            self.ents.insert(j, e);
        }
    }
}

const UUIDS: [[u8; 16]; 5] = [
    [0x1a, 0x3f, 0xcc, 0x94, 0x1e, 0x53, 0x46, 0x1e, 0x91, 0x2e, 0x21, 0x20, 0x08, 0x82, 0x02, 0x4b],
    [0; 16],
    [0xff; 16],
    [0x80, 0, 0, 0, 0x7f, 0xff, 0xff, 0xff, 0, 0, 0, 1, 0xff, 0xff, 0xff, 0xfe],
    [1, 2, 3, 4, 5, 6, 7, 8, 9, 10, 11, 12, 13, 14, 15, 16],
];

// ---------------------------------------------------------------- one history
#[derive(Clone, Copy, PartialEq, Debug)]
enum Net {
    Reliable, // every message once, in order, acknowledged at once
    Lossy,    // messages and acks get lost
    Chaos,    // any index, duplicates, stale acks
    Starved,  // acks hardly ever arrive: both storages fill up, then an old ack comes through
    Forged,   // acks nobody sent
    Hostile,  // corrupted messages as well
}

struct Profile {
    name: &'static str,
    rounds: usize,
    net: Net,
    ents: (usize, usize), // initial, max
    uuid_types: usize,
    uuid_same_len: bool,
    len_min: usize,
    len_max: usize,
    churn: u64,
    mutate: usize,
    t0: i64,
    k09: bool,      // now and then an entity changes its length (API violation: K09)
    bad_items: bool, // now and then a duplicate key / an ordinal outside 1..0x3fff (API violation)
    big_values: bool,
}

struct Run<'a> {
    o: &'a mut Out,
    labels: Vec<String>,
    toks: Vec<String>,
    kinds: BTreeSet<String>,
    table: Table,
    sender: Sender,
    mgr: Manager,
    chan: Vec<Msg>,
    acks: Vec<i32>,
    hist: BTreeMap<i32, (Vec<It>, i32)>,          // tick -> the snapshot the sender built (items, crc)
    built: BTreeMap<i32, BTreeMap<i32, usize>>,    // tick -> raw (key, length) of it
    last_sent: i64,
    tainted: bool, // a hostile message has reached the Manager, or the caller broke the API: agreement is no longer claimed
    dead: bool,    // a panic ended the history
    fails: Vec<(String, String)>, // (class, description): reported once the case has its id
    nparts_max: usize,
    accepted: u64,
    rstore: Vec<i32>, // statistics only: the ticks the receiving Storage should hold, newest first
    cap_hits: u64,
    unknown_after_cap: u64,
    seen_max: i64, // the newest tick of any message that has reached the Manager since its last reset
    fresh_full: u64,
    wire: BTreeMap<i32, Vec<i32>>, // tick -> complete wire form of the snapshot built for it (oracle-only histories)
    empty_opt: bool, // oracle-only histories: an unchanged world is announced with SnapEmpty, as DDNet servers do
}

impl<'a> Run<'a> {
    fn fail(&mut self, class: &str, what: String) {
        self.fails.push((class.to_string(), what));
    }
    fn step(&mut self, l: Label) {
        if self.dead {
            return;
        }
        self.labels.push(l.txt());
        let tok = match l {
            Label::W(w) => {
                self.sender.tick += 1;
                self.sender.world = w;
                "w".to_string()
            }
            Label::S => self.do_send(),
            Label::D(k) => {
                if k < self.chan.len() {
                    let m = self.chan[k].clone();
                    self.do_feed(&m, false)
                } else {
                    "n".into()
                }
            }
            Label::I(m) => {
                self.tainted = true;
                self.do_feed(&m, true)
            }
            Label::X(k) => {
                if k < self.chan.len() {
                    self.chan.remove(k);
                }
                "-".into()
            }
            Label::A => {
                let v = self.mgr.ack_tick().unwrap_or(-1);
                self.acks.push(v);
                format!("a:{}", v)
            }
            Label::R(k) => {
                if k < self.acks.len() {
                    let v = self.acks[k];
                    let mut ws: Vec<storage::WeirdNegativeDeltaTick> = vec![];
                    let st = &mut self.sender.st;
                    let r = guard(|| st.set_delta_tick(&mut ws, v));
                    match r {
                        Ok(r) => {
                            let dt = self.sender.st.delta_tick();
                            // set_delta_tick answers Ok exactly when the sender now diffs against v (or v < 0)
                            let ok = match (&r, dt) {
                                (Ok(()), Some(d)) => d == v && v >= 0,
                                (Ok(()), None) => v < 0,
                                (Err(_), None) => v >= 0,
                                (Err(_), Some(_)) => false,
                            };
                            if !ok {
                                self.fail("-", format!("set_delta_tick({}) returned {:?} and delta_tick() is {:?}", v, r, dt));
                            }
                            self.kinds.insert(if r.is_ok() { "ack-ok".into() } else { "ack-unknown".into() });
                            format!("r:{}:{}{}:{}", v, if r.is_ok() { "ok" } else { "unk" }, if ws.is_empty() { "" } else { "w" }, dt.map(|d| d.to_string()).unwrap_or("-".into()))
                        }
                        Err(p) => {
                            self.dead = true;
                            self.fail("-", format!("Storage::set_delta_tick({}) panicked: {}", v, p));
                            "panic:ack".into()
                        }
                    }
                } else {
                    "n".into()
                }
            }
            Label::Y(k) => {
                if k < self.acks.len() {
                    self.acks.remove(k);
                }
                "-".into()
            }
            Label::F(v) => {
                self.acks.push(v);
                "-".into()
            }
            Label::Z => {
                self.mgr.reset();
                self.rstore.clear();
                self.seen_max = -1;
                if self.mgr.ack_tick().is_some() {
                    self.fail("-", "Manager::reset() left an acknowledged tick behind".to_string());
                }
                self.kinds.insert("reset".into());
                "-".into()
            }
        };
        self.toks.push(tok);
    }

    fn do_send(&mut self) -> String {
        let table = self.table.clone();
        let world = self.sender.world.clone();
        let tick = self.sender.tick;
        let (r, fl, built, base_tick) = self.sender.send(&table);
        // did the caller keep its side of the API?
        let fresh = tick > self.last_sent && tick >= 0 && tick <= i32::MAX as i64;
        let ordinals_ok = world.iter().all(|it| match &it.ty {
            Ty::O(o) => 0 < *o && *o < 0x4000,
            _ => true,
        });
        let new_raw = built.as_ref().map(raw_lens);
        let base_raw = if base_tick >= 0 { self.built.get(&base_tick).cloned() } else { Some(BTreeMap::new()) };
        let is_k09 = match (&base_raw, &new_raw) {
            (Some(b), Some(n)) => k09(b, n),
            _ => false,
        };
        // pre-agreed sizes are looked up by the raw type number (also for the numbers given to UUID types)
        let sizes_ok = new_raw
            .as_ref()
            .map(|n| n.iter().all(|(k, l)| table.iter().find(|x| x.0 == ((*k as u32) >> 16) as u16).map(|x| x.1 as usize == *l).unwrap_or(true)))
            .unwrap_or(true);
        let api_ok = fresh && sizes_ok && ordinals_ok && !fl.refused && !fl.capacity && !fl.tick && !is_k09;
        let api = if api_ok { "A" } else { "V" };
        match r {
            Ok(s) => {
                if !api_ok {
                    // e.g. a second snapshot for the same tick: from here on "the snapshot of tick t" is ambiguous
                    self.tainted = true;
                }
                self.last_sent = tick;
                let snap = built.unwrap();
                self.hist.insert(s.tick, (snap_items(&snap), s.crc));
                self.built.insert(s.tick, new_raw.unwrap());
                if self.built.len() > 400 {
                    let first = *self.built.keys().next().unwrap();
                    self.built.remove(&first);
                }
                // what was sent is what delta_chunks makes of the written delta (C12), all of this tick
                if !s.msgs.iter().all(|m| m.tick() == s.tick) {
                    self.fail("-", format!("tick {}: a message of the transfer carries another tick", s.tick));
                }
                if is_k09 {
                    self.fail("-", format!("tick {} against base {}: K09 holds but Delta::create did not panic", s.tick, s.base));
                }
                self.nparts_max = self.nparts_max.max(s.msgs.len());
                self.kinds.insert(match s.msgs.len() {
                    1 => "sent-1".into(),
                    2..=32 => "sent-multi".into(),
                    _ => "sent-33+".to_string(),
                });
                if s.base >= 0 {
                    self.kinds.insert("sent-delta".into());
                }
                let n = s.msgs.len();
                let tok = format!("s:{}:{}:{}:{}:{}:{}", s.tick, s.base, s.crc, n, fp_bytes(&s.bytes), api);
                let mut same_as_base = false;
                if self.empty_opt {
                    if let Some(w) = raw_ints(&snap) {
                        same_as_base = s.base >= 0 && self.wire.get(&s.base) == Some(&w);
                        self.wire.insert(s.tick, w);
                        if self.wire.len() > 300 { let first = *self.wire.keys().next().unwrap(); self.wire.remove(&first); }
                    }
                }
                if self.empty_opt && same_as_base && api_ok {
                    // "nothing changed since the snapshot you acknowledged"
                    self.kinds.insert("sent-empty".into());
                    self.chan.push(Msg::E { tick: s.tick, dt: s.tick.wrapping_sub(s.base) });
                } else {
                    self.chan.extend(s.msgs);
                }
                tok
            }
            Err(p) => {
                self.dead = true;
                let stage = if fl.refused {
                    "builder"
                } else if fl.tick {
                    "tick"
                } else if fl.capacity {
                    "write"
                } else {
                    "other"
                };
                self.kinds.insert(format!("panic-{}{}", stage, if is_k09 { "-k09" } else { "" }));
                if is_k09 {
                    self.fail("K09", format!("tick {} against base {}: an item keeps its raw key and changes its length; Delta::create panicked: {}", tick, base_tick, p));
                } else if api_ok {
                    self.fail("-", format!("the sender panicked although the caller followed the API (tick {}, base {}): {}", tick, base_tick, p));
                }
                format!("panic:{}:{}", stage, api)
            }
        }
    }

    fn do_feed(&mut self, m: &Msg, hostile: bool) -> String {
        let table = self.table.clone();
        let ack_before = self.mgr.ack_tick();
        let out = feed(&mut self.mgr, &table, m);
        let ack_after = self.mgr.ack_tick();
        let ack_txt = ack_after.map(|d| d.to_string()).unwrap_or("-".into());
        let tick = m.tick();
        let base = match m {
            Msg::P { tick, dt, .. } | Msg::S { tick, dt, .. } | Msg::E { tick, dt } => tick.wrapping_sub(*dt),
        };
        // progress (C13_full_snapshot_accepted): a one-message snapshot against the empty base, newer than
        // everything the Manager has seen, must be accepted
        let must_accept = !hostile && !self.tainted && base == -1 && matches!(m, Msg::S { .. }) && (tick as i64) > self.seen_max;
        if must_accept {
            self.fresh_full += 1;
            if !matches!(out.fed, Fed::Acc(..)) {
                self.fail("-", format!("tick {}: a full one-message snapshot newer than anything seen was not accepted", tick));
            }
        }
        self.seen_max = self.seen_max.max(tick as i64);
        let res = match &out.fed {
            Fed::None_ => {
                if ack_after != ack_before {
                    self.fail("-", format!("tick {}: a part was stored and the acknowledged tick changed {:?} -> {:?}", tick, ack_before, ack_after));
                }
                self.kinds.insert("none".into());
                "none".to_string()
            }
            Fed::Acc(items, crc) => {
                self.accepted += 1;
                if base >= 0 {
                    if let Some(i) = self.rstore.iter().position(|t| *t < base) {
                        self.rstore.truncate(i);
                    }
                }
                self.rstore.insert(0, tick);
                if self.rstore.len() > 100 {
                    self.rstore.pop();
                    self.cap_hits += 1;
                }
                self.kinds.insert("acc".into());
                if ack_after != Some(tick) {
                    self.fail("-", format!("tick {} accepted but ack_tick() is {:?}", tick, ack_after));
                }
                if !self.tainted {
                    // THE PROPERTY: what is accepted for a tick is what the sender built for it, item for item
                    match self.hist.get(&tick) {
                        Some((want, wcrc)) => {
                            if want != items || wcrc != crc {
                                let (a, b) = (items_txt(want), items_txt(items));
                                self.fail("-", format!("DIVERGED: tick {} accepted as [{}] crc {} but the sender built [{}] crc {}", tick, fp_txt(&b), crc, fp_txt(&a), wcrc));
                            }
                        }
                        None => self.fail("-", format!("tick {} accepted but the sender never sent it", tick)),
                    }
                }
                format!("acc:{}", fp_txt(&items_txt(items)))
            }
            Fed::Err_(e) => {
                let t = merr_txt(e);
                self.kinds.insert(format!("e.{}", t.split('.').take(2).collect::<Vec<_>>().join(".")));
                if matches!(e, manager::Error::Storage(storage::Error::UnknownSnap)) {
                    if self.cap_hits > 0 && base >= 0 && self.hist.contains_key(&base) {
                        self.unknown_after_cap += 1; // the base fell out of the 100 stored snapshots (or was never received)
                    }
                    if let Some(i) = self.rstore.iter().position(|t| *t < base) {
                        self.rstore.truncate(i);
                    }
                }
                // on an error the acknowledged tick does not advance: cleared by UnknownSnap / InvalidCrc, untouched otherwise
                let clears = matches!(e, manager::Error::Storage(storage::Error::UnknownSnap) | manager::Error::Storage(storage::Error::InvalidCrc));
                let ok = if clears { ack_after.is_none() } else { ack_after == ack_before };
                if !ok || (ack_after == Some(tick) && ack_before != Some(tick)) {
                    self.fail("-", format!("tick {}: error {} and the acknowledged tick went {:?} -> {:?}", tick, t, ack_before, ack_after));
                }
                if !hostile && !self.tainted {
                    // genuine traffic can only be refused as old / duplicate / unknown base / too many parts
                    let expected = matches!(
                        e,
                        manager::Error::Receiver(receiver::Error::OldDelta)
                            | manager::Error::Receiver(receiver::Error::DuplicatePart)
                            | manager::Error::Receiver(receiver::Error::InvalidNumParts)
                            | manager::Error::Storage(storage::Error::OldDelta)
                            | manager::Error::Storage(storage::Error::UnknownSnap)
                    );
                    if !expected {
                        self.fail("-", format!("tick {}: a message the sender made was refused with {}", tick, t));
                    }
                }
                format!("e.{}", t)
            }
            Fed::Panic(p) => {
                self.dead = true;
                self.kinds.insert("panic-recv".into());
                self.fail("-", format!("the Manager panicked on {}: {}", fp_txt(&m.txt()), p));
                "panic".to_string()
            }
        };
        if self.dead {
            return "panic:recv".into();
        }
        if out.warns.iter().any(|w| !matches!(w, manager::Warning::Receiver(_))) && !hostile && !self.tainted {
            self.fail("-", format!("tick {}: genuine traffic raised {}", tick, mwarns_txt(&out.warns)));
        }
        format!("d:{}:{}:{}:{}", tick, res, mwarns_txt(&out.warns), ack_txt)
    }
}

fn corrupt(r: &mut Rng, m: &Msg) -> Msg {
    let mut m = m.clone();
    let edgy = |r: &mut Rng| -> i32 { *r.pick(&[0, 1, -1, 2, 5, 100, i32::MAX, i32::MIN, 33, 32, -2]) };
    match &mut m {
        Msg::P { tick, dt, n, part, crc, data } => match r.below(8) {
            0 => *crc = crc.wrapping_add(1),
            1 => *dt = edgy(r),
            2 => *tick = tick.wrapping_add(r.range(1, 3) as i32),
            3 => *n = edgy(r),
            4 => *part = edgy(r),
            5 if !data.is_empty() => {
                let i = r.below(data.len() as u64) as usize;
                data[i] ^= 1 << r.below(8);
            }
            6 => data.truncate(r.below(data.len() as u64 + 1) as usize),
            _ => {
                let k = r.below(6) as usize;
                data.extend(r.bytes(k));
            }
        },
        Msg::S { tick, dt, crc, data } => match r.below(7) {
            0 => *crc = crc.wrapping_add(r.range(1, 5) as i32),
            1 => *dt = edgy(r),
            2 => *tick = tick.wrapping_add(r.range(1, 3) as i32),
            3 | 4 if !data.is_empty() => {
                let i = r.below(data.len() as u64) as usize;
                data[i] ^= 1 << r.below(8);
            }
            5 => data.truncate(r.below(data.len() as u64 + 1) as usize),
            _ => {
                let k = r.below(6) as usize;
                data.extend(r.bytes(k));
            }
        },
        Msg::E { tick, dt } => match r.below(2) {
            0 => *dt = edgy(r),
            _ => *tick = tick.wrapping_add(r.range(1, 3) as i32),
        },
    }
    if r.chance(1, 6) {
        // an empty snapshot for some tick: "nothing changed against base"
        let t = m.tick();
        m = Msg::E { tick: t.wrapping_add(r.range(0, 2) as i32), dt: edgy(r) };
    }
    m
}

fn history(o: &mut Out, r: &mut Rng, p: &Profile, modelled: bool) {
    // the types of this history
    let mut types: Vec<TySpec> = vec![];
    let mut table: Table = vec![];
    let n_ord = 1 + r.below(4) as usize;
    for _ in 0..n_ord {
        let o_ = if r.chance(1, 6) { *r.pick(&[1u16, 0x3fff, 0x3ffe, 2]) } else { r.range(1, 40) as u16 };
        if types.iter().any(|t| t.ty == Ty::O(o_)) {
            continue;
        }
        let len = r.range(p.len_min as i64, p.len_max as i64) as usize;
        if r.chance(1, 2) {
            table.push((o_, len as u32));
        }
        types.push(TySpec { ty: Ty::O(o_), len });
    }
    let ulen = r.range(p.len_min as i64, p.len_max as i64) as usize;
    for i in 0..p.uuid_types {
        let len = if p.uuid_same_len { ulen } else { r.range(p.len_min as i64, p.len_max as i64) as usize };
        types.push(TySpec { ty: Ty::U(UUIDS[i % UUIDS.len()]), len });
    }
    if r.chance(1, 4) {
        // a pre-agreed size for a type number in the UUID range: never consulted for a Builder-made item of that size
        table.push((0x4000, ulen as u32));
    }
    let mut wg = WorldGen { types, ents: vec![], max_ents: p.ents.1, churn: p.churn, mutate: p.mutate, id_space: if p.ents.1 > 200 { 2000 } else { 40 }, neutral_only: false };
    for _ in 0..p.ents.0 {
        wg.spawn(r);
    }
    if p.big_values {
        for e in wg.ents.iter_mut() {
            for v in e.data.iter_mut() {
                *v = (r.next() as i32) | 0x4000_0000;
            }
        }
    }
    let mut run = Run {
        o,
        labels: vec![],
        toks: vec![],
        kinds: BTreeSet::new(),
        table: table.clone(),
        sender: Sender::new(p.t0),
        mgr: Manager::new(),
        chan: vec![],
        acks: vec![],
        hist: BTreeMap::new(),
        built: BTreeMap::new(),
        last_sent: -1,
        tainted: false,
        dead: false,
        fails: vec![],
        nparts_max: 0,
        accepted: 0,
        rstore: vec![],
        cap_hits: 0,
        unknown_after_cap: 0,
        seen_max: -1,
        fresh_full: 0,
        empty_opt: !modelled,
        wire: BTreeMap::new(),
    };
    let send_every = 1 + r.below(3) as usize; // main.rs: every second tick
    // ack-starved histories: the snapshots right after the acknowledged one often differ from it only in a
    // checksum-neutral way, and the receiver misses some snapshots (so that it keeps old ones longer than
    // the sender's 100 newest): a delta taken from a neighbour of the announced base then passes the crc
    let starved_neutral = p.net == Net::Starved && r.chance(2, 3);
    let starved_loss = p.net == Net::Starved && r.chance(1, 2);
    for round in 0..p.rounds {
        if run.dead {
            break;
        }
        // the game
        let stand_still = !modelled && round > 0 && r.chance(1, 6);
        for _ in 0..send_every {
            wg.neutral_only = starved_neutral && (1..=3).contains(&round);
            if !stand_still { wg.step(r); }
            if p.big_values {
                for e in wg.ents.iter_mut() {
                    for v in e.data.iter_mut() {
                        if *v > -0x1000_0000 && *v < 0x1000_0000 {
                            *v |= 0x4000_0000;
                        }
                    }
                }
            }
            let mut w = wg.ents.clone();
            if p.k09 && r.chance(1, 25) && !w.is_empty() {
                let i = r.below(w.len() as u64) as usize;
                if !matches!(&w[i].ty, Ty::O(o_) if table.iter().any(|x| x.0 == *o_)) {
                    w[i].data.push(7);
                    wg.ents[i].data.push(7);
                }
            }
            if p.bad_items && r.chance(1, 30) {
                match r.below(3) {
                    0 if !w.is_empty() => {
                        let e = w[0].clone();
                        w.push(e); // duplicate key
                    }
                    1 => w.push(It { ty: Ty::O(*r.pick(&[0u16, 0x4000, 0xffff])), id: 1, data: vec![] }),
                    _ => {}
                }
            }
            run.step(Label::W(w));
        }
        if p.bad_items && r.chance(1, 40) {
            run.step(Label::S); // the same tick twice
        }
        let before = run.chan.len();
        run.step(Label::S);
        if run.dead {
            break;
        }
        let new = run.chan.len() - before;
        // the network
        match p.net {
            Net::Reliable => {
                for _ in 0..before {
                    run.step(Label::X(0));
                }
                for _ in 0..new {
                    run.step(Label::D(0));
                    run.step(Label::X(0));
                }
                run.step(Label::A);
                let k = run.acks.len() - 1;
                run.step(Label::R(k));
                for _ in 0..run.acks.len() {
                    run.step(Label::Y(0));
                }
            }
            Net::Starved => {
                // everything arrives, no acknowledgement does: the sender keeps every snapshot, the receiver the
                // newest 100; then the very first acknowledgement comes through
                for _ in 0..before {
                    run.step(Label::X(0));
                }
                let lose = starved_loss && round > 3 && r.chance(1, 6);
                for _ in 0..new {
                    if !lose {
                        run.step(Label::D(0));
                    }
                    run.step(Label::X(0));
                }
                if round == 0 || r.chance(1, 4) {
                    run.step(Label::A);
                }
                while run.acks.len() > 6 {
                    run.step(Label::Y(1)); // never the oldest
                }
                if round % 108 == 107 {
                    run.step(Label::R(0));
                    run.step(Label::Y(0));
                } else if round % 108 < 8 && round > 8 && !run.acks.is_empty() {
                    // recover: the cleared acknowledgement reaches the sender
                    run.step(Label::A);
                    let k = run.acks.len() - 1;
                    run.step(Label::R(k));
                }
            }
            _ => {
                let hostile = p.net == Net::Hostile;
                let chaos = p.net == Net::Chaos || hostile;
                let forged = p.net == Net::Forged;
                if r.chance(1, 50) {
                    run.step(Label::Z);
                }
                let n_act = new + r.below(4) as usize;
                for _ in 0..n_act {
                    let len = run.chan.len();
                    if len == 0 {
                        break;
                    }
                    // mostly the newest transfer, in or out of order
                    let k = if chaos && r.chance(1, 3) { r.below(len as u64 + 1) as usize } else { len - 1 - (r.below((new.max(1) + 1) as u64) as usize).min(len - 1) };
                    match r.below(10) {
                        0 | 1 => run.step(Label::X(k)),
                        2 | 3 if hostile && k < len => {
                            let m = corrupt(r, &run.chan[k]);
                            run.step(Label::I(m));
                        }
                        _ => run.step(Label::D(k)),
                    }
                    if r.chance(1, 3) {
                        run.step(Label::A);
                    }
                }
                // in-order sweep now and then so that transfers do complete
                if r.chance(1, 2) {
                    let len = run.chan.len();
                    for k in len.saturating_sub(new)..len {
                        run.step(Label::D(k));
                    }
                    run.step(Label::A);
                }
                // acknowledgements
                if r.chance(3, 5) && !run.acks.is_empty() {
                    let alen = run.acks.len();
                    let k = if chaos && r.chance(1, 3) {
                        r.below(alen as u64 + 1) as usize
                    } else {
                        alen - 1
                    };
                    run.step(Label::R(k));
                }
                if (forged || hostile) && r.chance(1, 5) {
                    let last = run.last_sent as i32;
                    let v = match r.below(7) {
                        0 => last,                                  // the newest tick, received or not
                        1 => last.wrapping_sub(r.range(1, 6) as i32), // a recent one
                        2 => last.wrapping_add(r.range(1, 3) as i32), // a future one
                        3 => *r.pick(&[-1, -2, i32::MIN, i32::MAX, 0]),
                        4 => r.i32_edgy(),
                        _ => *run.hist.keys().nth(r.below(run.hist.len().max(1) as u64) as usize).unwrap_or(&0),
                    };
                    run.step(Label::F(v));
                    let k = run.acks.len() - 1;
                    run.step(Label::R(k));
                }
                // keep the channels bounded
                while run.chan.len() > 40 + 2 * new {
                    run.step(Label::X(0));
                }
                while run.acks.len() > 12 {
                    let k = if chaos { r.below(run.acks.len() as u64) as usize } else { 0 };
                    run.step(Label::Y(k));
                }
            }
        }
    }
    // record the case
    let case = format!("hist\t{}\t{}\t{}", p.t0, table_txt(&run.table), run.labels.join(" "));
    let res = run.toks.join(" ");
    let sig = format!("{}|{}", p.name, run.kinds.iter().cloned().collect::<Vec<_>>().join(","));
    let fails = std::mem::take(&mut run.fails);
    let (accepted, nparts, sent, tainted) = (run.accepted, run.nparts_max, run.hist.len(), run.tainted);
    let (cap_hits, unknown_after_cap, fresh_full) = (run.cap_hits, run.unknown_after_cap, run.fresh_full);
    let o = run.o;
    let id = if modelled {
        o.case(&case, &res, &sig)
    } else {
        // oracle only: the real code and the property statements, without the model
        o.tick("hist-oracle-only", &sig);
        format!("o{}({})", o.n, p.name)
    };
    o.check(true, "-", &id, String::new); // the history itself: every oracle inside it held (or is listed below)
    for (class, what) in fails {
        o.check(false, &class, &id, || format!("[{}] {}", p.name, what));
    }
    o.count(&format!("profile:{}", p.name));
    for _ in 0..accepted {
        o.oracle_checks += 1; // one agreement check per accepted snapshot
    }
    if nparts > 1 {
        o.count("histories-with-multi-part");
    }
    if sent > 100 {
        o.count("histories-over-100-snapshots");
    }
    if tainted {
        o.count("histories-with-hostile-messages");
    }
    if cap_hits > 0 {
        o.count("histories-where-the-receiver-hit-the-100-cap");
    }
    for _ in 0..fresh_full {
        o.oracle_checks += 1;
    }
    if unknown_after_cap > 0 {
        o.count("histories-with-UnknownSnap-after-the-cap");
    }
}

fn main() {
    let a = Args::parse();
    install_crash_handler(&a);
    let mut o = Out::new(
        &a,
        "every history: real Storage (sender, driven like server/src/main.rs) + real Manager vs lstep of Model/Storage.v, \
         label by label; oracle on the real code: every accepted snapshot equals the sender's snapshot of that tick item \
         for item (and crc); on an error the acknowledged tick is cleared (UnknownSnap, InvalidCrc) or unchanged; no panic \
         on either side while the caller follows the API (K09 tagged exactly when a raw key keeps its place and changes its length)",
    );
    // every history through the model as well
    let mut r = Rng::new(a.seed ^ 0xC13);
    batch(&mut o, &mut r, if a.thorough() { 12 } else { 1 }, true);
    // many more through the real code and the oracles only
    let mut r = Rng::new(a.seed ^ 0xC13_0000);
    batch(&mut o, &mut r, if a.thorough() { 600 } else { 60 }, false);
    o.finish();
}

fn batch(o: &mut Out, r: &mut Rng, scale: usize, modelled: bool) {
    let mk = |name: &'static str, rounds: usize, net: Net| Profile {
        name,
        rounds,
        net,
        ents: (3, 8),
        uuid_types: 2,
        uuid_same_len: true,
        len_min: 0,
        len_max: 5,
        churn: 150,
        mutate: 2,
        t0: 0,
        k09: false,
        bad_items: false,
        big_values: false,
    };
    // small worlds, every network
    for i in 0..(60 * scale) {
        let net = [Net::Reliable, Net::Lossy, Net::Chaos, Net::Forged, Net::Hostile, Net::Chaos][i % 6];
        let mut p = mk(
            match net {
                Net::Reliable => "small-reliable",
                Net::Lossy => "small-lossy",
                Net::Chaos => "small-chaos",
                Net::Forged => "small-forged",
                Net::Hostile => "small-hostile",
                Net::Starved => "small-starved",
            },
            30 + r.below(60) as usize,
            net,
        );
        p.uuid_types = r.below(4) as usize;
        p.uuid_same_len = r.chance(3, 4);
        p.t0 = match r.below(8) {
            0 => r.range(1, 1000),
            1 => 1 << 20,
            _ => 0,
        };
        p.ents = (r.below(5) as usize, 2 + r.below(10) as usize);
        history(o, r, &p, modelled);
    }
    // the 100-entry cap, acknowledgements for snapshots that are gone
    for i in 0..(4 * scale) {
        let mut p = mk("starved-over-100", 215 + r.below(30) as usize, Net::Starved);
        p.ents = (2, 5);
        p.len_max = 3;
        p.uuid_types = i % 3;
        history(o, r, &p, modelled);
    }
    for _ in 0..(3 * scale) {
        let mut p = mk("long-chaos", 130 + r.below(40) as usize, Net::Chaos);
        p.ents = (2, 6);
        history(o, r, &p, modelled);
    }
    // multi-part snapshots
    for i in 0..(8 * scale) {
        let net = [Net::Lossy, Net::Chaos, Net::Reliable, Net::Hostile][i % 4];
        let mut p = mk(
            match net {
                Net::Lossy => "multi-lossy",
                Net::Chaos => "multi-chaos",
                Net::Reliable => "multi-reliable",
                _ => "multi-hostile",
            },
            10 + r.below(10) as usize,
            net,
        );
        p.ents = (60 + r.below(120) as usize, 200);
        p.len_max = 10;
        p.mutate = 40;
        p.churn = 600;
        p.uuid_types = 3;
        history(o, r, &p, modelled);
    }
    // the tick counter near its end
    for i in 0..(3 * scale) {
        let mut p = mk("tick-max", 12, [Net::Reliable, Net::Chaos, Net::Forged][i % 3]);
        p.t0 = i32::MAX as i64 - r.range(3, 20);
        history(o, r, &p, modelled);
    }
    // callers that break the API: K09 (known finding), refused items, the same tick twice
    for _ in 0..(10 * scale) {
        let mut p = mk("k09", 60, Net::Reliable);
        p.k09 = true;
        p.uuid_types = 2;
        p.uuid_same_len = false;
        history(o, r, &p, modelled);
    }
    for _ in 0..(6 * scale) {
        let mut p = mk("bad-caller", 40, Net::Lossy);
        p.bad_items = true;
        history(o, r, &p, modelled);
    }
    // snapshots beyond 32 parts (never receivable) and beyond the sender's 64 KiB buffer
    for i in 0..(2 * scale.min(3)) {
        let mut p = mk(if i % 2 == 0 { "over-32-parts" } else { "over-64k" }, 2, Net::Reliable);
        p.ents = if i % 2 == 0 { (560, 560) } else { (1000, 1000) };
        p.len_min = 12;
        p.len_max = 13;
        p.big_values = true;
        p.uuid_types = 0;
        p.churn = 0;
        history(o, r, &p, modelled);
    }
}

//! Shared pieces of the correspondence harness: one seeded PRNG, hex helpers,
//! the case / result / oracle / stats writers, panic and hang guards.
//!
//! Every component binary is called as
//!     <bin> <tier> <seed> <outdir> [--replay file]
//! and writes into <outdir>:
//!   cases.txt   one line per case:   <id>\t<case description the OCaml driver parses>
//!   impl.txt    one line per case:   <id>\t<observable result of the real code>
//!   oracle.txt  one line per property failure seen on the real code:
//!                                    <class or ->\t<id>\t<description>
//!   stats.json  what was covered
use std::collections::BTreeMap;
use std::collections::BTreeSet;
use std::fmt::Write as _;
use std::fs::File;
use std::io::BufWriter;
use std::io::Write;
use std::panic;
use std::path::PathBuf;
use std::sync::mpsc;
use std::time::Duration;

pub struct Rng(pub u64);

impl Rng {
    pub fn new(seed: u64) -> Rng {
        Rng(seed.wrapping_mul(0x9E37_79B9_7F4A_7C15) ^ 0xD1B5_4A32_D192_ED03)
    }
    pub fn next(&mut self) -> u64 {
        // splitmix64
        self.0 = self.0.wrapping_add(0x9E37_79B9_7F4A_7C15);
        let mut z = self.0;
        z = (z ^ (z >> 30)).wrapping_mul(0xBF58_476D_1CE4_E5B9);
        z = (z ^ (z >> 27)).wrapping_mul(0x94D0_49BB_1331_11EB);
        z ^ (z >> 31)
    }
    pub fn below(&mut self, n: u64) -> u64 {
        if n == 0 {
            0
        } else {
            self.next() % n
        }
    }
    pub fn range(&mut self, lo: i64, hi: i64) -> i64 {
        lo + self.below((hi - lo + 1) as u64) as i64
    }
    pub fn chance(&mut self, num: u64, den: u64) -> bool {
        self.below(den) < num
    }
    pub fn byte(&mut self) -> u8 {
        self.next() as u8
    }
    pub fn bytes(&mut self, n: usize) -> Vec<u8> {
        (0..n).map(|_| self.byte()).collect()
    }
    pub fn pick<'a, T>(&mut self, xs: &'a [T]) -> &'a T {
        &xs[self.below(xs.len() as u64) as usize]
    }
    pub fn i32_any(&mut self) -> i32 {
        self.next() as i32
    }
    /// an i32 biased towards encoding boundaries
    pub fn i32_edgy(&mut self) -> i32 {
        match self.below(6) {
            0 => self.next() as i32,
            1 => {
                let k = self.below(32) as u32;
                let base = (1i64 << k) as i64;
                let d = self.range(-2, 2);
                let v = if self.chance(1, 2) { base + d } else { -base + d };
                v as i32
            }
            2 => *self.pick(&[0, 1, -1, 63, 64, -64, -65, 8191, 8192, -8192, -8193, i32::MAX, i32::MIN]),
            3 => self.range(-200, 200) as i32,
            4 => (self.next() as i32) >> self.below(32),
            _ => self.range(-70000, 70000) as i32,
        }
    }
}

pub fn hex(b: &[u8]) -> String {
    let mut s = String::with_capacity(b.len() * 2);
    for x in b {
        write!(s, "{:02x}", x).unwrap();
    }
    if s.is_empty() {
        s.push('-');
    }
    s
}

pub fn unhex(s: &str) -> Vec<u8> {
    if s == "-" {
        return vec![];
    }
    (0..s.len() / 2).map(|i| u8::from_str_radix(&s[2 * i..2 * i + 2], 16).unwrap()).collect()
}

pub struct Args {
    pub tier: String,
    pub seed: u64,
    pub out: PathBuf,
    pub replay: Option<String>,
    pub extra: Vec<String>,
}

impl Args {
    pub fn parse() -> Args {
        let a: Vec<String> = std::env::args().collect();
        if a.len() < 4 {
            eprintln!("usage: {} <tier> <seed> <outdir> [--replay file]", a[0]);
            std::process::exit(2);
        }
        let mut replay = None;
        let mut extra = vec![];
        let mut i = 4;
        while i < a.len() {
            if a[i] == "--replay" && i + 1 < a.len() {
                replay = Some(a[i + 1].clone());
                i += 2;
            } else {
                extra.push(a[i].clone());
                i += 1;
            }
        }
        Args { tier: a[1].clone(), seed: a[2].parse().unwrap_or(1), out: PathBuf::from(&a[3]), replay, extra }
    }
    pub fn thorough(&self) -> bool {
        self.tier == "thorough"
    }
}

/// Writers for the four output files plus coverage bookkeeping.
pub struct Out {
    cases: BufWriter<File>,
    imp: BufWriter<File>,
    oracle: BufWriter<File>,
    dir: PathBuf,
    pub n: u64,
    sigs: BTreeSet<String>,
    hist: BTreeMap<String, u64>,
    samples: Vec<String>,
    pub oracle_failures: u64,
    pub oracle_checks: u64,
    by_class: BTreeMap<String, u64>,
    rule: String,
    exhaustive: Vec<String>,
}

impl Out {
    pub fn new(a: &Args, rule: &str) -> Out {
        std::fs::create_dir_all(&a.out).unwrap();
        let f = |n: &str| BufWriter::new(File::create(a.out.join(n)).unwrap());
        Out {
            cases: f("cases.txt"),
            imp: f("impl.txt"),
            oracle: f("oracle.txt"),
            dir: a.out.clone(),
            n: 0,
            sigs: BTreeSet::new(),
            hist: BTreeMap::new(),
            samples: vec![],
            oracle_failures: 0,
            oracle_checks: 0,
            by_class: BTreeMap::new(),
            rule: rule.to_string(),
            exhaustive: vec![],
        }
    }
    /// record one case: what the driver must run, what the real code did, and a
    /// signature (a coarse class of the behaviour) used to count distinct non-trivial cases
    pub fn case(&mut self, case: &str, result: &str, sig: &str) -> String {
        self.n += 1;
        let id = format!("c{}", self.n);
        writeln!(self.cases, "{}\t{}", id, case).unwrap();
        writeln!(self.imp, "{}\t{}", id, result).unwrap();
        if !sig.is_empty() {
            self.sigs.insert(sig.to_string());
        }
        let kind = case.split(|c| c == '\t' || c == ' ').next().unwrap_or("").to_string();
        *self.hist.entry(kind).or_insert(0) += 1;
        if self.samples.len() < 8 && (self.n < 4 || self.n % 997 == 0) {
            let mut c = format!("{} => {}", case.replace('\t', " "), result);
            c.truncate(300);
            self.samples.push(c);
        }
        id
    }
    /// a case the model does not run (oracle only)
    pub fn tick(&mut self, kind: &str, sig: &str) {
        self.n += 1;
        if !sig.is_empty() {
            self.sigs.insert(sig.to_string());
        }
        *self.hist.entry(kind.to_string()).or_insert(0) += 1;
    }
    pub fn count(&mut self, key: &str) {
        *self.hist.entry(key.to_string()).or_insert(0) += 1;
    }
    pub fn sample(&mut self, s: String) {
        if self.samples.len() < 12 {
            self.samples.push(s);
        }
    }
    /// assert a property statement on the real code
    pub fn check(&mut self, ok: bool, class: &str, id: &str, what: impl FnOnce() -> String) {
        self.oracle_checks += 1;
        if !ok {
            self.oracle_failures += 1;
            // the line budget is per class: failures of a known-finding class must not crowd out new ones
            let n = self.by_class.entry(class.to_string()).or_insert(0);
            *n += 1;
            if *n <= 500 {
                writeln!(self.oracle, "{}\t{}\t{}", class, id, what().replace('\n', " ")).unwrap();
                // failures are rare: make sure they survive if the harness itself dies later
                self.oracle.flush().unwrap();
            }
        }
    }
    pub fn exhaustive(&mut self, what: &str) {
        self.exhaustive.push(what.to_string());
    }
    pub fn finish(mut self) {
        self.finish_ref();
    }
    /// flush everything and write stats.json (usable from a watchdog thread before exiting)
    pub fn finish_ref(&mut self) {
        self.cases.flush().unwrap();
        self.imp.flush().unwrap();
        self.oracle.flush().unwrap();
        let mut s = String::new();
        s.push_str("{\n");
        write!(s, " \"evaluations\": {},\n", self.n).unwrap();
        write!(s, " \"distinct_nontrivial\": {},\n", self.sigs.len()).unwrap();
        write!(s, " \"oracle_checks\": {},\n \"oracle_failures\": {},\n", self.oracle_checks, self.oracle_failures).unwrap();
        write!(s, " \"rule\": {},\n", json_str(&self.rule)).unwrap();
        if !self.exhaustive.is_empty() {
            let e: Vec<String> = self.exhaustive.iter().map(|x| json_str(x)).collect();
            write!(s, " \"exhaustive\": [{}],\n", e.join(", ")).unwrap();
        }
        let h: Vec<String> = self.hist.iter().map(|(k, v)| format!("{}: {}", json_str(k), v)).collect();
        write!(s, " \"histogram\": {{{}}},\n", h.join(", ")).unwrap();
        let sm: Vec<String> = self.samples.iter().map(|x| json_str(x)).collect();
        write!(s, " \"samples\": [{}]\n}}\n", sm.join(", ")).unwrap();
        std::fs::write(self.dir.join("stats.json"), s).unwrap();
    }
}

pub fn json_str(s: &str) -> String {
    let mut o = String::from("\"");
    for c in s.chars() {
        match c {
            '"' => o.push_str("\\\""),
            '\\' => o.push_str("\\\\"),
            '\n' => o.push_str("\\n"),
            '\t' => o.push_str("\\t"),
            c if (c as u32) < 0x20 => write!(o, "\\u{:04x}", c as u32).unwrap(),
            c => o.push(c),
        }
    }
    o.push('"');
    o
}

/// Run `f`, turning a panic into Err(message). The default hook is silenced.
pub fn guard<T>(f: impl FnOnce() -> T) -> Result<T, String> {
    static ONCE: std::sync::Once = std::sync::Once::new();
    ONCE.call_once(|| panic::set_hook(Box::new(|_| {})));
    match panic::catch_unwind(panic::AssertUnwindSafe(f)) {
        Ok(v) => Ok(v),
        Err(e) => Err(if let Some(s) = e.downcast_ref::<&str>() {
            s.to_string()
        } else if let Some(s) = e.downcast_ref::<String>() {
            s.clone()
        } else {
            "panic".to_string()
        }),
    }
}

/// Run `f` on another thread with a wall-clock limit: Ok(Some(v)), Ok(None) = hang, Err = panic.
pub fn guard_timeout<T: Send + 'static>(ms: u64, f: impl FnOnce() -> T + Send + 'static) -> Result<Option<T>, String> {
    guard_timeout_stack(ms, 64 << 20, f)
}

/// as `guard_timeout`, with an explicit stack size for the helper thread (cheap for many short calls)
pub fn guard_timeout_stack<T: Send + 'static>(ms: u64, stack: usize, f: impl FnOnce() -> T + Send + 'static) -> Result<Option<T>, String> {
    static ONCE: std::sync::Once = std::sync::Once::new();
    ONCE.call_once(|| panic::set_hook(Box::new(|_| {})));
    let (tx, rx) = mpsc::channel();
    std::thread::Builder::new()
        .stack_size(stack)
        .spawn(move || {
            let r = panic::catch_unwind(panic::AssertUnwindSafe(f));
            let _ = tx.send(r.map_err(|e| {
                if let Some(s) = e.downcast_ref::<&str>() {
                    s.to_string()
                } else if let Some(s) = e.downcast_ref::<String>() {
                    s.clone()
                } else {
                    "panic".to_string()
                }
            }));
        })
        .unwrap();
    match rx.recv_timeout(Duration::from_millis(ms)) {
        Ok(Ok(v)) => Ok(Some(v)),
        Ok(Err(p)) => Err(p),
        Err(_) => Ok(None),
    }
}

// ---------------------------------------------------------------------------------------------
// breadcrumb for crashes the process cannot survive (SIGSEGV / SIGABRT from memory corruption):
// the description of the case in progress is kept in a static buffer and written to crash.txt
// by an async-signal-safe handler
static mut CRUMB: [u8; 4096] = [0; 4096];
static CRUMB_LEN: std::sync::atomic::AtomicUsize = std::sync::atomic::AtomicUsize::new(0);
static CRASH_FD: std::sync::atomic::AtomicI32 = std::sync::atomic::AtomicI32::new(-1);

/// remember what is about to be run
pub fn crumb(s: &str) {
    let b = s.as_bytes();
    let n = b.len().min(4096);
    unsafe {
        let dst = std::ptr::addr_of_mut!(CRUMB) as *mut u8;
        std::ptr::copy_nonoverlapping(b.as_ptr(), dst, n);
    }
    CRUMB_LEN.store(n, std::sync::atomic::Ordering::SeqCst);
}

extern "C" fn crash_handler(sig: libc::c_int) {
    let fd = CRASH_FD.load(std::sync::atomic::Ordering::SeqCst);
    if fd >= 0 {
        let n = CRUMB_LEN.load(std::sync::atomic::Ordering::SeqCst);
        unsafe {
            let head = b"signal while running: ";
            libc::write(fd, head.as_ptr() as *const libc::c_void, head.len());
            libc::write(fd, std::ptr::addr_of!(CRUMB) as *const libc::c_void, n);
            libc::write(fd, b"\n".as_ptr() as *const libc::c_void, 1);
        }
    }
    unsafe { libc::_exit(70 + (sig & 15)) }
}

/// write <outdir>/crash.txt if the process dies from a signal
pub fn install_crash_handler(a: &Args) {
    if cfg!(miri) {
        return; // the interpreter reports undefined behaviour itself (and has no signal())
    }
    std::fs::create_dir_all(&a.out).ok();
    let path = std::ffi::CString::new(a.out.join("crash.txt").to_str().unwrap()).unwrap();
    let fd = unsafe { libc::open(path.as_ptr(), libc::O_WRONLY | libc::O_CREAT | libc::O_TRUNC, 0o644) };
    CRASH_FD.store(fd, std::sync::atomic::Ordering::SeqCst);
    for s in [libc::SIGSEGV, libc::SIGABRT, libc::SIGBUS, libc::SIGILL] {
        unsafe {
            libc::signal(s, crash_handler as usize);
        }
    }
}

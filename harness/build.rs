fn main() {
    // the two C++ reference crates do not link the C++ runtime themselves
    println!("cargo:rustc-link-lib=stdc++");
    println!("cargo:rustc-check-cfg=cfg(libtw2_verif)");
}

(* Outcomes shared by every model: a value, an error, a Rust panic, or fuel
   exhaustion (the model of a call that does not return). *)
From Coq Require Export List ZArith Bool Lia.
Export ListNotations.
Open Scope Z_scope.

(* bytes are Z in [0,256): one numeric type everywhere keeps lia usable *)
Definition bytes := list Z.
Definition byte_ok (b : Z) : bool := (0 <=? b) && (b <? 256).
Definition bytes_ok (bs : bytes) : bool := forallb byte_ok bs.

(* i32 range *)
Definition i32_min : Z := -2147483648.
Definition i32_max : Z := 2147483647.
Definition is_i32 (v : Z) : bool := (i32_min <=? v) && (v <=? i32_max).

(* panic sites are numbered; every model file names its own sites *)
Inductive res (E A : Type) : Type :=
| Ok (a : A)
| Err (e : E)
| Panic (site : Z)
| OutOfFuel.
Arguments Ok {E A} a.
Arguments Err {E A} e.
Arguments Panic {E A} site.
Arguments OutOfFuel {E A}.

Definition bind {E A B} (r : res E A) (f : A -> res E B) : res E B :=
  match r with
  | Ok a => f a
  | Err e => Err e
  | Panic s => Panic s
  | OutOfFuel => OutOfFuel
  end.
Notation "'let*' x ':=' r 'in' k" := (bind r (fun x => k))
  (at level 200, x pattern, r at level 100, k at level 200).

Definition is_panic {E A} (r : res E A) : bool :=
  match r with Panic _ => true | _ => false end.
Definition is_ok {E A} (r : res E A) : bool :=
  match r with Ok _ => true | _ => false end.

(* Bit operations on Z as arithmetic: masks are mod, shifts are * and /,
   a lor of fields that do not overlap is a sum. *)
From Coq Require Import ZArith Lia Bool List.
Open Scope Z_scope.

Lemma land_pow2_mask a n : 0 <= n -> Z.land a (2 ^ n - 1) = a mod 2 ^ n.
Proof.
  intros Hn. rewrite <- Z.land_ones by exact Hn.
  rewrite Z.ones_equiv, <- Z.sub_1_r. reflexivity.
Qed.

Lemma shiftr_div a n : 0 <= n -> Z.shiftr a n = a / 2 ^ n.
Proof. intros; apply Z.shiftr_div_pow2; assumption. Qed.

Lemma shiftl_mul a n : 0 <= n -> Z.shiftl a n = a * 2 ^ n.
Proof. intros; apply Z.shiftl_mul_pow2; assumption. Qed.

(* a < 2^n, so a and b*2^n share no bit *)
Lemma land_low_high a b n : 0 <= n -> 0 <= a < 2 ^ n -> Z.land a (b * 2 ^ n) = 0.
Proof.
  intros Hn Ha. apply Z.bits_inj'. intros k Hk.
  rewrite Z.land_spec, Z.bits_0.
  destruct (Z_lt_le_dec k n) as [Hlt|Hge].
  - rewrite <- Z.shiftl_mul_pow2 by lia. rewrite Z.shiftl_spec_low by lia.
    apply andb_false_r.
  - replace (Z.testbit a k) with false; [reflexivity|].
    symmetry. destruct (Z.eq_dec a 0) as [->|Hne]; [apply Z.bits_0|].
    apply Z.bits_above_log2; [lia|].
    apply Z.log2_lt_pow2; [lia|].
    assert (2 ^ n <= 2 ^ k) by (apply Z.pow_le_mono_r; lia). lia.
Qed.

Lemma lor_low_high a b n : 0 <= n -> 0 <= a < 2 ^ n -> Z.lor a (b * 2 ^ n) = a + b * 2 ^ n.
Proof.
  intros Hn Ha.
  rewrite <- Z.lxor_lor by (apply land_low_high; assumption).
  symmetry. apply Z.add_nocarry_lxor. apply land_low_high; assumption.
Qed.

Lemma lor_shiftl_low a b n : 0 <= n -> 0 <= a < 2 ^ n -> Z.lor a (Z.shiftl b n) = a + b * 2 ^ n.
Proof. intros. rewrite shiftl_mul by assumption. apply lor_low_high; assumption. Qed.

(* xor with all-ones on w bits is complement *)
Lemma lxor_ones_compl a w : 0 <= w -> 0 <= a < 2 ^ w -> Z.lxor a (2 ^ w - 1) = 2 ^ w - 1 - a.
Proof.
  intros Hw Ha.
  assert (Hs : Z.ldiff (2 ^ w - 1) a = Z.lxor a (2 ^ w - 1)).
  { apply Z.bits_inj'. intros k Hk. rewrite Z.ldiff_spec, Z.lxor_spec.
    replace (2 ^ w - 1) with (Z.ones w) by (rewrite Z.ones_equiv; lia).
    destruct (Z_lt_le_dec k w).
    - rewrite Z.ones_spec_low by lia. destruct (Z.testbit a k); reflexivity.
    - rewrite Z.ones_spec_high by lia.
      replace (Z.testbit a k) with false; [reflexivity|].
      symmetry. destruct (Z.eq_dec a 0) as [->|Hne]; [apply Z.bits_0|].
      apply Z.bits_above_log2; [lia|]. apply Z.log2_lt_pow2; [lia|].
      assert (2 ^ w <= 2 ^ k) by (apply Z.pow_le_mono_r; lia). lia. }
  rewrite <- Hs. symmetry. apply Z.sub_nocarry_ldiff.
  apply Z.bits_inj'. intros k Hk. rewrite Z.ldiff_spec, Z.bits_0.
  replace (2 ^ w - 1) with (Z.ones w) by (rewrite Z.ones_equiv; lia).
  destruct (Z_lt_le_dec k w).
  - rewrite Z.ones_spec_low by lia. destruct (Z.testbit a k); reflexivity.
  - replace (Z.testbit a k) with false; [reflexivity|].
    symmetry. destruct (Z.eq_dec a 0) as [->|Hne]; [apply Z.bits_0|].
    apply Z.bits_above_log2; [lia|]. apply Z.log2_lt_pow2; [lia|].
    assert (2 ^ w <= 2 ^ k) by (apply Z.pow_le_mono_r; lia). lia.
Qed.

Lemma lxor_0_r' a : Z.lxor a 0 = a.
Proof. apply Z.lxor_0_r. Qed.

(* two's complement views *)
Definition wrap_u (w : Z) (z : Z) : Z := z mod 2 ^ w.
Definition to_signed (w : Z) (u : Z) : Z := if u <? 2 ^ (w - 1) then u else u - 2 ^ w.
Definition wrap_s (w : Z) (z : Z) : Z := to_signed w (wrap_u w z).
Definition to_unsigned (w : Z) (s : Z) : Z := s mod 2 ^ w.

(* finite sweep over one byte, lifted *)
Definition all_bytes : list Z := map Z.of_nat (seq 0 256).
Lemma in_all_bytes b : 0 <= b < 256 -> In b all_bytes.
Proof.
  intros H. unfold all_bytes. apply in_map_iff. exists (Z.to_nat b). split; [lia|].
  apply in_seq. lia.
Qed.
Lemma byte_sweep (P : Z -> bool) : forallb P all_bytes = true -> forall b, 0 <= b < 256 -> P b = true.
Proof. intros H b Hb. rewrite forallb_forall in H. apply H, in_all_bytes, Hb. Qed.

(* C16 -- placeholder while the model is tied to the code *)
From LibTw2 Require Import Base.Res Model.Datafile.
Open Scope Z_scope.
Example C16_nonvacuous : reader_new [] = Err TooShortHeaderVersion.
Proof. vm_compute. reflexivity. Qed.
Print Assumptions C16_nonvacuous.

(* C16 -- datafile and map readers are total; accepted files are fully traversable.
   Only the property theorems, each closed by lemmas proved in Proofs/Datafile*.v and
   Proofs/MapReader*.v; statements are about the executable models Model/Datafile.v and
   Model/MapReader.v (tied to the Rust code by the correspondence run). *)
From LibTw2 Require Import Base.Res Model.Datafile
  Proofs.DatafileBase Proofs.DatafileParse Proofs.DatafileCheck Proofs.DatafileAccess.
From Coq Require Import ZArith List.
Import ListNotations.
Open Scope Z_scope.

(* Opening: for EVERY byte string, Reader::new returns a reader or an error -- it never
   panics (no index / slice / assert / cast / overflow site fires) and never runs out of
   fuel (every loop is bounded by the tables just read). *)
Theorem C16_open_total : forall bs, bytes_ok bs = true ->
  match reader_new bs with
  | Ok _ | Err _ => True
  | Panic _ | OutOfFuel => False
  end.
Proof.
  intros bs H. pose proof (reader_new_spec bs H) as S.
  destruct (reader_new bs); cbn in S; auto.
Qed.

(* Accessors: on every accepted file, every API call with in-range arguments (indices below
   the announced counts, u16 type ids -- any zlib behaviour whatsoever) returns a value or
   an error, and every item view returned is the sub-slice [off, off+len) of the item area
   behind a two-word header; index ranges lie inside 0..num_items. *)
Theorem C16_accessors_total : forall bs r uncompress c, bytes_ok bs = true ->
  reader_new bs = Ok r -> valid_call r c = true ->
  match run_call uncompress r c with
  | Ok v => value_inside r v
  | Err _ => True
  | Panic _ | OutOfFuel => False
  end.
Proof.
  intros bs r unc c Hok Hnew Hv.
  pose proof (reader_new_spec bs Hok) as S. rewrite Hnew in S. cbn in S.
  destruct (run_call_spec unc r c S Hv) as [H _]. exact H.
Qed.

(* Data blocks: read_data(i) reads exactly the bytes [off, off+len) of the data section,
   which lie inside the section announced by the header, which lies inside the file; in
   version 3 the result is that slice, in version 4 it is whatever zlib makes of that slice
   with the announced size as capacity, accepted only if the size matches. *)
Theorem C16_data_inside : forall bs r uncompress i, bytes_ok bs = true ->
  reader_new bs = Ok r -> 0 <= i < h_num_data (r_hdr r) ->
  exists off len,
    read_data_src r i = Ok (off, len) /\ 0 <= off /\ 0 <= len
    /\ off + len <= h_size_data (r_hdr r) /\ h_size_data (r_hdr r) <= zlen (r_data r)
    /\ let raw := firstn (Z.to_nat len) (skipn (Z.to_nat off) (r_data r)) in
       match r_uds r with
       | None => read_data uncompress r i = Ok raw
       | Some uds => exists u, znth uds i = Some u /\ 0 <= u <= 2147483647
                               /\ read_data uncompress r i = zcase u (uncompress u raw)
       end.
Proof.
  intros bs r unc i Hok Hnew Hi.
  pose proof (reader_new_spec bs Hok) as S. rewrite Hnew in S. cbn in S.
  exact (read_data_spec unc r i S Hi).
Qed.

Example C16_nonvacuous : reader_new [] = Err TooShortHeaderVersion.
Proof. vm_compute. reflexivity. Qed.

Print Assumptions C16_open_total.
Print Assumptions C16_accessors_total.
Print Assumptions C16_data_inside.
Print Assumptions C16_nonvacuous.

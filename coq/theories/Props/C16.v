(* C16 -- datafile and map readers are total; accepted files are fully traversable.
   Only the property theorems, each closed by lemmas proved in Proofs/Datafile*.v and
   Proofs/MapReader*.v; statements are about the executable models Model/Datafile.v and
   Model/MapReader.v (tied to the Rust code by the correspondence run). *)
From LibTw2 Require Import Base.Res Model.Datafile Model.MapReader
  Proofs.DatafileBase Proofs.DatafileParse Proofs.DatafileCheck Proofs.DatafileAccess
  Proofs.DatafileShape Proofs.DatafileRoundtrip Proofs.MapViews Proofs.MapProofs.
From Coq Require Import ZArith List.
Import ListNotations.
Open Scope Z_scope.

(* Opening: for EVERY byte string, Reader::new returns a reader or an error -- it never
   panics (no index / slice / assert / cast / overflow site fires) and never runs out of
   fuel (every loop is bounded by the tables just read). *)
Theorem C16_open_total : forall bs, bytes_ok bs = true ->
  match reader_new bs with
  | Ok _ | Err _ => True
  | Panic _ | OutOfFuel => False
  end.
Proof.
  intros bs H. pose proof (reader_new_spec bs H) as S.
  destruct (reader_new bs); cbn in S; auto.
Qed.

(* Accessors: on every accepted file, every API call with in-range arguments (indices below
   the announced counts, u16 type ids -- any zlib behaviour whatsoever) returns a value or
   an error, and every item view returned is the sub-slice [off, off+len) of the item area
   behind a two-word header; index ranges lie inside 0..num_items. *)
Theorem C16_accessors_total : forall bs r uncompress c, bytes_ok bs = true ->
  reader_new bs = Ok r -> valid_call r c = true ->
  match run_call uncompress r c with
  | Ok v => value_inside r v
  | Err _ => True
  | Panic _ | OutOfFuel => False
  end.
Proof.
  intros bs r unc c Hok Hnew Hv.
  pose proof (reader_new_spec bs Hok) as S. rewrite Hnew in S. cbn in S.
  destruct (run_call_spec unc r c S Hv) as [H _]. exact H.
Qed.

(* Data blocks: read_data(i) reads exactly the bytes [off, off+len) of the data section,
   off being the i-th data offset and off+len the next one (or the section size); they lie
   inside the section announced by the header, which lies inside the file; in version 3 the
   result is that slice, in version 4 it is whatever zlib makes of that slice with the
   announced size as capacity, accepted only if the size matches. *)
Theorem C16_data_inside : forall bs r uncompress i, bytes_ok bs = true ->
  reader_new bs = Ok r -> 0 <= i < h_num_data (r_hdr r) ->
  exists off len,
    read_data_src r i = Ok (off, len) /\ 0 <= off /\ 0 <= len
    /\ off + len <= h_size_data (r_hdr r) /\ h_size_data (r_hdr r) <= zlen (r_data r)
    /\ znth (r_data_offsets r) i = Some off
    /\ (if i <? h_num_data (r_hdr r) - 1 then znth (r_data_offsets r) (i + 1) = Some (off + len)
        else off + len = h_size_data (r_hdr r))
    /\ let raw := firstn (Z.to_nat len) (skipn (Z.to_nat off) (r_data r)) in
       match r_uds r with
       | None => read_data uncompress r i = Ok raw
       | Some uds => exists u, znth uds i = Some u /\ 0 <= u <= 2147483647
                               /\ read_data uncompress r i = zcase u (uncompress u raw)
       end.
Proof.
  intros bs r unc i Hok Hnew Hi.
  pose proof (reader_new_spec bs Hok) as S. rewrite Hnew in S. cbn in S.
  exact (read_data_spec unc r i S Hi).
Qed.

(* Well-formed files: for both versions (and the "crude" size convention), every item set
   (grouped by ascending u16 type id, u16 ids, i32 words) and every list of data items
   whose serialization stays below 2 GiB: the reader accepts the file the writer
   specification (doc/datafile.md) prescribes and returns exactly the items, in order,
   exactly the data, the item types in order and for each type exactly the index range of
   its items. Version 4 under the one hypothesis uncompress (compress d) = d. *)
Theorem C16_wellformed : forall compress uncompress ver crude gs datas,
  ver = 3 \/ ver = 4 -> wf_input compress ver gs datas = true ->
  (ver = 4 -> forall d, In d datas -> uncompress (zlen d) (compress d) = ZOk d) ->
  exists r, reader_new (serialize compress ver crude gs datas) = Ok r
    /\ r_version r = (if ver =? 3 then V3 else if crude && negb (zlen datas =? 0) then V4Crude else V4)
    /\ (exists vs, items r = Ok vs
          /\ map (fun v => (iv_type v, (iv_id v, iv_data v))) vs
             = flat_map (fun g : dgroup => map (pair (fst g)) (snd g)) gs
          /\ Forall (view_inside r) vs)
    /\ num_data r = Ok (zlen datas)
    /\ (forall i d, nth_error datas i = Some d -> read_data uncompress r (Z.of_nat i) = Ok d)
    /\ item_types r = Ok (map fst gs)
    /\ (forall before g after, gs = before ++ g :: after ->
          item_type_indices r (fst g) = Ok (zlen (all_ditems before), zlen (all_ditems before) + zlen (snd g))).
Proof.
  intros compress unc ver crude gs datas Hver Hwf Hunc.
  destruct (wellformed_roundtrip compress unc ver crude gs datas Hver Hwf Hunc) as (r & H1 & H2 & H3 & H4 & H5 & H6 & H7).
  exists r. split; [exact H1|]. split; [exact H2|]. split; [exact H3|]. split; [exact H4|].
  split; [|split; [exact H6|]].
  - intros i d Hi. apply nth_error_split in Hi. destruct Hi as (pre & post & Hd & Hlen).
    rewrite <- Hlen. exact (H5 pre d post Hd).
  - intros before g after Hg. rewrite <- (zlen_titems before). exact (H7 before g after Hg).
Qed.

(* Map layer: on every accepted datafile, every map accessor returns a value or an error --
   version, check_version, info, group_indices, game_layers unconditionally; group / layer /
   image for the indices the reader itself hands out (group_indices, the layer range a decoded
   group names, the image item range); string / image_name / settings (+ its iterator) / the
   five tile accessors (raw and shaped) / image_data for every data index. Every index a
   decoded value carries lies inside its range: a group's layers inside the layer item range,
   the data indices of layers / images / info inside 0..num_data -- so the traversal
   groups -> layers -> tiles, images -> names/pixels, info -> strings/settings never leaves
   the file. (no_panic r := r is a value or an error; ok_with r P := additionally P holds of
   the value.) *)
Theorem C16_map_total : forall bs r uncompress, bytes_ok bs = true -> reader_new bs = Ok r ->
  let nd := h_num_data (r_hdr r) in
  no_panic (map_version r) /\ no_panic (map_check_version r)
  /\ ok_with (map_info r) (info_ok (0, nd))
  /\ (exists s e, map_group_indices r = Ok (s, e))
  /\ no_panic (map_game_layers r)
  /\ (forall s e i, map_group_indices r = Ok (s, e) -> s <= i < e ->
        ok_with (map_group r i)
          (fun g => exists ls le, item_type_indices r MAP_ITEMTYPE_LAYER = Ok (ls, le)
                     /\ ls <= fst (g_layers g) /\ fst (g_layers g) <= snd (g_layers g) /\ snd (g_layers g) <= le))
  /\ (forall s e k, item_type_indices r MAP_ITEMTYPE_LAYER = Ok (s, e) -> s <= k < e ->
        ok_with (map_layer r k) (layer_ok (0, nd)))
  /\ (forall s e i, item_type_indices r MAP_ITEMTYPE_IMAGE = Ok (s, e) -> s <= i < e ->
        ok_with (map_image r i) (fun im => in_rg (0, nd) (im_name im) /\ opt_in (0, nd) (im_data im)))
  /\ (forall i, 0 <= i < nd ->
        no_panic (map_string uncompress r i) /\ no_panic (map_image_name uncompress r i)
        /\ ok_with (map_settings uncompress r i) (fun raw => exists l, map_settings_list raw = Ok l)
        /\ (forall size bad, no_panic (map_tiles_raw uncompress size bad r i))
        /\ (forall size bad w h, no_panic (map_tiles uncompress size bad r i w h))).
Proof.
  intros bs r unc Hok Hnew nd.
  pose proof (reader_new_spec bs Hok) as S. rewrite Hnew in S. cbn in S.
  split; [apply map_version_total; exact S|].
  split; [apply map_check_version_total; exact S|].
  split; [apply map_info_total; exact S|].
  split.
  { destruct (indices_range r MAP_ITEMTYPE_GROUP S) as (s & e & Hse & _). exists s, e.
    unfold map_group_indices. rewrite Hse. reflexivity. }
  split; [apply map_game_layers_total; exact S|].
  split; [intros s e i; apply map_group_total; exact S|].
  split; [intros s e k; apply map_layer_total; exact S|].
  split; [intros s e i; apply map_image_total; exact S|].
  intros i Hi. apply map_data_total; assumption.
Qed.

(* the generic view: MapItemExt::from_slice_rest over every struct of the translated table
   never panics and a view it hands out has exactly the struct's length *)
Theorem C16_from_slice_rest_total : forall mi s, In mi all_map_items -> Forall (fun w => is_i32 w = true) s ->
  match from_slice_rest (E := unit) mi s with
  | Ok (FsSome item rest) => zlen item = mi_len mi
  | Ok _ | Err _ => True
  | Panic _ | OutOfFuel => False
  end.
Proof.
  intros mi s Hin Hs. pose proof all_map_items_ok as Hall. rewrite Forall_forall in Hall.
  pose proof (from_slice_rest_spec (E := unit) mi s (Hall mi Hin) Hs) as H.
  destruct (from_slice_rest mi s) as [[| |item rest]| | |]; cbn in *; auto. destruct H as [[H _] _]. exact H.
Qed.

(* the two repaired defects, pinned: these inputs made Reader::new panic before the fix
   commits (assert in relative_size_of_mult; `num_items - start` overflow) *)
Example C16_fixed_unaligned_sizes :
  reader_new [68; 65; 84; 65; 4; 0; 0; 0; 68; 0; 0; 0; 68; 0; 0; 0; 1; 0; 0; 0; 2; 0; 0; 0; 0; 0; 0; 0; 28; 0; 0; 0;
              0; 0; 0; 0; 1; 0; 0; 0; 0; 0; 0; 0; 2; 0; 0; 0; 0; 0; 0; 0; 13; 0; 0; 0; 0; 0; 1; 0; 5; 0; 0; 0;
              1; 2; 3; 4; 5; 1; 0; 1; 0; 7; 0; 0; 0; 1; 2; 3; 4; 5; 6; 7] = Err Malformed.
Proof. vm_compute. reflexivity. Qed.
Example C16_fixed_start_min :
  reader_new [68; 65; 84; 65; 4; 0; 0; 0; 48; 0; 0; 0; 48; 0; 0; 0; 1; 0; 0; 0; 1; 0; 0; 0; 0; 0; 0; 0; 12; 0; 0; 0;
              0; 0; 0; 0; 1; 0; 0; 0; 0; 0; 0; 128; 1; 0; 0; 0; 0; 0; 0; 0; 0; 0; 1; 0; 4; 0; 0; 0; 7; 0; 0; 0]
  = Err Malformed.
Proof. vm_compute. reflexivity. Qed.

(* non-vacuity: a concrete item/data set meets wf_input in both versions (with a toy
   compress/uncompress pair that satisfies the hypothesis), the serialized file opens, and
   the empty string is rejected *)
Definition ex_groups : list dgroup := [(0, [(0, [1])]); (5, [(0, [7; -3]); (1, [])]); (65535, [(9, [2147483647])])].
Definition ex_datas : list bytes := [[1; 2; 3]; []; [255]].
Definition ex_compress (d : bytes) : bytes := 120 :: d.
Definition ex_uncompress (cap : Z) (s : bytes) : zres := match s with 120 :: d => ZOk d | _ => ZErr (-3) end.
Example C16_nonvacuous :
  reader_new [] = Err TooShortHeaderVersion
  /\ wf_input ex_compress 3 ex_groups ex_datas = true /\ wf_input ex_compress 4 ex_groups ex_datas = true
  /\ (forall d, ex_uncompress (zlen d) (ex_compress d) = ZOk d)
  /\ (match reader_new (serialize ex_compress 4 true ex_groups ex_datas) with
      | Ok r => r_version r = V4Crude /\ item_types r = Ok [0; 5; 65535]
                /\ find_item r 5 1 = Ok (Some {| iv_type := 5; iv_id := 1; iv_off := 9; iv_len := 0; iv_data := [] |})
                /\ read_data ex_uncompress r 0 = Ok [1; 2; 3]
      | _ => False end).
Proof. vm_compute. repeat split; reflexivity. Qed.

Print Assumptions C16_open_total.
Print Assumptions C16_accessors_total.
Print Assumptions C16_data_inside.
Print Assumptions C16_wellformed.
Print Assumptions C16_map_total.
Print Assumptions C16_from_slice_rest_total.
Print Assumptions C16_fixed_unaligned_sizes.
Print Assumptions C16_fixed_start_min.
Print Assumptions C16_nonvacuous.

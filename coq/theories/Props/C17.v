From LibTw2 Require Import Base.Res Model.Teehistorian.
Theorem C17_pins : hand_pins = src_pins.
Proof. reflexivity. Qed.
Print Assumptions C17_pins.

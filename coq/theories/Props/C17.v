(* C17 — teehistorian reading is independent of stream fragmentation.
   Only the property theorems (about Model/Teehistorian.v), each closed by a lemma
   proved in Proofs/Teehist*.v, with its axioms printed. *)
From LibTw2 Require Import Base.Res Model.Varint Model.Packer Model.Teehistorian
  Proofs.TeehistFrag Proofs.TeehistParsers Proofs.TeehistReader Proofs.TeehistMsgs
  Proofs.TeehistTicks Proofs.TeehistTop.
From Coq Require Import List ZArith Lia.
Import ListNotations.
Open Scope Z_scope.

(* ---- the generic theorem: ANY client of the buffer that reads through retry loops over
   prefix-stable parsers produces the same items (and the same final outcome) for every
   two fragmentations — and every pattern of buffer compactions — of the same stream *)
Theorem C17_frag_generic :
  forall (E : Type) (eof : E) (P : Type) (X : P -> Type)
         (parse : forall p : P, bytes -> outcome (X p) E),
    (forall p bs a n q, parse p bs = POk a n -> (n <= length bs)%nat /\ parse p (bs ++ q) = POk a n) ->
    (forall p bs e q, parse p bs = PFail e -> parse p (bs ++ q) = PFail e) ->
    forall (St Item : Type) (body : St -> prog E P X (option Item * St))
           fuel st (stream : bytes) (f1 f2 : sched),
      frags f1 = stream -> frags f2 = stream ->
      loop E eof P X parse St Item body fuel st empty_buffer f1
      = loop E eof P X parse St Item body fuel st empty_buffer f2.
Proof. exact frag_independent. Qed.

(* ---- both hypotheses hold for the header parser, Kind::decode and every Kind::decode_rest,
   whatever serde_json/chrono (`hdr`) make of the header text *)
Theorem C17_parsers_stable : forall (hdr : bytes -> hverdict) (p : pidx),
  (forall bs a n q, parse_at hdr p bs = POk a n ->
     (n <= length bs)%nat /\ parse_at hdr p (bs ++ q) = POk a n)
  /\ (forall bs e q, parse_at hdr p bs = PFail e -> parse_at hdr p (bs ++ q) = PFail e).
Proof.
  intros hdr p. split.
  - intros bs a n q. apply parsers_ok_stable.
  - intros bs e q. apply parsers_fail_stable.
Qed.

(* ---- the instance: a whole session (Reader::new, then read until None / Err) yields the
   same item list, the same final error or final reader state, for every two schedules of
   the read callback (fragment sizes, zero-length reads, compactions) that deliver the same bytes *)
Theorem C17_fragmentation : forall (hdr : bytes -> hverdict) (stream : bytes) (f1 f2 : sched),
  frags f1 = stream -> frags f2 = stream ->
  read_all hdr (fuel_for f1) f1 = read_all hdr (fuel_for f2) f2
  /\ forall fuel, read_all hdr fuel f1 = read_all hdr fuel f2.
Proof.
  intros hdr stream f1 f2 E1 E2. split.
  - rewrite (fuel_for_frags f1 f2) by congruence. eapply read_all_frag; eassumption.
  - intros fuel. eapply read_all_frag; eassumption.
Qed.

(* ---- totality: for every byte stream and every schedule the session ends with Ok(None) or
   an error value: no slice-index panic, no panic inside a parser, and the caller's loop
   stops within fuel_for (at most five calls per record) *)
Theorem C17_total : forall (hdr : bytes -> hverdict) (s : sched),
  (match snd (read_all hdr (fuel_for s) s) with
   | Ok _ | Err (FErr _) => True
   | _ => False
   end)
  /\ forall fuel, match snd (read_all hdr fuel s) with
                  | Panic _ | Err (FPanic _) => False
                  | _ => True
                  end.
Proof.
  intros hdr s. split.
  - pose proof (read_all_no_panic hdr (fuel_for s) s) as NP.
    pose proof (read_all_terminates hdr s) as T.
    destruct (snd (read_all hdr (fuel_for s) s)) as [r|[e|z]|z|]; try exact I; try contradiction.
  - intros fuel. pose proof (read_all_no_panic hdr fuel s) as NP.
    destruct (snd (read_all hdr fuel s)) as [r|[e|z]|z|]; try exact I; try contradiction.
Qed.

(* ---- ticks: when a session ends with Ok(None), the stream is header ++ records (decoded one
   after the other up to FINISH), the tick markers are properly nested TickStart t / TickEnd t
   pairs with strictly increasing t, every other item lies inside a pair, and the tick each
   record is reported in is the one doc/teehistorian.md's pseudo-code assigns to it *)
Theorem C17_ticks : forall (hdr : bytes -> hverdict) (s : sched) items rf,
  read_all hdr (fuel_for s) s = (items, Ok rf) ->
  exists vn n v ms,
    parse_header hdr (frags s) = POk vn n /\ version_of vn = Some v
    /\ decodes v (skipn n (frags s)) ms
    /\ nested None 0 items
    /\ item_ticks None items = map Some (doc_reported (map snd ms)).
Proof. exact read_all_ticks. Qed.

(* ---- running sums: the reported records correspond one to one to the recorded ones, and
   positions / inputs per client id follow the wrapping (i32) running sums of the recorded
   differences: PlayerChange reports (old + d) wrapped and the previous value, PlayerOld the
   last value, Input the component-wise wrapped sum *)
Theorem C17_running_sums : forall (hdr : bytes -> hverdict) (s : sched) items rf,
  read_all hdr (fuel_for s) s = (items, Ok rf) ->
  exists vn n v ms,
    parse_header hdr (frags s) = POk vn n /\ version_of vn = Some v
    /\ decodes v (skipn n (frags s)) ms
    /\ length (filter reported (map snd ms)) = length (payload items)
    /\ sums_ok (fun _ => None) (fun _ => None) (combine (filter reported (map snd ms)) (payload items)).
Proof. exact read_all_sums. Qed.

(* iterated wrapping additions are the wrap of the exact sum *)
Theorem C17_sums_closed_form : forall x0 d ds,
  fold_left wadd (d :: ds) x0 = i32_of (u32_of (x0 + d + fold_right Z.add 0 ds)).
Proof. exact wadd_fold. Qed.

(* ---- the hand-modelled functions (Reader::read, Buffer::read_more / read_kind / read_item, the
   decoders with state) are tied to this tree by the correspondence run.  Model/Teehistorian.v also
   records hashes of the source text it was written against (hand_pins) and the translator computes
   them for the current tree (Gen.TeehistTable.src_pins); ./check compares the two and prints a note
   when they differ - a rewrite of those functions is not by itself a violation, the correspondence
   run on the rewritten code decides. *)

(* ---- non-vacuity and the repaired defect: NEW 3; NEW 5; DIFF 5; TICK_SKIP 0; DIFF 3; FINISH,
   delivered in three pieces with a zero-length read and a compaction *)
Definition demo_hdr : bytes -> hverdict := fun _ => HVersion 2.
Definition demo_records : bytes := [66; 3; 10; 10; 66; 5; 20; 20; 5; 1; 1; 65; 0; 3; 1; 1; 64].
Definition demo_sched : sched :=
  [(false, th_magic ++ [123; 125]); (false, []); (true, [0; 66; 3; 10]); (true, skipn 3 demo_records)].

Example C17_nonvacuous :
  fst (read_all demo_hdr (fuel_for demo_sched) demo_sched)
  = [TickStart 0; PlayerNew 3 10 10; PlayerNew 5 20 20; TickEnd 0;
     TickStart 1; PlayerChange 5 21 21 20 20; TickEnd 1;
     TickStart 2; PlayerChange 3 11 11 10 10; TickEnd 2]
  /\ is_ok (snd (read_all demo_hdr (fuel_for demo_sched) demo_sched)) = true
  /\ read_all demo_hdr (fuel_for demo_sched) demo_sched
     = read_all demo_hdr (fuel_for demo_sched) [(false, frags demo_sched)]
  /\ doc_reported [FPlayerNew 3 10 10; FPlayerNew 5 20 20; FPlayerDiff 5 1 1; FTickSkip 0;
                   FPlayerDiff 3 1 1; FFinish] = [0; 0; 1; 2].
Proof. vm_compute. repeat split. Qed.

(* ---- known finding K17 (outside the model): the real VecMap allocates max key + 1 slots;
   a 7-byte record asks for 2^31 of them *)
Example K17_pin :
  match read_all demo_hdr 100 [(false, th_magic ++ [123; 125; 0] ++ [66; 191; 255; 255; 255; 15; 1; 1; 64])] with
  | (_, Ok r) => amap_slots (r_players r) = 2147483648
  | _ => False
  end.
Proof. vm_compute. reflexivity. Qed.

Print Assumptions C17_frag_generic.
Print Assumptions C17_parsers_stable.
Print Assumptions C17_fragmentation.
Print Assumptions C17_total.
Print Assumptions C17_ticks.
Print Assumptions C17_running_sums.
Print Assumptions C17_sums_closed_form.
Print Assumptions C17_nonvacuous.
Print Assumptions K17_pin.

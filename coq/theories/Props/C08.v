(* C08 — variable-length integers and packed fields round-trip canonically.
   This file holds only the property theorems (about the bit-level model
   Model/Varint.v, Model/Packer.v), each closed by a lemma proved elsewhere,
   its statement pinned by Check and its axioms printed. *)
From LibTw2 Require Import Base.Res Model.Varint Model.Packer
  Proofs.VarintArith Proofs.VarintProofs Proofs.PackerProofs.
From Coq Require Import ZArith List.
Open Scope Z_scope.

(* every i32 packs into 1..5 bytes that unpack to it, warning-free, nothing left over *)
Theorem C08_roundtrip : forall v rest, is_i32 v = true -> bytes_ok rest = true ->
  exists bs, write_int v = Ok bs
    /\ read_int (bs ++ rest) = Ok (v, [], rest)
    /\ (1 <= length bs <= 5)%nat.
Proof. exact varint_roundtrip. Qed.

(* no shorter encoding exists: whatever byte string decodes to v consumed at least as many bytes *)
Theorem C08_shortest : forall bs v ws rest, bytes_ok bs = true ->
  read_int bs = Ok (v, ws, rest) ->
  exists enc, write_int v = Ok enc /\ (length enc <= length (consumed_of bs rest))%nat.
Proof.
  intros bs v ws rest Hok H. rewrite read_int_arith in H by exact Hok.
  exists (write_int_a v). split.
  - apply write_int_arith. exact (proj2 (proj2 (read_int_a_consumes _ _ _ _ H))).
  - exact (shortest_a _ _ _ _ Hok H).
Qed.

(* decoding fails only because the string ends too early; it never panics or loops *)
Theorem C08_fails_only_by_end : forall bs, bytes_ok bs = true ->
  (read_int bs = Err tt <-> ((length bs < 5)%nat /\ all_ext bs = true))
  /\ ok_or_err (read_int bs).
Proof.
  intros bs Hok. rewrite read_int_arith by exact Hok.
  split; [apply read_int_a_fails_iff|apply read_int_a_total].
Qed.

(* the decoded value is the one doc/int.md prescribes (zero padding bits) *)
Theorem C08_doc : forall bs, bytes_ok bs = true -> padding_zero bs = true ->
  match read_int bs with
  | Ok (v, _, _) => doc_value bs = Some v
  | _ => doc_value bs = None
  end.
Proof. intros bs Hok Hp. rewrite read_int_arith by exact Hok. exact (doc_a bs Hok Hp). Qed.

(* warning-free exactly when the consumed bytes are the canonical encoding *)
Theorem C08_warnfree_iff_canonical : forall bs v ws rest, bytes_ok bs = true ->
  read_int bs = Ok (v, ws, rest) ->
  bs = consumed_of bs rest ++ rest
  /\ (ws = [] <-> write_int v = Ok (consumed_of bs rest)).
Proof.
  intros bs v ws rest Hok H. rewrite read_int_arith in H by exact Hok.
  destruct (read_int_a_consumes _ _ _ _ H) as [Hsplit [_ Hv]].
  split; [exact Hsplit|]. rewrite write_int_arith by exact Hv. split.
  - intros ->. f_equal. symmetry. exact (warnfree_canonical_a _ _ _ Hok H).
  - intros Hc. injection Hc as Hc. apply (canonical_warnfree_a bs v ws rest H Hv).
    rewrite Hc. exact Hsplit.
Qed.

(* strings, data, raw bytes and ints written by the packer are read back identically,
   with no warning and nothing left over, and reading stays within what was written *)
Theorem C08_fields : forall fs cap out, fields_wf fs = true -> pack fs cap = (out, Ok tt) ->
  out = encoding fs /\ (length out <= cap)%nat
  /\ unpack (map kind_of fs) out = Ok (fs, [], []).
Proof. exact pack_unpack. Qed.

(* too small a buffer: CapacityError exactly when the encoding does not fit, and the
   buffer then holds exactly the fitting prefix *)
Theorem C08_capacity : forall fs cap, forallb field_wf fs = true ->
  pack fs cap = (firstn cap (encoding fs),
                 if (length (encoding fs) <=? cap)%nat then Ok tt else Err CapacityError).
Proof. exact pack_spec. Qed.

(* demo-mode padding *)
Theorem C08_demo_finish : forall rest, finish_warns true rest = true <->
  ((4 <= length rest)%nat \/ exists b, In b rest /\ b <> 0).
Proof. exact finish_demo. Qed.

(* non-vacuity: the hypotheses are met by concrete non-trivial values *)
Example C08_nonvacuous :
  is_i32 (-2147483648) = true /\ write_int (-2147483648) = Ok [255; 255; 255; 255; 15]
  /\ read_int [255; 255; 255; 255; 255] = Ok (0, [NonZeroIntPadding], [])
  /\ fields_wf [FInt (-65); FStr [97; 98]; FData [1; 2; 3]; FRaw [9]; FRest [7; 7]] = true
  /\ pack [FInt (-65); FStr [97; 98]; FData [1; 2; 3]; FRaw [9]; FRest [7; 7]] 12
     = ([192; 1; 97; 98; 0; 3; 1; 2; 3; 9; 7; 7], Ok tt)
  /\ pack [FInt (-65); FStr [97; 98]] 4 = ([192; 1; 97; 98], Err CapacityError).
Proof. vm_compute. repeat split. Qed.

Print Assumptions C08_roundtrip.
Print Assumptions C08_shortest.
Print Assumptions C08_fails_only_by_end.
Print Assumptions C08_doc.
Print Assumptions C08_warnfree_iff_canonical.
Print Assumptions C08_fields.
Print Assumptions C08_capacity.
Print Assumptions C08_demo_finish.
Print Assumptions C08_nonvacuous.
